package phantoms

// C14 — case types, generators, construction of the objects under test, the call wrapper and the
// per-selection oracle shared by all C14 sub-checks.

import (
	"crypto/sha256"
	"encoding/binary"
	"encoding/json"
	"fmt"
	"net/netip"
	"os"
	"path/filepath"
	"sort"
	"strings"
	"sync/atomic"

	pb "github.com/refraction-networking/conjure/proto"
	"pgregory.net/rapid"
	"verif/harness/vh"
)

// Case data -----------------------------------------------------------------------------------------

// c14Group is one [[WeightedSubnets]] entry. Weight < 0 means "no Weight key", Rand < 0 "no
// RandomizeDstPort key". Subnets == nil (JSON null) means "no Subnets key", an empty list means
// `Subnets = []`.
type c14Group struct {
	Weight  int64    `json:"weight"`
	Rand    int      `json:"rand"`
	Subnets []string `json:"subnets"`
}

// c14GenCfg is the configuration of one generation. Removed: RemoveGeneration was called on it.
// NoGroups: no WeightedSubnets key at all (nil list); otherwise an empty Groups list is an empty,
// non-nil list (only reachable by constructing the object directly).
type c14GenCfg struct {
	Gen      uint       `json:"gen"`
	Removed  bool       `json:"removed,omitempty"`
	NoGroups bool       `json:"no_groups,omitempty"`
	Groups   []c14Group `json:"groups"`
}

type c14Config struct {
	Gens    []c14GenCfg `json:"gens"`
	ViaToml bool        `json:"via_toml,omitempty"` // build the selector by writing a TOML file and loading it
}

const (
	c14EntrySelect  = "select"   // PhantomIPSelector.Select(seed, gen, libver, v6)
	c14EntryClientW = "client-w" // SelectPhantom(seed, list, filter, weighted=true)
	c14EntryClientU = "client-u" // SelectPhantom(seed, list, filter, weighted=false)
)

type c14Query struct {
	Entry  string `json:"entry"`
	Seed   vh.Hex `json:"seed"`
	Gen    uint   `json:"gen"`
	LibVer uint   `json:"libver"`         // entry "select" only
	Fam    string `json:"fam"`            // v4 | v6 ; "any" only for the client entries (nil filter)
	Note   string `json:"note,omitempty"` // free text (enumerated sub-checks)
}

type c14Case struct {
	Cfg     c14Config  `json:"cfg"`
	Queries []c14Query `json:"queries"`
}

// Objects under test ------------------------------------------------------------------------------

var c14Notes atomic.Int64

type c14Env struct {
	dir string
	n   atomic.Int64
}

type c14Built struct {
	sel   *PhantomIPSelector
	lists map[uint]*pb.PhantomSubnetsList // for the client entry points
	ref   map[uint][]c14RefGroup          // group data as the code under test sees it
	nilGr map[uint]bool                   // generation present with a nil group list
	has   map[uint]bool                   // generation present and not removed

	// loader path only
	direct    *PhantomIPSelector // the same configuration built object by object
	extraGens []uint             // generations the loaded selector holds although the file does not declare them
	misplaced []uint             // declared generations the loaded selector does not hold
}

func c14PBGroup(g c14Group) *pb.PhantomSubnets {
	p := &pb.PhantomSubnets{}
	if g.Weight >= 0 {
		w := uint32(g.Weight)
		p.Weight = &w
	}
	if g.Rand >= 0 {
		b := g.Rand > 0
		p.RandomizeDstPort = &b
	}
	if g.Subnets != nil {
		p.Subnets = append([]string{}, g.Subnets...)
	}
	return p
}

func c14Toml(c c14Config) string {
	var sb strings.Builder
	sb.WriteString("[Networks]\n")
	for _, g := range c.Gens {
		fmt.Fprintf(&sb, "  [Networks.%d]\n    Generation = %d\n", g.Gen, g.Gen)
		if g.NoGroups {
			continue
		}
		for _, gr := range g.Groups {
			fmt.Fprintf(&sb, "    [[Networks.%d.WeightedSubnets]]\n", g.Gen)
			if gr.Weight >= 0 {
				fmt.Fprintf(&sb, "      Weight = %d\n", gr.Weight)
			}
			if gr.Rand >= 0 {
				fmt.Fprintf(&sb, "      RandomizeDstPort = %v\n", gr.Rand > 0)
			}
			if gr.Subnets != nil {
				q := make([]string, len(gr.Subnets))
				for i, s := range gr.Subnets {
					b, _ := json.Marshal(s) // JSON string syntax is valid TOML basic-string syntax for these inputs
					q[i] = string(b)
				}
				fmt.Fprintf(&sb, "      Subnets = [%s]\n", strings.Join(q, ", "))
			}
		}
	}
	return sb.String()
}

// c14Direct builds the selector object by object, without the loader.
func c14Direct(c c14Config) *PhantomIPSelector {
	sel := &PhantomIPSelector{Networks: map[uint]*SubnetConfig{}}
	for _, g := range c.Gens {
		sc := &SubnetConfig{}
		if !g.NoGroups {
			sc.WeightedSubnets = []*pb.PhantomSubnets{}
			for _, gr := range g.Groups {
				sc.WeightedSubnets = append(sc.WeightedSubnets, c14PBGroup(gr))
			}
		}
		sel.Networks[g.Gen] = sc
	}
	return sel
}

// c14Build constructs the selector (directly or through a TOML file) and extracts, from the very
// objects handed to the code under test, the plain data the oracles work on.
func c14Build(env *c14Env, c c14Config) (*c14Built, error) {
	b := &c14Built{lists: map[uint]*pb.PhantomSubnetsList{}, ref: map[uint][]c14RefGroup{}, nilGr: map[uint]bool{}, has: map[uint]bool{}}
	seen := map[uint]bool{}
	for _, g := range c.Gens {
		if seen[g.Gen] {
			return nil, fmt.Errorf("duplicate generation %d in case", g.Gen)
		}
		seen[g.Gen] = true
	}
	if c.ViaToml {
		p := filepath.Join(env.dir, fmt.Sprintf("c14_%d.toml", env.n.Add(1)))
		if err := os.WriteFile(p, []byte(c14Toml(c)), 0o644); err != nil {
			return nil, err
		}
		sel, err := SubnetsFromTomlFile(p)
		_ = os.Remove(p)
		if err != nil {
			return nil, fmt.Errorf("loading generated TOML: %v\n%s", err, c14Toml(c))
		}
		// A generation that the loader put somewhere else than where the file declares it is not a
		// harness problem but a finding: the selector is used as loaded, the oracles work from what
		// the file says (a twin built directly from the case stands in for the missing objects), and
		// every generation the loader invented is probed (c14CheckCase).
		b.sel = sel
		b.direct = c14Direct(c)
		for k := range sel.Networks {
			if !seen[k] {
				b.extraGens = append(b.extraGens, k)
			}
		}
		sort.Slice(b.extraGens, func(i, j int) bool { return b.extraGens[i] < b.extraGens[j] })
	} else {
		b.sel = c14Direct(c)
	}
	for _, g := range c.Gens {
		if g.Removed {
			b.sel.RemoveGeneration(g.Gen)
			if b.direct != nil {
				b.direct.RemoveGeneration(g.Gen)
			}
			continue
		}
		sc := b.sel.Networks[g.Gen]
		if sc == nil && b.direct != nil {
			sc = b.direct.Networks[g.Gen]
			b.misplaced = append(b.misplaced, g.Gen)
		}
		if sc == nil {
			return nil, fmt.Errorf("generation %d has a nil config after construction", g.Gen)
		}
		b.has[g.Gen] = true
		if sc.WeightedSubnets == nil {
			b.nilGr[g.Gen] = true
		}
		b.lists[g.Gen] = &pb.PhantomSubnetsList{WeightedSubnets: sc.WeightedSubnets}
		var rg []c14RefGroup
		for _, ws := range sc.WeightedSubnets {
			r := c14RefGroup{SubnetsNil: ws.Subnets == nil, Subnets: ws.Subnets}
			if ws.Weight != nil {
				r.Weight = *ws.Weight
			}
			if ws.RandomizeDstPort != nil {
				r.Rand = *ws.RandomizeDstPort
			}
			rg = append(rg, r)
		}
		b.ref[g.Gen] = rg
	}
	return b, nil
}

// Call wrapper ------------------------------------------------------------------------------------

type c14Out struct {
	Panic string `json:"panic,omitempty"`
	IsErr bool   `json:"is_err,omitempty"`
	Err   string `json:"err,omitempty"`
	Nil   bool   `json:"nil,omitempty"` // nil result without an error
	IP    vh.Hex `json:"ip,omitempty"`
	Rand  bool   `json:"rand,omitempty"`
}

func (o c14Out) same(p c14Out) bool {
	return (o.Panic != "") == (p.Panic != "") && o.IsErr == p.IsErr && o.Nil == p.Nil && string(o.IP) == string(p.IP) && o.Rand == p.Rand
}

func (o c14Out) String() string {
	switch {
	case o.Panic != "":
		return "panic(" + o.Panic + ")"
	case o.IsErr:
		return "error(" + o.Err + ")"
	case o.Nil:
		return "nil result"
	}
	return fmt.Sprintf("%s rand=%v", c14FmtIP(o.IP), o.Rand)
}

func c14Call(b *c14Built, q c14Query) (o c14Out) {
	defer func() {
		if r := recover(); r != nil {
			o = c14Out{Panic: fmt.Sprint(r)}
		}
	}()
	var p *PhantomIP
	var err error
	switch q.Entry {
	case c14EntrySelect:
		p, err = b.sel.Select(q.Seed, q.Gen, q.LibVer, q.Fam == c14FamV6)
	case c14EntryClientW, c14EntryClientU:
		var f SubnetFilter
		switch q.Fam {
		case c14FamV4:
			f = V4Only
		case c14FamV6:
			f = V6Only
		}
		p, err = SelectPhantom(q.Seed, b.lists[q.Gen], f, q.Entry == c14EntryClientW)
	default:
		panic("c14: bad entry " + q.Entry)
	}
	if err != nil {
		return c14Out{IsErr: true, Err: err.Error()}
	}
	if p == nil || p.IP() == nil {
		return c14Out{Nil: true}
	}
	return c14Out{IP: append([]byte{}, (*p.IP())...), Rand: p.SupportRandomPort()}
}

// Oracle for one selection ------------------------------------------------------------------------

type c14Verdict struct {
	Key        string // violation key, "" if the property held
	Msg        string
	Classes    []string
	Success    bool
	RefEq      bool       // reference applied and matched
	RefErrNote string     // reference had an address, the code returned an error (allowed; reported as a note)
	Ref        *c14RefRes // the matched reference alternative
}

// c14UsesRef: the published HKDF selection is what library versions 2-4 (the versions the property
// quantifies over) and the client entry points run; for higher version numbers only the generic
// oracle applies, so that a future version with its own algorithm is not held to this one.
func c14UsesRef(q c14Query) bool {
	return q.Entry != c14EntrySelect || (q.LibVer >= 2 && q.LibVer <= 4)
}

// c14Judge applies the property to one observed outcome.
func c14Judge(b *c14Built, q c14Query, o c14Out) c14Verdict {
	v := c14Verdict{}
	add := func(c string) { v.Classes = append(v.Classes, c) }
	groups := b.ref[q.Gen]
	add("entry:" + q.Entry)
	add("fam:" + q.Fam)
	if q.Entry == c14EntrySelect {
		switch {
		case q.LibVer == 0:
			add("legacy-libver")
			add("libver:0")
		case q.LibVer == 1:
			add("legacy-libver")
			add("libver:1")
		case q.LibVer <= 4:
			add(fmt.Sprintf("libver:%d", q.LibVer))
		default:
			add("libver:>4")
		}
	}
	if !b.has[q.Gen] {
		add("unknown-or-removed-generation")
	}
	// candW: total weight of the groups the weighted choice considers (groups that list a subnet)
	totW, candW, zeroW, lead, one, bad, mapped, emptyGroup := int64(0), int64(0), false, false, false, false, false, false
	for _, g := range groups {
		totW += int64(g.Weight)
		if len(g.Subnets) > 0 {
			candW += int64(g.Weight)
		} else {
			emptyGroup = true
		}
		if g.Weight == 0 {
			zeroW = true
		}
		for _, s := range g.Subnets {
			if c14LeadingZero(s) {
				lead = true
			}
			if c14OneAddr(s) {
				one = true
			}
			if !c14ParseCIDR(s).OK {
				bad = true
			}
			if c14MappedCIDR(s) {
				mapped = true
			}
		}
	}
	if b.has[q.Gen] {
		if zeroW {
			add("zero-weight-present")
		}
		if totW == 0 || candW == 0 {
			add("zero-total-weight")
		}
		if lead {
			add("leading-zero-net")
		}
		if one {
			add("one-address-net")
		}
		if bad {
			add("unparsable-cidr-present")
		}
		if mapped {
			add("mapped-cidr-present")
		}
		if emptyGroup && len(groups) > 1 && candW > 0 {
			add("group-without-subnets-beside-others")
		}
	}

	// 1. no panic, whatever the configuration
	if o.Panic != "" {
		k := "panic:other"
		if strings.Contains(o.Panic, "argument to Int is <= 0") {
			k = "panic:rand-int-nonpositive"
			if totW == 0 || candW == 0 {
				k = "panic:zero-total-weight"
			}
		}
		v.Key, v.Msg = k, fmt.Sprintf("selection panicked: %s", o.Panic)
		return v
	}
	// 2. an error is always an allowed outcome
	if o.IsErr {
		add("result:error")
	} else if o.Nil {
		v.Key, v.Msg = "nil-result", "selection returned neither an address nor an error"
		return v
	} else {
		add("result:address")
		v.Success = true
		// 3. well-formed address of the requested family. 4 bytes are IPv4; 16 bytes are IPv6 and,
		// when IPv4-mapped, also Go's long form of IPv4. A v6 request never accepts 4 bytes, a v4
		// request never accepts an address that is not IPv4 under either form.
		n := len(o.IP)
		var reads []c14Reading
		for _, r := range c14Readings(o.IP) {
			if q.Fam == c14FamAny || q.Fam == r.fam {
				reads = append(reads, r)
			}
		}
		if n == 16 && len(reads) > 0 && reads[0].fam == c14FamV4 {
			add("v4-mapped-result")
		}
		// a malformed or misplaced result that becomes a member of a configured subnet once its
		// stripped leading zero bytes are put back has one root cause
		lz := func() bool {
			for _, L := range []int{4, 16} {
				fam := c14FamV4
				if L == 16 {
					fam = c14FamV6
				}
				if n >= L || (q.Fam != c14FamAny && q.Fam != fam) || (n > 0 && o.IP[0] == 0) {
					continue
				}
				if in, _, _ := c14Contain(groups, append(make([]byte, L-n), o.IP...), fam); in {
					return true
				}
			}
			return false
		}
		if len(reads) == 0 {
			wantTxt := map[string]string{c14FamAny: "4 or 16", c14FamV4: "4", c14FamV6: "16"}[q.Fam]
			switch {
			case lz():
				v.Key = "addr-length:leading-zero-bytes-dropped"
			case n == 4 || n == 16:
				v.Key = "wrong-family"
				// an IPv4 address handed out for an IPv6 request because an IPv4-mapped network passed
				// as IPv6 somewhere and as IPv4 elsewhere
				if n == 4 {
					if in, _, via := c14Contain(groups, o.IP, c14FamV4); in && via {
						v.Key = "wrong-family:mapped-network-selected-as-v4"
					}
				}
				v.Msg = fmt.Sprintf("asked for %s, got the %d-byte address %s", q.Fam, n, c14FmtIP(o.IP))
				return v
			default:
				v.Key = "addr-length:other"
			}
			v.Msg = fmt.Sprintf("selected address has %d bytes (%x); a well-formed %s address has %s bytes", n, []byte(o.IP), q.Fam, wantTxt)
			return v
		}
		// 4. inside a configured subnet of that generation under a reading that matches the request
		in, randOK := false, false
		for _, r := range reads {
			if i, ro, _ := c14Contain(groups, r.ip, r.fam); i {
				in = true
				randOK = randOK || ro
			}
		}
		if !in && !b.has[q.Gen] {
			v.Key, v.Msg = "select:unconfigured-generation-served", fmt.Sprintf("generation %d is not configured (or was removed), yet the selection returned %s instead of being refused", q.Gen, c14FmtIP(o.IP))
			return v
		}
		if !in {
			if lz() {
				v.Key, v.Msg = "addr-length:leading-zero-bytes-dropped", fmt.Sprintf("selected address %x is a member of a configured subnet with its leading zero bytes dropped", []byte(o.IP))
				return v
			}
			v.Key, v.Msg = "outside-subnets", fmt.Sprintf("selected %s lies in no configured %s subnet of generation %d", c14FmtIP(o.IP), q.Fam, q.Gen)
			return v
		}
		// 5. port randomisation only if a containing subnet allows it
		if o.Rand && !randOK {
			v.Key, v.Msg = "randport-not-allowed", fmt.Sprintf("SupportRandomPort()=true for %s but no configured subnet containing it allows it", c14FmtIP(o.IP))
			return v
		}
		if o.Rand {
			add("randport-granted")
		}
	}
	// 6. library version >= 2: the published algorithm pins which address (if any) is selected
	if c14UsesRef(q) && b.has[q.Gen] {
		ref := c14RefSelect(groups, b.nilGr[q.Gen], q.Seed, q.Entry != c14EntryClientU, q.Fam)
		if !ref.Defined {
			add("ref-not-pinned")
			return v
		}
		add("ref-pinned")
		if len(ref.Alts) > 1 {
			add("ref-weight-tie")
		}
		if o.IsErr {
			// an error never violates this property; count when the reference had an address
			// under every acceptable tie order
			for _, a := range ref.Alts {
				if a.Err {
					v.RefEq = true
					add("ref-equal")
					return v
				}
			}
			add("ref-address-code-error")
			v.RefErrNote = fmt.Sprintf("reference selects %s but the code returned error %q", c14FmtIP(ref.Alts[0].IP), o.Err)
			return v
		}
		var sameIP *c14RefRes
		for i := range ref.Alts {
			a := &ref.Alts[i]
			if a.Err || !c14SameAddr(a.IP, o.IP) {
				continue
			}
			if sameIP == nil || a.Rand == o.Rand {
				sameIP = a
			}
		}
		if sameIP == nil {
			var exp []string
			for _, a := range ref.Alts {
				if a.Err {
					exp = append(exp, "error (no selectable subnet)")
				} else {
					g := fmt.Sprintf("group %d", a.Group)
					if a.Group < 0 {
						g = "unweighted"
					}
					exp = append(exp, fmt.Sprintf("%s (%s, subnet #%d of the filtered list, id %v, offset %v)", c14FmtIP(a.IP), g, a.Net, a.ID, a.Off))
				}
			}
			v.Key, v.Msg = "ref-mismatch:address", fmt.Sprintf("selected %s; the published HKDF selection gives %s", c14FmtIP(o.IP), strings.Join(exp, " or "))
			return v
		}
		if o.Rand && !sameIP.Rand {
			from := fmt.Sprintf("group %d", sameIP.Group)
			if sameIP.Group < 0 {
				from = fmt.Sprintf("the group of subnet #%d of the unweighted, filtered list", sameIP.Net)
			}
			v.Key, v.Msg = "randport-not-allowed:chosen-group", fmt.Sprintf("SupportRandomPort()=true for %s but the group it was selected from (%s) does not allow it", c14FmtIP(o.IP), from)
			return v
		}
		if !o.Rand && sameIP.Rand {
			add("randport-withheld")
		}
		v.RefEq = true
		v.Ref = sameIP
		add("ref-equal")
		if sameIP.Top {
			add("offset:top")
		}
		if sameIP.Bottom {
			add("offset:bottom")
		}
	}
	return v
}

// c14Eval runs one query, judges it, and runs it a second time (repeating a selection must not
// change it). A violation that is listed as a known finding is only counted; the caller carries on.
func c14Eval(t vh.Fataler, rec *vh.Rec, b *c14Built, c c14Case, cfgDigest [8]byte, q c14Query, extra ...string) (c14Out, c14Verdict) {
	o := c14Call(b, q)
	v := c14Judge(b, q, o)
	v.Classes = append(v.Classes, extra...)
	if c.Cfg.ViaToml {
		v.Classes = append(v.Classes, "via-toml")
	}
	one := c14Case{Cfg: c.Cfg, Queries: []c14Query{q}}
	qb, _ := json.Marshal(q)
	dg := vh.Digest(append(cfgDigest[:], qb...))
	rec.Case(v.Success && v.Key == "", dg, one, v.Classes...)
	if v.RefErrNote != "" && c14Notes.Add(1) <= 3 {
		rec.Note("not a violation (an error is always allowed): %s; query=%s config=%s", v.RefErrNote, c14QStr(q), c14CfgStr(c.Cfg, q.Gen))
	}
	if v.Key != "" {
		rec.Violation(t, v.Key, one, "%s; query=%s config=%s", v.Msg, c14QStr(q), c14CfgStr(c.Cfg, q.Gen))
		return o, v
	}
	// the configuration counts, not the way it was installed: a generation declared in the file must
	// not be refused where the same configuration built object by object yields an address. (Only
	// asserted when every block lists at least one subnet, so that nothing hinges on how the loader
	// represents an absent or empty list.)
	if b.direct != nil && b.has[q.Gen] && o.IsErr && q.Entry == c14EntrySelect && c14AllBlocksHaveSubnets(b.ref[q.Gen]) {
		if od := c14Call(&c14Built{sel: b.direct}, q); od.Panic == "" && !od.IsErr && !od.Nil {
			v.Key = "select:configured-generation-refused"
			rec.Violation(t, v.Key, one, "generation %d is declared in the loaded file but the selection is refused (%s); the same configuration installed directly selects %v; the loaded selector holds the undeclared generations %v; query=%s config=%s",
				q.Gen, o.Err, od, b.extraGens, c14QStr(q), c14CfgStr(c.Cfg, q.Gen))
			return o, v
		}
	}
	o2 := c14Call(b, q)
	if !o.same(o2) {
		v.Key = "impure:repeat"
		rec.Violation(t, v.Key, one, "the same selection gave %v and then %v; query=%s config=%s", o, o2, c14QStr(q), c14CfgStr(c.Cfg, q.Gen))
	}
	return o, v
}

func c14AllBlocksHaveSubnets(groups []c14RefGroup) bool {
	for _, g := range groups {
		if len(g.Subnets) == 0 {
			return false
		}
	}
	return len(groups) > 0
}

func c14QStr(q c14Query) string {
	s := fmt.Sprintf("%s(seed=%x gen=%d fam=%s", q.Entry, []byte(q.Seed), q.Gen, q.Fam)
	if q.Entry == c14EntrySelect {
		s += fmt.Sprintf(" libver=%d", q.LibVer)
	}
	return s + ")"
}

func c14CfgStr(c c14Config, gen uint) string {
	for _, g := range c.Gens {
		if g.Gen == gen {
			b, _ := json.Marshal(g)
			s := string(b)
			if c.ViaToml {
				s += " (via TOML)"
			}
			return s
		}
	}
	return fmt.Sprintf("<generation %d not configured>", gen)
}

// Generators --------------------------------------------------------------------------------------
//
// rapid's integer and SampledFrom draws favour small values / early list entries (and shrink towards
// them), so every list below starts with the ordinary choice and ends with the exotic ones, and
// "rarely" is spelled "the top value of a range".

var c14BadCIDRs = []string{"garbage", "10.1.2.3", "10.1.2.0/33", "2001:db8::/129", "10.1.2/24", "10.0.0.0/-1", "fe80::%eth0/64", " 10.0.0.0/8", "10.0.0.0/8 ", ""}

// c14Rarely is true in very roughly one draw out of k.
func c14Rarely(rt *rapid.T, k int, label string) bool {
	return rapid.IntRange(0, k-1).Draw(rt, label) == k-1
}

// c14Bytes expands one drawn 64-bit value into n well-mixed bytes (rapid's integers lean towards
// small values; addresses and seeds should not all start with zero bytes unless a kind asks for it).
func c14Bytes(rt *rapid.T, n int, label string) []byte {
	var in [9]byte
	binary.BigEndian.PutUint64(in[:8], rapid.Uint64().Draw(rt, label))
	var out []byte
	for len(out) < n {
		h := sha256.Sum256(in[:])
		out = append(out, h[:]...)
		in[8]++
	}
	return out[:n]
}

// kinds: 0 ordinary first byte, 1 documentation range, 2 leading-zero network, 3 top of the address
// space, 4 anything
func c14GenV4(rt *rapid.T, kind int) string {
	var a [4]byte
	copy(a[:], c14Bytes(rt, 4, "v4addr"))
	switch kind {
	case 0:
		a[0] = rapid.SampledFrom([]byte{10, 192, 141, 35, 100, 172, 198, 203, 1, 127, 128, 223, 224, 254}).Draw(rt, "v4first")
	case 1:
		a[0], a[1], a[2] = 192, 0, 2
	case 2:
		a[0] = 0
		if rapid.Bool().Draw(rt, "z2") {
			a[1] = 0
			if rapid.Bool().Draw(rt, "z3") {
				a[2] = 0
			}
		}
	case 3:
		a[0], a[1], a[2] = 255, 255, 255
	}
	bits := rapid.SampledFrom([]int{24, 28, 30, 32, 16, 29, 31, 27, 8, 20, 9, 7, 1, 0, -1}).Draw(rt, "v4bits")
	if bits < 0 {
		bits = rapid.IntRange(0, 32).Draw(rt, "v4bitsR")
	}
	if kind == 2 && bits < 8 && rapid.Bool().Draw(rt, "keep0") {
		bits = 8 + bits
	}
	p := netip.PrefixFrom(netip.AddrFrom4(a), bits)
	if !c14Rarely(rt, 4, "hostbits4") {
		p = p.Masked() // otherwise host bits stay set, as an operator may write them
	}
	return p.String()
}

// kinds: 0 2001:db8::/32 based, 1 global unicast, 2 leading-zero network, 3 NAT64 well-known prefix,
// 4 top of the address space, 5 anything
func c14GenV6(rt *rapid.T, kind int) string {
	var a [16]byte
	copy(a[:], c14Bytes(rt, 16, "v6addr"))
	switch kind {
	case 0:
		copy(a[:], []byte{0x20, 0x01, 0x0d, 0xb8})
	case 1:
		a[0] = rapid.SampledFrom([]byte{0x20, 0x26, 0x2a, 0xfd, 0xfe, 0x3f}).Draw(rt, "v6first")
	case 2:
		z := rapid.SampledFrom([]int{1, 2, 8, 12, 4, 15, 16}).Draw(rt, "v6z")
		for i := 0; i < z; i++ {
			a[i] = 0
		}
	case 3:
		copy(a[:], []byte{0, 0x64, 0xff, 0x9b, 0, 0, 0, 0, 0, 0, 0, 0})
	case 4:
		for i := 0; i < 14; i++ {
			a[i] = 0xff
		}
	}
	bits := rapid.SampledFrom([]int{64, 124, 126, 128, 96, 120, 125, 127, 48, 123, 112, 32, 8, 1, 0, -1}).Draw(rt, "v6bits")
	if bits < 0 {
		bits = rapid.IntRange(0, 128).Draw(rt, "v6bitsR")
	}
	if kind == 3 && bits < 96 && rapid.Bool().Draw(rt, "nat64") {
		bits = 96
	}
	ad := netip.AddrFrom16(a)
	if ad.Is4In6() { // never an IPv4-mapped form (outside the domain, see checks.d/C14.json)
		a[10] = 0xfe
		ad = netip.AddrFrom16(a)
	}
	p := netip.PrefixFrom(ad, bits)
	if !c14Rarely(rt, 4, "hostbits6") {
		p = p.Masked()
	}
	return p.String()
}

// c14GenMapped draws a network written in IPv4-mapped IPv6 notation, ::ffff:a.b.c.d/n. n >= 96 is
// the ambiguous case (an IPv4 network in IPv6 clothing); n < 96 is an ordinary IPv6 prefix that
// covers the mapped range.
func c14GenMapped(rt *rapid.T) string {
	var a [16]byte
	a[10], a[11] = 0xff, 0xff
	copy(a[12:], c14Bytes(rt, 4, "m4addr"))
	switch rapid.IntRange(0, 3).Draw(rt, "m4kind") {
	case 0:
		a[12], a[13], a[14] = 198, 51, 100
	case 1:
		a[12] = rapid.SampledFrom([]byte{10, 192, 203, 100}).Draw(rt, "m4first")
	case 2:
		a[12] = 0
	}
	bits := rapid.SampledFrom([]int{120, 128, 124, 96, 112, 127, 104, 126, 97, 95, 90, 64, -1}).Draw(rt, "m4bits")
	if bits < 0 {
		bits = rapid.IntRange(80, 128).Draw(rt, "m4bitsR")
	}
	p := netip.PrefixFrom(netip.AddrFrom16(a), bits)
	if !c14Rarely(rt, 4, "hostbitsm") {
		p = p.Masked()
	}
	return p.String()
}

// c14GenSubnet draws one CIDR; prev are the subnets drawn so far in this generation (for
// duplicates and overlaps). wide: big subnets only (purity sub-check).
func c14GenSubnet(rt *rapid.T, prev []string, pos int, wide bool) string {
	if wide {
		switch rapid.IntRange(0, 3).Draw(rt, "wkind") {
		case 0:
			return fmt.Sprintf("10.%d.0.0/16", rapid.IntRange(0, 255).Draw(rt, "w4"))
		case 1:
			return fmt.Sprintf("2001:db8:%x::/64", rapid.IntRange(0, 0xffff).Draw(rt, "w6"))
		case 2:
			return fmt.Sprintf("0.%d.0.0/16", rapid.IntRange(0, 255).Draw(rt, "w4z"))
		default:
			return fmt.Sprintf("64:ff9b:%x::/48", rapid.IntRange(0, 0xffff).Draw(rt, "w6z"))
		}
	}
	// within a group families alternate by position more often than not, so that most groups can
	// serve both families
	k := rapid.SampledFrom([]string{"alt", "alt", "v4", "v6", "alt", "derived", "v4z", "mapped", "v6z", "v4", "v6", "derived", "mapped"}).Draw(rt, "skind")
	if k == "alt" {
		k = []string{"v4", "v6"}[pos%2]
		// now and then the IPv6 slot of a group is taken by an IPv4-mapped network, so that groups
		// whose only "IPv6" entry is a mapped one exist
		if pos%2 == 1 && c14Rarely(rt, 6, "altmapped") {
			k = "mapped"
		}
	}
	if c14Rarely(rt, 40, "badcidr") {
		k = "bad"
	}
	switch k {
	case "v4":
		return c14GenV4(rt, rapid.SampledFrom([]int{0, 1, 0, 3, 2, 4}).Draw(rt, "k4"))
	case "v6":
		return c14GenV6(rt, rapid.SampledFrom([]int{0, 1, 0, 4, 3, 2, 5}).Draw(rt, "k6"))
	case "v4z":
		return c14GenV4(rt, 2)
	case "v6z":
		return c14GenV6(rt, rapid.SampledFrom([]int{3, 2}).Draw(rt, "k6z"))
	case "bad":
		return rapid.SampledFrom(c14BadCIDRs).Draw(rt, "bad")
	case "mapped":
		return c14GenMapped(rt)
	}
	if len(prev) == 0 {
		return c14GenV4(rt, 1)
	}
	s := rapid.SampledFrom(prev).Draw(rt, "dup")
	p := c14ParseCIDR(s)
	if !p.OK || p.Mapped {
		return s
	}
	switch rapid.IntRange(0, 2).Draw(rt, "ovk") {
	case 0: // duplicate
		return s
	case 1: // a sub-prefix (overlap from inside)
		nb := p.P.Bits() + rapid.IntRange(0, 4).Draw(rt, "deeper")
		if nb > p.P.Addr().BitLen() {
			nb = p.P.Addr().BitLen()
		}
		return netip.PrefixFrom(p.P.Addr(), nb).String()
	}
	// a super-prefix (overlap from outside)
	nb := p.P.Bits() - rapid.IntRange(0, 4).Draw(rt, "shallower")
	if nb < 0 {
		nb = 0
	}
	return netip.PrefixFrom(p.P.Addr(), nb).Masked().String()
}

func c14GenGroup(rt *rapid.T, prev *[]string, wide bool) c14Group {
	g := c14Group{}
	g.Weight = rapid.SampledFrom([]int64{1, 9, 2, 1, 3, 9, 100, 1, 4294967295, 0, 4294967295, -2, 0, -1}).Draw(rt, "weight")
	if g.Weight == -2 {
		g.Weight = int64(rapid.Uint32().Draw(rt, "weightR"))
	}
	if wide && g.Weight <= 0 {
		g.Weight = 1 + int64(rapid.IntRange(0, 9).Draw(rt, "weightW"))
	}
	g.Rand = rapid.SampledFrom([]int{-1, 1, 0}).Draw(rt, "rand")
	n := rapid.SampledFrom([]int{2, 1, 3, 2, 1, 4, 3, 5, 2, 1, 0, -1}).Draw(rt, "nsub")
	if wide && n < 1 {
		n = 2
	}
	if n < 0 {
		return g // no Subnets key
	}
	g.Subnets = []string{}
	for i := 0; i < n; i++ {
		s := c14GenSubnet(rt, *prev, i, wide)
		g.Subnets = append(g.Subnets, s)
		*prev = append(*prev, s)
	}
	return g
}

func c14GenGeneration(rt *rapid.T, gen uint, wide bool) c14GenCfg {
	g := c14GenCfg{Gen: gen, Groups: []c14Group{}}
	if !wide {
		switch rapid.IntRange(0, 39).Draw(rt, "gshape") {
		case 39:
			g.Removed = true
		case 38:
			g.NoGroups = true
			return g
		}
	}
	n := rapid.SampledFrom([]int{2, 1, 3, 2, 1, 4, 3, 6, 8, 2, 0}).Draw(rt, "ngroups")
	if wide && n == 0 {
		n = 2
	}
	var prev []string
	for i := 0; i < n; i++ {
		g.Groups = append(g.Groups, c14GenGroup(rt, &prev, wide))
	}
	return g
}

func c14GenConfig(rt *rapid.T, wide bool) c14Config {
	c := c14Config{}
	ng := rapid.IntRange(1, 3).Draw(rt, "ngens")
	pool := []uint{1, 957, 2, 1000, 0, 4294967295}
	first := rapid.IntRange(0, len(pool)-1).Draw(rt, "gen0")
	for i := 0; i < ng; i++ {
		c.Gens = append(c.Gens, c14GenGeneration(rt, pool[(first+i)%len(pool)], wide))
	}
	c.ViaToml = c14Rarely(rt, 4, "toml")
	if c.ViaToml {
		// an empty, non-nil group list can not be written in TOML
		for i := range c.Gens {
			if len(c.Gens[i].Groups) == 0 {
				c.Gens[i].NoGroups = true
			}
		}
	}
	return c
}

func c14GenSeed(rt *rapid.T) []byte {
	switch rapid.SampledFrom([]string{"r16", "r32", "r16", "r32", "zero", "ff", "any", "short", "varint", "any"}).Draw(rt, "seedkind") {
	case "r32":
		return c14Bytes(rt, 32, "s32")
	case "zero":
		return make([]byte, rapid.SampledFrom([]int{16, 32}).Draw(rt, "zlen"))
	case "ff":
		b := make([]byte, rapid.SampledFrom([]int{16, 32}).Draw(rt, "flen"))
		for i := range b {
			b[i] = 0xff
		}
		return b
	case "short":
		return rapid.SliceOfN(rapid.Byte(), 0, 3).Draw(rt, "short")
	case "varint": // continuation bits: too short to terminate, terminating late, overflowing
		n := rapid.IntRange(1, 12).Draw(rt, "vlen")
		b := make([]byte, n)
		for i := range b {
			b[i] = 0x80 | rapid.Byte().Draw(rt, "vb")
		}
		if rapid.Bool().Draw(rt, "vterm") {
			b[n-1] &= 0x7f
		}
		return b
	case "any":
		return rapid.SliceOfN(rapid.Byte(), 0, 40).Draw(rt, "anylen")
	}
	return c14Bytes(rt, 16, "s16")
}

func c14GenQuery(rt *rapid.T, c c14Config) c14Query {
	q := c14Query{}
	q.Entry = rapid.SampledFrom([]string{c14EntrySelect, c14EntrySelect, c14EntryClientW, c14EntrySelect, c14EntryClientU, c14EntrySelect}).Draw(rt, "entry")
	q.Seed = c14GenSeed(rt)
	if len(c.Gens) > 0 && !c14Rarely(rt, 20, "genunknown") {
		q.Gen = c.Gens[rapid.IntRange(0, len(c.Gens)-1).Draw(rt, "genidx")].Gen
	} else {
		q.Gen = rapid.SampledFrom([]uint{3, 958, 0, 77777}).Draw(rt, "genother")
	}
	if q.Entry == c14EntrySelect {
		q.LibVer = rapid.SampledFrom([]uint{2, 0, 1, 4, 3, 0, 1, 2, 4, 5, 100, 4294967295}).Draw(rt, "libver")
		q.Fam = rapid.SampledFrom([]string{c14FamV4, c14FamV6}).Draw(rt, "fam")
	} else {
		q.Fam = rapid.SampledFrom([]string{c14FamV4, c14FamV6, c14FamAny}).Draw(rt, "famc")
	}
	return q
}

func c14GenCase(rt *rapid.T) c14Case {
	c := c14Case{Cfg: c14GenConfig(rt, false)}
	n := rapid.IntRange(1, 8).Draw(rt, "nq")
	for i := 0; i < n; i++ {
		c.Queries = append(c.Queries, c14GenQuery(rt, c.Cfg))
	}
	return c
}

func c14SortedKeys(m map[string]bool) []string {
	var out []string
	for k := range m {
		out = append(out, k)
	}
	sort.Strings(out)
	return out
}
