package phantoms

// C14 — purity under concurrency, cold start: the very FIRST selections served by a freshly built
// selector, issued by many goroutines at the same moment, must equal what the same inputs yield when
// asked alone. (State that is built lazily on first use, or a shared list that a first caller
// rearranges in place, only shows while an object is cold; the purity sub-check works on one
// selector for a whole batch and is warm after its serial passes.)
//
// Every round builds a brand-new selector (new SubnetConfig, new block objects) with many weighted
// blocks listed in non-ascending weight order, releases G goroutines from a barrier for their first
// selection(s) on it, and compares every result with a reference computed single-threaded on a
// separate selector while nothing else runs. Schedules are stress-sampled; this sub-check is also
// meant to run under the race detector (checks.d/C14.json), which reports overlapping unsynchronised
// access even when the results happen to agree.

import (
	"crypto/sha256"
	"encoding/binary"
	"fmt"
	"sort"
	"sync"
	"testing"

	pb "github.com/refraction-networking/conjure/proto"
	"pgregory.net/rapid"
	"verif/harness/vh"
)

type c14ColdCase struct {
	Blocks   int    `json:"blocks"`    // weighted blocks in the generation
	Order    string `json:"order"`     // descending | shuffled | nine-one | ascending (control)
	PermSeed uint64 `json:"perm_seed"` // shuffled: permutation of the weights 1..Blocks
	LibVers  []uint `json:"libvers"`   // library version used by goroutine i (len = goroutines)
	// Fails[i] (optional, len = goroutines): "" = an ordinary selection; otherwise goroutine i makes
	// selections that are expected to be refused: unknown (generation 3), unknown2 (77777), gen0
	// (generation 0, not configured), zero-weight (a generation whose weights are all 0), no-family
	// (a generation holding only the other family)
	Fails    []string `json:"fails,omitempty"`
	Fam      string   `json:"fam"` // v4 | v6
	PerG     int      `json:"per_goroutine"`
	Rounds   int      `json:"rounds"`
	SeedBase vh.Hex   `json:"seed_base"`
	SeedLen  int      `json:"seed_len"`
}

const c14ColdGen = 957

func (c c14ColdCase) weights() []uint32 {
	w := make([]uint32, c.Blocks)
	switch c.Order {
	case "descending":
		for i := range w {
			w[i] = uint32(c.Blocks - i)
		}
	case "ascending":
		for i := range w {
			w[i] = uint32(i + 1)
		}
	case "nine-one":
		for i := range w {
			w[i] = []uint32{9, 1}[i%2]
		}
	default: // shuffled: Fisher-Yates driven by a hash chain of the drawn PermSeed
		for i := range w {
			w[i] = uint32(i + 1)
		}
		var st [8]byte
		binary.BigEndian.PutUint64(st[:], c.PermSeed)
		h := sha256.Sum256(st[:])
		for i := len(w) - 1; i > 0; i-- {
			if i%4 == 3 {
				h = sha256.Sum256(h[:])
			}
			j := int(binary.BigEndian.Uint64(h[(i%4)*8:]) % uint64(i+1))
			w[i], w[j] = w[j], w[i]
		}
	}
	return w
}

// c14ColdSelector builds a selector none of whose parts has ever been used.
func (c c14ColdCase) selector(w []uint32) *c14Built {
	ws := make([]*pb.PhantomSubnets, 0, c.Blocks)
	for i := 0; i < c.Blocks; i++ {
		wi := w[i]
		rp := i%3 == 0
		ws = append(ws, &pb.PhantomSubnets{Weight: &wi, RandomizeDstPort: &rp,
			Subnets: []string{fmt.Sprintf("10.%d.%d.0/24", i/256, i%256), fmt.Sprintf("2001:db8:%x::/64", i+1)}})
	}
	sc := &SubnetConfig{WeightedSubnets: ws}
	zero, one := uint32(0), uint32(1)
	zw := []*pb.PhantomSubnets{{Weight: &zero, Subnets: []string{"10.200.0.0/16", "2001:db8:c800::/64"}}, {Subnets: []string{"10.201.0.0/16", "2001:db8:c801::/64"}}}
	other := "2001:db8:c802::/64" // the family that is NOT requested in this case
	if c.Fam == c14FamV6 {
		other = "10.202.0.0/16"
	}
	nf := []*pb.PhantomSubnets{{Weight: &one, Subnets: []string{other}}}
	return &c14Built{sel: &PhantomIPSelector{Networks: map[uint]*SubnetConfig{c14ColdGen: sc,
		c14GenZeroWeight: {WeightedSubnets: zw}, c14GenV4Only: {WeightedSubnets: nf}}},
		lists: map[uint]*pb.PhantomSubnetsList{c14ColdGen: {WeightedSubnets: ws}, c14GenZeroWeight: {WeightedSubnets: zw}, c14GenV4Only: {WeightedSubnets: nf}}}
}

func (c c14ColdCase) query(round, g, k int) c14Query {
	var ctr [12]byte
	binary.BigEndian.PutUint32(ctr[:4], uint32(round))
	binary.BigEndian.PutUint32(ctr[4:8], uint32(g))
	binary.BigEndian.PutUint32(ctr[8:], uint32(k))
	var seed []byte
	for blk := byte(0); len(seed) < c.SeedLen; blk++ {
		h := sha256.New()
		h.Write(c.SeedBase)
		h.Write(ctr[:])
		h.Write([]byte{blk})
		seed = h.Sum(seed)
	}
	gen := uint(c14ColdGen)
	if g < len(c.Fails) {
		switch c.Fails[g] {
		case "unknown":
			gen = 3
		case "unknown2":
			gen = 77777
		case "gen0":
			gen = 0
		case "zero-weight":
			gen = c14GenZeroWeight
		case "no-family":
			gen = c14GenV4Only
		}
	}
	lv := c.LibVers[g]
	if lv == 99 { // the client entry point
		return c14Query{Entry: c14EntryClientW, Seed: seed[:c.SeedLen], Gen: gen, Fam: c.Fam}
	}
	return c14Query{Entry: c14EntrySelect, Seed: seed[:c.SeedLen], Gen: gen, LibVer: lv, Fam: c.Fam}
}

func c14GenCold(rt *rapid.T) c14ColdCase {
	c := c14ColdCase{}
	c.Blocks = rapid.SampledFrom([]int{64, 128, 400, 256, 64, 16, 8, 3, 2}).Draw(rt, "blocks")
	c.Order = rapid.SampledFrom([]string{"shuffled", "descending", "shuffled", "nine-one"}).Draw(rt, "order")
	if c14Rarely(rt, 8, "control") {
		c.Order = "ascending"
	}
	if c.Order == "shuffled" {
		c.PermSeed = rapid.Uint64().Draw(rt, "perm")
	}
	g := rapid.SampledFrom([]int{16, 16, 8, 32, 4, 2}).Draw(rt, "G")
	// mostly all-legacy crews (library version 0/1 is where per-call lists and generators live), some mixed
	mix := rapid.SampledFrom([]string{"legacy", "legacy", "v0", "v1", "mixed", "hkdf"}).Draw(rt, "mix")
	for i := 0; i < g; i++ {
		var lv uint
		switch mix {
		case "legacy":
			lv = uint(i % 2)
		case "v0":
			lv = 0
		case "v1":
			lv = 1
		case "mixed":
			lv = []uint{0, 1, 2, 4, 1, 0, 3, 99}[i%8]
		default:
			lv = []uint{2, 4, 3, 99}[i%4]
		}
		c.LibVers = append(c.LibVers, lv)
	}
	// refused selections mixed into the crew (3 in 4 cases): every second / third / every goroutine
	if !c14Rarely(rt, 4, "nofails") {
		stride := rapid.SampledFrom([]int{2, 3, 1, 4}).Draw(rt, "failstride")
		kinds := []string{"unknown", "gen0", "unknown", "zero-weight", "unknown2", "no-family"}
		off := rapid.IntRange(0, len(kinds)-1).Draw(rt, "failoff")
		c.Fails = make([]string, g)
		for i := 0; i < g; i++ {
			if i%stride == 0 {
				c.Fails[i] = kinds[(off+i/stride)%len(kinds)]
			}
		}
	}
	c.Fam = rapid.SampledFrom([]string{c14FamV4, c14FamV6}).Draw(rt, "fam")
	c.PerG = rapid.SampledFrom([]int{1, 1, 2, 3}).Draw(rt, "perG")
	c.Rounds = rapid.IntRange(vh.Pick(10, 40), vh.Pick(60, 400)).Draw(rt, "rounds")
	c.SeedBase = rapid.SliceOfN(rapid.Byte(), 8, 8).Draw(rt, "seedbase")
	c.SeedLen = rapid.SampledFrom([]int{16, 32, 16, 8}).Draw(rt, "seedlen")
	return c
}

func c14CheckCold(t vh.Fataler, rec *vh.Rec, c c14ColdCase, rounds int) {
	g := len(c.LibVers)
	if c.Blocks < 1 || g < 1 || c.PerG < 1 || c.SeedLen < 1 {
		t.Fatalf("harness problem: malformed cold-start case")
	}
	w := c.weights()
	nonAsc := !sort.SliceIsSorted(w, func(i, j int) bool { return w[i] < w[j] })
	legacy, hkdf := false, false
	for _, lv := range c.LibVers {
		if lv < 2 {
			legacy = true
		} else {
			hkdf = true
		}
	}
	classes := []string{fmt.Sprintf("G:%d", g), "order:" + c.Order}
	if nonAsc {
		classes = append(classes, "non-ascending-weights")
	}
	if legacy {
		classes = append(classes, "legacy-libver")
	}
	if hkdf {
		classes = append(classes, "hkdf-libver")
	}
	if c.Blocks >= 64 {
		classes = append(classes, "many-blocks")
	}
	if len(c.Fails) != 0 && len(c.Fails) != g {
		t.Fatalf("harness problem: malformed cold-start case (fails)")
	}
	nFail, nUnk := 0, 0
	for _, f := range c.Fails {
		if f != "" {
			nFail++
		}
		if f == "unknown" || f == "unknown2" || f == "gen0" {
			nUnk++
		}
	}
	if nFail > 0 && nFail < g {
		classes = append(classes, "refusals-mixed-with-addresses")
	}
	if nUnk >= 2 {
		classes = append(classes, "unknown-generation-refusals")
	}
	if nFail == g {
		classes = append(classes, "all-refused")
	}
	rec.Case(g >= 2 && c.Blocks >= 2 && nonAsc, vh.Digest(c), c, classes...)

	c14InFlight("coldstart", c)
	refSel := c.selector(w) // used by this goroutine only, and only while no other selection runs
	type slot struct {
		q   c14Query
		out c14Out
	}
	for round := 0; round < rounds; round++ {
		cold := c.selector(w)
		res := make([][]slot, g)
		for i := range res {
			res[i] = make([]slot, c.PerG)
			for k := range res[i] {
				res[i][k].q = c.query(round, i, k)
			}
		}
		var wg sync.WaitGroup
		start := make(chan struct{})
		for i := 0; i < g; i++ {
			wg.Add(1)
			go func(i int) {
				defer wg.Done()
				<-start
				for k := range res[i] {
					res[i][k].out = c14Call(cold, res[i][k].q)
				}
			}(i)
		}
		close(start)
		wg.Wait()
		nd, ndLegacy := 0, 0
		var first *slot
		var firstRef c14Out
		for i := range res {
			for k := range res[i] {
				s := &res[i][k]
				ref := c14Call(refSel, s.q)
				if !ref.same(s.out) {
					nd++
					if s.q.Entry == c14EntrySelect && s.q.LibVer < 2 {
						ndLegacy++
					}
					if first == nil {
						first, firstRef = s, ref
					}
				}
			}
		}
		rec.ClassN("cold-rounds", 1)
		rec.ClassN("selections-concurrent", int64(g*c.PerG))
		if nd > 0 {
			key := "impure:concurrent-cold-start"
			if ndLegacy == nd {
				key = "impure:concurrent-cold-start-legacy-libver"
			}
			rec.Violation(t, key, c, "round %d: %d of the first %d selections made by %d goroutines on a freshly built selector (%d blocks, weights %s) differ from the same selections made alone (%d of them library version 0/1); e.g. %s: alone %v, concurrently %v",
				round, nd, g*c.PerG, g, c.Blocks, c.Order, ndLegacy, c14QStr(first.q), firstRef, first.out)
			return
		}
	}
}

func TestVerif_C14_coldstart(t *testing.T) {
	rec := vh.NewRec("C14", "coldstart", "6 fixed cases (a crew half of which / all of which is expected to be refused: unknown generation 3, 0, 77777, zero-weight-only generation, generation without a subnet of the family; 64 shuffled blocks x 16 legacy goroutines; 400 descending x mixed; 2 blocks 9,1 x 16 libver-0; 128 shuffled x libver >= 2 and client entry) then rapid: a generation of 2-400 weighted blocks (one /24 and one /64 each) whose weights are listed shuffled / descending / 9,1,9,1 (now and then ascending, as a control), G in {2,4,8,16,32} goroutines with library versions all 0/1, mixed 0-4 + client entry point, or all >= 2, in 3 of 4 cases with every 1st-4th goroutine making selections that are expected to be refused; every round builds a brand-new selector, releases the goroutines together for their first 1-3 selections on it and compares each result (error-ness, address bytes, port flag) with the same selection made single-threaded on a separate selector. one evaluation = one case of 10-60 (thorough 40-400) rounds; non-trivial = >= 2 goroutines, >= 2 blocks, weights not ascending; distinct = distinct case. Schedules are stress-sampled; the unit runs under the race detector.")
	defer rec.Flush()
	rec.Require("non-ascending-weights", "legacy-libver", "hkdf-libver", "many-blocks", "G:16", "refusals-mixed-with-addresses", "unknown-generation-refusals", "all-refused")
	if p := vh.ReplayFile(); p != "" {
		var c c14ColdCase
		if _, _, err := vh.LoadReplay(p, &c); err != nil {
			t.Fatal(err)
		}
		c14CheckCold(t, rec, c, 50*c.Rounds) // the schedule is not part of the case
		return
	}
	// fixed cases first (shard 0): the configurations in which lazily built or shared state is most
	// exposed, so that they are exercised at every seed and the required classes never depend on luck
	if idx, _ := vh.Shard(); idx == 0 {
		crew := func(n int, lv ...uint) []uint {
			out := make([]uint, n)
			for i := range out {
				out[i] = lv[i%len(lv)]
			}
			return out
		}
		base := vh.Hex{0xc1, 0x4c, 0x01, 0xd5, 0x7a, 0x27, 0x00, 0x01}
		r := vh.Pick(40, 300)
		for _, c := range []c14ColdCase{
			{Blocks: 64, Order: "shuffled", PermSeed: 0x9e3779b97f4a7c15, LibVers: crew(16, 0, 1), Fam: c14FamV4, PerG: 1, Rounds: r, SeedBase: base, SeedLen: 16},
			{Blocks: 400, Order: "descending", LibVers: crew(16, 1, 0, 2, 4, 99), Fam: c14FamV6, PerG: 1, Rounds: r, SeedBase: base, SeedLen: 32},
			{Blocks: 2, Order: "nine-one", LibVers: crew(16, 0), Fam: c14FamV4, PerG: 1, Rounds: r, SeedBase: base, SeedLen: 16},
			{Blocks: 128, Order: "shuffled", PermSeed: 7, LibVers: crew(16, 2, 3, 4, 99), Fam: c14FamV4, PerG: 2, Rounds: r, SeedBase: base, SeedLen: 16},
			// refusals in the crew: half of the goroutines ask for generations that are not configured
			// (3, 0, 77777), have no weight or no subnet of the family; then a crew that is refused throughout
			{Blocks: 16, Order: "descending", LibVers: crew(16, 0, 2, 1, 4), Fam: c14FamV4, PerG: 2, Rounds: r, SeedBase: base, SeedLen: 16,
				Fails: []string{"unknown", "", "gen0", "", "unknown2", "", "zero-weight", "", "no-family", "", "unknown", "", "gen0", "", "unknown", ""}},
			{Blocks: 8, Order: "shuffled", PermSeed: 3, LibVers: crew(16, 2, 1, 0, 3, 99), Fam: c14FamV6, PerG: 1, Rounds: r, SeedBase: base, SeedLen: 16,
				Fails: []string{"unknown", "unknown", "gen0", "unknown2", "unknown", "zero-weight", "no-family", "gen0", "unknown", "unknown2", "unknown", "gen0", "zero-weight", "unknown", "no-family", "unknown"}},
		} {
			c14CheckCold(t, rec, c, c.Rounds)
		}
	}
	rapid.Check(t, func(rt *rapid.T) {
		c := c14GenCold(rt)
		c14CheckCold(rt, rec, c, c.Rounds)
	})
}
