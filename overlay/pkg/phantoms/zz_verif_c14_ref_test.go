package phantoms

// C14 — reference model and containment oracle.
//
// Everything in this file is written from the published selection algorithm (client library
// version >= 2, "HKDF" selection) and from the property text; it calls nothing in the package
// under test and does not use x/crypto/hkdf or crypto/rand.Int either:
//
//   group choice : candidates = groups that list at least one subnet (a group without subnets is left
//                  out, weight included), ordered ascending by weight;
//                  r = uniform(HKDF-SHA256(seed, salt=nil, info="phantom-select-subnet"), sum(weights));
//                  walk the candidates subtracting weights until r < 0.
//   address      : subnets of the chosen group (all groups when unweighted) that pass the family
//                  filter, in order; id = uniform(HKDF-SHA256(seed, nil, "phantom-addr-id"), total
//                  number of addresses); the subnet whose id range holds id, offset = id - range start;
//                  address = network address + offset, 4 or 16 bytes.
//   uniform(r,n) : rejection sampling on ceil(bitlen(n-1)/8) bytes with the surplus top bits cleared
//                  (n == 1 reads nothing).
//
// Where the published algorithm does not pin the outcome (total weight 0, a chosen group holding an
// unparsable or IPv4-mapped CIDR, ties between equal weights) the reference says so and the caller
// falls back to the containment oracle alone / accepts every tie order.

import (
	"crypto/hmac"
	"crypto/sha256"
	"fmt"
	"math/big"
	"net/netip"
	"sort"
	"strings"
)

// c14Stream is the HKDF-SHA256 output stream (RFC 5869, salt = HashLen zero bytes).
type c14Stream struct {
	prk  []byte
	info []byte
	t    []byte
	ctr  int
	buf  []byte
}

func c14NewStream(seed []byte, info string) *c14Stream {
	ext := hmac.New(sha256.New, make([]byte, sha256.Size))
	ext.Write(seed)
	return &c14Stream{prk: ext.Sum(nil), info: []byte(info)}
}

// read returns the next n bytes, or ok=false when the 255-block limit of HKDF is exhausted.
func (s *c14Stream) read(n int) ([]byte, bool) {
	for len(s.buf) < n {
		if s.ctr >= 255 {
			return nil, false
		}
		s.ctr++
		m := hmac.New(sha256.New, s.prk)
		m.Write(s.t)
		m.Write(s.info)
		m.Write([]byte{byte(s.ctr)})
		s.t = m.Sum(nil)
		s.buf = append(s.buf, s.t...)
	}
	out := append([]byte(nil), s.buf[:n]...)
	s.buf = s.buf[n:]
	return out, true
}

// c14Uniform draws a uniform value in [0,max) from the stream; ok=false if the stream ran dry
// (probability < 2^-400 for any max) or max <= 0.
func c14Uniform(s *c14Stream, max *big.Int) (*big.Int, bool) {
	if max.Sign() <= 0 {
		return nil, false
	}
	top := new(big.Int).Sub(max, big.NewInt(1))
	bl := top.BitLen()
	if bl == 0 {
		return new(big.Int), true
	}
	k := (bl + 7) / 8
	b := uint(bl % 8)
	if b == 0 {
		b = 8
	}
	for {
		by, ok := s.read(k)
		if !ok {
			return nil, false
		}
		by[0] &= byte((1 << b) - 1)
		v := new(big.Int).SetBytes(by)
		if v.Cmp(max) < 0 {
			return v, true
		}
	}
}

// c14Prefix is a parsed CIDR as the property sees it.
type c14Prefix struct {
	OK     bool         // parsable
	Mapped bool         // network address (after masking) is IPv4-mapped, i.e. ::ffff:a.b.c.d/96..128: family ambiguous
	P      netip.Prefix // masked
	V4     bool
}

// c14ParseCIDR parses "addr/bits" without going through package net: netip.ParseAddr for the
// address (no zone), decimal digits for the length.
func c14ParseCIDR(s string) c14Prefix {
	i := strings.LastIndexByte(s, '/')
	if i < 0 {
		return c14Prefix{}
	}
	a, err := netip.ParseAddr(s[:i])
	if err != nil || a.Zone() != "" {
		return c14Prefix{}
	}
	bs := s[i+1:]
	if bs == "" || len(bs) > 3 {
		return c14Prefix{}
	}
	bits := 0
	for _, c := range bs {
		if c < '0' || c > '9' {
			return c14Prefix{}
		}
		bits = bits*10 + int(c-'0')
	}
	if bits > a.BitLen() {
		return c14Prefix{}
	}
	m := netip.PrefixFrom(a, bits).Masked()
	// ::ffff:a.b.c.d/n with n < 96 masks the ::ffff marker away and is an ordinary IPv6 prefix (it
	// merely covers the mapped range); with n >= 96 the network itself is IPv4-mapped and can be read
	// as the IPv4 network a.b.c.d/(n-96) or as a 128-bit IPv6 network.
	if m.Addr().Is4In6() {
		return c14Prefix{OK: true, Mapped: true, P: m}
	}
	return c14Prefix{OK: true, P: m, V4: a.Is4()}
}

// c14Size is the number of addresses of a prefix.
func c14Size(p netip.Prefix) *big.Int {
	return new(big.Int).Lsh(big.NewInt(1), uint(p.Addr().BitLen()-p.Bits()))
}

// c14AddrAt returns network address + off as a 4- or 16-byte slice.
func c14AddrAt(p netip.Prefix, off *big.Int) []byte {
	base := p.Addr().AsSlice()
	v := new(big.Int).SetBytes(base)
	v.Add(v, off)
	return v.FillBytes(make([]byte, len(base)))
}

// c14RefGroup is one weighted group as data (extracted from the configuration object the code under
// test is given, so that nil-versus-empty lists are exactly what the code sees).
type c14RefGroup struct {
	Weight     uint32
	Subnets    []string
	SubnetsNil bool
	Rand       bool
}

// c14RefRes is one acceptable outcome.
type c14RefRes struct {
	Err    bool
	IP     []byte
	Rand   bool
	Group  int // index into the configuration's group list (-1 unweighted)
	Net    int // index into the filtered subnet list
	ID     *big.Int
	Off    *big.Int
	Top    bool // offset is the last address of its subnet
	Bottom bool // offset 0
	Size   *big.Int
}

type c14RefOut struct {
	Defined bool   // false: the algorithm does not pin the outcome; Why says why
	Why     string // reason when !Defined
	Alts    []c14RefRes
}

const (
	c14FamV4  = "v4"
	c14FamV6  = "v6"
	c14FamAny = "any"
)

type c14RefNet struct {
	p    netip.Prefix
	rand bool
}

// c14RefAddr does the address step over the already chosen subnets.
func c14RefAddr(seed []byte, nets []c14RefNet, group int) (c14RefRes, bool) {
	if len(nets) == 0 {
		return c14RefRes{Err: true, Group: group}, true
	}
	total := new(big.Int)
	for _, n := range nets {
		total.Add(total, c14Size(n.p))
	}
	id, ok := c14Uniform(c14NewStream(seed, "phantom-addr-id"), total)
	if !ok {
		return c14RefRes{}, false
	}
	lo := new(big.Int)
	for k, n := range nets {
		sz := c14Size(n.p)
		hi := new(big.Int).Add(lo, sz)
		if id.Cmp(lo) >= 0 && id.Cmp(hi) < 0 {
			off := new(big.Int).Sub(id, lo)
			last := new(big.Int).Sub(sz, big.NewInt(1))
			return c14RefRes{IP: c14AddrAt(n.p, off), Rand: n.rand, Group: group, Net: k, ID: id, Off: off,
				Top: off.Cmp(last) == 0, Bottom: off.Sign() == 0, Size: sz}, true
		}
		lo = hi
	}
	return c14RefRes{}, false // unreachable
}

// c14RefNets parses one group's subnets and applies the family filter. pinned=false when the
// group holds something the published algorithm does not pin (unparsable, IPv4-mapped, no subnets).
func c14RefNets(g c14RefGroup, fam string) (nets []c14RefNet, pinned bool, why string) {
	if len(g.Subnets) == 0 {
		return nil, false, "group without subnets"
	}
	for _, s := range g.Subnets {
		p := c14ParseCIDR(s)
		if !p.OK {
			return nil, false, "unparsable CIDR in the chosen group"
		}
		if p.Mapped {
			return nil, false, "IPv4-mapped CIDR in the chosen group"
		}
		if (fam == c14FamV4 && !p.V4) || (fam == c14FamV6 && p.V4) {
			continue
		}
		nets = append(nets, c14RefNet{p: p.P, rand: g.Rand})
	}
	return nets, true, ""
}

// c14RefSelect is the reference for library version >= 2.
// groupsNil says the configuration holds no group list at all.
func c14RefSelect(groups []c14RefGroup, groupsNil bool, seed []byte, weighted bool, fam string) c14RefOut {
	if groupsNil {
		return c14RefOut{Defined: true, Alts: []c14RefRes{{Err: true, Group: -1}}}
	}
	if !weighted {
		var nets []c14RefNet
		for _, g := range groups {
			n, pinned, why := c14RefNets(g, fam)
			if !pinned {
				return c14RefOut{Why: why}
			}
			nets = append(nets, n...)
		}
		r, ok := c14RefAddr(seed, nets, -1)
		if !ok {
			return c14RefOut{Why: "reference stream exhausted"}
		}
		return c14RefOut{Defined: true, Alts: []c14RefRes{r}}
	}
	type cand struct {
		idx int
		w   int64
	}
	var cs []cand
	tot := int64(0)
	for i, g := range groups {
		// a group that lists no subnets (absent list or "Subnets = []") takes no part in the choice,
		// its weight included: that is what every client library version does (clients read the list
		// from a protobuf, where an empty list is always nil) and what both station paths do
		if len(g.Subnets) == 0 {
			continue
		}
		cs = append(cs, cand{i, int64(g.Weight)})
		tot += int64(g.Weight)
	}
	if tot <= 0 {
		return c14RefOut{Why: "total weight 0"}
	}
	sort.SliceStable(cs, func(i, j int) bool { return cs[i].w < cs[j].w })
	r, ok := c14Uniform(c14NewStream(seed, "phantom-select-subnet"), big.NewInt(tot))
	if !ok {
		return c14RefOut{Why: "reference stream exhausted"}
	}
	rnd := r.Int64()
	chosen := -1
	for k, c := range cs {
		rnd -= c.w
		if rnd < 0 {
			chosen = k
			break
		}
	}
	if chosen < 0 {
		return c14RefOut{Why: "internal: no group chosen"}
	}
	// every group that ties with the chosen one on weight is acceptable: the order among equal
	// weights is not part of the published algorithm.
	out := c14RefOut{Defined: true}
	for _, c := range cs {
		if c.w != cs[chosen].w {
			continue
		}
		nets, pinned, why := c14RefNets(groups[c.idx], fam)
		if !pinned {
			return c14RefOut{Why: why}
		}
		res, ok := c14RefAddr(seed, nets, c.idx)
		if !ok {
			return c14RefOut{Why: "reference stream exhausted"}
		}
		out.Alts = append(out.Alts, res)
	}
	return out
}

// Containment -------------------------------------------------------------------------------------

// c14Contain answers the property's own question for a returned address under one reading of the
// address family: reading v4 takes a 4-byte address and the configured IPv4 subnets, reading v6 a
// 16-byte address and the configured IPv6 subnets. An IPv4-mapped network (::ffff:a.b.c.d/96..128)
// is ambiguous and therefore a member of both readings: as a.b.c.d/(n-96) under v4, as the 128-bit
// prefix it is written as under v6. Returns whether some such subnet of the generation contains the
// address, whether a containing subnet allows port randomisation, and whether a containing subnet
// was a mapped one.
func c14Contain(groups []c14RefGroup, ip []byte, reading string) (inside, randAllowed, viaMapped bool) {
	if (reading == c14FamV4 && len(ip) != 4) || (reading == c14FamV6 && len(ip) != 16) {
		return false, false, false
	}
	a, ok := netip.AddrFromSlice(ip)
	if !ok {
		return false, false, false
	}
	for _, g := range groups {
		for _, s := range g.Subnets {
			p := c14ParseCIDR(s)
			if !p.OK {
				continue
			}
			pp := p.P
			switch {
			case reading == c14FamV4 && p.Mapped:
				pp = netip.PrefixFrom(pp.Addr().Unmap(), pp.Bits()-96)
			case reading == c14FamV4 && !p.V4, reading == c14FamV6 && p.V4:
				continue
			}
			if pp.Contains(a) {
				inside = true
				if g.Rand {
					randAllowed = true
				}
				if p.Mapped {
					viaMapped = true
				}
			}
		}
	}
	return inside, randAllowed, viaMapped
}

// c14Readings lists the well-formed readings of a returned byte string: 4 bytes are an IPv4
// address; 16 bytes are an IPv6 address and, when IPv4-mapped, also Go's long form of an IPv4 address.
type c14Reading struct {
	ip  []byte
	fam string
}

func c14Readings(ip []byte) []c14Reading {
	switch len(ip) {
	case 4:
		return []c14Reading{{ip, c14FamV4}}
	case 16:
		out := []c14Reading{{ip, c14FamV6}}
		if a, ok := netip.AddrFromSlice(ip); ok && a.Is4In6() {
			u := a.Unmap().As4()
			out = append([]c14Reading{{u[:], c14FamV4}}, out...)
		}
		return out
	}
	return nil
}

// c14SameAddr: equal bytes, or the 16-byte IPv4-mapped form of the reference's 4-byte address.
func c14SameAddr(ref, got []byte) bool {
	if string(ref) == string(got) {
		return true
	}
	if len(ref) == 4 && len(got) == 16 {
		if a, ok := netip.AddrFromSlice(got); ok && a.Is4In6() {
			u := a.Unmap().As4()
			return string(u[:]) == string(ref)
		}
	}
	return false
}

func c14MappedCIDR(s string) bool {
	p := c14ParseCIDR(s)
	return p.OK && p.Mapped
}

// c14LeadingZero reports whether a parsed network's address starts with a zero byte.
func c14LeadingZero(s string) bool {
	p := c14ParseCIDR(s)
	return p.OK && !p.Mapped && p.P.Addr().AsSlice()[0] == 0
}

func c14OneAddr(s string) bool {
	p := c14ParseCIDR(s)
	return p.OK && !p.Mapped && p.P.Bits() == p.P.Addr().BitLen()
}

func c14FmtIP(b []byte) string {
	if a, ok := netip.AddrFromSlice(b); ok {
		return a.String()
	}
	return fmt.Sprintf("<%d bytes: %x>", len(b), b)
}
