package phantoms

// C14 — "the result depends on those inputs alone", over histories of the selector's mutating API.
//
// A small model-based check: histories of AddGeneration / UpdateGeneration / RemoveGeneration
// (including re-registering a config obtained from GetSubnetsByGeneration under another index,
// handing the same object in twice, and mutating the caller's SubnetConfig AFTER handing it in) are
// applied to a real selector (initially empty, or loaded by SubnetsFromTomlFile from a generated
// file with the generations in drawn order, generation 0 included) and to a model
// generation -> configuration. After every step, selections for every generation of interest must
// equal those of a FRESH selector built from the model:
//   * a generation the model holds must not be refused where the fresh selector yields an address
//     (select:configured-generation-refused),
//   * a generation the model does not hold (never added, removed, nil config) must be refused
//     (select:unconfigured-generation-served),
//   * otherwise the results must be the same (history:selection-differs-from-fresh-selector).
// What the model takes as "the configuration of generation g":
//   * the content of the config as of the call that installed it (a deep copy), or
//   * the content the caller's object has NOW, if the caller changed it after handing it in
//     (whether the selector copies or shares the caller's object is not the property's business,
//     but it has to be one or the other for all selections of that generation).
// Index rules taken from the API's own documentation: AddGeneration(gen >= 0) on a free index
// installs at that index; AddGeneration(-1) or on a taken index installs at the index it returns,
// which must not be one that was in use.

import (
	"encoding/json"
	"fmt"
	"os"
	"path/filepath"
	"sort"
	"strings"
	"testing"
	"time"

	pb "github.com/refraction-networking/conjure/proto"
	"pgregory.net/rapid"
	"verif/harness/vh"
)

type c14HistOp struct {
	Kind string `json:"kind"` // add | add-alias | update | update-alias | remove | mutate
	Gen  int    `json:"gen"`  // target generation (add/add-alias: -1 = next free)
	From uint   `json:"from"` // alias: source generation for GetSubnetsByGeneration
	Obj  int    `json:"obj"`  // add/update: which of the caller's config objects is handed in; mutate: which one is changed
	Tpl  int    `json:"tpl"`  // mutate: template whose blocks replace the object's WeightedSubnets
}

func (o c14HistOp) String() string {
	switch o.Kind {
	case "add":
		return fmt.Sprintf("AddGeneration(%d, obj%d)", o.Gen, o.Obj)
	case "add-alias":
		return fmt.Sprintf("AddGeneration(%d, Get(%d))", o.Gen, o.From)
	case "update":
		return fmt.Sprintf("UpdateGeneration(%d, obj%d)", o.Gen, o.Obj)
	case "update-alias":
		return fmt.Sprintf("UpdateGeneration(%d, Get(%d))", o.Gen, o.From)
	case "remove":
		return fmt.Sprintf("RemoveGeneration(%d)", o.Gen)
	}
	return fmt.Sprintf("obj%d.WeightedSubnets = template%d", o.Obj, o.Tpl)
}

type c14HistCase struct {
	InitGens []uint      `json:"init_gens"` // generations declared in the TOML file the selector is loaded from, in file order (empty: start from an empty selector)
	InitTpl  []int       `json:"init_tpl"`
	Ops      []c14HistOp `json:"ops"`
	Seed     vh.Hex      `json:"seed"`
}

const c14HistObjs = 4

// c14HistTemplate: four configurations with disjoint subnets, different port flags, weights not ascending.
func c14HistTemplate(k int) []c14Group {
	k = ((k % 6) + 6) % 6
	return []c14Group{
		{Weight: 9, Rand: k % 2, Subnets: []string{fmt.Sprintf("10.%d.0.0/24", 10+k), fmt.Sprintf("2001:db8:%x::/64", 0xa0+k)}},
		{Weight: 1, Rand: (k + 1) % 2, Subnets: []string{fmt.Sprintf("10.%d.1.0/24", 10+k), fmt.Sprintf("2001:db8:%x::/64", 0xb0+k)}},
	}
}

func c14HistPB(groups []c14Group) []*pb.PhantomSubnets {
	out := []*pb.PhantomSubnets{}
	for _, g := range groups {
		out = append(out, c14PBGroup(g))
	}
	return out
}

func c14HistSnap(sc *SubnetConfig) []c14Group {
	var out []c14Group
	for _, ws := range sc.WeightedSubnets {
		g := c14Group{Weight: -1, Rand: -1}
		if ws.Weight != nil {
			g.Weight = int64(*ws.Weight)
		}
		if ws.RandomizeDstPort != nil {
			g.Rand = 0
			if *ws.RandomizeDstPort {
				g.Rand = 1
			}
		}
		if ws.Subnets != nil {
			g.Subnets = append([]string{}, ws.Subnets...)
		}
		out = append(out, g)
	}
	return out
}

// c14HistEntry is the model's view of one generation index.
type c14HistEntry struct {
	live bool          // holds a (non-nil) configuration and was not removed since
	snap []c14Group    // content as of the call that installed it
	obj  *SubnetConfig // the object that was handed in (the caller may change it later)
	// the caller (the harness, through a "mutate" operation - nobody else) changed obj after this
	// entry was installed; only then is the object's current content an acceptable reading
	callerChanged bool
}

func c14HistFresh(m map[uint]*c14HistEntry, current bool) *PhantomIPSelector {
	sel := &PhantomIPSelector{Networks: map[uint]*SubnetConfig{}}
	for g, e := range m {
		if !e.live {
			continue
		}
		groups := e.snap
		if current && e.obj != nil && e.callerChanged {
			groups = c14HistSnap(e.obj)
		}
		sel.Networks[g] = &SubnetConfig{WeightedSubnets: c14HistPB(groups)}
	}
	return sel
}

type c14HistStats struct{ classes map[string]bool }

// c14HistRun returns (key, message) of the first violation, or "", "".
func c14HistRun(dir string, n int64, c c14HistCase, st *c14HistStats) (string, string, error) {
	objs := make([]*SubnetConfig, c14HistObjs)
	for i := range objs {
		objs[i] = &SubnetConfig{WeightedSubnets: c14HistPB(c14HistTemplate(i))}
	}
	model := map[uint]*c14HistEntry{}
	probes := map[uint]bool{0: true, 1: true}
	var sel *PhantomIPSelector
	if len(c.InitGens) == 0 {
		sel = &PhantomIPSelector{Networks: map[uint]*SubnetConfig{}}
	} else {
		if len(c.InitTpl) != len(c.InitGens) {
			return "", "", fmt.Errorf("malformed case: init_tpl")
		}
		cfg := c14Config{}
		for i, g := range c.InitGens {
			if _, dup := model[g]; dup {
				return "", "", fmt.Errorf("malformed case: duplicate initial generation")
			}
			cfg.Gens = append(cfg.Gens, c14GenCfg{Gen: g, Groups: c14HistTemplate(c.InitTpl[i])})
			model[g] = &c14HistEntry{live: true, snap: c14HistTemplate(c.InitTpl[i])}
			if g == 0 {
				st.classes["gen0-configured"] = true
			}
		}
		p := filepath.Join(dir, fmt.Sprintf("c14_hist_%d.toml", n))
		if err := os.WriteFile(p, []byte(c14Toml(cfg)), 0o644); err != nil {
			return "", "", err
		}
		var err error
		sel, err = SubnetsFromTomlFile(p)
		_ = os.Remove(p)
		if err != nil {
			return "", "", fmt.Errorf("loading generated TOML: %v", err)
		}
		for g := range sel.Networks {
			probes[g] = true
			if e := model[g]; e != nil {
				e.obj = sel.Networks[g]
			}
		}
		st.classes["loader-initial-state"] = true
	}

	check := func(step int, what string) (string, string) {
		var gens []uint
		seen := map[uint]bool{}
		top := uint(0)
		for g := range model {
			if !seen[g] {
				seen[g] = true
				gens = append(gens, g)
			}
			if g > top {
				top = g
			}
		}
		for g := range probes {
			if !seen[g] {
				seen[g] = true
				gens = append(gens, g)
			}
		}
		if !seen[top+1] {
			gens = append(gens, top+1)
		}
		sort.Slice(gens, func(i, j int) bool { return gens[i] < gens[j] })
		real := &c14Built{sel: sel}
		asInstalled := &c14Built{sel: c14HistFresh(model, false)}
		asNow := &c14Built{sel: c14HistFresh(model, true)}
		libvers := []uint{1, 2, uint(step%2) * 4} // 0 or 4 in turn
		for _, g := range gens {
			e := model[g]
			okInstalled, okNow := true, true
			var firstQ c14Query
			var firstReal, firstWant c14Out
			for qi := 0; qi < 2; qi++ {
				seed := append(append([]byte{}, c.Seed...), byte(qi), byte(g))
				for _, lv := range libvers {
					for _, fam := range []string{c14FamV4, c14FamV6} {
						q := c14Query{Entry: c14EntrySelect, Seed: seed, Gen: g, LibVer: lv, Fam: fam}
						o := c14Call(real, q)
						if o.Panic != "" {
							return "panic:history", fmt.Sprintf("after step %d (%s): %s panicked: %s", step, what, c14QStr(q), o.Panic)
						}
						a := c14Call(asInstalled, q)
						b := c14Call(asNow, q)
						if !o.same(a) {
							if okInstalled {
								firstQ, firstReal, firstWant = q, o, a
							}
							okInstalled = false
						}
						if !o.same(b) {
							okNow = false
						}
					}
				}
			}
			if okInstalled || okNow {
				if !okInstalled {
					st.classes["follows-callers-later-change"] = true
				} else if !okNow {
					st.classes["keeps-content-as-installed"] = true
				}
				continue
			}
			live := e != nil && e.live
			key := "history:selection-differs-from-fresh-selector"
			switch {
			case live && firstReal.IsErr && !firstWant.IsErr:
				key = "select:configured-generation-refused"
			case !live && !firstReal.IsErr:
				key = "select:unconfigured-generation-served"
			}
			var desc []string
			for _, mg := range gens {
				if me := model[mg]; me != nil && me.live {
					b, _ := json.Marshal(me.snap)
					desc = append(desc, fmt.Sprintf("%d:%s", mg, b))
				}
			}
			return key, fmt.Sprintf("after step %d (%s): %s gives %v, a fresh selector holding the same configurations gives %v (model: generation %d configured=%v; configured generations %s)",
				step, what, c14QStr(firstQ), firstReal, firstWant, g, live, strings.Join(desc, " "))
		}
		return "", ""
	}

	if k, m := check(0, "initial state"); k != "" {
		return k, m, nil
	}
	for i, op := range c.Ops {
		if op.Obj < 0 || op.Obj >= c14HistObjs {
			return "", "", fmt.Errorf("malformed case: obj")
		}
		st.classes["op:"+op.Kind] = true
		install := func(gen uint, sc *SubnetConfig) {
			e := &c14HistEntry{obj: sc}
			if sc != nil {
				e.live = true
				e.snap = c14HistSnap(sc)
				for g2, e2 := range model {
					if g2 != gen && e2.live && e2.obj == sc {
						st.classes["same-object-under-two-generations"] = true
					}
				}
			}
			model[gen] = e
			if gen == 0 && e.live {
				st.classes["gen0-configured"] = true
			}
		}
		switch op.Kind {
		case "add", "add-alias":
			sc := objs[op.Obj]
			if op.Kind == "add-alias" {
				sc = sel.GetSubnetsByGeneration(op.From)
			}
			_, taken := model[uint(op.Gen)]
			if op.Gen < -1 {
				return "", "", fmt.Errorf("malformed case: gen")
			}
			r := sel.AddGeneration(op.Gen, sc)
			probes[r] = true
			if op.Gen == -1 || taken {
				st.classes["add-next-free-index"] = true
				if e := model[r]; e != nil && e.live {
					return "history:add-overwrote-generation", fmt.Sprintf("step %d: %v returned index %d, which was in use", i+1, op, r), nil
				}
				install(r, sc)
			} else {
				install(uint(op.Gen), sc) // documented: a free index is used as asked, whatever was returned
			}
		case "update", "update-alias":
			sc := objs[op.Obj]
			if op.Kind == "update-alias" {
				sc = sel.GetSubnetsByGeneration(op.From)
			}
			if e := model[uint(op.Gen)]; e != nil && e.live {
				for g2, e2 := range model {
					if g2 != uint(op.Gen) && e2.live && e2.obj == e.obj && e.obj != nil {
						st.classes["update-of-a-shared-object"] = true
					}
				}
			}
			sel.UpdateGeneration(uint(op.Gen), sc)
			install(uint(op.Gen), sc)
		case "remove":
			sel.RemoveGeneration(uint(op.Gen))
			if e := model[uint(op.Gen)]; e != nil && e.live {
				st.classes["removed-live-generation"] = true
			}
			model[uint(op.Gen)] = &c14HistEntry{}
		case "mutate":
			objs[op.Obj].WeightedSubnets = c14HistPB(c14HistTemplate(op.Tpl))
			for _, e := range model {
				if e.live && e.obj == objs[op.Obj] {
					e.callerChanged = true
					st.classes["caller-changed-installed-object"] = true
				}
			}
		default:
			return "", "", fmt.Errorf("malformed case: kind %q", op.Kind)
		}
		if k, m := check(i+1, op.String()); k != "" {
			return k, m, nil
		}
	}
	return "", "", nil
}

func c14HistCheck(t vh.Fataler, rec *vh.Rec, env *c14Env, c c14HistCase) {
	st := &c14HistStats{classes: map[string]bool{}}
	key, msg, err := c14HistRun(env.dir, env.n.Add(1), c, st)
	if err != nil {
		t.Fatalf("harness problem: %v", err)
	}
	nontrivial := st.classes["same-object-under-two-generations"] || st.classes["caller-changed-installed-object"] || st.classes["gen0-configured"] || st.classes["removed-live-generation"]
	rec.Case(nontrivial, vh.Digest(c), c, c14SortedKeys(st.classes)...)
	if key != "" {
		var ops []string
		for _, o := range c.Ops {
			ops = append(ops, o.String())
		}
		rec.Violation(t, key, c, "%s; initial generations (TOML order) %v; history=[%s]", msg, c.InitGens, strings.Join(ops, "; "))
	}
}

func c14GenHist(rt *rapid.T) c14HistCase {
	c := c14HistCase{Seed: c14Bytes(rt, 14, "seed")}
	gens := []int{10, 20, 0, 1, 2, 30}
	if rapid.SampledFrom([]bool{false, true, true}).Draw(rt, "fromtoml") {
		n := rapid.IntRange(1, 4).Draw(rt, "ninit")
		perm := rapid.Permutation([]uint{10, 0, 20, 1, 5}).Draw(rt, "initorder")
		for i := 0; i < n; i++ {
			c.InitGens = append(c.InitGens, perm[i])
			c.InitTpl = append(c.InitTpl, rapid.IntRange(0, 5).Draw(rt, "inittpl"))
		}
	}
	n := rapid.IntRange(1, 10).Draw(rt, "nops")
	for i := 0; i < n; i++ {
		op := c14HistOp{Kind: rapid.SampledFrom([]string{"add", "update", "add-alias", "mutate", "remove", "update-alias", "add", "update"}).Draw(rt, "kind")}
		op.Gen = rapid.SampledFrom(gens).Draw(rt, "gen")
		if (op.Kind == "add" || op.Kind == "add-alias") && c14Rarely(rt, 5, "nextfree") {
			op.Gen = -1
		}
		op.From = uint(rapid.SampledFrom(gens).Draw(rt, "from"))
		op.Obj = rapid.IntRange(0, c14HistObjs-1).Draw(rt, "obj")
		op.Tpl = rapid.IntRange(0, 5).Draw(rt, "tpl")
		c.Ops = append(c.Ops, op)
	}
	return c
}

func TestVerif_C14_history(t *testing.T) {
	rec := vh.NewRec("C14", "history", "model-based: histories of 1-10 operations {AddGeneration(g|-1, caller's object), AddGeneration(g|-1, GetSubnetsByGeneration(g')), UpdateGeneration (same two forms), RemoveGeneration, caller replaces the block list of an object it handed in earlier} over generations {0,1,2,10,20,30} and 4 caller objects, on a selector that starts empty or is loaded by SubnetsFromTomlFile from a generated file declaring 1-4 of the generations {10,0,20,1,5} in drawn order; after every step 12 selections (2 seeds x library versions 1, 2 and 0/4 x v4/v6) for every generation the model knows, every index an operation returned or the loader created, 0, 1 and max+1 are compared with a fresh selector built from the model (content as installed, or the content the caller's object has now, consistently per generation). Fixed histories first: generation 0 through the loader and through AddGeneration(0), one object under two generations then UpdateGeneration of one of them. one evaluation = one history; non-trivial = it registered one object under two generations, changed a handed-in object, configured generation 0 or removed a live generation; distinct = distinct history.")
	defer rec.Flush()
	rec.Require("same-object-under-two-generations", "update-of-a-shared-object", "caller-changed-installed-object", "gen0-configured", "loader-initial-state", "add-next-free-index", "removed-live-generation", "op:add-alias", "op:update-alias")
	env := &c14Env{dir: t.TempDir()}
	if p := vh.ReplayFile(); p != "" {
		var c c14HistCase
		if _, _, err := vh.LoadReplay(p, &c); err != nil {
			t.Fatal(err)
		}
		c14HistCheck(t, rec, env, c)
		return
	}
	if idx, _ := vh.Shard(); idx == 0 {
		seed := vh.Hex{0xc1, 0x4c, 0x05, 0x01, 0x77, 0x3a, 0x90, 0x1e}
		for _, c := range []c14HistCase{
			{InitGens: []uint{0}, InitTpl: []int{0}, Seed: seed},
			{InitGens: []uint{10, 0, 20}, InitTpl: []int{0, 1, 2}, Seed: seed},
			{InitGens: []uint{0, 5}, InitTpl: []int{3, 4}, Seed: seed, Ops: []c14HistOp{{Kind: "add", Gen: -1, Obj: 0}, {Kind: "remove", Gen: 0}, {Kind: "add", Gen: 0, Obj: 1}}},
			{Seed: seed, Ops: []c14HistOp{{Kind: "add", Gen: 0, Obj: 0}, {Kind: "add", Gen: 1, Obj: 1}, {Kind: "add", Gen: 1, Obj: 2}}},
			{Seed: seed, Ops: []c14HistOp{{Kind: "add", Gen: 10, Obj: 0}, {Kind: "add-alias", Gen: 20, From: 10}, {Kind: "update", Gen: 10, Obj: 1}, {Kind: "remove", Gen: 10}}},
			{Seed: seed, Ops: []c14HistOp{{Kind: "add", Gen: 10, Obj: 0}, {Kind: "update-alias", Gen: 20, From: 10}, {Kind: "update", Gen: 20, Obj: 2}, {Kind: "update", Gen: 10, Obj: 3}}},
			{Seed: seed, Ops: []c14HistOp{{Kind: "add", Gen: 10, Obj: 0}, {Kind: "add", Gen: 20, Obj: 0}, {Kind: "update", Gen: 10, Obj: 1}, {Kind: "mutate", Obj: 0, Tpl: 5}, {Kind: "mutate", Obj: 1, Tpl: 4}}},
			{InitGens: []uint{10, 20}, InitTpl: []int{0, 1}, Seed: seed, Ops: []c14HistOp{{Kind: "add-alias", Gen: 30, From: 10}, {Kind: "update", Gen: 10, Obj: 2}, {Kind: "update-alias", Gen: 20, From: 30}, {Kind: "update", Gen: 30, Obj: 3}}},
		} {
			c14HistCheck(t, rec, env, c)
		}
	}
	rapid.Check(t, func(rt *rapid.T) {
		c14HistCheck(rt, rec, env, c14GenHist(rt))
	})
}

// Loader reload histories ---------------------------------------------------------------------------
//
// "Stays inside the configured subnets" is about the configuration that is in force: a subnet file
// that was rewritten and loaded again must select from its NEW content. A reload history writes
// version A of a file, loads it, rewrites the SAME path with version B, loads again, and so on; after
// every load the loaded selector must select exactly what a selector built directly from the
// version just written selects. The versions are rendered fixed-width, so that a rewrite can keep the
// byte length ("10.1.0.0/24" -> "10.2.0.0/24", "true " -> "false"), and the modification time is
// pinned to one instant / kept within one second / left to the file system, as tools and fast
// edit-and-SIGHUP sequences do.

type c14ReloadBlock struct {
	Weight int    `json:"weight"` // 1-9
	Rand   int    `json:"rand"`   // -1 no key, 0 false, 1 true
	A      int    `json:"a"`      // 1-9: 10.A.B.0/24 and 2001:db8:A::/64
	B      int    `json:"b"`      // 1-9
	Pad    string `json:"pad,omitempty"`
}

type c14ReloadGen struct {
	Gen    uint             `json:"gen"`
	Blocks []c14ReloadBlock `json:"blocks"`
}

type c14ReloadCase struct {
	Versions [][]c14ReloadGen `json:"versions"`
	Mtime    string           `json:"mtime"` // pinned: every version gets the same mtime; same-second: mtimes differ by < 1 s within one second; natural: untouched
	Seed     vh.Hex           `json:"seed"`
}

func c14ReloadToml(v []c14ReloadGen) string {
	var sb strings.Builder
	sb.WriteString("[Networks]\n")
	for _, g := range v {
		fmt.Fprintf(&sb, "  [Networks.%d]\n    Generation = %d\n", g.Gen, g.Gen)
		for _, b := range g.Blocks {
			fmt.Fprintf(&sb, "    [[Networks.%d.WeightedSubnets]]\n      Weight = %d\n", g.Gen, b.Weight)
			switch b.Rand {
			case 0:
				sb.WriteString("      RandomizeDstPort = false\n")
			case 1:
				sb.WriteString("      RandomizeDstPort = true \n")
			}
			fmt.Fprintf(&sb, "      Subnets = [\"10.%d.%d.0/24\", \"2001:db8:%d::/64\"]%s\n", b.A, b.B, b.A, b.Pad)
		}
	}
	return sb.String()
}

func c14ReloadConfig(v []c14ReloadGen) c14Config {
	c := c14Config{}
	for _, g := range v {
		gc := c14GenCfg{Gen: g.Gen, Groups: []c14Group{}}
		for _, b := range g.Blocks {
			gc.Groups = append(gc.Groups, c14Group{Weight: int64(b.Weight), Rand: b.Rand, Subnets: []string{fmt.Sprintf("10.%d.%d.0/24", b.A, b.B), fmt.Sprintf("2001:db8:%d::/64", b.A)}})
		}
		c.Gens = append(c.Gens, gc)
	}
	return c
}

var c14ReloadInstant = time.Date(2024, 3, 9, 12, 0, 0, 0, time.UTC)

func c14ReloadCheck(t vh.Fataler, rec *vh.Rec, env *c14Env, c c14ReloadCase) {
	if len(c.Versions) < 2 {
		t.Fatalf("harness problem: a reload case needs two versions")
	}
	path := filepath.Join(env.dir, fmt.Sprintf("c14_reload_%d.toml", env.n.Add(1)))
	defer os.Remove(path)
	classes := map[string]bool{"mtime:" + c.Mtime: true}
	lens := map[int]bool{}
	var earlier []*c14Built
	nontrivial := false
	for vi, v := range c.Versions {
		txt := c14ReloadToml(v)
		if vi > 0 && lens[len(txt)] {
			classes["rewrite-keeps-byte-length"] = true
			if c.Mtime != "natural" {
				nontrivial = true
			}
		}
		lens[len(txt)] = true
		if err := os.WriteFile(path, []byte(txt), 0o644); err != nil {
			t.Fatalf("harness problem: %v", err)
		}
		switch c.Mtime {
		case "pinned":
			if err := os.Chtimes(path, c14ReloadInstant, c14ReloadInstant); err != nil {
				t.Fatalf("harness problem: %v", err)
			}
		case "same-second":
			mt := c14ReloadInstant.Add(time.Duration(vi) * 100 * time.Millisecond)
			if err := os.Chtimes(path, mt, mt); err != nil {
				t.Fatalf("harness problem: %v", err)
			}
		}
		sel, err := SubnetsFromTomlFile(path)
		if err != nil {
			t.Fatalf("harness problem: loading generated TOML: %v\n%s", err, txt)
		}
		loaded := &c14Built{sel: sel}
		direct := &c14Built{sel: c14Direct(c14ReloadConfig(v))}
		gens := map[uint]bool{}
		for _, vv := range c.Versions {
			for _, g := range vv {
				gens[g.Gen] = true
			}
		}
		for g := range sel.Networks {
			gens[g] = true
		}
		var gl []uint
		for g := range gens {
			gl = append(gl, g)
		}
		sort.Slice(gl, func(i, j int) bool { return gl[i] < gl[j] })
		for _, g := range gl {
			for qi := 0; qi < 3; qi++ {
				for _, lv := range []uint{2, 1} {
					for _, fam := range []string{c14FamV4, c14FamV6} {
						q := c14Query{Entry: c14EntrySelect, Seed: append(append([]byte{}, c.Seed...), byte(qi)), Gen: g, LibVer: lv, Fam: fam}
						o, want := c14Call(loaded, q), c14Call(direct, q)
						if o.same(want) {
							continue
						}
						key := "reload:selection-differs-from-file-content"
						for _, e := range earlier {
							if o.same(c14Call(e, q)) {
								key = "reload:stale-configuration"
							}
						}
						rec.Case(nontrivial, vh.Digest(c), c, c14SortedKeys(classes)...)
						rec.Violation(t, key, c, "after writing version %d of the file and loading it (mtime %s, %d bytes): %s gives %v, the content just written gives %v; file now:\n%s", vi, c.Mtime, len(txt), c14QStr(q), o, want, txt)
						return
					}
				}
			}
		}
		earlier = append(earlier, direct)
	}
	rec.Case(nontrivial, vh.Digest(c), c, c14SortedKeys(classes)...)
	rec.ClassN("loads", int64(len(c.Versions)))
}

func c14GenReload(rt *rapid.T) c14ReloadCase {
	c := c14ReloadCase{Seed: c14Bytes(rt, 15, "seed")}
	c.Mtime = rapid.SampledFrom([]string{"pinned", "same-second", "natural", "pinned"}).Draw(rt, "mtime")
	digit := func(l string) int { return rapid.IntRange(1, 9).Draw(rt, l) }
	ng := rapid.IntRange(1, 3).Draw(rt, "ngens")
	pool := []uint{1, 957, 5, 0}
	var v0 []c14ReloadGen
	for i := 0; i < ng; i++ {
		g := c14ReloadGen{Gen: pool[i]}
		nb := rapid.IntRange(1, 2).Draw(rt, "nblocks")
		for j := 0; j < nb; j++ {
			g.Blocks = append(g.Blocks, c14ReloadBlock{Weight: digit("w"), Rand: rapid.SampledFrom([]int{1, 0, -1}).Draw(rt, "rand"), A: digit("a"), B: digit("b")})
		}
		v0 = append(v0, g)
	}
	c.Versions = append(c.Versions, v0)
	nv := rapid.IntRange(1, 3).Draw(rt, "nrewrites")
	for k := 0; k < nv; k++ {
		prev := c.Versions[len(c.Versions)-1]
		var nxt []c14ReloadGen
		for _, g := range prev {
			ng := c14ReloadGen{Gen: g.Gen}
			for _, b := range g.Blocks {
				nb := b
				switch rapid.SampledFrom([]string{"subnet", "flag", "both", "weight", "grow", "same"}).Draw(rt, "edit") {
				case "subnet":
					nb.A, nb.B = digit("a2"), digit("b2")
				case "flag":
					if nb.Rand >= 0 {
						nb.Rand = 1 - nb.Rand
					}
				case "both":
					nb.A = digit("a3")
					if nb.Rand >= 0 {
						nb.Rand = 1 - nb.Rand
					}
				case "weight":
					nb.Weight = digit("w2")
				case "grow": // an edit that changes the length
					nb.Pad += " # edited"
					nb.A = digit("a4")
				}
				ng.Blocks = append(ng.Blocks, nb)
			}
			nxt = append(nxt, ng)
		}
		c.Versions = append(c.Versions, nxt)
	}
	return c
}

func TestVerif_C14_reload(t *testing.T) {
	rec := vh.NewRec("C14", "reload", "loader reload histories: a generated subnet file (1-3 generations incl. 0, 1-2 blocks each, rendered fixed-width) is written and loaded through SubnetsFromTomlFile, then 1-3 times rewritten at the SAME path (subnet digits, 'true '<->'false', weight digit changed so that the byte length stays the same; sometimes an edit that changes the length) and loaded again, with the modification time pinned to one instant, kept within one second, or left to the file system; after every load 12 selections per generation (3 seeds x library versions 2,1 x v4/v6) must equal those of a selector built directly from the version just written. Fixed histories first. one evaluation = one reload history; non-trivial = a rewrite kept the byte length while the mtime did not leave the second; distinct = distinct history.")
	defer rec.Flush()
	rec.Require("rewrite-keeps-byte-length", "mtime:pinned", "mtime:same-second", "mtime:natural")
	env := &c14Env{dir: t.TempDir()}
	if p := vh.ReplayFile(); p != "" {
		var c c14ReloadCase
		if _, _, err := vh.LoadReplay(p, &c); err != nil {
			t.Fatal(err)
		}
		c14ReloadCheck(t, rec, env, c)
		return
	}
	if idx, _ := vh.Shard(); idx == 0 {
		seed := vh.Hex{0xc1, 0x4c, 0x06, 0x01, 0x5a, 0x3c, 0x99, 0x10}
		a := []c14ReloadGen{{Gen: 1, Blocks: []c14ReloadBlock{{Weight: 9, Rand: 1, A: 1, B: 1}, {Weight: 1, Rand: 0, A: 3, B: 1}}}}
		b := []c14ReloadGen{{Gen: 1, Blocks: []c14ReloadBlock{{Weight: 9, Rand: 1, A: 2, B: 1}, {Weight: 1, Rand: 0, A: 4, B: 1}}}}
		f := []c14ReloadGen{{Gen: 1, Blocks: []c14ReloadBlock{{Weight: 9, Rand: 0, A: 1, B: 1}, {Weight: 1, Rand: 1, A: 3, B: 1}}}}
		for _, mt := range []string{"pinned", "same-second", "natural"} {
			c14ReloadCheck(t, rec, env, c14ReloadCase{Versions: [][]c14ReloadGen{a, b}, Mtime: mt, Seed: seed})
			c14ReloadCheck(t, rec, env, c14ReloadCase{Versions: [][]c14ReloadGen{a, f, a}, Mtime: mt, Seed: seed})
		}
	}
	rapid.Check(t, func(rt *rapid.T) {
		c14ReloadCheck(rt, rec, env, c14GenReload(rt))
	})
}
