package phantoms

// C14 — "the result depends on those inputs alone", over histories of the selector's mutating API.
//
// A small model-based check: histories of AddGeneration / UpdateGeneration / RemoveGeneration
// (including re-registering a config obtained from GetSubnetsByGeneration under another index,
// handing the same object in twice, and mutating the caller's SubnetConfig AFTER handing it in) are
// applied to a real selector (initially empty, or loaded by SubnetsFromTomlFile from a generated
// file with the generations in drawn order, generation 0 included) and to a model
// generation -> configuration. After every step, selections for every generation of interest must
// equal those of a FRESH selector built from the model:
//   * a generation the model holds must not be refused where the fresh selector yields an address
//     (select:configured-generation-refused),
//   * a generation the model does not hold (never added, removed, nil config) must be refused
//     (select:unconfigured-generation-served),
//   * otherwise the results must be the same (history:selection-differs-from-fresh-selector).
// What the model takes as "the configuration of generation g":
//   * the content of the config as of the call that installed it (a deep copy), or
//   * the content the caller's object has NOW, if the caller changed it after handing it in
//     (whether the selector copies or shares the caller's object is not the property's business,
//     but it has to be one or the other for all selections of that generation).
// Index rules taken from the API's own documentation: AddGeneration(gen >= 0) on a free index
// installs at that index; AddGeneration(-1) or on a taken index installs at the index it returns,
// which must not be one that was in use.

import (
	"encoding/json"
	"fmt"
	"os"
	"path/filepath"
	"sort"
	"strings"
	"testing"

	pb "github.com/refraction-networking/conjure/proto"
	"pgregory.net/rapid"
	"verif/harness/vh"
)

type c14HistOp struct {
	Kind string `json:"kind"` // add | add-alias | update | update-alias | remove | mutate
	Gen  int    `json:"gen"`  // target generation (add/add-alias: -1 = next free)
	From uint   `json:"from"` // alias: source generation for GetSubnetsByGeneration
	Obj  int    `json:"obj"`  // add/update: which of the caller's config objects is handed in; mutate: which one is changed
	Tpl  int    `json:"tpl"`  // mutate: template whose blocks replace the object's WeightedSubnets
}

func (o c14HistOp) String() string {
	switch o.Kind {
	case "add":
		return fmt.Sprintf("AddGeneration(%d, obj%d)", o.Gen, o.Obj)
	case "add-alias":
		return fmt.Sprintf("AddGeneration(%d, Get(%d))", o.Gen, o.From)
	case "update":
		return fmt.Sprintf("UpdateGeneration(%d, obj%d)", o.Gen, o.Obj)
	case "update-alias":
		return fmt.Sprintf("UpdateGeneration(%d, Get(%d))", o.Gen, o.From)
	case "remove":
		return fmt.Sprintf("RemoveGeneration(%d)", o.Gen)
	}
	return fmt.Sprintf("obj%d.WeightedSubnets = template%d", o.Obj, o.Tpl)
}

type c14HistCase struct {
	InitGens []uint      `json:"init_gens"` // generations declared in the TOML file the selector is loaded from, in file order (empty: start from an empty selector)
	InitTpl  []int       `json:"init_tpl"`
	Ops      []c14HistOp `json:"ops"`
	Seed     vh.Hex      `json:"seed"`
}

const c14HistObjs = 4

// c14HistTemplate: four configurations with disjoint subnets, different port flags, weights not ascending.
func c14HistTemplate(k int) []c14Group {
	k = ((k % 6) + 6) % 6
	return []c14Group{
		{Weight: 9, Rand: k % 2, Subnets: []string{fmt.Sprintf("10.%d.0.0/24", 10+k), fmt.Sprintf("2001:db8:%x::/64", 0xa0+k)}},
		{Weight: 1, Rand: (k + 1) % 2, Subnets: []string{fmt.Sprintf("10.%d.1.0/24", 10+k), fmt.Sprintf("2001:db8:%x::/64", 0xb0+k)}},
	}
}

func c14HistPB(groups []c14Group) []*pb.PhantomSubnets {
	out := []*pb.PhantomSubnets{}
	for _, g := range groups {
		out = append(out, c14PBGroup(g))
	}
	return out
}

func c14HistSnap(sc *SubnetConfig) []c14Group {
	var out []c14Group
	for _, ws := range sc.WeightedSubnets {
		g := c14Group{Weight: -1, Rand: -1}
		if ws.Weight != nil {
			g.Weight = int64(*ws.Weight)
		}
		if ws.RandomizeDstPort != nil {
			g.Rand = 0
			if *ws.RandomizeDstPort {
				g.Rand = 1
			}
		}
		if ws.Subnets != nil {
			g.Subnets = append([]string{}, ws.Subnets...)
		}
		out = append(out, g)
	}
	return out
}

// c14HistEntry is the model's view of one generation index.
type c14HistEntry struct {
	live bool          // holds a (non-nil) configuration and was not removed since
	snap []c14Group    // content as of the call that installed it
	obj  *SubnetConfig // the object that was handed in (the caller may change it later)
	// the caller (the harness, through a "mutate" operation - nobody else) changed obj after this
	// entry was installed; only then is the object's current content an acceptable reading
	callerChanged bool
}

func c14HistFresh(m map[uint]*c14HistEntry, current bool) *PhantomIPSelector {
	sel := &PhantomIPSelector{Networks: map[uint]*SubnetConfig{}}
	for g, e := range m {
		if !e.live {
			continue
		}
		groups := e.snap
		if current && e.obj != nil && e.callerChanged {
			groups = c14HistSnap(e.obj)
		}
		sel.Networks[g] = &SubnetConfig{WeightedSubnets: c14HistPB(groups)}
	}
	return sel
}

type c14HistStats struct{ classes map[string]bool }

// c14HistRun returns (key, message) of the first violation, or "", "".
func c14HistRun(dir string, n int64, c c14HistCase, st *c14HistStats) (string, string, error) {
	objs := make([]*SubnetConfig, c14HistObjs)
	for i := range objs {
		objs[i] = &SubnetConfig{WeightedSubnets: c14HistPB(c14HistTemplate(i))}
	}
	model := map[uint]*c14HistEntry{}
	probes := map[uint]bool{0: true, 1: true}
	var sel *PhantomIPSelector
	if len(c.InitGens) == 0 {
		sel = &PhantomIPSelector{Networks: map[uint]*SubnetConfig{}}
	} else {
		if len(c.InitTpl) != len(c.InitGens) {
			return "", "", fmt.Errorf("malformed case: init_tpl")
		}
		cfg := c14Config{}
		for i, g := range c.InitGens {
			if _, dup := model[g]; dup {
				return "", "", fmt.Errorf("malformed case: duplicate initial generation")
			}
			cfg.Gens = append(cfg.Gens, c14GenCfg{Gen: g, Groups: c14HistTemplate(c.InitTpl[i])})
			model[g] = &c14HistEntry{live: true, snap: c14HistTemplate(c.InitTpl[i])}
			if g == 0 {
				st.classes["gen0-configured"] = true
			}
		}
		p := filepath.Join(dir, fmt.Sprintf("c14_hist_%d.toml", n))
		if err := os.WriteFile(p, []byte(c14Toml(cfg)), 0o644); err != nil {
			return "", "", err
		}
		var err error
		sel, err = SubnetsFromTomlFile(p)
		_ = os.Remove(p)
		if err != nil {
			return "", "", fmt.Errorf("loading generated TOML: %v", err)
		}
		for g := range sel.Networks {
			probes[g] = true
			if e := model[g]; e != nil {
				e.obj = sel.Networks[g]
			}
		}
		st.classes["loader-initial-state"] = true
	}

	check := func(step int, what string) (string, string) {
		var gens []uint
		seen := map[uint]bool{}
		top := uint(0)
		for g := range model {
			if !seen[g] {
				seen[g] = true
				gens = append(gens, g)
			}
			if g > top {
				top = g
			}
		}
		for g := range probes {
			if !seen[g] {
				seen[g] = true
				gens = append(gens, g)
			}
		}
		if !seen[top+1] {
			gens = append(gens, top+1)
		}
		sort.Slice(gens, func(i, j int) bool { return gens[i] < gens[j] })
		real := &c14Built{sel: sel}
		asInstalled := &c14Built{sel: c14HistFresh(model, false)}
		asNow := &c14Built{sel: c14HistFresh(model, true)}
		libvers := []uint{1, 2, uint(step%2) * 4} // 0 or 4 in turn
		for _, g := range gens {
			e := model[g]
			okInstalled, okNow := true, true
			var firstQ c14Query
			var firstReal, firstWant c14Out
			for qi := 0; qi < 2; qi++ {
				seed := append(append([]byte{}, c.Seed...), byte(qi), byte(g))
				for _, lv := range libvers {
					for _, fam := range []string{c14FamV4, c14FamV6} {
						q := c14Query{Entry: c14EntrySelect, Seed: seed, Gen: g, LibVer: lv, Fam: fam}
						o := c14Call(real, q)
						if o.Panic != "" {
							return "panic:history", fmt.Sprintf("after step %d (%s): %s panicked: %s", step, what, c14QStr(q), o.Panic)
						}
						a := c14Call(asInstalled, q)
						b := c14Call(asNow, q)
						if !o.same(a) {
							if okInstalled {
								firstQ, firstReal, firstWant = q, o, a
							}
							okInstalled = false
						}
						if !o.same(b) {
							okNow = false
						}
					}
				}
			}
			if okInstalled || okNow {
				if !okInstalled {
					st.classes["follows-callers-later-change"] = true
				} else if !okNow {
					st.classes["keeps-content-as-installed"] = true
				}
				continue
			}
			live := e != nil && e.live
			key := "history:selection-differs-from-fresh-selector"
			switch {
			case live && firstReal.IsErr && !firstWant.IsErr:
				key = "select:configured-generation-refused"
			case !live && !firstReal.IsErr:
				key = "select:unconfigured-generation-served"
			}
			var desc []string
			for _, mg := range gens {
				if me := model[mg]; me != nil && me.live {
					b, _ := json.Marshal(me.snap)
					desc = append(desc, fmt.Sprintf("%d:%s", mg, b))
				}
			}
			return key, fmt.Sprintf("after step %d (%s): %s gives %v, a fresh selector holding the same configurations gives %v (model: generation %d configured=%v; configured generations %s)",
				step, what, c14QStr(firstQ), firstReal, firstWant, g, live, strings.Join(desc, " "))
		}
		return "", ""
	}

	if k, m := check(0, "initial state"); k != "" {
		return k, m, nil
	}
	for i, op := range c.Ops {
		if op.Obj < 0 || op.Obj >= c14HistObjs {
			return "", "", fmt.Errorf("malformed case: obj")
		}
		st.classes["op:"+op.Kind] = true
		install := func(gen uint, sc *SubnetConfig) {
			e := &c14HistEntry{obj: sc}
			if sc != nil {
				e.live = true
				e.snap = c14HistSnap(sc)
				for g2, e2 := range model {
					if g2 != gen && e2.live && e2.obj == sc {
						st.classes["same-object-under-two-generations"] = true
					}
				}
			}
			model[gen] = e
			if gen == 0 && e.live {
				st.classes["gen0-configured"] = true
			}
		}
		switch op.Kind {
		case "add", "add-alias":
			sc := objs[op.Obj]
			if op.Kind == "add-alias" {
				sc = sel.GetSubnetsByGeneration(op.From)
			}
			_, taken := model[uint(op.Gen)]
			if op.Gen < -1 {
				return "", "", fmt.Errorf("malformed case: gen")
			}
			r := sel.AddGeneration(op.Gen, sc)
			probes[r] = true
			if op.Gen == -1 || taken {
				st.classes["add-next-free-index"] = true
				if e := model[r]; e != nil && e.live {
					return "history:add-overwrote-generation", fmt.Sprintf("step %d: %v returned index %d, which was in use", i+1, op, r), nil
				}
				install(r, sc)
			} else {
				install(uint(op.Gen), sc) // documented: a free index is used as asked, whatever was returned
			}
		case "update", "update-alias":
			sc := objs[op.Obj]
			if op.Kind == "update-alias" {
				sc = sel.GetSubnetsByGeneration(op.From)
			}
			if e := model[uint(op.Gen)]; e != nil && e.live {
				for g2, e2 := range model {
					if g2 != uint(op.Gen) && e2.live && e2.obj == e.obj && e.obj != nil {
						st.classes["update-of-a-shared-object"] = true
					}
				}
			}
			sel.UpdateGeneration(uint(op.Gen), sc)
			install(uint(op.Gen), sc)
		case "remove":
			sel.RemoveGeneration(uint(op.Gen))
			if e := model[uint(op.Gen)]; e != nil && e.live {
				st.classes["removed-live-generation"] = true
			}
			model[uint(op.Gen)] = &c14HistEntry{}
		case "mutate":
			objs[op.Obj].WeightedSubnets = c14HistPB(c14HistTemplate(op.Tpl))
			for _, e := range model {
				if e.live && e.obj == objs[op.Obj] {
					e.callerChanged = true
					st.classes["caller-changed-installed-object"] = true
				}
			}
		default:
			return "", "", fmt.Errorf("malformed case: kind %q", op.Kind)
		}
		if k, m := check(i+1, op.String()); k != "" {
			return k, m, nil
		}
	}
	return "", "", nil
}

func c14HistCheck(t vh.Fataler, rec *vh.Rec, env *c14Env, c c14HistCase) {
	st := &c14HistStats{classes: map[string]bool{}}
	key, msg, err := c14HistRun(env.dir, env.n.Add(1), c, st)
	if err != nil {
		t.Fatalf("harness problem: %v", err)
	}
	nontrivial := st.classes["same-object-under-two-generations"] || st.classes["caller-changed-installed-object"] || st.classes["gen0-configured"] || st.classes["removed-live-generation"]
	rec.Case(nontrivial, vh.Digest(c), c, c14SortedKeys(st.classes)...)
	if key != "" {
		var ops []string
		for _, o := range c.Ops {
			ops = append(ops, o.String())
		}
		rec.Violation(t, key, c, "%s; initial generations (TOML order) %v; history=[%s]", msg, c.InitGens, strings.Join(ops, "; "))
	}
}

func c14GenHist(rt *rapid.T) c14HistCase {
	c := c14HistCase{Seed: c14Bytes(rt, 14, "seed")}
	gens := []int{10, 20, 0, 1, 2, 30}
	if rapid.SampledFrom([]bool{false, true, true}).Draw(rt, "fromtoml") {
		n := rapid.IntRange(1, 4).Draw(rt, "ninit")
		perm := rapid.Permutation([]uint{10, 0, 20, 1, 5}).Draw(rt, "initorder")
		for i := 0; i < n; i++ {
			c.InitGens = append(c.InitGens, perm[i])
			c.InitTpl = append(c.InitTpl, rapid.IntRange(0, 5).Draw(rt, "inittpl"))
		}
	}
	n := rapid.IntRange(1, 10).Draw(rt, "nops")
	for i := 0; i < n; i++ {
		op := c14HistOp{Kind: rapid.SampledFrom([]string{"add", "update", "add-alias", "mutate", "remove", "update-alias", "add", "update"}).Draw(rt, "kind")}
		op.Gen = rapid.SampledFrom(gens).Draw(rt, "gen")
		if (op.Kind == "add" || op.Kind == "add-alias") && c14Rarely(rt, 5, "nextfree") {
			op.Gen = -1
		}
		op.From = uint(rapid.SampledFrom(gens).Draw(rt, "from"))
		op.Obj = rapid.IntRange(0, c14HistObjs-1).Draw(rt, "obj")
		op.Tpl = rapid.IntRange(0, 5).Draw(rt, "tpl")
		c.Ops = append(c.Ops, op)
	}
	return c
}

func TestVerif_C14_history(t *testing.T) {
	rec := vh.NewRec("C14", "history", "model-based: histories of 1-10 operations {AddGeneration(g|-1, caller's object), AddGeneration(g|-1, GetSubnetsByGeneration(g')), UpdateGeneration (same two forms), RemoveGeneration, caller replaces the block list of an object it handed in earlier} over generations {0,1,2,10,20,30} and 4 caller objects, on a selector that starts empty or is loaded by SubnetsFromTomlFile from a generated file declaring 1-4 of the generations {10,0,20,1,5} in drawn order; after every step 12 selections (2 seeds x library versions 1, 2 and 0/4 x v4/v6) for every generation the model knows, every index an operation returned or the loader created, 0, 1 and max+1 are compared with a fresh selector built from the model (content as installed, or the content the caller's object has now, consistently per generation). Fixed histories first: generation 0 through the loader and through AddGeneration(0), one object under two generations then UpdateGeneration of one of them. one evaluation = one history; non-trivial = it registered one object under two generations, changed a handed-in object, configured generation 0 or removed a live generation; distinct = distinct history.")
	defer rec.Flush()
	rec.Require("same-object-under-two-generations", "update-of-a-shared-object", "caller-changed-installed-object", "gen0-configured", "loader-initial-state", "add-next-free-index", "removed-live-generation", "op:add-alias", "op:update-alias")
	env := &c14Env{dir: t.TempDir()}
	if p := vh.ReplayFile(); p != "" {
		var c c14HistCase
		if _, _, err := vh.LoadReplay(p, &c); err != nil {
			t.Fatal(err)
		}
		c14HistCheck(t, rec, env, c)
		return
	}
	if idx, _ := vh.Shard(); idx == 0 {
		seed := vh.Hex{0xc1, 0x4c, 0x05, 0x01, 0x77, 0x3a, 0x90, 0x1e}
		for _, c := range []c14HistCase{
			{InitGens: []uint{0}, InitTpl: []int{0}, Seed: seed},
			{InitGens: []uint{10, 0, 20}, InitTpl: []int{0, 1, 2}, Seed: seed},
			{InitGens: []uint{0, 5}, InitTpl: []int{3, 4}, Seed: seed, Ops: []c14HistOp{{Kind: "add", Gen: -1, Obj: 0}, {Kind: "remove", Gen: 0}, {Kind: "add", Gen: 0, Obj: 1}}},
			{Seed: seed, Ops: []c14HistOp{{Kind: "add", Gen: 0, Obj: 0}, {Kind: "add", Gen: 1, Obj: 1}, {Kind: "add", Gen: 1, Obj: 2}}},
			{Seed: seed, Ops: []c14HistOp{{Kind: "add", Gen: 10, Obj: 0}, {Kind: "add-alias", Gen: 20, From: 10}, {Kind: "update", Gen: 10, Obj: 1}, {Kind: "remove", Gen: 10}}},
			{Seed: seed, Ops: []c14HistOp{{Kind: "add", Gen: 10, Obj: 0}, {Kind: "update-alias", Gen: 20, From: 10}, {Kind: "update", Gen: 20, Obj: 2}, {Kind: "update", Gen: 10, Obj: 3}}},
			{Seed: seed, Ops: []c14HistOp{{Kind: "add", Gen: 10, Obj: 0}, {Kind: "add", Gen: 20, Obj: 0}, {Kind: "update", Gen: 10, Obj: 1}, {Kind: "mutate", Obj: 0, Tpl: 5}, {Kind: "mutate", Obj: 1, Tpl: 4}}},
			{InitGens: []uint{10, 20}, InitTpl: []int{0, 1}, Seed: seed, Ops: []c14HistOp{{Kind: "add-alias", Gen: 30, From: 10}, {Kind: "update", Gen: 10, Obj: 2}, {Kind: "update-alias", Gen: 20, From: 30}, {Kind: "update", Gen: 30, Obj: 3}}},
		} {
			c14HistCheck(t, rec, env, c)
		}
	}
	rapid.Check(t, func(rt *rapid.T) {
		c14HistCheck(rt, rec, env, c14GenHist(rt))
	})
}
