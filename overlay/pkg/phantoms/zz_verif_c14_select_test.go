package phantoms

// C14 — phantom selection is a pure function that stays inside the configured subnets.
//
// Sub-checks in this file:
//   select     rapid-generated configurations x queries (all library versions, both station and
//              client entry points): no panic, well-formed address of the requested family inside a
//              configured subnet of that generation, port randomisation only where allowed, equal to
//              the independent reference for library versions 2-4, unchanged when repeated.
//   degenerate exhaustive enumeration of degenerate configuration shapes x library version x family
//              x entry point x seed shape (same oracle).
//   offsets    exhaustive: every (group, subnet, offset) of enumerated small-subnet configurations
//              is driven through the real selector by searching seeds in the reference.
// The concurrent part of purity is in zz_verif_c14_purity_test.go.

import (
	"encoding/binary"
	"fmt"
	"testing"

	"pgregory.net/rapid"
	"verif/harness/vh"
)

func c14CheckCase(t vh.Fataler, rec *vh.Rec, env *c14Env, c c14Case, extra ...string) {
	b, err := c14Build(env, c.Cfg)
	if err != nil {
		t.Fatalf("harness problem: %v", err)
	}
	dg := vh.Digest(c.Cfg)
	for _, q := range c.Queries {
		c14Eval(t, rec, b, c, dg, q, extra...)
	}
	// generations the loaded selector holds although the file does not declare them: probe them
	// (a generation that is not configured must be refused)
	for _, g := range b.extraGens {
		for _, lv := range []uint{2, 1} {
			for _, fam := range []string{c14FamV4, c14FamV6} {
				seed := vh.Hex{0x5e, 0xed, 0x00, 0x01, 0x02, 0x03, 0x04, 0x05, 0x06, 0x07, 0x08, 0x09, 0x0a, 0x0b, 0x0c, 0x0d}
				if len(c.Queries) > 0 && len(c.Queries[0].Seed) > 0 {
					seed = c.Queries[0].Seed
				}
				c14Eval(t, rec, b, c, dg, c14Query{Entry: c14EntrySelect, Seed: seed, Gen: g, LibVer: lv, Fam: fam, Note: "probe of an undeclared generation held by the loaded selector"}, append(extra, "probe-undeclared-generation")...)
			}
		}
	}
}

func c14Replay(t *testing.T, rec *vh.Rec, env *c14Env) bool {
	p := vh.ReplayFile()
	if p == "" {
		return false
	}
	var c c14Case
	if _, _, err := vh.LoadReplay(p, &c); err != nil {
		t.Fatal(err)
	}
	c14CheckCase(t, rec, env, c)
	return true
}

const c14Rule = "one evaluation = one selection (configuration, entry point, seed, generation, library version, family) run twice; " +
	"non-trivial = the selection returned an address (so containment, family, length, port flag and, for library versions 2-4 and the client entry points, equality with the reference were all decided on it); " +
	"distinct = distinct (configuration, query)"

func TestVerif_C14_select(t *testing.T) {
	rec := vh.NewRec("C14", "select", "rapid: 1-3 generations x 0-8 weighted groups x 0-5 CIDRs (any prefix length incl. /0 /32 /128, leading-zero networks, top of the address space, host bits set, duplicates, sub-/super-prefixes of earlier subnets, IPv4-mapped IPv6 notation ::ffff:a.b.c.d/n, unparsable strings; weights absent/0/equal/2^32-1; absent or empty subnet lists; removed generations; 1 in 4 configurations loaded through a TOML file), 1-8 queries each (seeds: all-zero, all-0xff, 0-3 bytes, varint edge shapes, 16/32 random bytes; library versions 0-5,100,2^32-1; Select and SelectPhantom weighted/unweighted with v4/v6/no filter); "+c14Rule)
	defer rec.Flush()
	rec.Require("result:address", "result:error", "legacy-libver", "libver:0", "libver:1", "libver:2", "libver:3", "libver:4",
		"leading-zero-net", "one-address-net", "zero-weight-present", "zero-total-weight", "ref-equal", "ref-weight-tie",
		"entry:select", "entry:client-w", "entry:client-u", "fam:v4", "fam:v6", "fam:any", "via-toml",
		"offset:top", "offset:bottom", "randport-granted", "unknown-or-removed-generation", "unparsable-cidr-present", "mapped-cidr-present", "group-without-subnets-beside-others")
	env := &c14Env{dir: t.TempDir()}
	if c14Replay(t, rec, env) {
		return
	}
	rapid.Check(t, func(rt *rapid.T) {
		c := c14GenCase(rt)
		c14CheckCase(rt, rec, env, c)
	})
}

// Degenerate shapes -----------------------------------------------------------------------------------

type c14Shape struct {
	name    string
	gens    []c14GenCfg
	tomlToo bool
}

func c14Shapes() []c14Shape {
	both := []string{"192.0.2.0/24", "2001:db8::/64"}
	g := func(groups ...c14Group) []c14GenCfg { return []c14GenCfg{{Gen: 1, Groups: groups}} }
	return []c14Shape{
		{"no generation configured", nil, true},
		{"generation removed", []c14GenCfg{{Gen: 1, Removed: true, Groups: []c14Group{{Weight: 1, Rand: -1, Subnets: both}}}}, true},
		{"no group list", []c14GenCfg{{Gen: 1, NoGroups: true}}, true},
		{"empty group list", []c14GenCfg{{Gen: 1, Groups: []c14Group{}}}, false},
		{"one group, weight 0", g(c14Group{Weight: 0, Rand: -1, Subnets: both}), true},
		{"one group, weight absent", g(c14Group{Weight: -1, Rand: -1, Subnets: both}), true},
		{"two groups, both weight 0", g(c14Group{Weight: 0, Rand: 1, Subnets: both}, c14Group{Weight: 0, Rand: 0, Subnets: []string{"198.51.100.0/24", "2001:db8:1::/64"}}), true},
		{"positive weight, no subnet list", g(c14Group{Weight: 5, Rand: -1}), true},
		{"positive weight, empty subnet list", g(c14Group{Weight: 5, Rand: -1, Subnets: []string{}}), true},
		{"weight 0 without subnets + weight 0 with subnets", g(c14Group{Weight: 0, Rand: -1}, c14Group{Weight: 0, Rand: -1, Subnets: both}), true},
		{"weight 0 with subnets + positive weight without subnets", g(c14Group{Weight: 0, Rand: -1, Subnets: both}, c14Group{Weight: 3, Rand: -1}), true},
		{"heavy group with an empty subnet list between two groups", g(c14Group{Weight: 1, Rand: 1, Subnets: both}, c14Group{Weight: 9, Rand: 0, Subnets: []string{}}, c14Group{Weight: 2, Rand: 0, Subnets: []string{"198.51.100.0/24", "2001:db8:1::/64"}}), true},
		{"heavy group without a subnet list before two groups", g(c14Group{Weight: 100, Rand: 0}, c14Group{Weight: 1, Rand: 1, Subnets: both}, c14Group{Weight: 1, Rand: 0, Subnets: []string{"198.51.100.0/24", "2001:db8:1::/64"}}), true},
		{"weight 0 + positive weight", g(c14Group{Weight: 0, Rand: 1, Subnets: both}, c14Group{Weight: 3, Rand: 0, Subnets: []string{"198.51.100.0/24", "2001:db8:1::/64"}}), true},
		{"IPv4 only", g(c14Group{Weight: 1, Rand: -1, Subnets: []string{"192.0.2.0/24"}}), true},
		{"IPv6 only", g(c14Group{Weight: 1, Rand: -1, Subnets: []string{"2001:db8::/64"}}), true},
		{"single /32 and /128", g(c14Group{Weight: 1, Rand: 1, Subnets: []string{"192.0.2.77/32", "2001:db8::77/128"}}), true},
		{"0.0.0.0/32 and ::/128", g(c14Group{Weight: 1, Rand: -1, Subnets: []string{"0.0.0.0/32", "::/128"}}), true},
		{"0.0.0.0/0 and ::/0", g(c14Group{Weight: 1, Rand: -1, Subnets: []string{"0.0.0.0/0", "::/0"}}), true},
		{"leading-zero networks", g(c14Group{Weight: 1, Rand: -1, Subnets: []string{"0.5.0.0/16", "64:ff9b::/96"}}), true},
		{"top of the address space", g(c14Group{Weight: 1, Rand: -1, Subnets: []string{"255.255.255.252/30", "ffff:ffff:ffff:ffff:ffff:ffff:ffff:fffc/126"}}), true},
		{"unparsable only", g(c14Group{Weight: 1, Rand: -1, Subnets: []string{"garbage"}}), true},
		{"unparsable next to valid", g(c14Group{Weight: 1, Rand: -1, Subnets: []string{"192.0.2.0/24", "10.0.0.0/33", "2001:db8::/64"}}), true},
		{"two groups of weight 2^32-1", g(c14Group{Weight: 4294967295, Rand: 1, Subnets: both}, c14Group{Weight: 4294967295, Rand: 0, Subnets: []string{"198.51.100.0/24", "2001:db8:1::/64"}}), true},
		// IPv4-mapped IPv6 notation: ambiguous family; a v6 request must never get 4 bytes, a v4 request never a non-IPv4 address
		{"mapped /120 only", g(c14Group{Weight: 1, Rand: 1, Subnets: []string{"::ffff:198.51.100.0/120"}}), true},
		{"IPv4 + mapped /120", g(c14Group{Weight: 1, Rand: -1, Subnets: []string{"192.0.2.0/24", "::ffff:198.51.100.0/120"}}), true},
		{"mapped /120 + tiny IPv6", g(c14Group{Weight: 1, Rand: -1, Subnets: []string{"192.0.2.0/24", "::ffff:198.51.100.0/120", "2001:db8::/127"}}), true},
		{"mapped /128 + IPv6 /128", g(c14Group{Weight: 1, Rand: 0, Subnets: []string{"::ffff:203.0.113.7/128", "2001:db8::1/128"}}), true},
		{"mapped /96 (all of IPv4) and /104", g(c14Group{Weight: 1, Rand: -1, Subnets: []string{"::ffff:0.0.0.0/96", "::ffff:10.0.0.0/104"}}), true},
		{"mapped text /90 (plain IPv6 prefix covering the mapped range)", g(c14Group{Weight: 1, Rand: -1, Subnets: []string{"::ffff:198.51.100.0/90", "192.0.2.0/24"}}), true},
		{"mapped group beside an IPv6 group", g(c14Group{Weight: 1, Rand: 1, Subnets: []string{"::ffff:198.51.100.0/120"}}, c14Group{Weight: 1, Rand: 0, Subnets: []string{"2001:db8::/64", "192.0.2.0/24"}}), true},
		{"generation 0 declared beside generation 1", []c14GenCfg{{Gen: 0, Groups: []c14Group{{Weight: 1, Rand: 1, Subnets: []string{"198.51.100.0/24", "2001:db8:1::/64"}}}}, {Gen: 1, Groups: []c14Group{{Weight: 1, Rand: 0, Subnets: both}}}}, true},
		{"generations 0 and 5 declared, generation 1 not", []c14GenCfg{{Gen: 5, Groups: []c14Group{{Weight: 1, Rand: 0, Subnets: both}}}, {Gen: 0, Groups: []c14Group{{Weight: 1, Rand: 1, Subnets: []string{"198.51.100.0/24", "2001:db8:1::/64"}}}}}, true},
		{"two /32 (legacy v0 id space of size 0)", g(c14Group{Weight: 1, Rand: -1, Subnets: []string{"192.0.2.1/32", "192.0.2.2/32", "2001:db8::1/128", "2001:db8::2/128"}}), true},
	}
}

func c14FixedSeeds() [][]byte {
	ff := make([]byte, 16)
	for i := range ff {
		ff[i] = 0xff
	}
	return [][]byte{
		make([]byte, 16), ff, {}, {0x80}, {0x01},
		{0x3f, 0x9a, 0x11, 0xc0, 0x5e, 0x77, 0x02, 0xd4, 0x68, 0xab, 0x90, 0x1e, 0xf3, 0x24, 0x8d, 0x56},
		{0xc1, 0x04, 0x7e, 0x29, 0xba, 0x53, 0xe8, 0x0f, 0x96, 0x3d, 0x42, 0xd7, 0x6b, 0xa0, 0x15, 0xfc,
			0x81, 0x38, 0xcf, 0x66, 0x0d, 0xb4, 0x5b, 0xe2, 0x79, 0x10, 0xa7, 0x4e, 0xd5, 0x2c, 0x93, 0x6a},
	}
}

func TestVerif_C14_degenerate(t *testing.T) {
	rec := vh.NewRec("C14", "degenerate", "exhaustive product of 34 degenerate configuration shapes (weighted groups without subnets beside others, generation 0 declared beside others, IPv4-mapped IPv6 networks alone / beside IPv4 / beside tiny or ordinary IPv6, no/removed generation, absent/empty group list, zero/absent weights, absent/empty subnet lists, single-family, one-address, all-zero, /0, leading-zero, top-of-space, unparsable, 2^32-1 weights) x {object built directly, loaded from TOML} x 7 seed shapes x library versions 0-4 x {v4,v6} for Select and x {v4,v6,any} for SelectPhantom weighted/unweighted; "+c14Rule)
	defer rec.Flush()
	rec.Require("zero-total-weight", "result:error", "result:address", "via-toml", "legacy-libver", "leading-zero-net", "one-address-net", "mapped-cidr-present", "group-without-subnets-beside-others")
	env := &c14Env{dir: t.TempDir()}
	if c14Replay(t, rec, env) {
		return
	}
	rec.SetExhaustive(true)
	idx := 0
	for _, sh := range c14Shapes() {
		for _, viaToml := range []bool{false, true} {
			if viaToml && !sh.tomlToo {
				continue
			}
			idx++
			if !vh.Mine(idx) {
				continue
			}
			c := c14Case{Cfg: c14Config{Gens: sh.gens, ViaToml: viaToml}}
			for _, seed := range c14FixedSeeds() {
				for lv := uint(0); lv <= 4; lv++ {
					for _, fam := range []string{c14FamV4, c14FamV6} {
						c.Queries = append(c.Queries, c14Query{Entry: c14EntrySelect, Seed: seed, Gen: 1, LibVer: lv, Fam: fam, Note: sh.name})
						if len(sh.gens) == 2 && (sh.gens[0].Gen == 0 || sh.gens[1].Gen == 0) {
							for _, g := range []uint{0, 5, 6, 2} {
								c.Queries = append(c.Queries, c14Query{Entry: c14EntrySelect, Seed: seed, Gen: g, LibVer: lv, Fam: fam, Note: sh.name})
							}
						}
					}
				}
				for _, e := range []string{c14EntryClientW, c14EntryClientU} {
					for _, fam := range []string{c14FamV4, c14FamV6, c14FamAny} {
						c.Queries = append(c.Queries, c14Query{Entry: e, Seed: seed, Gen: 1, Fam: fam, Note: sh.name})
					}
				}
			}
			c14CheckCase(t, rec, env, c, "shape:"+sh.name)
		}
	}
}

// Every offset of small subnets -----------------------------------------------------------------------

type c14OffCfg struct {
	name   string
	groups []c14Group
}

func c14OffConfigs() []c14OffCfg {
	var out []c14OffCfg
	one := func(name string, subnets ...string) {
		out = append(out, c14OffCfg{name, []c14Group{{Weight: 1, Rand: 1, Subnets: subnets}}})
	}
	// single subnets: every small prefix length at an ordinary, a leading-zero and a top-of-space base
	for bits := 28; bits <= 32; bits++ {
		one(fmt.Sprintf("v4/%d", bits), fmt.Sprintf("192.0.2.%d/%d", 64, bits))
		one(fmt.Sprintf("v4/%d leading-zero", bits), fmt.Sprintf("0.0.7.%d/%d", 64, bits))
		one(fmt.Sprintf("v4/%d all-zero", bits), fmt.Sprintf("0.0.0.0/%d", bits))
		one(fmt.Sprintf("v4/%d top", bits), fmt.Sprintf("255.255.255.%d/%d", 256-(1<<(32-bits)), bits))
	}
	for bits := 124; bits <= 128; bits++ {
		one(fmt.Sprintf("v6/%d", bits), fmt.Sprintf("2001:db8::a0/%d", bits))
		one(fmt.Sprintf("v6/%d nat64", bits), fmt.Sprintf("64:ff9b::c000:240/%d", bits))
		one(fmt.Sprintf("v6/%d all-zero", bits), fmt.Sprintf("::/%d", bits))
		one(fmt.Sprintf("v6/%d top", bits), fmt.Sprintf("ffff:ffff:ffff:ffff:ffff:ffff:ffff:%x/%d", 0x10000-(1<<(128-bits)), bits))
	}
	// several subnets in one group: id ranges of different sizes, both families interleaved
	one("v4 mixed sizes", "192.0.2.0/30", "198.51.100.9/32", "203.0.113.8/29", "192.0.2.128/31")
	one("v6 mixed sizes", "2001:db8::/126", "2001:db8::9/128", "2001:db8::10/125", "2001:db8::80/127")
	one("families interleaved", "192.0.2.0/30", "2001:db8::/126", "0.0.0.8/31", "::8/127", "198.51.100.0/32", "2001:db8::ff/128")
	one("duplicates", "192.0.2.0/30", "192.0.2.0/30", "2001:db8::/126", "2001:db8::/126")
	one("overlap", "192.0.2.0/29", "192.0.2.4/30", "2001:db8::/125", "2001:db8::4/126")
	one("host bits set", "192.0.2.7/30", "2001:db8::7/126")
	// several groups: the group choice is part of the enumerated space
	out = append(out,
		c14OffCfg{"two groups 1:3, flags differ", []c14Group{
			{Weight: 1, Rand: 1, Subnets: []string{"192.0.2.0/30", "2001:db8::/126"}},
			{Weight: 3, Rand: 0, Subnets: []string{"198.51.100.0/31", "0.0.0.0/31", "2001:db8:1::/127", "::2/127"}}}},
		c14OffCfg{"three groups 0:2:2 (zero weight, tie)", []c14Group{
			{Weight: 0, Rand: 1, Subnets: []string{"203.0.113.0/30", "2001:db8:2::/126"}},
			{Weight: 2, Rand: 0, Subnets: []string{"192.0.2.0/31", "2001:db8::/127"}},
			{Weight: 2, Rand: 1, Subnets: []string{"198.51.100.0/31", "2001:db8:1::/127"}}}},
		c14OffCfg{"heavy first 9:1, one family each", []c14Group{
			{Weight: 9, Rand: 0, Subnets: []string{"192.0.2.0/30"}},
			{Weight: 1, Rand: 1, Subnets: []string{"2001:db8::/126"}}}},
	)
	return out
}

type c14OffCombo struct {
	entry  string
	libver uint
	fam    string
}

func c14OffCombos() []c14OffCombo {
	var out []c14OffCombo
	for _, lv := range []uint{2, 3, 4} {
		for _, fam := range []string{c14FamV4, c14FamV6} {
			out = append(out, c14OffCombo{c14EntrySelect, lv, fam})
		}
	}
	for _, e := range []string{c14EntryClientW, c14EntryClientU} {
		for _, fam := range []string{c14FamV4, c14FamV6, c14FamAny} {
			out = append(out, c14OffCombo{e, 0, fam})
		}
	}
	return out
}

// c14OffSpace lists the (group, subnet, offset) triples the reference can reach for a combination.
func c14OffSpace(groups []c14RefGroup, weighted bool, fam string) map[string]bool {
	space := map[string]bool{}
	addNets := func(gi int, nets []c14RefNet) {
		for k, n := range nets {
			sz := c14Size(n.p).Int64()
			for o := int64(0); o < sz; o++ {
				space[fmt.Sprintf("%d/%d/%d", gi, k, o)] = true
			}
		}
	}
	if !weighted {
		var nets []c14RefNet
		for _, g := range groups {
			n, _, _ := c14RefNets(g, fam)
			nets = append(nets, n...)
		}
		addNets(-1, nets)
		return space
	}
	for gi, g := range groups {
		if g.Weight == 0 || len(g.Subnets) == 0 {
			continue
		}
		n, _, _ := c14RefNets(g, fam)
		addNets(gi, n)
	}
	return space
}

func TestVerif_C14_offsets(t *testing.T) {
	rec := vh.NewRec("C14", "offsets", "exhaustive: 49 small-subnet configurations (every prefix length v4 /28-/32 and v6 /124-/128 at an ordinary, a leading-zero, an all-zero and a top-of-address-space base; multi-subnet, interleaved-family, duplicate, overlapping and multi-group configurations) x {Select libver 2,3,4 x v4,v6; SelectPhantom weighted/unweighted x v4,v6,any}; for each, seeds 0,1,2,... are searched in the reference until every reachable (group, subnet, offset) triple has been hit and the real selector is run on the first seed found for each triple (plus library versions 0 and 1 on the same seed, containment oracle only); "+c14Rule)
	defer rec.Flush()
	rec.Require("offset:top", "offset:bottom", "leading-zero-net", "one-address-net", "ref-equal", "legacy-libver", "ref-weight-tie", "randport-granted")
	env := &c14Env{dir: t.TempDir()}
	if c14Replay(t, rec, env) {
		return
	}
	rec.SetExhaustive(true)
	idx := 0
	triples := int64(0)
	for ci, oc := range c14OffConfigs() {
		cfg := c14Config{Gens: []c14GenCfg{{Gen: 7, Groups: oc.groups}}}
		c := c14Case{Cfg: cfg}
		b, err := c14Build(env, cfg)
		if err != nil {
			t.Fatalf("harness problem: %v", err)
		}
		dg := vh.Digest(cfg)
		for _, cb := range c14OffCombos() {
			idx++
			if !vh.Mine(idx) {
				continue
			}
			weighted := cb.entry != c14EntryClientU
			space := c14OffSpace(b.ref[7], weighted, cb.fam)
			if len(space) == 0 {
				rec.Class("empty-space")
				continue
			}
			hit := map[string]bool{}
			limit := 400*len(space) + 4000
			for i := 0; len(hit) < len(space); i++ {
				if i > limit {
					t.Fatalf("harness problem: %s/%v: only %d of %d (group, subnet, offset) triples reached after %d seeds", oc.name, cb, len(hit), len(space), i)
				}
				seed := make([]byte, 16)
				binary.BigEndian.PutUint64(seed, uint64(i))
				binary.BigEndian.PutUint32(seed[8:], uint32(ci))
				copy(seed[12:], "c14o")
				ref := c14RefSelect(b.ref[7], false, seed, weighted, cb.fam)
				if !ref.Defined {
					t.Fatalf("harness problem: reference undefined on an enumerated configuration %s: %s", oc.name, ref.Why)
				}
				fresh := false
				for _, a := range ref.Alts {
					if a.Err {
						continue
					}
					k := fmt.Sprintf("%d/%d/%v", a.Group, a.Net, a.Off)
					if !space[k] {
						t.Fatalf("harness problem: reference produced %s outside the computed space of %s", k, oc.name)
					}
					if !hit[k] && len(ref.Alts) == 1 {
						hit[k] = true
						fresh = true
					} else if !hit[k] {
						// a tie: either group may be taken; mark after seeing what the code chose
						fresh = true
					}
				}
				if !fresh {
					continue
				}
				q := c14Query{Entry: cb.entry, Seed: seed, Gen: 7, LibVer: cb.libver, Fam: cb.fam, Note: oc.name}
				_, v := c14Eval(t, rec, b, c, dg, q, "cfg:"+oc.name)
				if v.Ref != nil {
					hit[fmt.Sprintf("%d/%d/%v", v.Ref.Group, v.Ref.Net, v.Ref.Off)] = true
				} else {
					// error or (known) violation: this seed has been spent on all its alternatives
					for _, a := range ref.Alts {
						if !a.Err {
							hit[fmt.Sprintf("%d/%d/%v", a.Group, a.Net, a.Off)] = true
						}
					}
				}
				triples++
				if cb.entry == c14EntrySelect && cb.libver == 2 {
					for _, lv := range []uint{0, 1} {
						ql := q
						ql.LibVer = lv
						c14Eval(t, rec, b, c, dg, ql, "cfg:"+oc.name)
					}
				}
			}
		}
	}
	rec.Extra("triples_driven", triples)
}
