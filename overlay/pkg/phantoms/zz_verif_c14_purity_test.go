package phantoms

// C14 — purity under concurrency: a batch of selections run by G goroutines on shared selector
// objects must equal, element by element, the same batch run serially (and the serial batch must
// equal itself when repeated).
//
// The schedule is not controlled (the selector offers no seam between re-seeding and reading the
// random source), so this sub-check samples schedules by stress: all goroutines are released
// together and run back-to-back selections. A difference, once seen, is definitive: the serial
// result of every element has been computed twice and found stable before the concurrent pass.

import (
	"crypto/sha256"
	"encoding/binary"
	"encoding/json"
	"fmt"
	"os"
	"sync"
	"testing"

	"pgregory.net/rapid"
	"verif/harness/vh"
)

type c14PurityCase struct {
	Cfg       c14Config  `json:"cfg"`
	Templates []c14Query `json:"templates"` // Seed is filled per element
	SeedBase  vh.Hex     `json:"seed_base"`
	SeedLen   int        `json:"seed_len"`
	PerG      int        `json:"per_goroutine"` // selections per goroutine
	G         int        `json:"goroutines"`
	Mode      string     `json:"mode"`   // split: the batch is dealt out to the goroutines; same: every goroutine runs the whole batch
	Rounds    int        `json:"rounds"` // concurrent passes
}

func c14PuritySeed(base []byte, j, n int) []byte {
	var out []byte
	for blk := 0; len(out) < n; blk++ {
		h := sha256.New()
		h.Write(base)
		var ctr [8]byte
		binary.BigEndian.PutUint32(ctr[:4], uint32(j))
		binary.BigEndian.PutUint32(ctr[4:], uint32(blk))
		h.Write(ctr[:])
		out = h.Sum(out)
	}
	return out[:n]
}

func (c c14PurityCase) batch() []c14Query {
	n := c.PerG
	if c.Mode == "split" {
		n = c.PerG * c.G
	}
	qs := make([]c14Query, 0, n)
	for j := 0; len(qs) < n; j++ {
		for _, tpl := range c.Templates {
			if len(qs) == n {
				break
			}
			q := tpl
			q.Seed = c14PuritySeed(c.SeedBase, j, c.SeedLen)
			qs = append(qs, q)
		}
	}
	return qs
}

func c14GenPurity(rt *rapid.T) c14PurityCase {
	c := c14PurityCase{}
	c.Cfg = c14GenConfig(rt, !c14Rarely(rt, 5, "narrow"))
	var present []uint
	for _, g := range c.Cfg.Gens {
		if !g.Removed {
			present = append(present, g.Gen)
		}
	}
	nt := rapid.IntRange(1, 6).Draw(rt, "ntpl")
	for i := 0; i < nt; i++ {
		q := c14GenQuery(rt, c.Cfg)
		q.Seed = nil
		if len(present) > 0 {
			q.Gen = present[rapid.IntRange(0, len(present)-1).Draw(rt, "pgen")]
		}
		if i == 0 && !c14Rarely(rt, 5, "nolegacy") {
			q.Entry = c14EntrySelect
			q.LibVer = uint(rapid.IntRange(0, 1).Draw(rt, "legacyver"))
			if q.Fam == c14FamAny {
				q.Fam = c14FamV4
			}
		}
		c.Templates = append(c.Templates, q)
	}
	// selections that are expected to FAIL, mixed into the same batch: refusal paths (unknown or
	// removed generation, generation 0, no weight to distribute, no subnet of the family) must be as
	// goroutine-safe and as repeatable as successful selections
	if !c14Rarely(rt, 4, "nofailing") {
		c.Cfg.Gens = append(c.Cfg.Gens, c14FailGens()...)
		configured := map[uint]bool{}
		for _, g := range c.Cfg.Gens {
			configured[g.Gen] = true
		}
		nf := rapid.IntRange(1, 3).Draw(rt, "nfail")
		for i := 0; i < nf; i++ {
			q := c14GenQuery(rt, c.Cfg)
			q.Seed = nil
			if !c14Rarely(rt, 4, "failclient") {
				q.Entry = c14EntrySelect
				q.LibVer = rapid.SampledFrom([]uint{2, 0, 1, 4, 3}).Draw(rt, "faillibver")
			}
			if q.Fam == c14FamAny {
				q.Fam = c14FamV6
			}
			switch rapid.SampledFrom([]string{"unknown", "unknown", "gen0", "removed", "zero-weight", "no-family"}).Draw(rt, "failkind") {
			case "unknown":
				q.Gen = rapid.SampledFrom([]uint{3, 958, 77777, 5}).Draw(rt, "unkgen")
			case "gen0":
				q.Gen = 0
				if configured[0] {
					q.Gen = 6
				}
			case "removed":
				q.Gen = c14GenRemoved
			case "zero-weight":
				q.Gen = c14GenZeroWeight
			case "no-family":
				q.Gen, q.Fam = c14GenV4Only, c14FamV6
				if rapid.Bool().Draw(rt, "nofam4") {
					q.Gen, q.Fam = c14GenV6Only, c14FamV4
				}
			}
			c.Templates = append(c.Templates, q)
		}
	}
	c.SeedBase = rapid.SliceOfN(rapid.Byte(), 8, 8).Draw(rt, "seedbase")
	c.SeedLen = rapid.SampledFrom([]int{16, 16, 32, 8, 1, 40}).Draw(rt, "seedlen")
	c.G = rapid.SampledFrom([]int{2, 3, 4, 8, 8, 16, 32}).Draw(rt, "G")
	c.PerG = rapid.IntRange(50, vh.Pick(2000, 10000)).Draw(rt, "perG")
	c.Mode = rapid.SampledFrom([]string{"split", "split", "same"}).Draw(rt, "mode")
	if c.Mode == "same" && c.PerG > vh.Pick(1000, 4000) {
		c.PerG = vh.Pick(1000, 4000)
	}
	c.Rounds = rapid.IntRange(1, 2).Draw(rt, "rounds")
	return c
}

// Generations on which every selection (or every selection of one family) is refused.
const (
	c14GenZeroWeight uint = 4242
	c14GenRemoved    uint = 4243
	c14GenV4Only     uint = 4244
	c14GenV6Only     uint = 4245
)

func c14FailGens() []c14GenCfg {
	both := []string{"10.200.0.0/16", "2001:db8:c800::/64"}
	return []c14GenCfg{
		{Gen: c14GenZeroWeight, Groups: []c14Group{{Weight: 0, Rand: -1, Subnets: both}, {Weight: -1, Rand: 1, Subnets: []string{"10.201.0.0/16", "2001:db8:c801::/64"}}}},
		{Gen: c14GenRemoved, Removed: true, Groups: []c14Group{{Weight: 1, Rand: -1, Subnets: both}}},
		{Gen: c14GenV4Only, Groups: []c14Group{{Weight: 3, Rand: 1, Subnets: []string{"10.202.0.0/16"}}, {Weight: 1, Rand: 0, Subnets: []string{"10.203.0.0/16"}}}},
		{Gen: c14GenV6Only, Groups: []c14Group{{Weight: 3, Rand: 0, Subnets: []string{"2001:db8:c802::/64"}}, {Weight: 1, Rand: 1, Subnets: []string{"2001:db8:c803::/64"}}}},
	}
}

// c14InFlight writes the case about to be run concurrently straight to stderr (not through the test
// log, which is lost when the runtime aborts): an unrecoverable abort of the code under test
// ("fatal error: concurrent map writes") or a race-detector report is turned into a violation by
// vcheck from the process log, and this line is what makes that log a reproducer: put the JSON in a
// file as {"sub": ..., "case": ...} and pass it to --replay.
func c14InFlight(sub string, c any) {
	b, _ := json.Marshal(c)
	fmt.Fprintf(os.Stderr, "C14 %s: concurrent pass, in-flight case: %s\n", sub, b)
}

func c14RunSerial(b *c14Built, qs []c14Query) []c14Out {
	out := make([]c14Out, len(qs))
	for i, q := range qs {
		out[i] = c14Call(b, q)
	}
	return out
}

// c14RunConcurrent returns one result slice per "view": split mode has one view assembled from all
// goroutines, same mode has one view per goroutine.
func c14RunConcurrent(b *c14Built, qs []c14Query, g int, mode string) [][]c14Out {
	var wg sync.WaitGroup
	start := make(chan struct{})
	var views [][]c14Out
	if mode == "split" {
		views = [][]c14Out{make([]c14Out, len(qs))}
	} else {
		views = make([][]c14Out, g)
		for i := range views {
			views[i] = make([]c14Out, len(qs))
		}
	}
	for w := 0; w < g; w++ {
		wg.Add(1)
		go func(w int) {
			defer wg.Done()
			<-start
			if mode == "split" {
				for i := w; i < len(qs); i += g {
					views[0][i] = c14Call(b, qs[i])
				}
				return
			}
			// same: each goroutine walks the batch from a different starting point
			n := len(qs)
			for k := 0; k < n; k++ {
				i := (k + w*n/g) % n
				views[w][i] = c14Call(b, qs[i])
			}
		}(w)
	}
	close(start)
	wg.Wait()
	return views
}

func c14CheckPurity(t vh.Fataler, rec *vh.Rec, env *c14Env, c c14PurityCase, rounds int) {
	if c.G < 1 || c.PerG < 1 || len(c.Templates) == 0 || c.SeedLen < 0 {
		t.Fatalf("harness problem: malformed purity case")
	}
	b, err := c14Build(env, c.Cfg)
	if err != nil {
		t.Fatalf("harness problem: %v", err)
	}
	qs := c.batch()
	r1 := c14RunSerial(b, qs)
	classes := map[string]bool{fmt.Sprintf("G:%d", c.G): true, "mode:" + c.Mode: true}
	distinct := map[string]bool{}
	legacyOK, hkdfOK := false, false
	nErr, nErrUnknownGen := 0, 0
	for i, o := range r1 {
		if o.IsErr {
			nErr++
			if !b.has[qs[i].Gen] && qs[i].Entry == c14EntrySelect {
				nErrUnknownGen++
			}
		}
		legacy := qs[i].Entry == c14EntrySelect && qs[i].LibVer < 2
		if o.Panic == "" && !o.IsErr && !o.Nil {
			distinct[string(o.IP)] = true
			if legacy {
				legacyOK = true
			} else {
				hkdfOK = true
			}
		}
	}
	if legacyOK {
		classes["legacy-libver-selecting"] = true
	}
	if hkdfOK {
		classes["hkdf-libver-selecting"] = true
	}
	if len(distinct) >= 16 {
		classes["many-distinct-results"] = true
	}
	if c.Cfg.ViaToml {
		classes["via-toml"] = true
	}
	if nErr >= 2 && len(distinct) > 0 {
		classes["refusals-mixed-with-addresses"] = true
	}
	if nErrUnknownGen >= 2 {
		classes["unknown-generation-refusals"] = true
	}
	nontrivial := c.G >= 2 && len(distinct) >= 16
	rec.Case(nontrivial, vh.Digest(c), c, c14SortedKeys(classes)...)
	rec.ClassN("selections-per-pass", int64(len(qs)))

	r2 := c14RunSerial(b, qs)
	for i := range r1 {
		if !r1[i].same(r2[i]) {
			rec.Violation(t, "impure:repeat", c, "serial batch element %d %s gave %v, then %v when the batch was repeated", i, c14QStr(qs[i]), r1[i], r2[i])
			return
		}
	}
	c14InFlight("purity", c)
	for round := 0; round < rounds; round++ {
		views := c14RunConcurrent(b, qs, c.G, c.Mode)
		nd, first, firstView := 0, -1, 0
		ndLegacy := 0
		for vi, v := range views {
			for i := range v {
				if !r1[i].same(v[i]) {
					nd++
					if qs[i].Entry == c14EntrySelect && qs[i].LibVer < 2 {
						ndLegacy++
					}
					if first < 0 {
						first, firstView = i, vi
					}
				}
			}
		}
		rec.ClassN("selections-concurrent", int64(len(qs)*len(views)))
		if nd > 0 {
			key := "impure:concurrent"
			if ndLegacy == nd {
				key = "impure:concurrent-legacy-libver"
			}
			rec.Violation(t, key, c, "%d of %d selections run by %d goroutines (%s) differ from the serial batch (%d of them library version 0/1); e.g. element %d %s: serial %v, concurrent %v; config=%s",
				nd, len(qs)*len(views), c.G, c.Mode, ndLegacy, first, c14QStr(qs[first]), r1[first], views[firstView][first], c14CfgStr(c.Cfg, qs[first].Gen))
			return
		}
	}
}

func TestVerif_C14_purity(t *testing.T) {
	rec := vh.NewRec("C14", "purity", "rapid: a configuration (4 in 5 with wide subnets and positive weights so that different seeds give different addresses), 1-6 query templates (4 in 5 cases force a library version 0/1 template) plus, in 3 of 4 cases, 1-3 templates that are expected to be refused (unknown / removed generation, generation 0, zero-weight-only generation, generation without a subnet of the family), a batch of seeds expanded from a drawn base, G in {2,3,4,8,16,32} goroutines x 50..2000 (thorough 10000) selections each on one shared selector, released together; modes: batch dealt out over the goroutines / every goroutine runs the whole batch; oracle: serial batch == serial batch repeated == every concurrent pass, element-wise (error-ness, address bytes, port flag). one evaluation = one batch; non-trivial = >= 2 goroutines and >= 16 distinct addresses in the serial results; distinct = distinct batch description. Schedules are stress-sampled, not enumerated.")
	defer rec.Flush()
	rec.Require("legacy-libver-selecting", "hkdf-libver-selecting", "many-distinct-results", "mode:split", "mode:same", "refusals-mixed-with-addresses", "unknown-generation-refusals")
	env := &c14Env{dir: t.TempDir()}
	if p := vh.ReplayFile(); p != "" {
		var c c14PurityCase
		if _, _, err := vh.LoadReplay(p, &c); err != nil {
			t.Fatal(err)
		}
		// schedules are not part of the case: give a replay many more passes
		c14CheckPurity(t, rec, env, c, 25*c.Rounds)
		return
	}
	rapid.Check(t, func(rt *rapid.T) {
		c := c14GenPurity(rt)
		c14CheckPurity(rt, rec, env, c, c.Rounds)
	})
}
