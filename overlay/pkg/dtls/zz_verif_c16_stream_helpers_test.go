package dtls

// C16 — shared pieces of the four C16 sub-checks (all prefixed c16; file is only compiled for C16).
//
//   c16Stream   a scripted msgStream: the read side hands out a prepared list of (message, error)
//               results, then either a sticky sentinel error (script mode) or whatever the harness
//               feeds in real time (live mode, watchdog sub-check). The write side is a drain model:
//               accepted bytes are added to BufferedAmount and only the harness removes them; the
//               low-threshold callback fires exactly as pion/sctp fires it (crossing from above the
//               threshold to at-or-below it).
//   c16Canary   measures how late this process' timers fire, so that a time bound that is missed on
//               a stalled machine is reported as inconclusive and never as a violation.

import (
	"errors"
	"hash/fnv"
	"io"
	"net"
	"sync"
	"sync/atomic"
	"time"
)

var (
	c16ErrScriptEnd = errors.New("c16: end of script")
	c16ErrEOF       = io.EOF
	c16ErrReset     = errors.New("c16: injected stream error A")
	c16ErrOther     = errors.New("c16: injected stream error B")
)

// c16TimeoutErr looks like the read-deadline error of a stream (temporary, the stream goes on).
type c16TimeoutErr struct{}

func (c16TimeoutErr) Error() string   { return "c16: injected i/o timeout" }
func (c16TimeoutErr) Timeout() bool   { return true }
func (c16TimeoutErr) Temporary() bool { return true }

var c16ErrTimeout error = c16TimeoutErr{}

func c16ErrByIndex(i int) error {
	switch i % 4 {
	case 0:
		return c16ErrEOF
	case 1:
		return c16ErrTimeout
	case 2:
		return c16ErrReset
	}
	return c16ErrOther
}

// c16Chunk is one result of the scripted stream's Read.
type c16Chunk struct {
	data []byte
	err  error
	hb   bool // is a heartbeat (bookkeeping only)
}

type c16Stream struct {
	mu sync.Mutex

	// read side
	script      []c16Chunk
	pos         int
	feed        chan c16Chunk // nil: script mode (sentinel error after the script)
	shortBuf    int           // Read calls whose buffer was smaller than the next message (message lost, like pion)
	readAfterCl int32         // a Read was made after Close (the reader is about to stop)
	lastHB      time.Time     // when the last heartbeat was handed to the reader
	hbGiven     int
	honourDDL   bool
	rddl        time.Time

	closeOnce sync.Once
	closed    chan struct{}
	closeTime time.Time

	// write side (drain model)
	buffered    uint64
	maxBuffered uint64
	threshold   uint64
	onLow       func()
	wSizes      []int
	wSums       []uint64
	baCalls     chan struct{} // one token per BufferedAmount() call
	writeGate   func(n int)   // called (under no lock) when a Write arrives
}

func c16NewStream(script []c16Chunk, live bool) *c16Stream {
	s := &c16Stream{script: script, closed: make(chan struct{}), baCalls: make(chan struct{}, 1024)}
	if live {
		s.feed = make(chan c16Chunk)
	}
	return s
}

func (s *c16Stream) isClosed() bool {
	select {
	case <-s.closed:
		return true
	default:
		return false
	}
}

func (s *c16Stream) deliver(b []byte, ch c16Chunk) (int, error) {
	if len(b) < len(ch.data) {
		s.mu.Lock()
		s.shortBuf++
		s.mu.Unlock()
		return 0, io.ErrShortBuffer
	}
	n := copy(b, ch.data)
	if ch.hb {
		s.mu.Lock()
		s.lastHB = time.Now()
		s.hbGiven++
		s.mu.Unlock()
	}
	return n, ch.err
}

func (s *c16Stream) Read(b []byte) (int, error) {
	if s.isClosed() {
		atomic.StoreInt32(&s.readAfterCl, 1)
		return 0, net.ErrClosed
	}
	s.mu.Lock()
	if s.pos < len(s.script) {
		ch := s.script[s.pos]
		s.pos++
		s.mu.Unlock()
		return s.deliver(b, ch)
	}
	feed := s.feed
	var ddl time.Time
	if s.honourDDL {
		ddl = s.rddl
	}
	s.mu.Unlock()
	if feed == nil {
		return 0, c16ErrScriptEnd
	}
	var timer <-chan time.Time
	if !ddl.IsZero() {
		t := time.NewTimer(time.Until(ddl))
		defer t.Stop()
		timer = t.C
	}
	select {
	case ch := <-feed:
		return s.deliver(b, ch)
	case <-s.closed:
		atomic.StoreInt32(&s.readAfterCl, 1)
		return 0, net.ErrClosed
	case <-timer:
		return 0, c16ErrTimeout
	}
}

func (s *c16Stream) consumed() bool {
	s.mu.Lock()
	defer s.mu.Unlock()
	return s.pos >= len(s.script)
}

func (s *c16Stream) Close() error {
	s.closeOnce.Do(func() {
		s.mu.Lock()
		s.closeTime = time.Now()
		s.mu.Unlock()
		close(s.closed)
	})
	return nil
}

func (s *c16Stream) SetReadDeadline(t time.Time) error {
	s.mu.Lock()
	s.rddl = t
	s.mu.Unlock()
	return nil
}

func c16Sum(b []byte) uint64 {
	h := fnv.New64a()
	_, _ = h.Write(b)
	return h.Sum64()
}

func (s *c16Stream) Write(b []byte) (int, error) {
	if s.isClosed() {
		return 0, net.ErrClosed
	}
	if g := s.writeGate; g != nil {
		g(len(b))
	}
	s.mu.Lock()
	s.buffered += uint64(len(b))
	if s.buffered > s.maxBuffered {
		s.maxBuffered = s.buffered
	}
	s.wSizes = append(s.wSizes, len(b))
	s.wSums = append(s.wSums, c16Sum(b))
	s.mu.Unlock()
	return len(b), nil
}

func (s *c16Stream) BufferedAmount() uint64 {
	s.mu.Lock()
	v := s.buffered
	s.mu.Unlock()
	select {
	case s.baCalls <- struct{}{}:
	default:
	}
	return v
}

func (s *c16Stream) SetBufferedAmountLowThreshold(th uint64) {
	s.mu.Lock()
	s.threshold = th
	s.mu.Unlock()
}

func (s *c16Stream) OnBufferedAmountLow(f func()) {
	s.mu.Lock()
	s.onLow = f
	s.mu.Unlock()
}

// drain removes n bytes from the buffered amount (the "network" sent them) and fires the
// low-threshold callback the way pion/sctp does. It reports whether the callback fired.
func (s *c16Stream) drain(n uint64) bool {
	s.mu.Lock()
	from := s.buffered
	if n > s.buffered {
		n = s.buffered
	}
	s.buffered -= n
	fire := s.onLow != nil && from > s.threshold && s.buffered <= s.threshold
	f := s.onLow
	s.mu.Unlock()
	if fire {
		f()
	}
	return fire
}

func (s *c16Stream) writeCount() int {
	s.mu.Lock()
	defer s.mu.Unlock()
	return len(s.wSizes)
}

// c16NullConn is the net.Conn an SCTPConn closes / takes its addresses from.
type c16NullConn struct {
	closed int32
}

func (c *c16NullConn) Read([]byte) (int, error)         { return 0, io.EOF }
func (c *c16NullConn) Write(b []byte) (int, error)      { return len(b), nil }
func (c *c16NullConn) Close() error                     { atomic.StoreInt32(&c.closed, 1); return nil }
func (c *c16NullConn) LocalAddr() net.Addr              { return &net.UDPAddr{IP: net.IPv4(127, 0, 0, 1), Port: 1} }
func (c *c16NullConn) RemoteAddr() net.Addr             { return &net.UDPAddr{IP: net.IPv4(127, 0, 0, 1), Port: 2} }
func (c *c16NullConn) SetDeadline(time.Time) error      { return nil }
func (c *c16NullConn) SetReadDeadline(time.Time) error  { return nil }
func (c *c16NullConn) SetWriteDeadline(time.Time) error { return nil }

// c16Canary -----------------------------------------------------------------------------------------

type c16Canary struct {
	stop chan struct{}
	done chan struct{}
	max  int64 // worst observed lateness of a 2 ms sleep, ns
}

func c16StartCanary() *c16Canary {
	c := &c16Canary{stop: make(chan struct{}), done: make(chan struct{})}
	go func() {
		defer close(c.done)
		for {
			t0 := time.Now()
			select {
			case <-c.stop:
				return
			case <-time.After(2 * time.Millisecond):
			}
			late := int64(time.Since(t0) - 2*time.Millisecond)
			if late > atomic.LoadInt64(&c.max) {
				atomic.StoreInt64(&c.max, late)
			}
		}
	}()
	return c
}

// Stop ends the canary and returns the worst lateness it saw.
func (c *c16Canary) Stop() time.Duration {
	close(c.stop)
	<-c.done
	return time.Duration(atomic.LoadInt64(&c.max))
}

// c16Stalled is the lateness above which a missed time bound is blamed on the machine.
const c16Stalled = 150 * time.Millisecond

// c16Fill writes a position-dependent pattern: byte k of the overall data stream is a function of k
// only, so loss, duplication and reordering of any run of bytes changes the concatenation.
func c16Fill(dst []byte, streamOff int) {
	for i := range dst {
		k := uint32(streamOff + i)
		dst[i] = byte(k*2654435761>>24) ^ byte(k>>3)
	}
}
