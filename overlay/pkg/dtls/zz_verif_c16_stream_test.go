package dtls

// C16 sub-check 3 — the established connection is a lossless ordered byte stream whatever sizes
// reader and writer use: SCTPConn (and hbConn underneath it, as on the accept side) over a scripted
// message stream.
//
// Oracle (reference model = plain concatenation):
//   mode "sctp"  SCTPConn directly on the scripted stream. The script is a list of Read results
//                (message | error | message-with-error); errors are not terminal (a read deadline
//                is an ordinary stream error after which the stream goes on). The bytes returned by
//                Read, concatenated, must equal the concatenation of all messages, and the j-th
//                error must not be reported before all bytes that precede it in the script
//                (including the bytes that came with it) have been returned.
//   mode "hb"    SCTPConn on hbConn (heartbeatServer) on the scripted stream, as acceptSCTP builds
//                it. The script is messages and heartbeats followed by one terminal error. Reads
//                until the first error must return exactly the concatenation of the non-heartbeat
//                messages; an error while some of it is still undelivered is a violation.
// Messages whose payload equals the heartbeat constant are excluded by construction (in-band magic
// by design) and counted.

import (
	"bytes"
	"encoding/json"
	"fmt"
	"sync"
	"sync/atomic"
	"testing"
	"time"

	"pgregory.net/rapid"
	"verif/harness/vh"
)

type c16Item struct {
	K string `json:"k"`           // d data | h heartbeat | n near-heartbeat data | e error | de data+error
	N int    `json:"n,omitempty"` // size (d, de), size parameter (n)
	V int    `json:"v,omitempty"` // near-heartbeat variant (n) / error index (e, de)
}

type c16StreamCase struct {
	Mode   string    `json:"mode"` // sctp | hb
	Max    int       `json:"max"`  // maximum message size given to SCTPConn / hbConn
	HBLen  int       `json:"hb_len"`
	Items  []c16Item `json:"items"`
	Reads  []int     `json:"reads"` // read-buffer sizes, used cyclically
	Late   bool      `json:"late,omitempty"`
	EndErr int       `json:"end_err,omitempty"`
}

func c16HB(c c16StreamCase) []byte {
	if c.HBLen <= 0 {
		return defaultConfig.Heartbeat
	}
	hb := make([]byte, c.HBLen)
	for i := range hb {
		hb[i] = byte(0xA5 ^ (i * 37))
	}
	return hb
}

// c16Near builds a payload that resembles the heartbeat without being equal to it.
func c16Near(hb []byte, variant, n, max int) []byte {
	var p []byte
	extra := make([]byte, 1+n%5)
	for i := range extra {
		extra[i] = byte('x' + i)
	}
	switch variant % 5 {
	case 0: // heartbeat followed by more bytes
		p = append(append([]byte{}, hb...), extra...)
	case 1: // proper prefix of the heartbeat (possibly empty)
		p = append([]byte{}, hb[:n%len(hb)]...)
	case 2: // one byte changed
		p = append([]byte{}, hb...)
		p[n%len(hb)] ^= 0x20
	case 3: // bytes followed by the heartbeat
		p = append(append([]byte{}, extra...), hb...)
	case 4: // the heartbeat twice
		p = append(append([]byte{}, hb...), hb...)
	}
	if len(p) > max {
		p = p[:max]
	}
	if bytes.Equal(p, hb) {
		if len(p) == 0 {
			return p
		}
		p[len(p)-1] ^= 0x01
	}
	return p
}

type c16Marker struct {
	off int
	err error
}

type c16StreamPlan struct {
	chunks   []c16Chunk
	exp      []byte
	markers  []c16Marker // sctp mode: expected errors with the number of bytes that precede them
	excluded int
	hbCount  int
	nearCnt  int
	zeroLen  int
	maxLen   int
	dataErr  int
}

func c16BuildPlan(c c16StreamCase) c16StreamPlan {
	var p c16StreamPlan
	hb := c16HB(c)
	max := c.Max
	for _, it := range c.Items {
		n := it.N
		if n < 0 {
			n = 0
		}
		if n > max {
			n = max
		}
		switch it.K {
		case "h":
			if len(hb) > max {
				continue
			}
			p.hbCount++
			p.chunks = append(p.chunks, c16Chunk{data: hb, hb: true})
			if c.Mode == "sctp" { // SCTPConn alone does not filter: a heartbeat is an ordinary message
				p.exp = append(p.exp, hb...)
			}
		case "n":
			d := c16Near(hb, it.V, it.N, max)
			if bytes.Equal(d, hb) {
				p.excluded++
				continue
			}
			p.nearCnt++
			p.chunks = append(p.chunks, c16Chunk{data: d})
			p.exp = append(p.exp, d...)
		case "d", "de":
			d := make([]byte, n)
			c16Fill(d, len(p.exp))
			if bytes.Equal(d, hb) && c.Mode == "hb" {
				p.excluded++
				d[0] ^= 0xff
			}
			if n == 0 {
				p.zeroLen++
			}
			if n == max {
				p.maxLen++
			}
			ch := c16Chunk{data: d}
			p.exp = append(p.exp, d...)
			if it.K == "de" {
				if c.Mode == "hb" {
					// data that arrives together with an error is outside hbConn's input domain
					// (pion/sctp never returns both); the item is fed as plain data.
				} else {
					ch.err = c16ErrByIndex(it.V)
					p.dataErr++
					p.markers = append(p.markers, c16Marker{len(p.exp), ch.err})
				}
			}
			p.chunks = append(p.chunks, ch)
		case "e":
			if c.Mode == "hb" {
				continue // only the terminal error exists in hb mode
			}
			e := c16ErrByIndex(it.V)
			p.chunks = append(p.chunks, c16Chunk{err: e})
			p.markers = append(p.markers, c16Marker{len(p.exp), e})
		}
	}
	if c.Mode == "hb" {
		p.chunks = append(p.chunks, c16Chunk{err: c16ErrByIndex(c.EndErr)})
	}
	return p
}

type c16StreamStats struct {
	classes map[string]bool
	nontriv bool
}

func (s *c16StreamStats) set(c string) { s.classes[c] = true }

func c16FirstDiff(a, b []byte) int {
	n := len(a)
	if len(b) < n {
		n = len(b)
	}
	for i := 0; i < n; i++ {
		if a[i] != b[i] {
			return i
		}
	}
	return n
}

func c16Window(b []byte, at int) string {
	lo, hi := at-4, at+12
	if lo < 0 {
		lo = 0
	}
	if hi > len(b) {
		hi = len(b)
	}
	if lo > hi {
		lo = hi
	}
	return fmt.Sprintf("%x", b[lo:hi])
}

// c16StreamRun runs the case and returns a violation key ("" = held, "harness" = harness trouble).
func c16StreamRun(c c16StreamCase) (key, msg string, st c16StreamStats) {
	st.classes = map[string]bool{}
	if c.Max < 1 || len(c.Reads) == 0 {
		return "harness", "malformed case", st
	}
	for _, r := range c.Reads {
		if r < 1 {
			return "harness", "malformed case: read size < 1", st
		}
	}
	plan := c16BuildPlan(c)
	st.set("mode-" + c.Mode)
	if plan.hbCount > 0 {
		st.set("heartbeats-interleaved")
	}
	if plan.nearCnt > 0 {
		st.set("near-heartbeat-payload")
	}
	if plan.zeroLen > 0 {
		st.set("zero-length-message")
	}
	if plan.maxLen > 0 {
		st.set("max-size-message")
	}
	if plan.excluded > 0 {
		st.set("excluded-equals-heartbeat")
	}
	stream := c16NewStream(plan.chunks, false)
	nc := &c16NullConn{}
	maxBuf := 0
	for _, r := range c.Reads {
		if r > maxBuf {
			maxBuf = r
		}
	}
	buf := make([]byte, maxBuf)
	hb := c16HB(c)

	if c.Mode == "sctp" {
		sc := newSCTPConn(stream, nc, uint64(c.Max))
		defer sc.Close()
		var obs []byte
		var marks []c16Marker
		limit := len(plan.exp) + len(plan.chunks) + 8
		ended := false
		for i := 0; i < limit; i++ {
			sz := c.Reads[i%len(c.Reads)]
			wasEmpty := sc.readOffset == sc.readLength
			n, err := sc.Read(buf[:sz])
			if n < 0 || n > sz {
				return "stream:bad-count", fmt.Sprintf("Read(len %d) returned n=%d", sz, n), st
			}
			obs = append(obs, buf[:n]...)
			if wasEmpty && sz >= c.Max {
				st.set("bypass-read")
			}
			if sc.readOffset < sc.readLength {
				st.set("partial-read")
				st.nontriv = true
				if sc.readErr != nil {
					st.set("error-after-buffered-data")
				}
			}
			if err != nil {
				if err == c16ErrScriptEnd {
					ended = true
					break
				}
				marks = append(marks, c16Marker{len(obs), err})
				j := len(marks) - 1
				if j < len(plan.markers) && len(obs) < plan.markers[j].off {
					return "stream:error-before-data", fmt.Sprintf("error #%d (%v) was returned after %d bytes, but %d bytes precede it in the stream (read sizes %v, max %d)",
						j, err, len(obs), plan.markers[j].off, c.Reads, c.Max), st
				}
			}
			if len(obs) > len(plan.exp) {
				break
			}
		}
		if !bytes.Equal(obs, plan.exp) {
			d := c16FirstDiff(obs, plan.exp)
			return "stream:bytes-differ", fmt.Sprintf("Read results differ from the concatenation of the messages at byte %d (got %d bytes, want %d; got ..%s.. want ..%s..)",
				d, len(obs), len(plan.exp), c16Window(obs, d), c16Window(plan.exp, d)), st
		}
		if stream.shortBuf > 0 {
			return "stream:short-buffer", "the stream was read with a buffer smaller than the next message", st
		}
		if !ended {
			return "harness", "all bytes seen but the end-of-script sentinel never surfaced", st
		}
		return "", "", st
	}

	// mode hb: SCTPConn over hbConn over the scripted stream, as acceptSCTP builds it
	var conf *heartbeatConfig
	if c.HBLen > 0 {
		conf = &heartbeatConfig{Interval: time.Hour, Heartbeat: hb}
	} else {
		conf = &heartbeatConfig{Interval: time.Hour}
	}
	hc, err := heartbeatServer(stream, conf, c.Max)
	if err != nil {
		return "harness", "heartbeatServer: " + err.Error(), st
	}
	sc := newSCTPConn(hc, nc, uint64(c.Max))
	var timedOut int32
	guard := time.AfterFunc(c16StreamStall, func() { atomic.StoreInt32(&timedOut, 1); sc.Close() })
	defer func() {
		guard.Stop()
		sc.Close()
		// let the receive loop finish: it may be parked on a full queue
		for i := 0; i < 2000 && atomic.LoadInt32(&stream.readAfterCl) == 0 && !stream.consumed(); i++ {
			select {
			case <-hc.recvCh:
			default:
				time.Sleep(50 * time.Microsecond)
			}
		}
	}()
	if c.Late {
		// the reader turns up only after the receive loop has taken everything it can
		for i := 0; i < 40000; i++ {
			if (stream.consumed() && c16HBClosed(hc)) || len(hc.recvCh) == cap(hc.recvCh) {
				break
			}
			time.Sleep(50 * time.Microsecond)
		}
		if stream.consumed() && c16HBClosed(hc) && len(hc.recvCh) > 0 {
			st.set("error-after-buffered-data")
			st.nontriv = true
		}
	}
	var obs []byte
	var firstErr error
	for i := 0; ; i++ {
		sz := c.Reads[i%len(c.Reads)]
		if sc.readOffset == sc.readLength && sz >= c.Max {
			st.set("bypass-read")
		}
		n, err := sc.Read(buf[:sz])
		if n < 0 || n > sz {
			return "stream:bad-count", fmt.Sprintf("Read(len %d) returned n=%d", sz, n), st
		}
		obs = append(obs, buf[:n]...)
		if sc.readOffset < sc.readLength {
			st.set("partial-read")
			st.nontriv = true
		}
		if err != nil {
			firstErr = err
			break
		}
		if len(obs) > len(plan.exp)+c.Max {
			break
		}
	}
	if atomic.LoadInt32(&timedOut) == 1 {
		if d := c16FirstDiff(obs, plan.exp); d < len(obs) {
			return "stream:bytes-differ", fmt.Sprintf("Read results differ from the concatenation of the non-heartbeat messages at byte %d (got ..%s.. want ..%s..), and the reader then stalled",
				d, c16Window(obs, d), c16Window(plan.exp, d)), st
		}
		if stream.consumed() {
			// the code under test has taken every message and the terminal error from the stream, and
			// the reader was still waiting c16StreamStall later
			return "slow:stream:reader-stalled", fmt.Sprintf("the stream had handed over all %d messages and its terminal error, but %v later Read had returned only %d of %d bytes and no error",
				len(plan.chunks)-1, c16StreamStall, len(obs), len(plan.exp)), st
		}
		return "harness", fmt.Sprintf("hb-mode case did not finish within %v", c16StreamStall), st
	}
	if !bytes.Equal(obs, plan.exp) {
		d := c16FirstDiff(obs, plan.exp)
		if d == len(obs) && firstErr != nil {
			// strict prefix, then an error: did the rest still come out afterwards?
			after := 0
			for i := 0; i < 12; i++ {
				n, _ := sc.Read(buf[:c.Reads[i%len(c.Reads)]])
				after += n
			}
			if after > 0 {
				return "stream:error-before-data", fmt.Sprintf("Read returned %v after %d of %d bytes although the remaining bytes had arrived before the stream error (another %d bytes were returned by later reads): queued data is overtaken by the close",
					firstErr, len(obs), len(plan.exp), after), st
			}
			return "stream:data-lost", fmt.Sprintf("Read returned %v after %d of %d bytes; the rest of the data that preceded the stream error never surfaced (next expected ..%s..)",
				firstErr, len(obs), len(plan.exp), c16Window(plan.exp, d)), st
		}
		if d+len(hb) <= len(obs) && bytes.Equal(obs[d:d+len(hb)], hb) {
			return "stream:heartbeat-surfaced", fmt.Sprintf("a heartbeat payload was returned as data at byte %d", d), st
		}
		return "stream:bytes-differ", fmt.Sprintf("Read results differ from the concatenation of the non-heartbeat messages at byte %d (got %d bytes, want %d; got ..%s.. want ..%s..)",
			d, len(obs), len(plan.exp), c16Window(obs, d), c16Window(plan.exp, d)), st
	}
	if stream.shortBuf > 0 {
		return "stream:short-buffer", "the stream was read with a buffer smaller than the next message", st
	}
	if firstErr == nil {
		return "harness", "hb-mode read loop ended without an error", st
	}
	return "", "", st
}

func c16HBClosed(c *hbConn) bool {
	select {
	case <-c.closed:
		return true
	default:
		return false
	}
}

var c16StreamFailed int32

const c16StreamStall = 20 * time.Second

func c16StreamCheck(t vh.Fataler, rec *vh.Rec, c c16StreamCase) {
	// the hb mode contains a real goroutine schedule (receive loop vs reader); run it a few times
	runs := 1
	if c.Mode == "hb" {
		runs = 3
		if atomic.LoadInt32(&c16StreamFailed) == 1 && len(c.Items) <= 40 {
			runs = 12 // after a first failure (i.e. while shrinking): make a schedule-dependent failure (nearly) reproducible
		}
	}
	var st c16StreamStats
	key, msg, extra := c16Timed(2*time.Second, func() (string, string, map[string]bool) {
		var k, m string
		for i := 0; i < runs; i++ {
			k, m, st = c16StreamRun(c)
			if k != "" {
				break
			}
		}
		return k, m, map[string]bool{}
	})
	for k := range extra {
		st.classes[k] = true
	}
	var classes []string
	for k := range st.classes {
		classes = append(classes, k)
	}
	rec.Case(st.nontriv, vh.Digest(c), c16Shorten(c), classes...)
	if key == "harness" {
		t.Fatalf("harness problem: %s", msg)
	}
	if key != "" {
		atomic.StoreInt32(&c16StreamFailed, 1)
		// Report the smallest failing case known for this key: rapid's shrinking is hampered by the
		// real goroutine schedule of the hb mode (a smaller case may pass by luck), so the first
		// failure is also reduced by hand, and a larger failing case never replaces a smaller one.
		c16StreamBestMu.Lock()
		best, known := c16StreamBest[key]
		c16StreamBestMu.Unlock()
		if !known && key != "stream:reader-stalled" {
			best = c16StreamReduce(c, key)
		} else if !known || c16StreamSize(c) < c16StreamSize(best) {
			best = c
		}
		c16StreamBestMu.Lock()
		c16StreamBest[key] = best
		c16StreamBestMu.Unlock()
		if c16StreamSize(best) < c16StreamSize(c) {
			for i := 0; i < 24; i++ {
				if k, m, _ := c16StreamRun(best); k == key {
					c, msg = best, m
					break
				}
			}
		}
		rec.Violation(t, key, c, "%s; mode=%s max=%d items=%d reads=%v", msg, c.Mode, c.Max, len(c.Items), c.Reads)
	}
}

var (
	c16StreamBestMu sync.Mutex
	c16StreamBest   = map[string]c16StreamCase{}
)

func c16StreamSize(c c16StreamCase) int {
	b, _ := json.Marshal(c)
	return len(b)
}

func c16StreamFails(c c16StreamCase, key string) bool {
	runs := 1
	if c.Mode == "hb" {
		runs = 3
		if len(c.Items) <= 60 {
			runs = 12
		}
	}
	for i := 0; i < runs; i++ {
		if k, _, _ := c16StreamRun(c); k == key {
			return true
		}
	}
	return false
}

// c16StreamReduce is a small delta-debugging pass over a failing case (bounded by wall time; the
// result is only used if it still fails with the same key).
func c16StreamReduce(c c16StreamCase, key string) c16StreamCase {
	end := time.Now().Add(8 * time.Second)
	try := func(cand c16StreamCase) bool {
		if time.Now().After(end) || len(cand.Reads) == 0 {
			return false
		}
		return c16StreamFails(cand, key)
	}
	clone := func(c c16StreamCase) c16StreamCase {
		c.Items = append([]c16Item(nil), c.Items...)
		c.Reads = append([]int(nil), c.Reads...)
		return c
	}
	for chunk := (len(c.Items) + 1) / 2; chunk >= 1; chunk /= 2 {
		for start := 0; start < len(c.Items); {
			e := start + chunk
			if e > len(c.Items) {
				e = len(c.Items)
			}
			cand := clone(c)
			cand.Items = append(cand.Items[:start], cand.Items[e:]...)
			if try(cand) {
				c = cand
			} else {
				start += chunk
			}
		}
	}
	for _, r := range [][]int{{1}, {c.Reads[0]}, {c.Reads[len(c.Reads)-1]}} {
		cand := clone(c)
		cand.Reads = r
		if try(cand) {
			c = cand
			break
		}
	}
	for i := range c.Items {
		if c.Items[i].N > 1 {
			cand := clone(c)
			cand.Items[i].N = 1
			if try(cand) {
				c = cand
			}
		}
	}
	for _, m := range []int{4, 40, 1024} {
		if m < c.Max && (c.HBLen > 0 || m >= len(defaultConfig.Heartbeat)) {
			cand := clone(c)
			cand.Max = m
			if cand.HBLen > m {
				cand.HBLen = m
			}
			if try(cand) {
				c = cand
				break
			}
		}
	}
	return c
}

// c16Shorten keeps evidence samples small.
func c16Shorten(c c16StreamCase) c16StreamCase {
	if len(c.Items) > 12 {
		c.Items = c.Items[:12]
	}
	return c
}

func c16SizeGen(rt *rapid.T, max int, label string) int {
	switch rapid.IntRange(0, 9).Draw(rt, label+"-cls") {
	case 0:
		return 0
	case 1:
		return 1
	case 2:
		return max
	case 3:
		if max > 1 {
			return max - 1
		}
		return 1
	case 4, 5:
		if max > 4096 {
			return rapid.IntRange(0, max).Draw(rt, label)
		}
	}
	hi := max
	if hi > 96 {
		hi = 96
	}
	return rapid.IntRange(0, hi).Draw(rt, label)
}

func c16StreamGen(rt *rapid.T) c16StreamCase {
	c := c16StreamCase{}
	c.Mode = rapid.SampledFrom([]string{"sctp", "hb", "hb"}).Draw(rt, "mode")
	c.Max = rapid.SampledFrom([]int{4, 33, 40, 64, 1024, 65536, 65536}).Draw(rt, "max")
	if c.Max < 40 || rapid.IntRange(0, 3).Draw(rt, "customhb") == 0 {
		hi := c.Max
		if hi > 8 {
			hi = 8
		}
		c.HBLen = rapid.IntRange(1, hi).Draw(rt, "hblen")
	}
	n := rapid.IntRange(0, 30).Draw(rt, "nitems")
	if c.Mode == "hb" && rapid.IntRange(0, 5).Draw(rt, "long") == 0 {
		n = rapid.IntRange(60, 150).Draw(rt, "nitems-long") // more than the 64-entry receive queue
	}
	big := 0
	for i := 0; i < n; i++ {
		var kinds []string
		if c.Mode == "sctp" {
			kinds = []string{"d", "d", "d", "h", "n", "e", "de", "de"}
		} else {
			kinds = []string{"d", "d", "d", "h", "h", "n", "n"}
		}
		it := c16Item{K: rapid.SampledFrom(kinds).Draw(rt, "kind")}
		switch it.K {
		case "d", "de":
			it.N = c16SizeGen(rt, c.Max, "size")
			if it.N > 4096 {
				big++
				if big > 6 {
					it.N = it.N % 97
				}
			}
			if it.K == "de" {
				it.V = rapid.IntRange(0, 3).Draw(rt, "err")
			}
		case "n":
			it.V = rapid.IntRange(0, 4).Draw(rt, "variant")
			it.N = rapid.IntRange(0, 64).Draw(rt, "nparam")
		case "e":
			it.V = rapid.IntRange(0, 3).Draw(rt, "err")
		}
		c.Items = append(c.Items, it)
	}
	nr := rapid.IntRange(1, 6).Draw(rt, "nreads")
	for i := 0; i < nr; i++ {
		var r int
		switch rapid.IntRange(0, 9).Draw(rt, "rcls") {
		case 0:
			r = 1
		case 1:
			r = 2
		case 2:
			r = c.Max
		case 3:
			r = c.Max + 1
		case 4:
			r = c.Max - 1
		case 5:
			r = 2*c.Max + 3
		case 6:
			r = rapid.IntRange(1, 2*c.Max).Draw(rt, "rsize")
		default:
			r = rapid.IntRange(1, 48).Draw(rt, "rsmall")
		}
		if r < 1 {
			r = 1
		}
		c.Reads = append(c.Reads, r)
	}
	// tiny reads over large streams cost time without adding anything: bound the number of calls
	total := 0
	for _, it := range c.Items {
		total += it.N
	}
	minR := c.Reads[0]
	for _, r := range c.Reads {
		if r < minR {
			minR = r
		}
	}
	if total/minR > 200000 {
		for i := range c.Reads {
			if c.Reads[i] < 64 {
				c.Reads[i] += 61
			}
		}
	}
	if c.Mode == "hb" {
		c.Late = rapid.Bool().Draw(rt, "late")
		c.EndErr = rapid.IntRange(0, 3).Draw(rt, "enderr")
	}
	return c
}

func TestVerif_C16_stream(t *testing.T) {
	rec := vh.NewRec("C16", "stream", "rapid-generated scripts for a scripted message stream: 0-150 items (data of size 0..max, heartbeat, near-heartbeat payloads, error, data+error) x 1-6 cyclic read-buffer sizes (1 .. 2*max+3) x max message size {4,33,40,64,1024,65536} x {SCTPConn alone, SCTPConn over hbConn with early/late reader}; oracle = plain concatenation; non-trivial = some Read was smaller than the pending message or an error arrived behind buffered data; distinct by case")
	defer rec.Flush()
	rec.Require("mode-sctp", "mode-hb", "partial-read", "error-after-buffered-data", "bypass-read", "heartbeats-interleaved", "near-heartbeat-payload", "zero-length-message", "max-size-message")
	if p := vh.ReplayFile(); p != "" {
		var c c16StreamCase
		if _, _, err := vh.LoadReplay(p, &c); err != nil {
			t.Fatal(err)
		}
		for i := 0; i < 20; i++ { // the hb mode races a receive loop against the reader
			c16StreamCheck(t, rec, c)
		}
		return
	}
	rapid.Check(t, func(rt *rapid.T) {
		c := c16StreamGen(rt)
		c16StreamCheck(rt, rec, c)
	})
}
