package dtls

// C16 — helpers for the sub-checks that run real handshakes (credentials, routing): a Listener on a
// loopback UDP port, secret-tagged message exchange over an established connection, and error
// classification (a time-out is never evidence of anything).

import (
	"context"
	"crypto/sha256"
	"encoding/hex"
	"errors"
	"fmt"
	"io"
	"net"
	"os"
	"strings"
	"sync"
	"sync/atomic"
	"time"

	"github.com/pion/dtls/v2/pkg/protocol/handshake"
)

type c16Lis struct {
	l        *Listener
	addr     *net.UDPAddr
	authFail int64
}

var (
	c16SharedOnce sync.Once
	c16SharedLis  *c16Lis
	c16SharedErr  error
)

// c16Shared returns the one Listener of this test process. Like the station's, it lives as long as
// the process: the UDP listener underneath (pion/transport fork) panics ("WaitGroup is reused before
// previous Wait has returned") when Close races with a late datagram from an earlier peer, which has
// nothing to do with the property, so the harness never closes it.
func c16Shared() (*c16Lis, error) {
	c16SharedOnce.Do(func() { c16SharedLis, c16SharedErr = c16Listen() })
	return c16SharedLis, c16SharedErr
}

func c16Listen() (*c16Lis, error) {
	cl := &c16Lis{}
	logf := func(*net.IP) { atomic.AddInt64(&cl.authFail, 1) }
	l, err := Listen("udp", &net.UDPAddr{IP: net.IPv4(127, 0, 0, 1), Port: 0}, &Config{LogAuthFail: logf, LogOther: logf})
	if err != nil {
		return nil, err
	}
	ua, ok := l.Addr().(*net.UDPAddr)
	if !ok {
		l.Close()
		return nil, fmt.Errorf("listener address is %T", l.Addr())
	}
	cl.l = l
	cl.addr = &net.UDPAddr{IP: net.IPv4(127, 0, 0, 1), Port: ua.Port}
	return cl, nil
}

// registered reports how the secret is currently registered: in connToCert, in connMap.
func (cl *c16Lis) registered(secret []byte) (cert, ch bool) {
	id, err := clientHelloRandomFromSeed(secret)
	if err != nil {
		return false, false
	}
	cl.l.connToCertMutex.Lock()
	_, cert = cl.l.connToCert[id]
	cl.l.connToCertMutex.Unlock()
	cl.l.connMapMutex.Lock()
	_, ch = cl.l.connMap[id]
	cl.l.connMapMutex.Unlock()
	return
}

func (cl *c16Lis) mapSizes() (certs, chans int) {
	cl.l.connToCertMutex.Lock()
	certs = len(cl.l.connToCert)
	cl.l.connToCertMutex.Unlock()
	cl.l.connMapMutex.Lock()
	chans = len(cl.l.connMap)
	cl.l.connMapMutex.Unlock()
	return
}

// leakedSecrets names which of the given secrets are still registered.
func (cl *c16Lis) leakedSecrets(secrets [][]byte) []int {
	var out []int
	for i, s := range secrets {
		a, b := cl.registered(s)
		if a || b {
			out = append(out, i)
		}
	}
	return out
}

var _ = handshake.RandomBytesLength

const c16TagLen = 40

// c16Tag is the message a party sends over an established connection: it names the secret the party
// used. role is 'D' (dialer) or 'A' (acceptor).
func c16Tag(role byte, secret []byte, call int) []byte {
	h := sha256.Sum256(append([]byte("c16-tag|"), secret...))
	s := fmt.Sprintf("C16%c|%s|%06d|", role, hex.EncodeToString(h[:12]), call)
	for len(s) < c16TagLen {
		s += "."
	}
	return []byte(s[:c16TagLen])
}

func c16TagSecret(tag []byte) string {
	p := strings.Split(string(tag), "|")
	if len(p) < 3 || len(p[0]) != 4 || p[0][:3] != "C16" {
		return ""
	}
	return p[1]
}

func c16SecretID(secret []byte) string {
	return c16TagSecret(c16Tag('D', secret, 0))
}

// c16ReadTag reads one tag with a guard: the accept side's read deadline cannot be used (hbConn's
// receive loop owns it), so the guard closes the connection instead.
func c16ReadTag(conn net.Conn, wait time.Duration) ([]byte, error) {
	var fired int32
	g := time.AfterFunc(wait, func() { atomic.StoreInt32(&fired, 1); conn.Close() })
	defer g.Stop()
	buf := make([]byte, c16TagLen)
	_, err := io.ReadFull(conn, buf)
	if err != nil {
		if atomic.LoadInt32(&fired) == 1 {
			return nil, fmt.Errorf("c16: tag read timed out: %w", os.ErrDeadlineExceeded)
		}
		return nil, err
	}
	return buf, nil
}

// c16IsTimeout reports whether err is (or probably is) the consequence of a deadline or a cancelled
// context rather than of a decision taken by the code under test.
func c16IsTimeout(err error) bool {
	if err == nil {
		return false
	}
	if errors.Is(err, context.DeadlineExceeded) || errors.Is(err, context.Canceled) || errors.Is(err, os.ErrDeadlineExceeded) {
		return true
	}
	var ne net.Error
	if errors.As(err, &ne) && ne.Timeout() {
		return true
	}
	s := strings.ToLower(err.Error())
	return strings.Contains(s, "timeout") || strings.Contains(s, "timed out") || strings.Contains(s, "deadline") || strings.Contains(s, "closed before")
}

func c16DeriveSecret(salt, idx int) []byte {
	h := sha256.Sum256([]byte(fmt.Sprintf("c16-routing-secret|%d|%d", salt, idx)))
	return h[:]
}

// c16SlowKey returns the verdict prefix for a failure of something that should have worked:
// "tmo:" when a time-out caused it (never counts), "slow:" otherwise (counts when seen twice).
func c16SlowKey(err error) string {
	if err == nil || c16IsTimeout(err) {
		return "tmo:"
	}
	return "slow:"
}

// c16WriteTag writes one tag with a guard that closes the connection when the write does not return
// (a Write stuck in flow control must not hang the harness; Close releases it).
func c16WriteTag(conn net.Conn, tag []byte, wait time.Duration) error {
	var fired int32
	g := time.AfterFunc(wait, func() { atomic.StoreInt32(&fired, 1); conn.Close() })
	defer g.Stop()
	n, err := conn.Write(tag)
	if atomic.LoadInt32(&fired) == 1 {
		return fmt.Errorf("c16: tag write timed out: %w", os.ErrDeadlineExceeded)
	}
	if err == nil && n != len(tag) {
		return fmt.Errorf("c16: short tag write %d/%d", n, len(tag))
	}
	return err
}
