package dtls

// C16 sub-check 2 — with many sessions accepted concurrently on the shared Listener each accepted
// connection is delivered to the caller waiting for that secret and to no other; an accept that is
// cancelled leaves nothing registered.
//
// A scenario is a set of 2-32 sessions that run concurrently on one Listener over loopback UDP, each
// with its own secret and with drawn start offsets (arrival order) of its calls:
//   pair          Accept(s) and Dial(s); the dial starts once s is registered (or at its own offset,
//                 possibly before the accept: "early dial")
//   cancel        Accept(s) and Dial(s), the accept's context is cancelled at a drawn moment: before the
//                 call, around the handshake, or long after it
//   lonely        Accept(s) with no dial at all, cancelled at a drawn moment
//   unregistered  Dial(s) for a secret nobody accepts
//   dup           Accept(s); once it is registered a second Accept(s) (must fail, must not disturb the
//                 first); then Dial(s), which the first acceptor must be able to receive
//   twodials      Accept(s) and two concurrent Dial(s)
// Every party that obtains a connection sends a message naming the secret it used and reads the
// peer's. Oracle:
//   wrong-acceptor            an acceptor/dialer reads a message naming another secret than its own
//   accept-without-dial       an acceptor obtains a connection although nobody dialled with its secret
//   unregistered-dial-completed  a dial with a secret nobody registered completes
//   duplicate-accept-*        the second acceptor of a waiting secret does not fail, or its failure
//                             removes the first one's registration
//   registration-leaked       after every Accept call has returned, connMap / connToCert still hold
//                             an entry of this scenario
// Sessions that fail because of a time-out or a cancellation are inconclusive, never violations.

import (
	"context"
	"fmt"
	"net"
	"os"
	"sort"
	"sync"
	"sync/atomic"
	"testing"
	"time"

	"pgregory.net/rapid"
	"verif/harness/vh"
)

type c16Sess struct {
	Kind     string `json:"kind"`
	AcceptMs int    `json:"accept_ms"`          // start offset of the accept call
	DialMs   int    `json:"dial_ms"`            // start offset of the dial call(s)
	WaitReg  bool   `json:"wait_reg,omitempty"` // the dial does not start before the secret is registered
	CancelMs int    `json:"cancel_ms"`          // cancel/lonely: -1 = before the call, else this long after the accept started
	Deadline bool   `json:"deadline,omitempty"` // the accept context carries a deadline instead of a plain cancel
}

type c16RouteCase struct {
	Salt     int       `json:"salt"`
	Sessions []c16Sess `json:"sessions"`
}

type c16Party struct {
	sess     int
	role     byte // 'A' first acceptor, 'B' duplicate acceptor, 'D' dialer, 'E' second dialer
	started  time.Time
	returned time.Time
	err      error
	conn     net.Conn
	peerTag  []byte
	xerr     error
}

const (
	c16DialWait      = 6 * time.Second
	c16DialWaitShort = 1500 * time.Millisecond
	c16DupWait       = 10 * time.Second
	c16RouteGrace    = 3 * time.Second
	c16RouteHard     = 25 * time.Second // far deadline of every accept context that may be handed a connection
)

var c16RouteRuns int64

type c16RouteOut struct {
	key, msg  string
	classes   map[string]bool
	delivered int
	overlap   int
	notes     []string
}

func c16RouteRun(c c16RouteCase) (out c16RouteOut) {
	out.classes = map[string]bool{}
	cl, err := c16Shared()
	if err != nil {
		out.key, out.msg = "harness", "listen: "+err.Error()
		return
	}
	n := len(c.Sessions)
	secrets := make([][]byte, n)
	run := int(atomic.AddInt64(&c16RouteRuns, 1)) // secrets are never reused on the shared listener
	for i := range secrets {
		secrets[i] = c16DeriveSecret(c.Salt^(run<<32), i)
	}
	if l := cl.leakedSecrets(secrets); len(l) > 0 {
		out.key, out.msg = "harness", "secrets of this scenario are already registered on the shared listener"
		return
	}
	var mu sync.Mutex
	var parties []*c16Party
	var cancels []context.CancelFunc
	addParty := func(p *c16Party) {
		mu.Lock()
		parties = append(parties, p)
		mu.Unlock()
	}
	var acceptWG, dialWG sync.WaitGroup
	t0 := time.Now()
	sleepUntil := func(ms int) { time.Sleep(time.Until(t0.Add(time.Duration(ms) * time.Millisecond))) }
	accReturned := make([]int32, n) // the first acceptor of session i has returned
	waitRegistered := func(i int, limit time.Duration) bool {
		end := time.Now().Add(limit)
		for time.Now().Before(end) {
			if a, b := cl.registered(secrets[i]); a && b {
				return true
			}
			if atomic.LoadInt32(&accReturned[i]) == 1 {
				return false
			}
			time.Sleep(200 * time.Microsecond)
		}
		return false
	}
	var vmu sync.Mutex
	setClass := func(k string) {
		vmu.Lock()
		out.classes[k] = true
		vmu.Unlock()
	}
	violate := func(key, msg string) {
		vmu.Lock()
		if out.key == "" {
			out.key, out.msg = key, msg
		}
		vmu.Unlock()
	}

	exchange := func(p *c16Party, secret []byte) {
		// the dialer talks first
		if p.role == 'D' || p.role == 'E' {
			if err := c16WriteTag(p.conn, c16Tag('D', secret, p.sess), c16TagWait); err != nil {
				p.xerr = err
				return
			}
			p.peerTag, p.xerr = c16ReadTag(p.conn, c16TagWait)
			return
		}
		p.peerTag, p.xerr = c16ReadTag(p.conn, c16TagWait)
		if p.xerr != nil {
			return
		}
		if err := c16WriteTag(p.conn, c16Tag('A', secret, p.sess), c16TagWait); err != nil {
			p.xerr = err
		}
	}

	accept := func(i int, role byte, s c16Sess, ctx context.Context) *c16Party {
		p := &c16Party{sess: i, role: role, started: time.Now()}
		conn, err := cl.l.AcceptWithContext(ctx, &Config{PSK: secrets[i], SCTP: ServerAccept})
		p.returned = time.Now()
		p.conn, p.err = conn, err
		if conn != nil && err == nil {
			exchange(p, secrets[i])
		}
		addParty(p)
		return p
	}
	dial := func(i int, role byte) *c16Party {
		p := &c16Party{sess: i, role: role, started: time.Now()}
		// A dial whose handshake completed but whose acceptor went away (cancelled, or served the other
		// dialer) sits in the SCTP set-up until its deadline: keep that short where it is expected.
		wait := c16DialWait
		if k := c.Sessions[i].Kind; k == "twodials" || k == "cancel" {
			wait = c16DialWaitShort
		}
		ctx, cancel := context.WithTimeout(context.Background(), wait)
		defer cancel()
		conn, err := DialWithContext(ctx, cl.addr, &Config{PSK: secrets[i], SCTP: ClientOpen})
		p.returned = time.Now()
		p.conn, p.err = conn, err
		if conn != nil && err == nil {
			exchange(p, secrets[i])
		}
		addParty(p)
		return p
	}

	for i, s := range c.Sessions {
		i, s := i, s
		setClass("kind-" + s.Kind)
		hasAccept := s.Kind != "unregistered"
		hasDial := s.Kind != "lonely"
		var actx context.Context
		var acancel context.CancelFunc
		if hasAccept {
			if s.Deadline && (s.Kind == "cancel" || s.Kind == "lonely") && s.CancelMs >= 0 {
				actx, acancel = context.WithDeadline(context.Background(), t0.Add(time.Duration(s.AcceptMs+s.CancelMs)*time.Millisecond))
				setClass("accept-with-deadline")
			} else {
				if s.Kind == "lonely" || (s.Kind == "cancel" && s.CancelMs < 0) {
					actx, acancel = context.WithCancel(context.Background()) // can never be handed a connection
				} else {
					// Once AcceptWithContext has been handed the DTLS connection it only honours the
					// context's *deadline* (SCTP set-up ignores cancellation): if the dialer has given up
					// in the meantime a plain cancel context would block the call for ever. Every
					// acceptor that may receive a connection therefore carries a far deadline as well.
					actx, acancel = context.WithDeadline(context.Background(), t0.Add(c16RouteHard))
				}
			}
			mu.Lock()
			cancels = append(cancels, acancel)
			mu.Unlock()
		}
		dupDone := make(chan struct{})
		if hasAccept {
			acceptWG.Add(1)
			go func() {
				defer acceptWG.Done()
				sleepUntil(s.AcceptMs)
				if s.Kind == "cancel" || s.Kind == "lonely" {
					if s.CancelMs < 0 {
						acancel()
						setClass("cancel-before")
					} else if !s.Deadline {
						tm := time.AfterFunc(time.Duration(s.CancelMs)*time.Millisecond, acancel)
						defer tm.Stop()
					}
				}
				accept(i, 'A', s, actx)
				atomic.StoreInt32(&accReturned[i], 1)
			}()
		}
		if s.Kind == "dup" {
			acceptWG.Add(1)
			go func() {
				defer acceptWG.Done()
				defer close(dupDone)
				sleepUntil(s.AcceptMs)
				if !waitRegistered(i, 5*time.Second) {
					setClass("dup-first-never-registered")
					return
				}
				ctx, cancel := context.WithTimeout(context.Background(), c16DupWait)
				defer cancel()
				p := accept(i, 'B', s, ctx)
				if atomic.LoadInt32(&accReturned[i]) == 1 {
					// the first acceptor is no longer waiting (it cannot have been served by this
					// scenario's own dial, which starts later): whatever happened to the second one says
					// nothing about duplicates
					setClass("dup-first-acceptor-finished-early")
					return
				}
				if p.err == nil {
					violate("routing:duplicate-accept-not-rejected", fmt.Sprintf("session %d: a second Accept for a secret that already has a waiting acceptor returned a connection", i))
					return
				}
				if c16IsTimeout(p.err) {
					// it registered and waited (or was otherwise stuck) until its context ran out
					violate("routing:duplicate-accept-not-rejected", fmt.Sprintf("session %d: a second Accept for a secret that already has a waiting acceptor did not fail; it waited until its context expired after %v (%v)", i, p.returned.Sub(p.started), p.err))
					return
				}
				setClass("duplicate-accept-rejected")
				if a, b := cl.registered(secrets[i]); !a || !b {
					violate("routing:duplicate-accept-disturbed-first", fmt.Sprintf("session %d: after the duplicate Accept failed the first acceptor's registration is gone (certificate registered=%v, channel registered=%v)", i, a, b))
				}
			}()
		}
		if hasDial {
			nd := 1
			if s.Kind == "twodials" {
				nd = 2
			}
			for k := 0; k < nd; k++ {
				role := byte('D')
				if k == 1 {
					role = 'E'
				}
				dialWG.Add(1)
				go func() {
					defer dialWG.Done()
					sleepUntil(s.DialMs)
					if s.Kind == "dup" {
						<-dupDone
					} else if s.WaitReg && hasAccept {
						waitRegistered(i, 3*time.Second)
					}
					dial(i, role)
				}()
			}
		}
	}

	dialWG.Wait()
	if os.Getenv("C16_DEBUG") != "" {
		fmt.Printf("c16 debug: dials done after %v\n", time.Since(t0))
	}
	// give acceptors whose dialer succeeded a moment to return, then cancel whatever still waits
	graceEnd := time.Now().Add(c16RouteGrace)
	for time.Now().Before(graceEnd) {
		mu.Lock()
		okDial := map[int]bool{}
		accDone := map[int]bool{}
		for _, p := range parties {
			if (p.role == 'D' || p.role == 'E') && p.err == nil {
				okDial[p.sess] = true
			}
			if p.role == 'A' {
				accDone[p.sess] = true
			}
		}
		mu.Unlock()
		pending := false
		for sidx := range okDial {
			if !accDone[sidx] {
				pending = true
			}
		}
		if !pending {
			break
		}
		time.Sleep(2 * time.Millisecond)
	}
	mu.Lock()
	for _, cf := range cancels {
		cf()
	}
	mu.Unlock()
	accDone := make(chan struct{})
	go func() { acceptWG.Wait(); close(accDone) }()
	select {
	case <-accDone:
	case <-time.After(c16RouteHard + 60*time.Second):
		out.key, out.msg = "harness", "Accept calls did not return after their contexts were cancelled and their deadlines had passed"
		return
	}
	if os.Getenv("C16_DEBUG") != "" {
		fmt.Printf("c16 debug: accepts done after %v\n", time.Since(t0))
		for _, p := range parties {
			fmt.Printf("   sess %d %s role %c: %v..%v err=%v xerr=%v\n", p.sess, c.Sessions[p.sess].Kind, p.role, p.started.Sub(t0), p.returned.Sub(t0), p.err, p.xerr)
		}
	}

	// every Accept call has returned: nothing of this scenario may still be registered
	leaked := cl.leakedSecrets(secrets)
	mu.Lock()
	defer mu.Unlock()
	defer func() {
		for _, p := range parties {
			if p.conn != nil {
				p.conn.Close()
			}
		}
	}()
	if out.key != "" {
		return
	}
	if len(leaked) > 0 {
		kinds := []string{}
		for _, i := range leaked {
			a, b := cl.registered(secrets[i])
			kinds = append(kinds, fmt.Sprintf("session %d (%s, cancel_ms=%d): certificate=%v channel=%v", i, c.Sessions[i].Kind, c.Sessions[i].CancelMs, a, b))
		}
		// do not let the leak poison later cases on the shared listener
		for _, i := range leaked {
			id, _ := clientHelloRandomFromSeed(secrets[i])
			cl.l.removeCert(id)
			cl.l.removeChannel(id)
		}
		out.key, out.msg = "routing:registration-leaked", "after every Accept call returned the listener still holds registrations: "+fmt.Sprint(kinds)
		return
	}

	// who dialled with which secret
	dialled := map[int]bool{}
	for i, s := range c.Sessions {
		if s.Kind != "lonely" {
			dialled[i] = true
		}
	}
	type iv struct{ a, b time.Time }
	var ivs []iv
	sort.Slice(parties, func(a, b int) bool {
		if parties[a].sess != parties[b].sess {
			return parties[a].sess < parties[b].sess
		}
		return parties[a].role < parties[b].role
	})
	for _, p := range parties {
		s := c.Sessions[p.sess]
		own := c16SecretID(secrets[p.sess])
		switch p.role {
		case 'A', 'B':
			if p.err == nil && p.conn != nil {
				if !dialled[p.sess] {
					out.key, out.msg = "routing:accept-without-dial", fmt.Sprintf("session %d (%s): Accept returned a connection although nobody dialled with its secret", p.sess, s.Kind)
					return
				}
				if p.xerr == nil {
					if got := c16TagSecret(p.peerTag); got == "" {
						out.key, out.msg = "routing:message-garbled", fmt.Sprintf("session %d (%s): the acceptor read %q", p.sess, s.Kind, p.peerTag)
						return
					} else if got != own {
						out.key, out.msg = "routing:wrong-acceptor", fmt.Sprintf("session %d (%s): the acceptor waiting for secret %s was handed a connection whose dialer used secret %s (message %q)", p.sess, s.Kind, own, got, p.peerTag)
						return
					}
					out.delivered++
					out.classes["delivered"] = true
					ivs = append(ivs, iv{p.started, p.returned})
					if s.Kind == "dup" {
						out.classes["first-acceptor-served-after-duplicate"] = true
					}
					if s.Kind == "cancel" && s.CancelMs >= 0 {
						out.classes["cancel-after-or-lost-race"] = true
					}
				} else {
					out.classes["inconclusive-exchange-failed"] = true
					out.notes = append(out.notes, fmt.Sprintf("exchange failed on the accept side of a %s session: %v", s.Kind, p.xerr))
				}
			} else {
				if s.Kind == "cancel" || s.Kind == "lonely" {
					out.classes["accept-cancelled"] = true
					if s.CancelMs >= 0 && dialled[p.sess] {
						out.classes["cancel-during"] = true
					}
				} else if p.role == 'A' {
					out.classes["inconclusive-accept-failed"] = true
				}
			}
		case 'D', 'E':
			if p.err == nil && p.conn != nil {
				if s.Kind == "unregistered" {
					out.key, out.msg = "routing:unregistered-dial-completed", fmt.Sprintf("session %d: Dial with a secret that no acceptor registered completed", p.sess)
					return
				}
				if p.xerr == nil {
					if got := c16TagSecret(p.peerTag); got == "" {
						out.key, out.msg = "routing:message-garbled", fmt.Sprintf("session %d (%s): the dialer read %q", p.sess, s.Kind, p.peerTag)
						return
					} else if got != own {
						out.key, out.msg = "routing:wrong-acceptor", fmt.Sprintf("session %d (%s): the dialer using secret %s was answered by an acceptor using secret %s (message %q)", p.sess, s.Kind, own, got, p.peerTag)
						return
					}
				}
			} else if s.Kind == "unregistered" {
				out.classes["unregistered-dial-refused"] = true
			} else if s.Kind == "pair" && s.WaitReg {
				out.classes["inconclusive-dial-failed"] = true
				out.notes = append(out.notes, fmt.Sprintf("pair dial failed after %v (started %v after the scenario began, %d sessions): %v", p.returned.Sub(p.started).Round(time.Millisecond), p.started.Sub(t0).Round(time.Millisecond), n, p.err))
			}
		}
	}
	// sessions overlapping in time: two delivered acceptors whose waits intersect
	for a := 0; a < len(ivs); a++ {
		for b := a + 1; b < len(ivs); b++ {
			if ivs[a].a.Before(ivs[b].b) && ivs[b].a.Before(ivs[a].b) {
				out.overlap++
			}
		}
	}
	if out.overlap > 0 {
		out.classes["sessions-overlap"] = true
	}
	return
}

func c16RouteCheck(t vh.Fataler, rec *vh.Rec, c c16RouteCase) {
	if len(c.Sessions) < 1 || len(c.Sessions) > 64 {
		t.Fatalf("harness problem: malformed routing case")
	}
	out := c16RouteRun(c)
	var classes []string
	for k := range out.classes {
		classes = append(classes, k)
	}
	classes = append(classes, fmt.Sprintf("sessions-%02d+", len(c.Sessions)/8*8))
	rec.Case(out.overlap > 0, vh.Digest(c), c, classes...)
	rec.ClassN("connections-delivered", int64(out.delivered))
	for i, nt := range out.notes {
		if i < 3 {
			rec.Note("inconclusive: %s", nt)
		}
	}
	if out.key == "harness" {
		t.Fatalf("harness problem: %s", out.msg)
	}
	if out.key != "" {
		rec.Violation(t, out.key, c, "%s", out.msg)
	}
}

func c16RouteGen(rt *rapid.T, maxN int) c16RouteCase {
	c := c16RouteCase{Salt: rapid.IntRange(0, 1<<30).Draw(rt, "salt")}
	n := rapid.IntRange(2, maxN).Draw(rt, "sessions")
	if rapid.IntRange(0, 2).Draw(rt, "full") == 0 {
		n = maxN
	}
	span := 10 + 4*n // ms over which the calls arrive
	kinds := []string{"pair", "pair", "pair", "pair", "cancel", "cancel", "lonely", "unregistered", "dup", "twodials"}
	for i := 0; i < n; i++ {
		s := c16Sess{}
		switch i { // the first sessions fix the mix every scenario must contain
		case 0, 1:
			s.Kind = "pair"
		case 2:
			s.Kind = "dup"
		case 3:
			s.Kind = "cancel"
		case 4:
			s.Kind = "unregistered"
		case 5:
			s.Kind = "lonely"
		default:
			s.Kind = rapid.SampledFrom(kinds).Draw(rt, "kind")
		}
		s.AcceptMs = rapid.IntRange(0, span).Draw(rt, "accept-at")
		s.DialMs = rapid.IntRange(0, span+10).Draw(rt, "dial-at")
		s.WaitReg = rapid.IntRange(0, 4).Draw(rt, "wait-reg") != 0
		switch s.Kind {
		case "cancel":
			switch rapid.IntRange(0, 3).Draw(rt, "cancel-cls") {
			case 0:
				s.CancelMs = -1
			case 1, 2: // around the handshake of its dial
				d := s.DialMs - s.AcceptMs
				if d < 0 {
					d = 0
				}
				s.CancelMs = d + rapid.IntRange(0, 12).Draw(rt, "cancel-around")
			default:
				s.CancelMs = 1500 + rapid.IntRange(0, 500).Draw(rt, "cancel-late")
			}
			s.Deadline = rapid.Bool().Draw(rt, "deadline")
		case "lonely":
			if rapid.IntRange(0, 2).Draw(rt, "lonely-before") == 0 {
				s.CancelMs = -1
			} else {
				s.CancelMs = rapid.IntRange(0, span+30).Draw(rt, "lonely-cancel")
			}
			s.Deadline = rapid.Bool().Draw(rt, "deadline")
		}
		c.Sessions = append(c.Sessions, s)
	}
	return c
}

func TestVerif_C16_routing(t *testing.T) {
	maxN := vh.Pick(8, 32)
	rec := vh.NewRec("C16", "routing", fmt.Sprintf("rapid-generated scenarios of 2-%d concurrent sessions on one Listener over loopback UDP: kinds pair / cancel (before, around the handshake, long after; cancel or deadline context) / lonely accept / unregistered dial / duplicate accept / two dials for one acceptor, each call with a drawn start offset, dial optionally gated on the registration; every obtained connection carries a message naming the sender's secret; non-trivial = at least two delivered sessions whose accept waits overlapped in time; distinct by scenario", maxN))
	defer rec.Flush()
	rec.Require("delivered", "sessions-overlap", "kind-dup", "duplicate-accept-rejected", "first-acceptor-served-after-duplicate", "kind-unregistered", "unregistered-dial-refused", "accept-cancelled", "cancel-before", "kind-lonely", "kind-cancel")
	if p := vh.ReplayFile(); p != "" {
		var c c16RouteCase
		if _, _, err := vh.LoadReplay(p, &c); err != nil {
			t.Fatal(err)
		}
		for i := 0; i < 5; i++ { // real goroutine schedules: a few attempts
			c.Salt += i
			c16RouteCheck(t, rec, c)
		}
		return
	}
	rapid.Check(t, func(rt *rapid.T) {
		c := c16RouteGen(rt, maxN)
		c16RouteCheck(rt, rec, c)
	})
}
