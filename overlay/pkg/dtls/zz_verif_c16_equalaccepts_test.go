package dtls

// C16 sub-check "equalaccepts" — the duplicate-secret case under a real race: k (2-32) callers ask the
// shared Listener for the SAME secret at the same instant (released from a spin barrier), with a few
// callers for other secrets around them. Whatever the schedule:
//   * exactly one caller is admitted, the others fail at once ("fails cleanly");
//   * a dial for that secret is then handed to the admitted caller (whoever it is) - the failing
//     duplicates must not take away what it needs for that;
//   * once every call has returned nothing of the round is registered any more.
// The round is cheap (no handshake until the dial), so a case is a batch of many rounds with a fresh
// secret each. The verdict comes from the dial alone. The listener's maps are only consulted (after the
// registration has had time to settle) to decide in which rounds the dial is worth its cost: always when
// the admitted caller's certificate entry is missing; otherwise the dial is made in every round of the batches that use Accept (no
// context: a dial is the only thing that releases the caller) and in every n-th round of the batches that
// use AcceptWithContext (the others release the caller by cancelling).
//   routing:duplicate-accept-disturbed-first   the dial for the secret is refused and the admitted caller is
//                                              not served (its registration was taken away)
//   routing:duplicate-accept-not-rejected      more than one caller stays admitted for one secret
//   routing:accept-without-dial                a caller obtained a connection nobody dialled
//   routing:registration-leaked                something is still registered after all calls returned
// A dial that times out, or fails while both map entries were present, is inconclusive.

import (
	"context"
	"fmt"
	"net"
	"runtime"
	"sync"
	"sync/atomic"
	"testing"
	"time"

	"verif/harness/vh"
)

type c16EqCase struct {
	K         int  `json:"k"`          // simultaneous callers for the one secret
	Others    int  `json:"others"`     // callers for other secrets released from the same barrier
	Rounds    int  `json:"rounds"`     // rounds in this batch
	ViaAccept bool `json:"via_accept"` // Accept (no context) instead of AcceptWithContext
	DialEvery int  `json:"dial_every"` // AcceptWithContext batches: dial in every n-th round
}

type c16EqRes struct {
	conn net.Conn
	err  error
}

var c16EqCounter int64

type c16EqOut struct {
	key, msg string
	classes  map[string]bool
	rounds   int
	dials    int
}

func c16EqRun(c c16EqCase) (out c16EqOut) {
	out.classes = map[string]bool{}
	cl, err := c16Shared()
	if err != nil {
		out.key, out.msg = "harness", "listen: "+err.Error()
		return
	}
	if c.ViaAccept {
		out.classes["via-Accept"] = true
	} else {
		out.classes["via-AcceptWithContext"] = true
	}
	for round := 0; round < c.Rounds; round++ {
		if k, m := c16EqRound(cl, c, round, &out); k != "" {
			out.key, out.msg = k, fmt.Sprintf("round %d of the batch (k=%d, others=%d, via_accept=%v): %s", round, c.K, c.Others, c.ViaAccept, m)
			return
		}
		out.rounds++
	}
	return
}

func c16EqRound(cl *c16Lis, c c16EqCase, round int, out *c16EqOut) (key, msg string) {
	id := int(atomic.AddInt64(&c16EqCounter, 1))
	secret := c16DeriveSecret(0xE9A1, id*64)
	others := make([][]byte, c.Others)
	for i := range others {
		others[i] = c16DeriveSecret(0xE9A1, id*64+1+i)
	}
	// a far deadline keeps every context-bearing caller releasable even if it is handed a connection
	ctx, cancel := context.WithTimeout(context.Background(), 30*time.Second)
	defer cancel()
	octx, ocancel := context.WithCancel(context.Background())
	defer ocancel()

	results := make(chan c16EqRes, c.K)
	oresults := make(chan c16EqRes, c.Others+1)
	var ready sync.WaitGroup
	var gate int32
	spin := func() {
		ready.Done()
		for atomic.LoadInt32(&gate) == 0 {
			runtime.Gosched()
		}
	}
	ready.Add(c.K + c.Others)
	for i := 0; i < c.K; i++ {
		go func() {
			cfg := &Config{PSK: secret, SCTP: ServerAccept}
			spin()
			var r c16EqRes
			if c.ViaAccept {
				r.conn, r.err = cl.l.Accept(cfg)
			} else {
				r.conn, r.err = cl.l.AcceptWithContext(ctx, cfg)
			}
			results <- r
		}()
	}
	for i := 0; i < c.Others; i++ {
		i := i
		go func() {
			cfg := &Config{PSK: others[i], SCTP: ServerAccept}
			spin()
			conn, err := cl.l.AcceptWithContext(octx, cfg)
			oresults <- c16EqRes{conn, err}
		}()
	}
	ready.Wait()
	atomic.StoreInt32(&gate, 1)

	// rescue releases a caller that can only be released by a connection (Accept without context)
	// after its registration was taken away: put a certificate pair back and dial
	rescue := func() {
		cc, sc, err := certsFromSeed(secret)
		if err != nil {
			return
		}
		idr, _ := clientHelloRandomFromSeed(secret)
		cl.l.connToCertMutex.Lock()
		cl.l.connToCert[idr] = &certPair{clientCert: cc, serverCert: sc}
		cl.l.connToCertMutex.Unlock()
		dctx, dcancel := context.WithTimeout(context.Background(), 6*time.Second)
		if dc, err := DialWithContext(dctx, cl.addr, &Config{PSK: secret, SCTP: ClientOpen}); err == nil {
			defer dc.Close()
		}
		dcancel()
		select {
		case r := <-results:
			if r.conn != nil {
				r.conn.Close()
			}
		case <-time.After(8 * time.Second):
		}
		cl.l.removeCert(idr)
		cl.l.removeChannel(idr)
	}
	finishOthers := func() {
		ocancel()
		for i := 0; i < c.Others; i++ {
			r := <-oresults
			if r.conn != nil {
				r.conn.Close()
			}
		}
	}

	// all but one must be refused at once
	refused := 0
	wait := time.NewTimer(15 * time.Second)
	defer wait.Stop()
	for refused < c.K-1 {
		select {
		case r := <-results:
			if r.err == nil {
				if r.conn != nil {
					r.conn.Close()
				}
				cancel()
				finishOthers()
				return "routing:accept-without-dial", "an Accept for the contended secret returned a connection although nobody had dialled"
			}
			if c16IsTimeout(r.err) {
				cancel()
				finishOthers()
				return "harness", fmt.Sprintf("a caller returned %v before anything was cancelled", r.err)
			}
			refused++
		case <-wait.C:
			// more than one caller is still inside Accept: two admitted for one secret (or a stuck call)
			admitted := c.K - refused
			cancel()
			if c.ViaAccept {
				for i := 0; i < admitted; i++ {
					rescue()
				}
			} else {
				for i := 0; i < admitted; i++ {
					r := <-results
					if r.conn != nil {
						r.conn.Close()
					}
				}
			}
			finishOthers()
			return "slow:routing:duplicate-accept-not-rejected", fmt.Sprintf("15 s after %d simultaneous Accepts for one secret %d of them were still admitted (want exactly 1)", c.K, admitted)
		}
	}
	out.classes["duplicates-refused"] = true

	// The admitted caller is still inside Accept. Whether it keeps what it needs is judged by what the
	// property states - the dial for its secret must reach it - and never by the listener's maps: those
	// are only looked at to decide when the confirming dial is worth making. A look right after the
	// refusals is not synchronised with the admitted caller, which may legitimately still be between
	// registering its certificate and registering its channel, so wait for the registration to settle:
	// complete (both entries), or the channel without the certificate (the shape the admitted caller
	// never passes through on its own), or a generous time-out.
	var certOK, chOK bool
	for j := 0; ; j++ {
		certOK, chOK = cl.registered(secret)
		if (certOK && chOK) || (chOK && !certOK) || j >= 50000 {
			break
		}
		time.Sleep(100 * time.Microsecond)
	}
	intact := certOK && chOK
	for _, s := range others {
		if a, b := cl.registered(s); !a || !b {
			// not (yet) registered: bystanders only provide contention and take part in the final
			// nothing-left-registered check; no verdict from a map
			out.classes["bystander-not-yet-registered"] = true
		}
	}
	doDial := !intact || c.ViaAccept || (c.DialEvery > 0 && round%c.DialEvery == 0)
	var admitted c16EqRes
	got := false
	var derr error
	if doDial {
		out.dials++
		dctx, dcancel := context.WithTimeout(context.Background(), 6*time.Second)
		dc, err := DialWithContext(dctx, cl.addr, &Config{PSK: secret, SCTP: ClientOpen})
		dcancel()
		derr = err
		if dc != nil {
			defer dc.Close()
		}
		if err == nil {
			select {
			case admitted = <-results:
				got = true
			case <-time.After(6 * time.Second):
			}
		}
	}
	if !got {
		// release the caller: cancel (context) or rescue (no context)
		cancel()
		if c.ViaAccept {
			rescue()
		} else {
			admitted = <-results // a connection may still have arrived in the meantime
			got = true
		}
	}
	if admitted.conn != nil {
		defer admitted.conn.Close()
	}
	finishOthers()
	served := doDial && derr == nil && got && admitted.err == nil && admitted.conn != nil
	switch {
	case !doDial:
		out.classes["admitted-caller-released-by-cancel"] = true
	case served:
		out.classes["admitted-caller-served"] = true
		if !intact {
			out.classes["served-although-maps-looked-incomplete"] = true
		}
	case !intact && derr != nil && !c16IsTimeout(derr):
		// the dial was refused (not timed out) while the one admitted caller was waiting for it
		return "routing:duplicate-accept-disturbed-first", fmt.Sprintf("after %d of %d simultaneous Accepts for one secret had failed as duplicates, the dial for that secret was refused (%v) and the caller still waiting was not served (%v); at that time the listener held for the secret: certificate registered=%v, channel registered=%v - the failing duplicates took the admitted caller's registration away",
			refused, c.K, derr, admitted.err, certOK, chOK)
	default:
		out.classes["inconclusive-dial-failed"] = true
	}
	if c.Others > 0 {
		out.classes["bystanders-present"] = true
	}
	// every call has returned: nothing of this round may be registered
	if l := cl.leakedSecrets(append([][]byte{secret}, others...)); len(l) > 0 {
		for _, i := range l {
			s := secret
			if i > 0 {
				s = others[i-1]
			}
			idr, _ := clientHelloRandomFromSeed(s)
			cl.l.removeCert(idr)
			cl.l.removeChannel(idr)
		}
		return "routing:registration-leaked", fmt.Sprintf("after every Accept call of the round returned, %d of its secrets are still registered (index 0 = the contended one): %v", len(l), l)
	}
	return "", ""
}

type c16EqDone struct {
	c        c16EqCase
	out      c16EqOut
	key, msg string
	classes  map[string]bool
}

func c16EqEval(c c16EqCase) c16EqDone {
	d := c16EqDone{c: c}
	d.key, d.msg, d.classes = c16Timed(c16Stalled, func() (string, string, map[string]bool) {
		d.out = c16EqRun(c)
		return d.out.key, d.out.msg, d.out.classes
	})
	return d
}

// c16EqReport records one evaluated batch (test goroutine only).
func c16EqReport(t vh.Fataler, rec *vh.Rec, d c16EqDone) {
	var classes []string
	for k := range d.classes {
		classes = append(classes, k)
	}
	classes = append(classes, fmt.Sprintf("k-%02d+", d.c.K/8*8))
	rec.Case(d.out.rounds > 0 && d.c.K >= 2, vh.Digest(d.c), d.c, classes...)
	rec.ClassN("rounds", int64(d.out.rounds))
	rec.ClassN("dials", int64(d.out.dials))
	if d.key == "harness" {
		t.Fatalf("harness problem: %s", d.msg)
	}
	if d.key != "" {
		rec.Violation(t, d.key, d.c, "%s", d.msg)
	}
}

func c16EqCheck(t vh.Fataler, rec *vh.Rec, c c16EqCase) {
	if c.K < 2 || c.K > 64 || c.Others < 0 || c.Others > 8 || c.Rounds < 1 {
		t.Fatalf("harness problem: malformed equalaccepts case %+v", c)
	}
	c16EqReport(t, rec, c16EqEval(c))
}

// c16EqParams enumerates the (small) parameter space: batch i of the whole run.
func c16EqParams(i int) c16EqCase {
	c := c16EqCase{K: 32}
	if i%3 == 2 {
		ks := []int{2, 3, 4, 8, 16, 24, 31}
		c.K = ks[(i/3)%len(ks)]
	}
	c.Others = i % 4
	c.ViaAccept = i%6 == 5
	if c.ViaAccept {
		c.Rounds = vh.Pick(8, 12) // a handshake per round
	} else {
		c.Rounds = vh.Pick(150, 200)
		c.DialEvery = []int{25, 50, 100}[(i/2)%3]
	}
	return c
}

func TestVerif_C16_equalaccepts(t *testing.T) {
	t.Parallel() // overlaps the stall and stream sub-checks of the same unit
	rec := vh.NewRec("C16", "equalaccepts", "batches of rounds on the shared Listener, batch parameters enumerated (no draws; the schedule is what varies); per round k simultaneous callers (k = 32 in two batches of three, else 2,3,4,8,16,24,31 in turn) for one fresh secret plus 0-3 callers for other secrets, all released from a spin barrier, via AcceptWithContext (150-200 rounds per batch, dial in every 25th/50th/100th round, otherwise release by cancel) or via Accept (every 6th batch, 8-12 rounds, dial in every round); oracle = exactly one admitted, the dial for the secret reaches it (verdict from the dial only; the listener maps merely select the rounds in which the dial is made), nothing registered after every call returned; non-trivial = every evaluated batch (>= 2 racing callers); distinct by batch parameters; class 'rounds' counts the rounds")
	defer rec.Flush()
	rec.Require("duplicates-refused", "admitted-caller-served", "admitted-caller-released-by-cancel", "via-Accept", "via-AcceptWithContext", "bystanders-present")
	if p := vh.ReplayFile(); p != "" {
		var c c16EqCase
		if _, _, err := vh.LoadReplay(p, &c); err != nil {
			t.Fatal(err)
		}
		for i := 0; i < 20; i++ { // the failing interleaving is a matter of nanoseconds: many attempts
			c16EqCheck(t, rec, c)
		}
		return
	}
	// several lanes of batches side by side (different secrets, one Listener): rounds are cheap but
	// partly serial, lanes keep the cores busy; results are reported from the test goroutine
	shard, shards := vh.Shard()
	batches := vh.Pick(14, 60)
	// two small batches first so that every required class is there whatever the budget allows later
	c16EqCheck(t, rec, c16EqCase{K: 32, Others: 2, Rounds: 3, ViaAccept: true})
	c16EqCheck(t, rec, c16EqCase{K: 8, Others: 1, Rounds: 20, DialEvery: 5})
	// wall-clock budget: on a starved machine a round takes many times longer; running out of budget
	// means fewer rounds were explored (recorded), never a failure
	budget := time.Duration(vh.Pick(25, 300)) * time.Second
	began := time.Now()
	lanes := 2
	var next, stop, cut int32
	done := make(chan c16EqDone, batches)
	var wg sync.WaitGroup
	for l := 0; l < lanes; l++ {
		wg.Add(1)
		go func() {
			defer wg.Done()
			for atomic.LoadInt32(&stop) == 0 {
				if time.Since(began) > budget {
					atomic.StoreInt32(&cut, 1)
					return
				}
				b := int(atomic.AddInt32(&next, 1)) - 1
				if b >= batches {
					return
				}
				d := c16EqEval(c16EqParams(b*shards + shard + int(vh.Seed())))
				if d.key != "" {
					atomic.StoreInt32(&stop, 1)
				}
				done <- d
			}
		}()
	}
	wg.Wait()
	close(done)
	if atomic.LoadInt32(&cut) == 1 {
		rec.Class("budget-ran-out-explored-less")
		rec.Note("wall-clock budget of %v ran out after %d of %d batches on shard %d", budget, len(done), batches, shard)
	}
	var bad []c16EqDone
	for d := range done {
		if d.key != "" {
			bad = append(bad, d)
			continue
		}
		c16EqReport(t, rec, d)
	}
	for _, d := range bad {
		c16EqReport(t, rec, d)
	}
}
