package dtls

// C16 sub-check 4 — (a) a writer that outpaces the network is held back so that buffered data stays
// bounded; (b) a peer that stops sending heartbeats causes the connection to close within the
// heartbeat timeout.
//
// (a) "flow": SCTPConn over a drain-model stream (bytes accepted by the stream stay buffered until
// the harness drains them; the low-threshold callback fires like pion/sctp's). A script of
// write / drain / close operations is run by a single writer. Oracle:
//   bound      the buffered amount never exceeds 1.5 x writeMaxBufferedAmount (one stale wake-up
//              token allows one extra write of at most half the limit);
//   held back  a Write issued while buffered+len exceeds the limit and no wake-up is outstanding does
//              not reach the stream before a drain or Close (decided without a clock: a Write that
//              gets through is a violation whenever it is seen);
//   progress   a Write with room returns after handing exactly its bytes to the stream; a held-back
//              Write returns after the drain that brings the buffer to the low threshold, or after
//              Close (one-sided time bound, 5 s, repeated once, dropped when the machine stalled).
// (b) "watchdog": hbConn (heartbeatServer with a short interval) under SCTPConn over a live stream fed
// in real time: k heartbeats, then the peer goes silent or keeps sending data only. The stream must
// be closed within 2 x interval (+ 1 s slack) of the last heartbeat that was delivered.

import (
	"fmt"
	"strings"
	"sync"
	"testing"
	"time"

	"pgregory.net/rapid"
	"verif/harness/vh"
)

type c16FlowOp struct {
	K string `json:"k"` // w write | d drain | c close
	N int    `json:"n,omitempty"`
}

type c16FlowCase struct {
	Ops []c16FlowOp `json:"ops"`
}

type c16WRes struct {
	n   int
	err error
}

const c16FlowWait = 5 * time.Second

// c16FlowRun returns (key, msg). key "slow:<k>" marks a missed one-sided time bound (to be repeated).
func c16FlowRun(c c16FlowCase, grace time.Duration) (key, msg string, classes map[string]bool) {
	classes = map[string]bool{}
	const limit = writeMaxBufferedAmount
	const maxWrite = int(writeMaxBufferedAmount / 2)
	stream := c16NewStream(nil, false)
	nc := &c16NullConn{}
	sc := newSCTPConn(stream, nc, 65536)
	defer sc.Close()

	buffered := func() uint64 {
		stream.mu.Lock()
		defer stream.mu.Unlock()
		return stream.buffered
	}
	token := false // a low-threshold wake-up that nobody has consumed yet
	var pend chan c16WRes
	pendSize := 0
	pendWrites := 0
	closed := false
	total := 0

	checkBound := func(step int) (string, string) {
		stream.mu.Lock()
		mb := stream.maxBuffered
		stream.mu.Unlock()
		if mb > limit+limit/2 {
			return "flow:bound-exceeded", fmt.Sprintf("step %d: %d bytes buffered, more than 1.5 x %d", step, mb, limit)
		}
		return "", ""
	}
	// verifyDelivered checks that write #idx of the stream carries exactly payload.
	verifyDelivered := func(step, idx int, payload []byte) (string, string) {
		stream.mu.Lock()
		defer stream.mu.Unlock()
		if len(stream.wSizes) != idx+1 {
			return "flow:bytes-differ", fmt.Sprintf("step %d: a Write of %d bytes returned success but the stream saw %d writes instead of %d", step, len(payload), len(stream.wSizes), idx+1)
		}
		if stream.wSizes[idx] != len(payload) || stream.wSums[idx] != c16Sum(payload) {
			return "flow:bytes-differ", fmt.Sprintf("step %d: the stream received %d bytes that differ from the %d bytes written", step, stream.wSizes[idx], len(payload))
		}
		return "", ""
	}
	var pendPayload []byte

	for step, op := range c.Ops {
		if closed {
			break
		}
		if pend != nil && stream.writeCount() > pendWrites {
			sc.Close()
			<-pend
			return "flow:not-held-back", fmt.Sprintf("step %d: the Write(%d) that had to be held back reached the stream although nothing had been drained", step, pendSize), classes
		}
		switch op.K {
		case "w":
			if pend != nil {
				classes["write-skipped-while-blocked"] = true
				continue
			}
			size := op.N
			if size < 0 {
				size = 0
			}
			if size > maxWrite {
				size = maxWrite
			}
			payload := make([]byte, size)
			c16Fill(payload, total)
			for len(stream.baCalls) > 0 {
				<-stream.baCalls
			}
			b := buffered()
			idx := stream.writeCount()
			resCh := make(chan c16WRes, 1)
			go func() {
				n, err := sc.Write(payload)
				resCh <- c16WRes{n, err}
			}()
			over := size > 0 && b+uint64(size) > limit
			if !over || token {
				var r c16WRes
				select {
				case r = <-resCh:
				case <-time.After(c16FlowWait):
					sc.Close()
					<-resCh
					return "slow:flow:write-stalled-with-room", fmt.Sprintf("step %d: Write(%d) with %d bytes buffered (limit %d, wake-up outstanding=%v) did not return within %v", step, size, b, limit, token, c16FlowWait), classes
				}
				if r.err != nil || r.n != size {
					return "flow:write-failed", fmt.Sprintf("step %d: Write(%d) with %d bytes buffered returned (%d, %v)", step, size, b, r.n, r.err), classes
				}
				if size > 0 {
					if k, m := verifyDelivered(step, idx, payload); k != "" {
						return k, m, classes
					}
					if over {
						token = false
						classes["write-on-stale-wakeup"] = true
					}
					total += size
				} else {
					classes["zero-length-write"] = true
					if stream.writeCount() != idx {
						// harmless for the property; just recorded
						classes["zero-length-write-forwarded"] = true
					}
				}
			} else {
				// must be held back
				select {
				case <-stream.baCalls:
				case r := <-resCh:
					return "flow:not-held-back", fmt.Sprintf("step %d: Write(%d) returned (%d, %v) although %d bytes were buffered (limit %d) and nothing had been drained", step, size, r.n, r.err, b, limit), classes
				case <-time.After(c16FlowWait):
					sc.Close()
					<-resCh
					return "harness", "Write neither returned nor looked at the buffered amount", classes
				}
				select {
				case r := <-resCh:
					return "flow:not-held-back", fmt.Sprintf("step %d: Write(%d) returned (%d, %v) although %d bytes were buffered (limit %d) and nothing had been drained", step, size, r.n, r.err, b, limit), classes
				case <-time.After(grace):
				}
				pend, pendSize, pendWrites, pendPayload = resCh, size, idx, payload
				classes["held-back"] = true
			}
		case "d":
			amount := op.N
			if amount < 0 {
				amount = 0
			}
			if pend != nil {
				// the held-back write must still be held back right before the drain
				select {
				case r := <-pend:
					return "flow:not-held-back", fmt.Sprintf("step %d: the held-back Write(%d) returned (%d, %v) before anything was drained", step, pendSize, r.n, r.err), classes
				default:
				}
			}
			fired := stream.drain(uint64(amount))
			if fired {
				classes["low-threshold-crossed"] = true
				if pend != nil {
					var r c16WRes
					select {
					case r = <-pend:
					case <-time.After(c16FlowWait):
						sc.Close()
						<-pend
						return "slow:flow:not-released-by-drain", fmt.Sprintf("step %d: the held-back Write(%d) did not return within %v of the drain to the low threshold", step, pendSize, c16FlowWait), classes
					}
					if r.err != nil || r.n != pendSize {
						return "flow:write-failed", fmt.Sprintf("step %d: the released Write(%d) returned (%d, %v)", step, pendSize, r.n, r.err), classes
					}
					if k, m := verifyDelivered(step, pendWrites, pendPayload); k != "" {
						return k, m, classes
					}
					total += pendSize
					pend = nil
					classes["released-by-drain"] = true
				} else {
					token = true
				}
			} else if pend != nil {
				classes["drain-without-crossing-while-blocked"] = true
				// An implementation may or may not let the writer go once there is room again; the
				// pinned one does not. If it went, account for it.
				select {
				case r := <-pend:
					if buffered() > limit {
						return "flow:not-held-back", fmt.Sprintf("step %d: held-back Write(%d) went through after a partial drain that left the buffer above the limit", step, pendSize), classes
					}
					if r.err == nil {
						total += pendSize
					}
					pend = nil
				case <-time.After(grace):
				}
			}
		case "h":
			// the network makes no progress for N ms: whatever the elapsed time, a held-back Write must
			// stay held back (a Write that gets through is a violation whenever it is seen; no clock in
			// the verdict)
			t0 := time.Now()
			end := t0.Add(time.Duration(op.N) * time.Millisecond)
			for time.Now().Before(end) {
				if pend == nil {
					time.Sleep(time.Until(end))
					break
				}
				tick := 50 * time.Millisecond
				if r := time.Until(end); r < tick {
					tick = r
				}
				select {
				case r := <-pend:
					return "flow:not-held-back", fmt.Sprintf("step %d: the held-back Write(%d) returned (%d, %v) after %v of a stalled network although %d bytes were buffered (limit %d) and nothing had been drained", step, pendSize, r.n, r.err, time.Since(t0).Round(100*time.Millisecond), buffered(), limit), classes
				case <-time.After(tick):
				}
			}
			if pend != nil {
				classes[fmt.Sprintf("held-through-stall-%ds+", op.N/5000*5)] = true
			}
		case "c":
			sc.Close()
			closed = true
			if pend != nil {
				select {
				case <-pend:
					classes["released-by-close"] = true
				case <-time.After(c16FlowWait):
					return "slow:flow:blocked-after-close", fmt.Sprintf("step %d: the held-back Write(%d) did not return within %v of Close", step, pendSize, c16FlowWait), classes
				}
				pend = nil
			}
		}
		if k, m := checkBound(step); k != "" {
			if pend != nil {
				sc.Close()
				<-pend
			}
			return k, m, classes
		}
	}
	if pend != nil {
		if stream.writeCount() > pendWrites {
			sc.Close()
			<-pend
			return "flow:not-held-back", fmt.Sprintf("end of script: the Write(%d) that had to be held back reached the stream although nothing had been drained", pendSize), classes
		}
		sc.Close()
		select {
		case <-pend:
		case <-time.After(c16FlowWait):
			return "slow:flow:blocked-after-close", fmt.Sprintf("end of script: the held-back Write(%d) did not return within %v of Close", pendSize, c16FlowWait), classes
		}
	}
	return "", "", classes
}

// c16Timed runs a check whose verdict may depend on a one-sided time bound. A run reports such a miss
// with a "slow:" key: it only counts when it is seen twice while this process' own timers were on
// time (lateness <= excuse); otherwise it is dropped as inconclusive. A "tmo:" key says that only a
// time-out stood in the way of something that should have worked: it is tried once more and never
// counts.
func c16Timed(excuse time.Duration, run func() (string, string, map[string]bool)) (key, msg string, classes map[string]bool) {
	misses := 0
	marks := map[string]bool{}
	for attempt := 0; attempt < 3; attempt++ {
		can := c16StartCanary()
		key, msg, classes = run()
		late := can.Stop()
		if classes == nil {
			classes = map[string]bool{}
		}
		for k := range marks {
			classes[k] = true
		}
		switch {
		case strings.HasPrefix(key, "tmo:"):
			marks["inconclusive-timeout"] = true
			classes["inconclusive-timeout"] = true
			if attempt >= 1 {
				return "", "", classes
			}
		case strings.HasPrefix(key, "slow:"):
			if late > excuse {
				marks["inconclusive-machine-stalled"] = true
				classes["inconclusive-machine-stalled"] = true
				continue
			}
			misses++
			if misses >= 2 {
				return key[5:], msg + fmt.Sprintf(" (seen twice; worst timer lateness in the last run %v)", late), classes
			}
		default:
			return
		}
	}
	classes["inconclusive"] = true
	return "", "", classes
}

func c16FlowCheck(t vh.Fataler, rec *vh.Rec, c c16FlowCase) {
	grace := time.Duration(vh.Pick(1500, 3000)) * time.Microsecond
	key, msg, cl := c16Timed(500*time.Millisecond, func() (string, string, map[string]bool) { return c16FlowRun(c, grace) })
	var classes []string
	for k := range cl {
		classes = append(classes, k)
	}
	rec.Case(cl["held-back"], vh.Digest(c), c, classes...)
	if key == "harness" {
		t.Fatalf("harness problem: %s", msg)
	}
	if key != "" {
		rec.Violation(t, key, c, "%s; ops=%v", msg, c.Ops)
	}
}

func c16FlowGen(rt *rapid.T) c16FlowCase {
	const limit = int(writeMaxBufferedAmount)
	const half = limit / 2
	n := rapid.IntRange(1, 40).Draw(rt, "nops")
	b, blocked, token := 0, false, false
	var ops []c16FlowOp
	for i := 0; i < n; i++ {
		var kinds []string
		if blocked {
			kinds = []string{"d", "d", "d", "d", "d", "w", "c", "h"}
		} else {
			kinds = []string{"w", "w", "w", "w", "w", "d", "d", "c"}
		}
		k := rapid.SampledFrom(kinds).Draw(rt, "op")
		if k == "c" && rapid.IntRange(0, 3).Draw(rt, "really-close") != 0 {
			k = "d"
		}
		op := c16FlowOp{K: k}
		switch k {
		case "w":
			switch rapid.IntRange(0, 7).Draw(rt, "wcls") {
			case 0:
				op.N = 0
			case 1:
				op.N = 1
			case 2, 3:
				op.N = half
			case 4:
				op.N = half - 1
			case 5:
				op.N = 65536
			default:
				op.N = rapid.IntRange(1, half).Draw(rt, "wsize")
			}
			if !blocked && op.N > 0 {
				if b+op.N > limit && !token {
					blocked = true
				} else {
					if b+op.N > limit {
						token = false
					}
					b += op.N
				}
			}
		case "d":
			switch rapid.IntRange(0, 6).Draw(rt, "dcls") {
			case 0:
				op.N = b
			case 1:
				op.N = b - half // exactly to the low threshold
			case 2:
				op.N = b - half - 1 // just short of it
			case 3:
				op.N = rapid.IntRange(0, 4096).Draw(rt, "dsmall")
			default:
				op.N = rapid.IntRange(0, limit+half).Draw(rt, "damount")
			}
			if op.N < 0 {
				op.N = 0
			}
			nb := b - op.N
			if nb < 0 {
				nb = 0
			}
			if b > half && nb <= half {
				if blocked {
					blocked = false
					// the released write goes through; its size is not tracked here, assume half
					nb += half
				} else {
					token = true
				}
			}
			b = nb
		case "h":
			op.N = rapid.IntRange(1, 15).Draw(rt, "hold-ms")
		case "c":
			ops = append(ops, op)
			return c16FlowCase{Ops: ops}
		}
		ops = append(ops, op)
	}
	return c16FlowCase{Ops: ops}
}

// TestVerif_C16_stall: the same flow-control oracle against a network that makes no progress for longer
// than any plausible internal timer. A handful of scripts run side by side in real time (one stall);
// the test is t.Parallel so that it overlaps the stream sub-check of the same unit.
func TestVerif_C16_stall(t *testing.T) {
	t.Parallel()
	stallMs := vh.Pick(11000, 15000)
	rec := vh.NewRec("C16", "stall", fmt.Sprintf("fixed flow-control scripts on SCTPConn over a drain-model stream whose network is stalled for %d ms in real time while a Write is held back (buffer exactly at / just below the limit, small and large blocked write, after a stale wake-up, with drains that stay above the low threshold), then drained (the Write must be released) and refilled (released by Close); same token-model oracle as the flow sub-check: a held-back Write must not reach the stream however long the stall lasts; non-trivial = a Write was held back through the whole stall; distinct by script; runs on shard 0 only", stallMs))
	defer rec.Flush()
	const limit = int(writeMaxBufferedAmount)
	const half = limit / 2
	if p := vh.ReplayFile(); p != "" {
		var c c16FlowCase
		if _, _, err := vh.LoadReplay(p, &c); err != nil {
			t.Fatal(err)
		}
		c16FlowCheck(t, rec, c)
		return
	}
	if !vh.Mine(0) {
		return
	}
	rec.Require("held-back", "released-by-drain", "released-by-close", fmt.Sprintf("held-through-stall-%ds+", stallMs/5000*5))
	tail := []c16FlowOp{{K: "d", N: limit * 2}, {K: "w", N: half}, {K: "w", N: half}, {K: "w", N: 7}, {K: "h", N: 300}, {K: "c"}}
	scripts := [][]c16FlowOp{
		// buffer exactly at the limit, one more byte is held back
		{{K: "w", N: half}, {K: "w", N: half}, {K: "w", N: 1}, {K: "h", N: stallMs}},
		// 32 KiB chunks (the writer of a relay)
		{{K: "w", N: 32768}, {K: "w", N: 32768}, {K: "w", N: 32768}, {K: "w", N: 32768}, {K: "w", N: 32768}, {K: "w", N: 32768}, {K: "w", N: 32768}, {K: "w", N: 32768}, {K: "w", N: 32768}, {K: "h", N: stallMs}},
		// a stale wake-up is consumed first (buffer up to 1.5 x limit), the next Write is held back
		{{K: "w", N: half}, {K: "w", N: half}, {K: "d", N: limit}, {K: "w", N: half}, {K: "w", N: half}, {K: "w", N: half}, {K: "w", N: half}, {K: "h", N: stallMs}},
		// the network trickles but never reaches the low threshold
		{{K: "w", N: half}, {K: "w", N: half}, {K: "w", N: 65536}, {K: "h", N: stallMs / 4}, {K: "d", N: 1000}, {K: "h", N: stallMs / 4}, {K: "d", N: 60000}, {K: "h", N: stallMs / 4}, {K: "d", N: 5000}, {K: "h", N: stallMs / 4}},
	}
	type res struct {
		c        c16FlowCase
		key, msg string
		cl       map[string]bool
	}
	out := make(chan res, len(scripts))
	for _, ops := range scripts {
		c := c16FlowCase{Ops: append(append([]c16FlowOp{}, ops...), tail...)}
		go func() {
			k, m, cl := c16Timed(500*time.Millisecond, func() (string, string, map[string]bool) { return c16FlowRun(c, 3*time.Millisecond) })
			out <- res{c, k, m, cl}
		}()
	}
	var bad []res
	for range scripts {
		r := <-out
		var classes []string
		for k := range r.cl {
			classes = append(classes, k)
		}
		held := false
		for k := range r.cl {
			if strings.HasPrefix(k, "held-through-stall-") && k != "held-through-stall-0s+" {
				held = true
			}
		}
		rec.Case(held, vh.Digest(r.c), r.c, classes...)
		if r.key != "" {
			bad = append(bad, r)
		}
	}
	for _, r := range bad {
		if r.key == "harness" {
			t.Fatalf("harness problem: %s", r.msg)
		}
		rec.Violation(t, r.key, r.c, "%s; ops=%v", r.msg, r.c.Ops)
	}
}

func TestVerif_C16_flow(t *testing.T) {
	rec := vh.NewRec("C16", "flow", "rapid-generated scripts of 1-40 write(0..128 KiB) / drain / close operations run by one writer on SCTPConn over a drain-model stream; oracle = token model of the flow control (bound 1.5 x limit, held back while over the limit, progress after drain/Close, bytes handed on unchanged); non-trivial = at least one Write was held back; distinct by script")
	defer rec.Flush()
	rec.Require("held-back", "released-by-drain", "released-by-close", "write-on-stale-wakeup", "low-threshold-crossed")
	if p := vh.ReplayFile(); p != "" {
		var c c16FlowCase
		if _, _, err := vh.LoadReplay(p, &c); err != nil {
			t.Fatal(err)
		}
		c16FlowCheck(t, rec, c)
		return
	}
	rapid.Check(t, func(rt *rapid.T) {
		c := c16FlowGen(rt)
		c16FlowCheck(rt, rec, c)
	})
}

// watchdog ------------------------------------------------------------------------------------------

type c16DogCase struct {
	IntervalMs int    `json:"interval_ms"`
	HBs        int    `json:"hbs"`      // heartbeats delivered before the peer stops sending them
	PhaseMs    int    `json:"phase_ms"` // delay before the first heartbeat
	Peer       string `json:"peer"`     // silent | data (goes on sending data, no heartbeats)
	HonourDDL  bool   `json:"honour_ddl"`
	DataLen    int    `json:"data_len"`
}

const c16DogSlack = time.Second

func c16DogRun(c c16DogCase) (key, msg string, classes map[string]bool) {
	classes = map[string]bool{}
	iv := time.Duration(c.IntervalMs) * time.Millisecond
	stream := c16NewStream(nil, true)
	stream.honourDDL = c.HonourDDL
	nc := &c16NullConn{}
	start := time.Now()
	hc, err := heartbeatServer(stream, &heartbeatConfig{Interval: iv}, 65536)
	if err != nil {
		return "harness", err.Error(), classes
	}
	sc := newSCTPConn(hc, nc, 65536)
	abort := make(chan struct{})
	var wg sync.WaitGroup
	var readerErrAt time.Time
	var gotData int
	var surfaced bool
	wg.Add(2)
	go func() { // the application reading from the connection
		defer wg.Done()
		buf := make([]byte, 4096)
		for {
			n, err := sc.Read(buf)
			gotData += n
			if n == len(defaultConfig.Heartbeat) && string(buf[:n]) == string(defaultConfig.Heartbeat) {
				surfaced = true
			}
			if err != nil {
				readerErrAt = time.Now()
				return
			}
		}
	}()
	sentData := 0
	go func() { // the peer
		defer wg.Done()
		sleep := func(d time.Duration) bool {
			select {
			case <-time.After(d):
				return true
			case <-abort:
				return false
			case <-stream.closed:
				return false
			}
		}
		send := func(ch c16Chunk) bool {
			select {
			case stream.feed <- ch:
				return true
			case <-abort:
				return false
			case <-stream.closed:
				return false
			}
		}
		if !sleep(time.Duration(c.PhaseMs) * time.Millisecond) {
			return
		}
		for i := 0; i < c.HBs; i++ {
			if !send(c16Chunk{data: defaultConfig.Heartbeat, hb: true}) {
				return
			}
			if i < c.HBs-1 && !sleep(iv/2) {
				return
			}
		}
		if c.Peer != "data" {
			return
		}
		d := make([]byte, c.DataLen)
		c16Fill(d, 0)
		for {
			if !sleep(iv / 3) {
				return
			}
			if !send(c16Chunk{data: d}) {
				return
			}
			sentData += len(d)
		}
	}()

	budget := time.Duration(c.PhaseMs)*time.Millisecond + time.Duration(c.HBs)*iv/2 + 2*iv + c16DogSlack + 2*time.Second
	select {
	case <-stream.closed:
	case <-time.After(budget):
	}
	wasClosed := stream.isClosed()
	stream.mu.Lock()
	last := stream.lastHB
	given := stream.hbGiven
	closeAt := stream.closeTime
	stream.mu.Unlock()
	if given == 0 {
		last = start
	}
	// let the reader notice, then tear down
	if wasClosed {
		deadline := time.After(c16DogSlack + 2*time.Second)
		done := make(chan struct{})
		go func() { wg.Wait(); close(done) }()
		select {
		case <-done:
		case <-deadline:
		}
	}
	close(abort)
	sc.Close()
	wg.Wait()

	if given > 0 {
		classes["alive-at-last-heartbeat"] = true
		if last.Sub(start) > iv {
			classes["kept-alive-past-first-interval"] = true
		}
	}
	classes["peer-"+c.Peer] = true
	if c.HonourDDL {
		classes["stream-honours-read-deadline"] = true
	}
	if surfaced {
		return "watchdog:heartbeat-surfaced", "a heartbeat payload was returned to the reader as data", classes
	}
	bound := 2*iv + c16DogSlack
	if !wasClosed {
		return "slow:watchdog:not-closed-in-time", fmt.Sprintf("the stream was still open %v after the last heartbeat (interval %v, %d heartbeats, peer %s)", time.Since(last), iv, given, c.Peer), classes
	}
	if d := closeAt.Sub(last); d > bound {
		return "slow:watchdog:not-closed-in-time", fmt.Sprintf("the stream was closed %v after the last heartbeat, bound 2 x %v + %v (peer %s)", d, iv, c16DogSlack, c.Peer), classes
	}
	if readerErrAt.IsZero() {
		return "slow:watchdog:reader-not-told", "the stream was closed but Read on the connection never returned an error", classes
	}
	if d := readerErrAt.Sub(last); d > bound+c16DogSlack {
		return "slow:watchdog:reader-not-told", fmt.Sprintf("Read reported the close %v after the last heartbeat", d), classes
	}
	return "", "", classes
}

func c16DogCheck(t vh.Fataler, rec *vh.Rec, c c16DogCase) {
	if c.IntervalMs < 20 || c.HBs < 0 || c.HBs > 16 || c.PhaseMs < 0 || c.DataLen < 1 {
		t.Fatalf("harness problem: malformed watchdog case %+v", c)
	}
	key, msg, cl := c16Timed(c16Stalled, func() (string, string, map[string]bool) { return c16DogRun(c) })
	var classes []string
	for k := range cl {
		classes = append(classes, k)
	}
	rec.Case(cl["alive-at-last-heartbeat"], vh.Digest(c), c, classes...)
	if key == "harness" {
		t.Fatalf("harness problem: %s", msg)
	}
	if key != "" {
		rec.Violation(t, key, c, "%s; case=%+v", msg, c)
	}
}

func c16DogGen(rt *rapid.T) c16DogCase {
	c := c16DogCase{}
	c.IntervalMs = rapid.SampledFrom([]int{120, 160, 200, 300}).Draw(rt, "interval")
	c.HBs = rapid.IntRange(0, 5).Draw(rt, "hbs")
	c.PhaseMs = rapid.IntRange(0, c.IntervalMs/2).Draw(rt, "phase")
	c.Peer = rapid.SampledFrom([]string{"silent", "data", "data"}).Draw(rt, "peer")
	c.HonourDDL = rapid.Bool().Draw(rt, "honour")
	c.DataLen = rapid.SampledFrom([]int{1, 32, 33, 1200}).Draw(rt, "datalen")
	return c
}

func TestVerif_C16_watchdog(t *testing.T) {
	rec := vh.NewRec("C16", "watchdog", "rapid-generated heartbeat-loss scenarios in real time: interval {120,160,200,300} ms x 0-5 heartbeats delivered at interval/2 spacing after a drawn phase x peer then {silent, data only} x stream {ignores, honours} read deadlines; oracle = underlying stream closed (and reader told) within 2 x interval + 1 s of the last delivered heartbeat, one-sided; non-trivial = the connection was alive when the last heartbeat arrived; distinct by scenario")
	defer rec.Flush()
	rec.Require("alive-at-last-heartbeat", "peer-data", "peer-silent")
	if p := vh.ReplayFile(); p != "" {
		var c c16DogCase
		if _, _, err := vh.LoadReplay(p, &c); err != nil {
			t.Fatal(err)
		}
		c16DogCheck(t, rec, c)
		return
	}
	// a fixed pair first so that the small quick tier always holds both peer kinds
	if vh.Mine(0) {
		c16DogCheck(t, rec, c16DogCase{IntervalMs: 160, HBs: 3, PhaseMs: 20, Peer: "data", HonourDDL: false, DataLen: 33})
	}
	if vh.Mine(1) {
		c16DogCheck(t, rec, c16DogCase{IntervalMs: 120, HBs: 2, PhaseMs: 0, Peer: "silent", HonourDDL: false, DataLen: 1})
	}
	rapid.Check(t, func(rt *rapid.T) {
		c := c16DogGen(rt)
		c16DogCheck(rt, rec, c)
	})
}
