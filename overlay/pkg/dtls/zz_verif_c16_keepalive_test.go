package dtls

// C16 keepalive — the two ends of ONE established session, both taken from the package, wired
// together the way openSCTP / acceptSCTP wire them (heartbeatClient under an SCTPConn on the opening
// end, heartbeatServer under an SCTPConn on the accepting end) over a harness-owned in-memory message
// link, and kept alive for longer than the accepting end's watchdog interval under a generated
// traffic pattern.
//
// The other sub-checks drive each end against a scripted peer (stream, flow, watchdog) or run real
// sessions that end long before the first watchdog tick (sessions, routing: production intervals are
// 10 s / 30 s). What they leave out is the history "both ends alive, data flowing (or not) for more
// than two watchdog intervals": whether the keep-alive the opening end produces is what the accepting
// end's watchdog needs, whatever the application writes in the meantime.
//
// Oracle (what the property states, no more): while both ends are open the connection is a lossless
// ordered byte stream - every Write of a live end succeeds and the other end's Reads return exactly
// the concatenation of what was written, keep-alives never surface - and it is not closed: the
// watchdog may close only when the peer stops sending heartbeats, and a live peer from the same
// package never does. Nothing is demanded about HOW the two ends keep the session alive (no count or
// spacing of keep-alive messages is checked; the link's log of them only feeds the message).
//
// Time: the code under test uses the wall clock (time.NewTimer), so the histories run in real time
// with short intervals (sender 200-400 ms, watchdog 600-900 ms, never less than 500 ms between two
// keep-alives of the unchanged sender and the watchdog's patience). The verdict "closed although the
// peer was alive" is one-sided and goes through c16Timed: it counts only when seen twice while the
// process' own timers were on time; a reader that fell behind (the accepting end's receive queue
// nearly full - a region the property says nothing about) makes the case inconclusive.

import (
	"bytes"
	"fmt"
	"io"
	"net"
	"sort"
	"strings"
	"sync"
	"testing"
	"time"

	"pgregory.net/rapid"

	"verif/harness/vh"
)

// case ----------------------------------------------------------------------------------------------

// c16KaSeg is one stretch of the opening end's application traffic.
type c16KaSeg struct {
	K     string `json:"k"`                // run: Size-byte writes every GapMs for DurMs | burst: N writes back to back | idle: nothing for DurMs
	DurMs int    `json:"dur_ms,omitempty"` // run, idle
	GapMs int    `json:"gap_ms,omitempty"` // run
	N     int    `json:"n,omitempty"`      // burst
	Size  int    `json:"size,omitempty"`   // run, burst
}

type c16KaCase struct {
	SendMs    int        `json:"send_ms"`     // heartbeat interval of the opening end (openSCTP: 10 s)
	WatchMs   int        `json:"watch_ms"`    // watchdog interval of the accepting end (acceptSCTP: 30 s)
	CustomHB  bool       `json:"custom_hb"`   // both ends configured with another heartbeat payload
	HonourDDL bool       `json:"honour_ddl"`  // the link's Read honours read deadlines (pion/sctp does)
	SkewMs    int        `json:"skew_ms"`     // >0: the opening end starts that much after the accepting end, <0: before
	Segs      []c16KaSeg `json:"segs"`        // traffic of the opening end; a 16-byte probe is written after the last one
	BackGapMs int        `json:"back_gap_ms"` // 0: the accepting end writes nothing, else BackSize bytes every BackGapMs
	BackSize  int        `json:"back_size"`
	Read      int        `json:"read"`      // read-buffer size of the accepting end's reader
	BackRead  int        `json:"back_read"` // read-buffer size of the opening end's reader
}

const (
	c16KaMaxMsg    = 65536
	c16KaProbe     = 16
	c16KaBehind    = recvChBufSize * 3 / 4 // receive-queue depth from which the reader counts as "behind"
	c16KaExcuse    = 250 * time.Millisecond
	c16KaBackMaxN  = 400
	c16KaMaxWrites = 2000
)

var c16KaCustomHB = []byte("c16-keepalive-payload")

func (c c16KaCase) hb() []byte {
	if c.CustomHB {
		return c16KaCustomHB
	}
	return defaultConfig.Heartbeat
}

// c16KaOp: sleep, then write Size bytes (Size 0: sleep only).
type c16KaOp struct {
	sleepMs int
	size    int
}

func c16KaPlan(c c16KaCase) (ops []c16KaOp, plannedMs int, total int) {
	pending := 0
	add := func(size int) {
		ops = append(ops, c16KaOp{sleepMs: pending, size: size})
		plannedMs += pending
		pending = 0
		total += size
	}
	for _, s := range c.Segs {
		switch s.K {
		case "idle":
			pending += s.DurMs
		case "burst":
			for i := 0; i < s.N; i++ {
				add(s.Size)
			}
		case "run":
			n := s.DurMs / s.GapMs
			for i := 0; i < n; i++ {
				add(s.Size)
				pending += s.GapMs
			}
		}
	}
	add(c16KaProbe)
	return
}

func c16KaValid(c c16KaCase) error {
	if c.SendMs < 40 || c.WatchMs < c.SendMs || c.Read < 1 || c.BackRead < 1 || c.BackGapMs < 0 || (c.BackGapMs > 0 && c.BackSize < 1) {
		return fmt.Errorf("malformed keepalive case %+v", c)
	}
	writes := 0
	for _, s := range c.Segs {
		switch s.K {
		case "idle":
			if s.DurMs < 0 {
				return fmt.Errorf("malformed segment %+v", s)
			}
		case "burst":
			if s.N < 1 || s.N >= c16KaBehind/2 || s.Size < 1 || s.Size > c16KaMaxMsg {
				return fmt.Errorf("malformed segment %+v", s)
			}
			writes += s.N
		case "run":
			if s.GapMs < 1 || s.DurMs < 0 || s.Size < 1 || s.Size > c16KaMaxMsg {
				return fmt.Errorf("malformed segment %+v", s)
			}
			writes += s.DurMs / s.GapMs
		default:
			return fmt.Errorf("unknown segment kind %q", s.K)
		}
	}
	if writes > c16KaMaxWrites {
		return fmt.Errorf("%d writes in one case", writes)
	}
	return nil
}

// link ----------------------------------------------------------------------------------------------

// c16KaLink is a reliable, ordered, unbounded in-memory message channel with two ends, each a
// msgStream. It never congests (BufferedAmount 0: flow control is the flow / stall sub-checks'
// business). Closing an end makes that end's calls fail at once; the other end reads what is queued,
// then io.EOF, and its writes fail. Messages written by the opening end are logged.
type c16KaLink struct {
	mu       sync.Mutex
	hb       []byte
	start    time.Time
	log      []c16KaEv
	teardown bool
	closedBy string
	closedAt time.Time
	acc, opn *c16KaEnd
}

type c16KaEv struct {
	at time.Duration
	hb bool
	n  int
}

type c16KaEnd struct {
	l      *c16KaLink
	peer   *c16KaEnd
	name   string
	honour bool
	q      [][]byte
	sig    chan struct{}
	closed bool
	ddl    time.Time
}

func c16KaNewLink(hb []byte, honour bool) *c16KaLink {
	l := &c16KaLink{hb: hb, start: time.Now()}
	l.acc = &c16KaEnd{l: l, name: "the accepting end", honour: honour, sig: make(chan struct{}, 1)}
	l.opn = &c16KaEnd{l: l, name: "the opening end", honour: honour, sig: make(chan struct{}, 1)}
	l.acc.peer, l.opn.peer = l.opn, l.acc
	return l
}

func (e *c16KaEnd) wake() {
	select {
	case e.sig <- struct{}{}:
	default:
	}
}

func (e *c16KaEnd) Read(b []byte) (int, error) {
	for {
		e.l.mu.Lock()
		if e.closed {
			e.l.mu.Unlock()
			return 0, net.ErrClosed
		}
		if len(e.q) > 0 {
			m := e.q[0]
			if len(m) > len(b) {
				e.l.mu.Unlock()
				return 0, io.ErrShortBuffer
			}
			e.q = e.q[1:]
			e.l.mu.Unlock()
			return copy(b, m), nil
		}
		if e.peer.closed {
			e.l.mu.Unlock()
			return 0, io.EOF
		}
		ddl := e.ddl
		e.l.mu.Unlock()
		if e.honour && !ddl.IsZero() {
			d := time.Until(ddl)
			if d <= 0 {
				return 0, c16ErrTimeout
			}
			tm := time.NewTimer(d)
			select {
			case <-e.sig:
				tm.Stop()
			case <-tm.C:
			}
			continue
		}
		<-e.sig
	}
}

func (e *c16KaEnd) Write(b []byte) (int, error) {
	m := append([]byte(nil), b...)
	e.l.mu.Lock()
	if e.closed {
		e.l.mu.Unlock()
		return 0, net.ErrClosed
	}
	if e.peer.closed {
		e.l.mu.Unlock()
		return 0, io.ErrClosedPipe
	}
	e.peer.q = append(e.peer.q, m)
	if e == e.l.opn {
		e.l.log = append(e.l.log, c16KaEv{at: time.Since(e.l.start), hb: bytes.Equal(m, e.l.hb), n: len(m)})
	}
	e.l.mu.Unlock()
	e.peer.wake()
	return len(b), nil
}

func (e *c16KaEnd) Close() error {
	e.l.mu.Lock()
	if !e.closed {
		e.closed = true
		if e.l.closedBy == "" {
			e.l.closedAt = time.Now()
			if e.l.teardown {
				e.l.closedBy = "harness"
			} else {
				e.l.closedBy = e.name
			}
		}
	}
	e.l.mu.Unlock()
	e.wake()
	e.peer.wake()
	return nil
}

func (e *c16KaEnd) SetReadDeadline(t time.Time) error {
	e.l.mu.Lock()
	e.ddl = t
	e.l.mu.Unlock()
	e.wake()
	return nil
}

func (e *c16KaEnd) BufferedAmount() uint64               { return 0 }
func (e *c16KaEnd) SetBufferedAmountLowThreshold(uint64) {}
func (e *c16KaEnd) OnBufferedAmountLow(func())           {}

func (e *c16KaEnd) queued() int {
	e.l.mu.Lock()
	defer e.l.mu.Unlock()
	return len(e.q)
}

// one direction of traffic ---------------------------------------------------------------------------

type c16KaDir struct {
	total    int
	wrote    int // bytes accepted by Write
	writes   int
	werr     error
	werrAt   time.Duration
	got      int // bytes returned by Read and equal to the expected stream
	rerr     error
	rerrAt   time.Duration
	diffAt   int // >= 0: first byte that differs from the expected stream
	diffHB   bool
	diffWin  string
	complete bool
}

// c16KaReader reads until `total` bytes arrived, a byte differs or Read fails. The expected stream is
// c16Fill's position-dependent pattern, so any loss, duplication, reordering or inserted message shows.
func c16KaReader(conn net.Conn, size int, d *c16KaDir, hb []byte, start time.Time) {
	buf := make([]byte, size)
	exp := make([]byte, size)
	d.diffAt = -1
	for d.got < d.total {
		n, err := conn.Read(buf)
		if n > 0 {
			c16Fill(exp[:n], d.got)
			if !bytes.Equal(buf[:n], exp[:n]) {
				i := c16FirstDiff(buf[:n], exp[:n])
				d.diffAt = d.got + i
				rest := buf[i:n]
				d.diffHB = len(rest) > 0 && (bytes.HasPrefix(hb, rest) || bytes.HasPrefix(rest, hb))
				d.diffWin = c16Window(buf[:n], i)
				return
			}
			d.got += n
		}
		if err != nil {
			d.rerr, d.rerrAt = err, time.Since(start)
			return
		}
	}
	d.complete = true
}

// run -----------------------------------------------------------------------------------------------

func c16KaRun(c c16KaCase) (key, msg string, classes map[string]bool) {
	classes = map[string]bool{}
	hb := c.hb()
	send := time.Duration(c.SendMs) * time.Millisecond
	watch := time.Duration(c.WatchMs) * time.Millisecond
	ops, plannedMs, total := c16KaPlan(c)
	// a payload equal to the heartbeat constant is in-band magic by design: not generated
	for i, off := 0, 0; i < len(ops); i++ {
		if ops[i].size == len(hb) {
			p := make([]byte, len(hb))
			c16Fill(p, off)
			if bytes.Equal(p, hb) {
				ops[i].size++
				total++
				classes["heartbeat-lookalike-avoided"] = true
			}
		}
		off += ops[i].size
	}
	backN := 0
	if c.BackGapMs > 0 {
		backN = plannedMs / c.BackGapMs
		if backN > c16KaBackMaxN {
			backN = c16KaBackMaxN
		}
		if backN < 1 {
			backN = 1
		}
		if c.BackSize == len(hb) {
			return "harness", "reverse payload has the heartbeat's length", classes
		}
	}

	l := c16KaNewLink(hb, c.HonourDDL)
	var hbCfg []byte
	if c.CustomHB {
		hbCfg = hb
	}
	var hs *hbConn
	var hc msgStream
	var err error
	startAcc := func() error {
		hs, err = heartbeatServer(l.acc, &heartbeatConfig{Interval: watch, Heartbeat: hbCfg}, c16KaMaxMsg)
		return err
	}
	startOpn := func() error {
		hc, err = heartbeatClient(l.opn, &heartbeatConfig{Interval: send, Heartbeat: hbCfg})
		return err
	}
	first, second := startAcc, startOpn
	skew := c.SkewMs
	if skew < 0 {
		first, second, skew = startOpn, startAcc, -skew
	}
	if err := first(); err != nil {
		l.acc.Close()
		l.opn.Close()
		return "harness", err.Error(), classes
	}
	time.Sleep(time.Duration(skew) * time.Millisecond)
	if err := second(); err != nil {
		l.acc.Close()
		l.opn.Close()
		return "harness", err.Error(), classes
	}
	acc := newSCTPConn(hs, &c16NullConn{}, c16KaMaxMsg)
	opn := newSCTPConn(hc, &c16NullConn{}, c16KaMaxMsg)
	start := l.start

	abort := make(chan struct{})
	nap := func(ms int) bool {
		if ms <= 0 {
			return true
		}
		tm := time.NewTimer(time.Duration(ms) * time.Millisecond)
		defer tm.Stop()
		select {
		case <-tm.C:
			return true
		case <-abort:
			return false
		}
	}
	fwd := &c16KaDir{total: total, diffAt: -1}
	back := &c16KaDir{total: backN * c.BackSize, diffAt: -1}
	behind := 0 // deepest receive backlog of the accepting end seen by the writer
	var wg sync.WaitGroup
	wg.Add(2)
	go func() { // the application on the opening end
		defer wg.Done()
		buf := make([]byte, 0, 4096)
		for _, op := range ops {
			if !nap(op.sleepMs) {
				return
			}
			if cap(buf) < op.size {
				buf = make([]byte, op.size)
			}
			buf = buf[:op.size]
			c16Fill(buf, fwd.wrote)
			n, err := opn.Write(buf)
			if err != nil || n != op.size {
				if err == nil {
					err = fmt.Errorf("short write %d of %d", n, op.size)
				}
				fwd.werr, fwd.werrAt = err, time.Since(start)
				return
			}
			fwd.wrote += n
			fwd.writes++
			if b := len(hs.recvCh) + l.acc.queued(); b > behind {
				behind = b
			}
		}
	}()
	go func() { // the application on the accepting end, reading
		defer wg.Done()
		c16KaReader(acc, c.Read, fwd, hb, start)
	}()
	if backN > 0 {
		wg.Add(2)
		go func() { // the application on the accepting end, writing
			defer wg.Done()
			buf := make([]byte, c.BackSize)
			for i := 0; i < backN; i++ {
				if !nap(c.BackGapMs) {
					return
				}
				c16Fill(buf, back.wrote)
				n, err := acc.Write(buf)
				if err != nil || n != len(buf) {
					if err == nil {
						err = fmt.Errorf("short write %d of %d", n, len(buf))
					}
					back.werr, back.werrAt = err, time.Since(start)
					return
				}
				back.wrote += n
				back.writes++
			}
		}()
		go func() {
			defer wg.Done()
			c16KaReader(opn, c.BackRead, back, hb, start)
		}()
	}
	done := make(chan struct{})
	go func() { wg.Wait(); close(done) }()
	stuck := false
	select {
	case <-done:
	case <-time.After(3*time.Duration(plannedMs)*time.Millisecond + 20*time.Second):
		stuck = true
	}
	l.mu.Lock()
	l.teardown = true
	closedBy, closedAt := l.closedBy, l.closedAt
	log := append([]c16KaEv(nil), l.log...)
	l.mu.Unlock()
	life := time.Since(start)
	if closedBy != "" {
		life = closedAt.Sub(start)
	}
	close(abort)
	opn.Close()
	acc.Close()
	<-done

	// classes: what this history really was (from the link's log, not from the plan) ---------------
	var data []time.Duration
	var beats []time.Duration
	for _, ev := range log {
		if ev.hb {
			beats = append(beats, ev.at)
		} else {
			data = append(data, ev.at)
		}
	}
	busy, idle := time.Duration(0), time.Duration(0)
	runStart, prev := time.Duration(0), time.Duration(0)
	for i, at := range data {
		if i == 0 || at-prev >= send/2 {
			runStart = at
		}
		if at-runStart > busy {
			busy = at - runStart
		}
		if at-prev > idle {
			idle = at - prev
		}
		prev = at
	}
	if life-prev > idle {
		idle = life - prev
	}
	switch {
	case busy >= 2*watch:
		classes["busy-past-watchdog"] = true // data at gaps below send/2 for two watchdog intervals or more
	case busy >= watch:
		classes["busy-past-one-interval"] = true
	case busy > 0:
		classes["busy-under-one-interval"] = true
	}
	switch {
	case idle >= 2*watch:
		classes["idle-past-watchdog"] = true // no data for two watchdog intervals or more: heartbeats only
	case idle >= watch:
		classes["idle-past-one-interval"] = true
	}
	if busy >= send/2 && idle >= send/2 && len(c.Segs) > 1 {
		classes["busy-and-idle-stretches"] = true
	}
	if life >= 2*watch {
		classes["session-outlived-two-intervals"] = true
	}
	if back.writes > 0 {
		classes["reverse-traffic"] = true
	}
	if c.CustomHB {
		classes["custom-heartbeat"] = true
	}
	if c.HonourDDL {
		classes["stream-honours-read-deadline"] = true
	}
	if c.SkewMs < 0 {
		classes["opening-end-first"] = true
	}
	classes[fmt.Sprintf("send/watch=%d/%d", c.SendMs, c.WatchMs)] = true

	// verdict ---------------------------------------------------------------------------------------
	for _, d := range []struct {
		dir  *c16KaDir
		what string
	}{{fwd, "the accepting end"}, {back, "the opening end"}} {
		if d.dir.diffAt >= 0 {
			if d.dir.diffHB {
				return "keepalive:heartbeat-surfaced", fmt.Sprintf("%s read a keep-alive payload as data at stream offset %d (%s)", d.what, d.dir.diffAt, d.dir.diffWin), classes
			}
			return "keepalive:bytes-differ", fmt.Sprintf("what %s read differs from the concatenation of the peer's writes at stream offset %d (%s)", d.what, d.dir.diffAt, d.dir.diffWin), classes
		}
	}
	broken := closedBy != "" || fwd.werr != nil || fwd.rerr != nil || back.werr != nil || back.rerr != nil
	if broken {
		if behind >= c16KaBehind {
			classes["inconclusive-reader-behind"] = true
			return "", "", classes
		}
		// longest stretch without a keep-alive on the wire, and the data written inside it
		gapFrom, gapTo := time.Duration(0), life
		pb := time.Duration(0)
		best := time.Duration(-1)
		for _, at := range append(beats, life) {
			if at-pb > best {
				best, gapFrom, gapTo = at-pb, pb, at
			}
			pb = at
		}
		inGap := sort.Search(len(data), func(i int) bool { return data[i] >= gapTo }) - sort.Search(len(data), func(i int) bool { return data[i] > gapFrom })
		who := closedBy
		if who == "" {
			who = "nobody (calls failed on an open link)"
		}
		return "slow:keepalive:closed-while-peer-alive", fmt.Sprintf("a session between the package's own two ends broke %v after set-up although both ends were open and the opening end alive (it wrote %d messages): closed by %s; the accepting end had read %d of %d bytes (Read: %v), the opening end's Write: %v; reverse direction %d of %d bytes (Read: %v, Write: %v); watchdog interval %v, opening end's heartbeat interval %v, %d keep-alives on the wire, the longest stretch without one %v (from %v; %d data messages were written in it); deepest receive backlog %d",
			life.Round(time.Millisecond), fwd.writes, who, fwd.got, fwd.total, fwd.rerr, fwd.werr, back.got, back.total, back.rerr, back.werr, watch, send, len(beats), best.Round(time.Millisecond), gapFrom.Round(time.Millisecond), inGap, behind), classes
	}
	if stuck || !fwd.complete || (backN > 0 && !back.complete) {
		return "slow:keepalive:data-not-delivered", fmt.Sprintf("no call failed, but %d of %d bytes (reverse: %d of %d) had been read %v after the last write", fwd.got, fwd.total, back.got, back.total, (life - prev).Round(time.Millisecond)), classes
	}
	return "", "", classes
}

// check ---------------------------------------------------------------------------------------------

type c16KaRes struct {
	c        c16KaCase
	key, msg string
	cl       map[string]bool
}

// c16KaBatch runs the sessions of one batch side by side (they spend nearly all their time asleep).
func c16KaBatch(t vh.Fataler, rec *vh.Rec, cs []c16KaCase) {
	for _, c := range cs {
		if err := c16KaValid(c); err != nil {
			t.Fatalf("harness problem: %v", err)
		}
	}
	out := make([]c16KaRes, len(cs))
	var wg sync.WaitGroup
	for i := range cs {
		wg.Add(1)
		go func(i int) {
			defer wg.Done()
			c := cs[i]
			var misses []string // what the attempts that did not lead to a verdict saw (kept as notes)
			k, m, cl := c16Timed(c16KaExcuse, func() (string, string, map[string]bool) {
				k, m, cl := c16KaRun(c)
				if strings.HasPrefix(k, "slow:") {
					misses = append(misses, m)
				}
				return k, m, cl
			})
			if k == "" {
				for _, m := range misses {
					rec.Note("not counted (timers late or seen once only): %s; case=%+v", m, c)
				}
			}
			out[i] = c16KaRes{c, k, m, cl}
		}(i)
	}
	wg.Wait()
	for _, r := range out {
		var classes []string
		for k := range r.cl {
			classes = append(classes, k)
		}
		rec.Case(r.cl["session-outlived-two-intervals"], vh.Digest(r.c), r.c, classes...)
	}
	for _, r := range out {
		if r.key == "harness" {
			t.Fatalf("harness problem: %s", r.msg)
		}
	}
	for _, r := range out {
		if r.key != "" {
			rec.Violation(t, r.key, r.c, "%s; case=%+v", r.msg, r.c)
		}
	}
}

// generator -----------------------------------------------------------------------------------------

// c16KaShapes: busy = one long steady run, idle = keep-alives only, mixed = stretches of every kind.
var c16KaShapes = []string{"busy", "mixed", "idle", "busy", "mixed", "mixed"}

func c16KaGen(rt *rapid.T, shape string) c16KaCase {
	iv := rapid.SampledFrom([][2]int{{200, 600}, {250, 750}, {300, 900}, {400, 800}}).Draw(rt, "intervals")
	c := c16KaCase{SendMs: iv[0], WatchMs: iv[1]}
	S, W := c.SendMs, c.WatchMs
	c.CustomHB = rapid.IntRange(0, 3).Draw(rt, "custom_hb") == 0
	c.HonourDDL = rapid.Bool().Draw(rt, "honour")
	c.SkewMs = rapid.IntRange(-S/4, S/4).Draw(rt, "skew")
	c.Read = rapid.SampledFrom([]int{16, 64, 333, 1500, 4096, c16KaMaxMsg, c16KaMaxMsg + 4464}).Draw(rt, "read")
	c.BackRead = rapid.SampledFrom([]int{64, 1500, c16KaMaxMsg}).Draw(rt, "back_read")
	below := []int{2, 3, 5, 10, 20, S / 4, S/2 - 40, S/2 - 10}   // gaps under half the sender's interval
	above := []int{S/2 + 10, S/2 + 40, S, S + S/2}               // and over it
	sizes := []int{1, 16, 31, 32, 33, 64, 200, 1000, 1200, 4096} // 32 = length of the default heartbeat
	size := func(label string, gap int) int {
		n := rapid.SampledFrom(sizes).Draw(rt, label)
		if c.Read < 256 && n > 256 { // keep the reader's work per message small: it must not fall behind
			n = 256
		}
		if gap < 5 && n > 1200 {
			n = 1200
		}
		return n
	}
	run := func(label string, durs []int, gaps []int) c16KaSeg {
		g := rapid.SampledFrom(gaps).Draw(rt, label+"_gap")
		d := rapid.SampledFrom(durs).Draw(rt, label+"_dur")
		return c16KaSeg{K: "run", DurMs: d, GapMs: g, Size: size(label+"_size", g)}
	}
	burst := func(label string) c16KaSeg {
		return c16KaSeg{K: "burst", N: rapid.IntRange(1, c16KaBehind/2-1).Draw(rt, label+"_n"), Size: size(label+"_size", 0)}
	}
	switch shape {
	case "busy": // one long stretch of steady traffic, its start drawn relative to the timers of both ends
		c.Segs = append(c.Segs, c16KaSeg{K: "idle", DurMs: rapid.IntRange(0, W).Draw(rt, "phase")})
		c.Segs = append(c.Segs, run("busy", []int{W * 23 / 10, W * 26 / 10, W * 18 / 10, W * 12 / 10, W / 2}, below))
	case "idle": // nothing but keep-alives for a long time, optionally after some data
		if rapid.Bool().Draw(rt, "lead") {
			c.Segs = append(c.Segs, burst("lead"))
		}
		c.Segs = append(c.Segs, c16KaSeg{K: "idle", DurMs: rapid.SampledFrom([]int{W * 22 / 10, W * 25 / 10, W * 12 / 10}).Draw(rt, "idle_dur")})
	default: // stretches of every kind, about three watchdog intervals in all
		left := W * 32 / 10
		for i := 0; i < 6 && left > S/2; i++ {
			var s c16KaSeg
			switch rapid.SampledFrom([]string{"run", "run", "slowrun", "burst", "idle"}).Draw(rt, fmt.Sprintf("seg%d", i)) {
			case "run":
				s = run(fmt.Sprintf("seg%d", i), []int{S / 2, S, W / 2, W, W * 15 / 10}, below)
			case "slowrun":
				s = run(fmt.Sprintf("seg%d", i), []int{S * 2, W, W * 15 / 10}, above)
			case "burst":
				s = burst(fmt.Sprintf("seg%d", i))
			default:
				s = c16KaSeg{K: "idle", DurMs: rapid.SampledFrom([]int{S/2 - 20, S/2 + 20, S, W / 2, W, W * 12 / 10}).Draw(rt, fmt.Sprintf("seg%d_dur", i))}
			}
			if s.DurMs > left {
				s.DurMs = left
			}
			left -= s.DurMs
			if s.K == "burst" { // a burst is followed by time for the reader to catch up
				c.Segs = append(c.Segs, s, c16KaSeg{K: "idle", DurMs: 30})
				left -= 30
				continue
			}
			c.Segs = append(c.Segs, s)
		}
	}
	if rapid.IntRange(0, 2).Draw(rt, "reverse") > 0 {
		c.BackGapMs = rapid.SampledFrom([]int{7, 50, S / 2, S}).Draw(rt, "back_gap")
		c.BackSize = rapid.SampledFrom([]int{1, 100, 1500}).Draw(rt, "back_size")
	}
	return c
}

func TestVerif_C16_keepalive(t *testing.T) {
	batch := 6
	rec := vh.NewRec("C16", "keepalive", fmt.Sprintf("rapid-generated histories of ONE established session whose two ends are both the package's own (heartbeatClient + SCTPConn as in openSCTP, heartbeatServer + SCTPConn as in acceptSCTP) over a harness-owned lossless in-memory message link, in real time with short intervals (sender 200-400 ms, watchdog 600-900 ms, ratio 2-3): the opening end's application writes a drawn pattern (steady runs at gaps from 2 ms to 1.5 x the sender's interval lasting 0.5-2.6 watchdog intervals, bursts, idle stretches up to 2.5 watchdog intervals, mixtures; message sizes 1-4096 incl. the heartbeat's length +-1), the accepting end optionally writes back, drawn read-buffer sizes, start skew, default / custom heartbeat payload, link honouring read deadlines or not; %d sessions side by side per rapid case; oracle = while both ends are open every Write succeeds, Reads return exactly the concatenation of the peer's writes (no keep-alive surfaces) and nobody closes the session (one-sided in time: a break counts when seen twice with timers on time and the reader not behind); non-trivial = the session was alive for at least two watchdog intervals; distinct by history", batch))
	defer rec.Flush()
	rec.Require("busy-past-watchdog", "idle-past-watchdog", "busy-and-idle-stretches", "reverse-traffic", "session-outlived-two-intervals")
	if p := vh.ReplayFile(); p != "" {
		var c c16KaCase
		if _, _, err := vh.LoadReplay(p, &c); err != nil {
			t.Fatal(err)
		}
		c16KaBatch(t, rec, []c16KaCase{c})
		return
	}
	rapid.Check(t, func(rt *rapid.T) {
		cs := make([]c16KaCase, batch)
		for i := range cs { // the shapes are enumerated, everything inside a shape is drawn
			cs[i] = c16KaGen(rt, c16KaShapes[i%len(c16KaShapes)])
		}
		c16KaBatch(rt, rec, cs)
	})
}
