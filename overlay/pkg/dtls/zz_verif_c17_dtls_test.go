package dtls

// C17 (DTLS transport sessions) — the station's side of a DTLS session runs over a datagram socket
// whose remote end is the client; every error that socket returns carries both endpoints in its
// text ("write udp <station>-><client>: ..."). The session stack below the station's own code
// (pion dtls / sctp) has loggers of its own that write to the process's stdout/stderr - the station
// log. Whatever happens to the socket, nothing written there may contain the client's address.

import (
	"bytes"
	"fmt"
	"io"
	golog "log"
	"net"
	"os"
	"strings"
	"sync"
	"sync/atomic"
	"syscall"
	"testing"
	"time"

	_ "pgregory.net/rapid" // registers the -rapid.* flags the driver passes to every unit
	"verif/harness/vh"
)

type c17sCase struct {
	Addr  string `json:"addr"`  // v4 | v6
	Role  string `json:"role"`  // dial (station = DTLS client + SCTP acceptor) | listen (station = DTLS server + SCTP opener)
	Op    string `json:"op"`    // write | read | both
	Errno string `json:"errno"` // refused | enetunreach | ehostunreach | eperm | enobufs | emsgsize
	After int    `json:"after"` // the fault starts at the After-th call of that kind (0 = from the start: the handshake fails), -1 = once the session carries data
}

type c17sConn struct {
	net.Conn
	local, remote *net.UDPAddr
	c             c17sCase
	armed         atomic.Bool
	writes, reads atomic.Int64
}

func (c *c17sConn) LocalAddr() net.Addr  { return c.local }
func (c *c17sConn) RemoteAddr() net.Addr { return c.remote }
func (c *c17sConn) errno() syscall.Errno {
	switch c.c.Errno {
	case "enetunreach":
		return syscall.ENETUNREACH
	case "ehostunreach":
		return syscall.EHOSTUNREACH
	case "eperm":
		return syscall.EPERM
	case "enobufs":
		return syscall.ENOBUFS
	case "emsgsize":
		return syscall.EMSGSIZE
	}
	return syscall.ECONNREFUSED
}
func (c *c17sConn) failing(op string, n int64) bool {
	if c.c.Op != op && c.c.Op != "both" {
		return false
	}
	if c.c.After < 0 {
		return c.armed.Load()
	}
	return n >= int64(c.c.After)
}
func (c *c17sConn) Write(p []byte) (int, error) {
	n := c.writes.Add(1) - 1
	if c.failing("write", n) {
		return 0, &net.OpError{Op: "write", Net: "udp", Source: c.local, Addr: c.remote, Err: os.NewSyscallError("write", c.errno())}
	}
	return c.Conn.Write(p)
}
func (c *c17sConn) Read(p []byte) (int, error) {
	n := c.reads.Add(1) - 1
	if c.failing("read", n) {
		// a connected UDP socket reports ICMP errors on the next read as well
		time.Sleep(2 * time.Millisecond)
		return 0, &net.OpError{Op: "read", Net: "udp", Source: c.local, Addr: c.remote, Err: os.NewSyscallError("read", c.errno())}
	}
	return c.Conn.Read(p)
}

var c17sSecret = []byte("verif-c17-dtls-session-secret-0123456789abcdef")

func TestVerif_C17_dtlssession(t *testing.T) {
	rec := vh.NewRec("C17", "dtlssession", "enumerated: {IPv4, IPv6 client} x {station dials (DTLS client + SCTP acceptor), station listens (DTLS server + SCTP opener)} x socket faults {write, read, both} x errnos x {from the start / from the k-th call of the handshake / once the session carries data}, the real pkg/dtls session code over a datagram pipe that reports UDP endpoint addresses and returns *net.OpError in the shape the net package produces; everything the process writes to stdout, stderr and the std logger is captured; oracle: no captured line contains the client address; non-trivial = the fault fired (the socket returned an error whose text carries the client address); distinct by case")
	defer rec.Flush()
	rec.Require("fault-fired", "fault-fired:established-session", "role:dial", "role:listen")
	if vh.ReplayFile() != "" && !strings.Contains(vh.ReplayFile(), "dtlssession") {
		t.Skip("replay file belongs to another sub-check")
	}
	run := func(c c17sCase) {
		clientIP := "203.0.113.77"
		needles := []string{"203.0.113.77"}
		if c.Addr == "v6" {
			clientIP = "2001:db8::c1e7:77"
			needles = []string{"c1e7:77", "C1E7:77"}
		}
		origOut, origErr, origLog := os.Stdout, os.Stderr, golog.Writer()
		rp, wp, err := os.Pipe()
		if err != nil {
			t.Fatalf("harness problem: %v", err)
		}
		os.Stdout, os.Stderr = wp, wp
		golog.SetOutput(wp)
		var captured bytes.Buffer
		var capWG sync.WaitGroup
		capWG.Add(1)
		go func() { defer capWG.Done(); _, _ = io.Copy(&captured, rp) }()
		restore := func() string {
			os.Stdout, os.Stderr = origOut, origErr
			golog.SetOutput(origLog)
			wp.Close()
			capWG.Wait()
			rp.Close()
			return captured.String()
		}
		stationEnd, clientEnd := net.Pipe()
		sock := &c17sConn{Conn: stationEnd, c: c,
			local:  &net.UDPAddr{IP: net.ParseIP("192.0.2.10"), Port: 41245},
			remote: &net.UDPAddr{IP: net.ParseIP(clientIP), Port: 54321}}
		type side struct {
			c   net.Conn
			err error
		}
		clientCh, stationCh := make(chan side, 1), make(chan side, 1)
		go func() {
			var cc net.Conn
			var err error
			if c.Role == "dial" {
				cc, err = Server(clientEnd, &Config{PSK: c17sSecret, SCTP: ClientOpen})
			} else {
				cc, err = Client(clientEnd, &Config{PSK: c17sSecret, SCTP: ServerAccept})
			}
			clientCh <- side{cc, err}
		}()
		go func() {
			var sc net.Conn
			var err error
			if c.Role == "dial" {
				sc, err = Client(sock, &Config{PSK: c17sSecret, SCTP: ServerAccept})
			} else {
				sc, err = Server(sock, &Config{PSK: c17sSecret, SCTP: ClientOpen})
			}
			stationCh <- side{sc, err}
		}()
		var st, cl side
		established := false
		// a handshake over the in-memory pipe takes milliseconds; one that has not finished after
		// 5 s is stuck on the injected fault (retransmissions until its own time-out)
		select {
		case st = <-stationCh:
		case <-time.After(5 * time.Second):
		}
		if st.c != nil && st.err == nil {
			select {
			case cl = <-clientCh:
			case <-time.After(5 * time.Second):
			}
		}
		if st.c != nil && cl.c != nil && st.err == nil && cl.err == nil {
			established = true
			// the session carries data
			go func() { _, _ = cl.c.Write([]byte("ping")) }()
			buf := make([]byte, 16)
			_ = st.c.SetReadDeadline(time.Now().Add(10 * time.Second))
			_, _ = st.c.Read(buf)
			_ = st.c.SetReadDeadline(time.Time{})
			// the client vanishes
			sock.armed.Store(true)
			_, _ = st.c.Write([]byte("covert data for the client"))
			time.Sleep(300 * time.Millisecond)
		}
		stationEnd.Close()
		clientEnd.Close()
		if st.c != nil {
			st.c.Close()
		}
		if cl.c != nil {
			cl.c.Close()
		}
		time.Sleep(60 * time.Millisecond)
		out := restore()
		fired := (c.Op != "read" && sock.writes.Load() > 0 && (c.After >= 0 && sock.writes.Load() > int64(c.After) || c.After < 0 && established)) ||
			(c.Op != "write" && (c.After >= 0 && sock.reads.Load() > int64(c.After) || c.After < 0 && established))
		classes := []string{"role:" + c.Role, "addr:" + c.Addr, "op:" + c.Op}
		if fired {
			classes = append(classes, "fault-fired")
			if established {
				classes = append(classes, "fault-fired:established-session")
			} else {
				classes = append(classes, "fault-fired:during-handshake")
			}
		}
		if out != "" {
			classes = append(classes, "something-was-written")
		}
		rec.Case(fired, vh.Digest(c), c, classes...)
		for _, line := range strings.Split(out, "\n") {
			for _, n := range needles {
				if strings.Contains(line, n) {
					rec.Violation(t, "leak:dtls-session-stack", c, "the client address appears in what the process wrote while a DTLS session's socket failed: %q [%s, station %ss, %s fails with %s, after=%d]", strings.TrimSpace(line), c.Addr, c.Role, c.Op, c.Errno, c.After)
					return
				}
			}
		}
	}
	if p := vh.ReplayFile(); p != "" {
		var c c17sCase
		if _, _, err := vh.LoadReplay(p, &c); err != nil {
			t.Fatal(err)
		}
		run(c)
		return
	}
	rec.SetExhaustive(true)
	errnos := []string{"refused", "enetunreach", "ehostunreach", "eperm", "enobufs", "emsgsize"}
	i := 0
	for _, addr := range []string{"v4", "v6"} {
		for _, role := range []string{"dial", "listen"} {
			for _, op := range []string{"write", "read", "both"} {
				for ai, after := range []int{-1, 0, 2, 5} {
					for ei, en := range errnos {
						if !vh.Thorough() && (ei+2*ai+len(op)+len(role)+len(addr))%12 != 0 {
							continue // quick tier: one errno per (role, op, position), rotating
						}
						i++
						if vh.Mine(i) {
							run(c17sCase{Addr: addr, Role: role, Op: op, Errno: en, After: after})
						}
					}
				}
			}
		}
	}
	_ = fmt.Sprint
}
