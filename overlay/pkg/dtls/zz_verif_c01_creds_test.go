package dtls

// C01 (DTLS credentials part) — both DTLS ends derive their certificates and the client-hello
// random (the listener's connection id) from the shared secret with certsFromSeed /
// clientHelloRandomFromSeed. The station side (listener.go, dial.go with ServerAccept) and the client
// side (server.go / dial.go with ClientOpen) call the same two functions on config.PSK, so "same on
// both sides" holds by construction; what needs pinning is the function itself, because clients in
// the field carry their own copy:
//
//	code      : certsFromSeed(secret), clientHelloRandomFromSeed(secret) -> public keys, serials,
//	            common names, hello random (NotBefore/NotAfter and the ECDSA signature are
//	            date / entropy dependent and excluded)
//	reference : c01ref.DTLSDerive (HKDF by hand, Go<=1.19 ecdsa key draw, rejection-sampled serial)
//	golden    : /verif/golden/C01/dtlscreds.json
//
// and purity: two derivations from the same secret give the same deterministic parts.

import (
	"crypto/ecdsa"
	"crypto/tls"
	"crypto/x509"
	"encoding/hex"
	"encoding/json"
	"fmt"
	"os"
	"path/filepath"
	"testing"

	"pgregory.net/rapid"
	"verif/harness/c01ref"
	"verif/harness/vh"
)

type c01CredCase struct {
	Secret vh.Hex `json:"secret"`
}

func c01CertOf(c *tls.Certificate) (c01ref.DTLSCert, error) {
	var out c01ref.DTLSCert
	if c == nil || len(c.Certificate) != 1 {
		return out, fmt.Errorf("certificate chain of length != 1")
	}
	x, err := x509.ParseCertificate(c.Certificate[0])
	if err != nil {
		return out, err
	}
	pk, ok := x.PublicKey.(*ecdsa.PublicKey)
	if !ok {
		return out, fmt.Errorf("public key type %T", x.PublicKey)
	}
	e, err := pk.ECDH()
	if err != nil {
		return out, err
	}
	priv, ok := c.PrivateKey.(*ecdsa.PrivateKey)
	if !ok || !priv.PublicKey.Equal(pk) {
		return out, fmt.Errorf("private key does not match the certificate")
	}
	out.PublicKey = hex.EncodeToString(e.Bytes())
	out.Serial = x.SerialNumber.String()
	out.CN = x.Subject.CommonName
	if len(x.DNSNames) != 1 || x.DNSNames[0] != out.CN {
		return out, fmt.Errorf("DNS names %v do not match CN %q", x.DNSNames, out.CN)
	}
	return out, nil
}

func c01CredEval(secret []byte) (*c01ref.DTLSCreds, error) {
	cc, sc, err := certsFromSeed(secret)
	if err != nil {
		return nil, err
	}
	hr, err := clientHelloRandomFromSeed(secret)
	if err != nil {
		return nil, err
	}
	out := &c01ref.DTLSCreds{HelloRandom: hex.EncodeToString(hr[:])}
	if out.Client, err = c01CertOf(cc); err != nil {
		return nil, err
	}
	if out.Server, err = c01CertOf(sc); err != nil {
		return nil, err
	}
	return out, nil
}

func c01CredDiff(a, b *c01ref.DTLSCreds) string {
	switch {
	case a.HelloRandom != b.HelloRandom:
		return "hello-random"
	case a.Client.PublicKey != b.Client.PublicKey:
		return "client-key"
	case a.Server.PublicKey != b.Server.PublicKey:
		return "server-key"
	case a.Client.Serial != b.Client.Serial || a.Server.Serial != b.Server.Serial:
		return "serial"
	case a.Client.CN != b.Client.CN || a.Server.CN != b.Server.CN:
		return "cn"
	}
	return ""
}

func c01CredCheck(t vh.Fataler, rec *vh.Rec, c *c01CredCase, want *c01ref.DTLSCreds) {
	got, err := c01CredEval(c.Secret)
	if err != nil {
		rec.Case(true, vh.Digest(c), c, "derivation-error")
		rec.Violation(t, "dtlscreds:error", c, "deriving DTLS credentials from a %d-byte secret failed: %v", len(c.Secret), err)
		return
	}
	classes := []string{}
	if want != nil {
		classes = append(classes, "golden-record")
	}
	if len(c.Secret) != 32 {
		classes = append(classes, "secret-len-not-32")
	}
	rec.Case(true, vh.Digest(c), c, classes...)
	again, err := c01CredEval(c.Secret)
	if err != nil {
		t.Fatalf("harness problem: second derivation failed: %v", err)
	}
	if d := c01CredDiff(got, again); d != "" {
		rec.Violation(t, "dtlscreds:impure:"+d, c, "two derivations from the same secret differ in %s: %+v vs %+v", d, got, again)
	}
	ref, err := c01ref.DTLSDerive(c.Secret)
	if err != nil {
		t.Fatalf("harness problem: reference: %v", err)
	}
	if d := c01CredDiff(got, ref); d != "" {
		rec.Violation(t, "dtlscreds:!=ref:"+d, c, "derived %s differs from the published derivation: code %+v reference %+v", d, got, ref)
	}
	if want != nil {
		if d := c01CredDiff(got, want); d != "" {
			rec.Violation(t, "golden:dtlscreds:"+d, c, "derived %s changed: recorded %+v now %+v", d, want, got)
		}
	}
}

type c01CredGolden struct {
	Case c01CredCase      `json:"case"`
	Want c01ref.DTLSCreds `json:"want"`
}

type c01CredGoldenFile struct {
	Comment string          `json:"_comment"`
	Records []c01CredGolden `json:"records"`
}

func c01GoldenDir() string {
	d := os.Getenv("VERIF_DIR")
	if d == "" {
		d = "/verif"
	}
	return filepath.Join(d, "golden", "C01")
}

func c01CredGen(rt *rapid.T) c01CredCase {
	var c c01CredCase
	if rapid.IntRange(0, 9).Draw(rt, "oddlen") == 0 {
		c.Secret = rapid.SliceOfN(rapid.Byte(), 0, 64).Draw(rt, "secret")
	} else {
		c.Secret = rapid.SliceOfN(rapid.Byte(), 32, 32).Draw(rt, "secret")
	}
	if c.Secret == nil {
		c.Secret = vh.Hex{}
	}
	return c
}

// c01CredWant looks the case up in the golden file (replay of a golden mismatch).
func c01CredWant(c *c01CredCase) *c01ref.DTLSCreds {
	b, err := os.ReadFile(filepath.Join(c01GoldenDir(), "dtlscreds.json"))
	if err != nil {
		return nil
	}
	var f c01CredGoldenFile
	if json.Unmarshal(b, &f) != nil {
		return nil
	}
	for i := range f.Records {
		if string(f.Records[i].Case.Secret) == string(c.Secret) {
			return &f.Records[i].Want
		}
	}
	return nil
}

func TestVerif_C01_dtlscreds(t *testing.T) {
	rec := vh.NewRec("C01", "dtlscreds", "DTLS credentials derived from the shared secret (client / server certificate public key, serial, CN; client-hello random) by the code vs the independent reference, derived twice (purity), over rapid-generated secrets, preceded by the replay of /verif/golden/C01/dtlscreds.json. Every case is non-trivial. Distinct = distinct secret.")
	defer rec.Flush()
	if p := vh.ReplayFile(); p != "" {
		var c c01CredCase
		if _, _, err := vh.LoadReplay(p, &c); err != nil {
			t.Fatal(err)
		}
		c01CredCheck(t, rec, &c, c01CredWant(&c))
		return
	}
	rec.Require("golden-record")
	b, err := os.ReadFile(filepath.Join(c01GoldenDir(), "dtlscreds.json"))
	if err != nil {
		t.Fatalf("harness problem: golden vectors missing: %v", err)
	}
	var f c01CredGoldenFile
	if err := json.Unmarshal(b, &f); err != nil {
		t.Fatalf("harness problem: golden vectors unreadable: %v", err)
	}
	for i := range f.Records {
		if vh.Mine(i) {
			c01CredCheck(t, rec, &f.Records[i].Case, &f.Records[i].Want)
		}
	}
	rapid.Check(t, func(rt *rapid.T) {
		c := c01CredGen(rt)
		c01CredCheck(rt, rec, &c, nil)
	})
}

// Generator mode (see /verif/golden/C01/regen.sh).
func TestVerifGen_C01_dtlscreds(t *testing.T) {
	dst := os.Getenv("VERIF_C01_GOLDEN_WRITE")
	if dst == "" {
		t.Skip("generator mode only (set VERIF_C01_GOLDEN_WRITE=<dir>)")
	}
	gen := rapid.Custom(c01CredGen)
	f := c01CredGoldenFile{Comment: "C01 golden vectors: deterministic parts of the DTLS credentials per shared secret, written by TestVerifGen_C01_dtlscreds from the tree at the time the check was built (no dates, no signatures)."}
	for i := 0; i < 300; i++ {
		c := gen.Example(i)
		got, err := c01CredEval(c.Secret)
		if err != nil {
			t.Fatalf("derivation failed for %x: %v", []byte(c.Secret), err)
		}
		ref, err := c01ref.DTLSDerive(c.Secret)
		if err != nil {
			t.Fatal(err)
		}
		if d := c01CredDiff(got, ref); d != "" {
			t.Fatalf("refusing to write golden vectors: %x: %s differs from the reference", []byte(c.Secret), d)
		}
		f.Records = append(f.Records, c01CredGolden{Case: c, Want: *got})
	}
	b, err := json.MarshalIndent(f, "", " ")
	if err != nil {
		t.Fatal(err)
	}
	if err := os.MkdirAll(dst, 0o755); err != nil {
		t.Fatal(err)
	}
	if err := os.WriteFile(filepath.Join(dst, "dtlscreds.json"), append(b, '\n'), 0o644); err != nil {
		t.Fatal(err)
	}
	t.Logf("wrote %d records", len(f.Records))
}
