package dtls

// C16 sub-check 1 — both ends derive identical credentials from a shared secret, and a handshake
// completes only when both used the same secret.
//
// For a drawn secret A and a related secret B != A (random, one bit flipped, a zero byte appended,
// last byte dropped, a zero byte prepended):
//   * two derivations from A agree on private key, public key, serial number, common name (client and
//     server certificate) and on the client-hello random; derivations from A and B disagree;
//   * verifyCert accepts a certificate derived from A against one derived (again) from A and rejects
//     one derived from B, for both roles;
//   * real handshakes: on a Listener over loopback UDP an acceptor waits with A; a dial with B must
//     fail and must leave the acceptor waiting; a dial with A must then complete and the two ends
//     exchange a message. The same pair of outcomes is required of Server()/Client() over an
//     in-memory pipe. A handshake that merely times out proves nothing and is repeated.

import (
	"bytes"
	"context"
	"crypto/ecdsa"
	"crypto/tls"
	"crypto/x509"
	"fmt"
	"net"
	"sync/atomic"
	"testing"
	"time"

	"pgregory.net/rapid"
	"verif/harness/vh"
)

type c16CredCase struct {
	Secret vh.Hex `json:"secret"`
	Mut    string `json:"mut"` // random | flipbit | append0 | droplast | prepend0
	Other  vh.Hex `json:"other"`
	Path   string `json:"path"` // udp | pipe | none
}

type c16CertFields struct {
	d, x, y string
	serial  string
	cn      string
	dns     string
}

func c16Fields(c *tls.Certificate) (c16CertFields, error) {
	var f c16CertFields
	k, ok := c.PrivateKey.(*ecdsa.PrivateKey)
	if !ok {
		return f, fmt.Errorf("private key is %T", c.PrivateKey)
	}
	f.d, f.x, f.y = k.D.String(), k.X.String(), k.Y.String()
	if len(c.Certificate) != 1 {
		return f, fmt.Errorf("%d certificates in chain", len(c.Certificate))
	}
	p, err := x509.ParseCertificate(c.Certificate[0])
	if err != nil {
		return f, err
	}
	f.serial = p.SerialNumber.String()
	f.cn = p.Subject.CommonName
	if len(p.DNSNames) > 0 {
		f.dns = p.DNSNames[0]
	}
	pk, ok := p.PublicKey.(*ecdsa.PublicKey)
	if !ok || pk.X.String() != f.x || pk.Y.String() != f.y {
		return f, fmt.Errorf("certificate public key does not belong to the private key")
	}
	return f, nil
}

func c16FieldDiff(a, b c16CertFields) string {
	switch {
	case a.d != b.d || a.x != b.x || a.y != b.y:
		return "key"
	case a.serial != b.serial:
		return "serial"
	case a.cn != b.cn || a.dns != b.dns:
		return "common-name"
	}
	return ""
}

// c16CredPure checks derivation and verifyCert.
func c16CredPure(c c16CredCase) (key, msg string) {
	a1c, a1s, err := certsFromSeed(c.Secret)
	if err != nil {
		return "cred:derivation-error", "certsFromSeed: " + err.Error()
	}
	a2c, a2s, err := certsFromSeed(c.Secret)
	if err != nil {
		return "cred:derivation-error", "certsFromSeed: " + err.Error()
	}
	r1, err1 := clientHelloRandomFromSeed(c.Secret)
	r2, err2 := clientHelloRandomFromSeed(c.Secret)
	if err1 != nil || err2 != nil {
		return "cred:derivation-error", fmt.Sprintf("clientHelloRandomFromSeed: %v %v", err1, err2)
	}
	if r1 != r2 {
		return "cred:hello-random-differs", "two derivations of the client-hello random from one secret differ"
	}
	for _, pr := range []struct {
		role string
		a, b *tls.Certificate
	}{{"client", a1c, a2c}, {"server", a1s, a2s}} {
		fa, err := c16Fields(pr.a)
		if err != nil {
			return "cred:derivation-error", pr.role + " certificate: " + err.Error()
		}
		fb, err := c16Fields(pr.b)
		if err != nil {
			return "cred:derivation-error", pr.role + " certificate: " + err.Error()
		}
		if d := c16FieldDiff(fa, fb); d != "" {
			return "cred:" + d + "-differs", fmt.Sprintf("two derivations of the %s certificate from one secret differ in %s", pr.role, d)
		}
		if err := verifyCert(pr.b.Certificate[0], pr.a.Certificate[0]); err != nil {
			return "cred:same-secret-rejected", fmt.Sprintf("verifyCert rejects a %s certificate derived from the same secret: %v", pr.role, err)
		}
	}
	if !bytes.Equal(c.Secret, c.Other) {
		bc, bs, err := certsFromSeed(c.Other)
		if err != nil {
			return "cred:derivation-error", "certsFromSeed(other): " + err.Error()
		}
		rb, err := clientHelloRandomFromSeed(c.Other)
		if err != nil {
			return "cred:derivation-error", err.Error()
		}
		if rb == r1 {
			return "cred:different-secret-same-hello-random", fmt.Sprintf("secrets %x and %x (%s) give the same client-hello random", []byte(c.Secret), []byte(c.Other), c.Mut)
		}
		if err := verifyCert(bc.Certificate[0], a1c.Certificate[0]); err == nil {
			return "cred:different-secret-accepted", fmt.Sprintf("verifyCert accepts the client certificate of secret %x against the one of %x (%s)", []byte(c.Other), []byte(c.Secret), c.Mut)
		}
		if err := verifyCert(bs.Certificate[0], a1s.Certificate[0]); err == nil {
			return "cred:different-secret-accepted", fmt.Sprintf("verifyCert accepts the server certificate of secret %x against the one of %x (%s)", []byte(c.Other), []byte(c.Secret), c.Mut)
		}
	}
	return "", ""
}

const (
	c16HSWait   = 10 * time.Second // context for a handshake that is expected to complete
	c16TagWait  = 6 * time.Second
	c16FailWait = 4 * time.Second // context for a handshake that is expected to fail
)

type c16AccRes struct {
	conn net.Conn
	err  error
}

// c16CredUDP: acceptor(A) waits on a Listener; dial(B) must fail; dial(A) must complete.
// Returns key "slow:..." when only a time-out stood in the way.
func c16CredUDP(c c16CredCase) (key, msg string) {
	cl, err := c16Shared()
	if err != nil {
		return "harness", "listen: " + err.Error()
	}
	if a, b := cl.registered(c.Secret); a || b {
		return "harness", "the secret of this case is already registered on the shared listener"
	}
	// a deadline, not only a cancel: SCTP set-up inside AcceptWithContext ignores cancellation
	actx, acancel := context.WithTimeout(context.Background(), c16FailWait+2*c16HSWait)
	defer acancel()
	accCh := make(chan c16AccRes, 1)
	go func() {
		conn, err := cl.l.AcceptWithContext(actx, &Config{PSK: c.Secret, SCTP: ServerAccept})
		accCh <- c16AccRes{conn, err}
	}()
	finishAccept := func() c16AccRes {
		acancel()
		r := <-accCh
		if r.conn != nil {
			r.conn.Close()
		}
		return r
	}
	// wait until the acceptor is registered (bounded; not a verdict)
	for i := 0; i < 4000; i++ {
		a, b := cl.registered(c.Secret)
		if a && b {
			break
		}
		time.Sleep(250 * time.Microsecond)
	}
	if !bytes.Equal(c.Secret, c.Other) {
		dctx, dcancel := context.WithTimeout(context.Background(), c16FailWait)
		dconn, derr := DialWithContext(dctx, cl.addr, &Config{PSK: c.Other, SCTP: ClientOpen})
		dcancel()
		if derr == nil {
			dconn.Close()
			finishAccept()
			return "cred:handshake-completed-with-different-secrets", fmt.Sprintf("Dial with secret %x completed against a Listener on which only %x (%s) was registered", []byte(c.Other), []byte(c.Secret), c.Mut)
		}
		select {
		case r := <-accCh:
			if r.conn != nil {
				r.conn.Close()
				return "cred:handshake-completed-with-different-secrets", fmt.Sprintf("the acceptor for %x received the connection dialled with %x (%s)", []byte(c.Secret), []byte(c.Other), c.Mut)
			}
			return "harness", fmt.Sprintf("acceptor returned early: %v", r.err)
		default:
		}
	}
	dctx, dcancel := context.WithTimeout(context.Background(), c16HSWait)
	defer dcancel()
	dconn, derr := DialWithContext(dctx, cl.addr, &Config{PSK: c.Secret, SCTP: ClientOpen})
	if derr != nil {
		finishAccept()
		return c16SlowKey(derr) + "cred:same-secret-handshake-failed", "Dial with the acceptor's secret failed: " + derr.Error()
	}
	defer dconn.Close()
	var r c16AccRes
	select {
	case r = <-accCh:
	case <-time.After(c16HSWait):
		r = finishAccept()
		return "tmo:cred:same-secret-handshake-failed", fmt.Sprintf("Dial completed but the acceptor did not return within %v (%v)", c16HSWait, r.err)
	}
	if r.err != nil || r.conn == nil {
		return c16SlowKey(r.err) + "cred:same-secret-handshake-failed", fmt.Sprintf("Dial completed but Accept failed: %v", r.err)
	}
	defer r.conn.Close()
	if err := c16WriteTag(dconn, c16Tag('D', c.Secret, 1), c16TagWait); err != nil {
		return c16SlowKey(err) + "cred:same-secret-handshake-failed", "write on the dialled connection: " + err.Error()
	}
	got, err := c16ReadTag(r.conn, c16TagWait)
	if err != nil {
		return c16SlowKey(err) + "cred:same-secret-handshake-failed", "the acceptor could not read the dialer's message: " + err.Error()
	}
	if !bytes.Equal(got, c16Tag('D', c.Secret, 1)) {
		return "cred:message-garbled", fmt.Sprintf("the acceptor read %q", got)
	}
	if err := c16WriteTag(r.conn, c16Tag('A', c.Secret, 1), c16TagWait); err != nil {
		return c16SlowKey(err) + "cred:same-secret-handshake-failed", "write on the accepted connection: " + err.Error()
	}
	got, err = c16ReadTag(dconn, c16TagWait)
	if err != nil {
		return c16SlowKey(err) + "cred:same-secret-handshake-failed", "the dialer could not read the acceptor's message: " + err.Error()
	}
	if !bytes.Equal(got, c16Tag('A', c.Secret, 1)) {
		return "cred:message-garbled", fmt.Sprintf("the dialer read %q", got)
	}
	if certs, chans := cl.mapSizes(); certs != 0 || chans != 0 {
		return "cred:registration-leaked", fmt.Sprintf("after Accept returned the listener still holds %d certificate and %d channel registrations", certs, chans)
	}
	return "", ""
}

// c16PipePair runs Server(sa) / Client(sb) over an in-memory pipe and reports whether both completed.
func c16PipePair(sa, sb []byte, wait time.Duration) (completed bool, serr, cerr error) {
	sp, cp := net.Pipe()
	ctx, cancel := context.WithTimeout(context.Background(), wait)
	defer cancel()
	sCh := make(chan c16AccRes, 1)
	go func() {
		conn, err := ServerWithContext(ctx, sp, &Config{PSK: sa, SCTP: ServerAccept})
		sCh <- c16AccRes{conn, err}
	}()
	cconn, cerr := ClientWithContext(ctx, cp, &Config{PSK: sb, SCTP: ClientOpen})
	if cerr != nil {
		// make sure the server side ends
		cancel()
		cp.Close()
		sp.Close()
	}
	sr := <-sCh
	completed = cerr == nil && sr.err == nil
	if completed {
		// one message each way
		tag := c16Tag('D', sb, 2)
		if err := c16WriteTag(cconn, tag, c16TagWait); err != nil {
			cerr = err
			completed = false
		} else if got, err := c16ReadTag(sr.conn, c16TagWait); err != nil || !bytes.Equal(got, tag) {
			serr = fmt.Errorf("server read %q, %v", got, err)
			completed = false
		}
	}
	if cconn != nil {
		cconn.Close()
	}
	if sr.conn != nil {
		sr.conn.Close()
	}
	sp.Close()
	cp.Close()
	return completed, sr.err, cerr
}

func c16CredPipe(c c16CredCase) (key, msg string) {
	if !bytes.Equal(c.Secret, c.Other) {
		done, serr, cerr := c16PipePair(c.Secret, c.Other, c16FailWait)
		if done {
			return "cred:handshake-completed-with-different-secrets", fmt.Sprintf("Server(%x) and Client(%x) (%s) completed a handshake over a pipe", []byte(c.Secret), []byte(c.Other), c.Mut)
		}
		_, _ = serr, cerr
	}
	done, serr, cerr := c16PipePair(c.Secret, c.Secret, c16HSWait)
	if !done {
		pre := "slow:"
		if c16IsTimeout(serr) || c16IsTimeout(cerr) {
			pre = "tmo:"
		}
		return pre + "cred:same-secret-handshake-failed", fmt.Sprintf("Server and Client with the same secret did not complete over a pipe: server %v, client %v", serr, cerr)
	}
	return "", ""
}

var c16CredTimeouts int32 // consecutive handshake cases that ended in a time-out

func c16CredCheck(t vh.Fataler, rec *vh.Rec, c c16CredCase) {
	classes := []string{"mut-" + c.Mut, "path-" + c.Path, fmt.Sprintf("secret-len-%d", len(c.Secret))}
	key, msg := c16CredPure(c)
	path := c.Path
	if path != "none" && atomic.LoadInt32(&c16CredTimeouts) >= 3 {
		// handshakes keep timing out in this process: stop spending the budget on them
		classes = append(classes, "handshake-skipped-after-repeated-timeouts")
		path = "none"
	}
	inconclusive := false
	if key == "" && path != "none" {
		var cl map[string]bool
		key, msg, cl = c16Timed(c16Stalled, func() (string, string, map[string]bool) {
			var k, m string
			switch path {
			case "udp":
				k, m = c16CredUDP(c)
			case "pipe":
				k, m = c16CredPipe(c)
			}
			return k, m, map[string]bool{}
		})
		for k := range cl {
			classes = append(classes, k)
		}
		if cl["inconclusive-timeout"] || cl["inconclusive"] {
			atomic.AddInt32(&c16CredTimeouts, 1)
			inconclusive = true
		} else {
			atomic.StoreInt32(&c16CredTimeouts, 0)
		}
	}
	hs := key == "" && path != "none" && !inconclusive
	if hs {
		classes = append(classes, "handshake-completed")
		if !bytes.Equal(c.Secret, c.Other) {
			classes = append(classes, "mismatch-refused")
		}
	}
	rec.Case(hs && !bytes.Equal(c.Secret, c.Other), vh.Digest(c), c, classes...)
	if key == "harness" {
		t.Fatalf("harness problem: %s", msg)
	}
	if key != "" {
		rec.Violation(t, key, c, "%s", msg)
	}
}

func c16Mutate(a []byte, mut string, other []byte, bit int) []byte {
	b := append([]byte{}, a...)
	switch mut {
	case "flipbit":
		if len(b) == 0 {
			return []byte{1}
		}
		b[(bit/8)%len(b)] ^= 1 << uint(bit%8)
	case "append0":
		b = append(b, 0)
	case "droplast":
		if len(b) == 0 {
			return []byte{0}
		}
		b = b[:len(b)-1]
	case "prepend0":
		b = append([]byte{0}, b...)
	case "same":
	default:
		b = append([]byte{}, other...)
		if bytes.Equal(a, b) {
			b = append(b, 0x55)
		}
	}
	return b
}

func c16CredGen(rt *rapid.T, withHS bool) c16CredCase {
	n := rapid.SampledFrom([]int{32, 32, 32, 32, 1, 8, 16, 31, 33, 64, 0}).Draw(rt, "len")
	a := rapid.SliceOfN(rapid.Byte(), n, n).Draw(rt, "secret")
	mut := rapid.SampledFrom([]string{"random", "flipbit", "flipbit", "append0", "droplast", "prepend0"}).Draw(rt, "mut")
	other := rapid.SliceOfN(rapid.Byte(), 32, 32).Draw(rt, "other")
	bit := rapid.IntRange(0, 8*64).Draw(rt, "bit")
	c := c16CredCase{Secret: a, Mut: mut, Other: c16Mutate(a, mut, other, bit), Path: "none"}
	if withHS {
		c.Path = rapid.SampledFrom([]string{"udp", "udp", "pipe"}).Draw(rt, "path")
	}
	return c
}

// Derivation and verifyCert only (cheap, many cases).
func TestVerif_C16_credentials(t *testing.T) {
	rec := vh.NewRec("C16", "credentials", "rapid-generated secrets (length 0..64, mostly 32) each with a related secret (random / one bit flipped / zero byte appended / last byte dropped / zero byte prepended): field-by-field comparison of two derivations, verifyCert same-secret accept and different-secret reject; in one case out of 4 also real handshakes (acceptor with A on a loopback-UDP Listener: dial with B must fail and leave the acceptor waiting, dial with A must complete and carry a message each way; or Server/Client over an in-memory pipe); non-trivial = a case with real handshakes for two different secrets; distinct by case")
	defer rec.Flush()
	rec.Require("handshake-completed", "mismatch-refused", "path-udp", "path-pipe", "path-none", "mut-flipbit", "mut-random")
	if p := vh.ReplayFile(); p != "" {
		var c c16CredCase
		if _, _, err := vh.LoadReplay(p, &c); err != nil {
			t.Fatal(err)
		}
		c16CredCheck(t, rec, c)
		return
	}
	// the two handshake paths once each, whatever the draw
	fixed := []byte("c16 fixed secret, 32 bytes long!")
	if vh.Mine(0) {
		c16CredCheck(t, rec, c16CredCase{Secret: fixed, Mut: "flipbit", Other: c16Mutate(fixed, "flipbit", nil, 255), Path: "udp"})
	}
	if vh.Mine(1) {
		c16CredCheck(t, rec, c16CredCase{Secret: fixed, Mut: "random", Other: c16Mutate(fixed, "random", []byte("another secret"), 0), Path: "pipe"})
	}
	rapid.Check(t, func(rt *rapid.T) {
		withHS := rapid.IntRange(0, 3).Draw(rt, "with-handshake") == 0
		c := c16CredGen(rt, withHS)
		c16CredCheck(rt, rec, c)
	})
}
