package dtls

// C16 sub-check "sessions" — the established connection is a lossless ordered byte stream, observed on
// REAL sessions (DTLS + SCTP + heartbeat layers as the entry points build them), not on mock streams.
//
// A session is established through one of the pairs of entry points
//   listener   AcceptWithContext on the shared Listener  <->  DialWithContext (loopback UDP)
//   pipe       ServerWithContext  <->  ClientWithContext over an in-memory pipe
//   udp        ServerWithContext  <->  ClientWithContext over a dialled UDP socket
// with either SCTP arrangement (the DTLS client opens the stream and sends the heartbeats, or - as when
// the station dials out to the client - the DTLS client accepts it), and with a context of each kind on
// each end: Background, cancel-only (cancelled once the call has returned), a short deadline, a short
// deadline that is also cancelled once the call has returned.
// Both ends then exchange messages in both directions whose sizes include the exact limits (65535, 65536
// = the SCTP maximum message size, 65537 and more, which Write refuses), read with drawn buffer sizes.
// When a context carried a deadline the exchange is repeated after that instant has passed (a real wait
// of well under a second): nothing that bounded the set-up may outlive it.
//
// Oracle: every Write of 1..65536 bytes on a live session succeeds completely; the bytes returned by
// Read on the other end are exactly the concatenation of what Write accepted; a Write that is refused
// (oversize) returns an error, transfers nothing and leaves the session usable.
//   sessions:write-failed   a legal Write failed (e.g. the session died when the set-up deadline came)
//   sessions:data-lost      the reader saw an error / the close before everything accepted had arrived
//   sessions:bytes-differ   the reader's bytes are not the concatenation of the accepted writes
// Failures that are (or may be) time-outs are inconclusive; the others count when seen twice.

import (
	"bytes"
	"context"
	"fmt"
	"net"
	"sync"
	"testing"
	"time"

	"pgregory.net/rapid"
	"verif/harness/vh"
)

type c16SessCase struct {
	Pair    string `json:"pair"`      // listener | pipe | udp
	Flip    bool   `json:"flip_sctp"` // the DTLS client end accepts the SCTP stream, the DTLS server end opens it
	DialCtx string `json:"dial_ctx"`  // background | cancel | deadline | deadline-cancel
	AccCtx  string `json:"accept_ctx"`
	DialMs  int    `json:"dial_ms"`
	AccMs   int    `json:"accept_ms"`
	Secret  vh.Hex `json:"secret"`
	AB      []int  `json:"sizes_dialer_to_acceptor"`
	BA      []int  `json:"sizes_acceptor_to_dialer"`
	Reads   []int  `json:"reads"`
}

const c16SessMaxMsg = 65536 // sctp's maximum message size: the largest Write the connection accepts

// c16SessReader drains one end into a buffer for the whole life of the session.
type c16SessReader struct {
	mu    sync.Mutex
	buf   []byte
	err   error
	errAt time.Time
	done  chan struct{}
}

func c16StartSessReader(conn net.Conn, reads []int) *c16SessReader {
	r := &c16SessReader{done: make(chan struct{})}
	max := 1
	for _, n := range reads {
		if n > max {
			max = n
		}
	}
	go func() {
		defer close(r.done)
		b := make([]byte, max)
		for i := 0; ; i++ {
			n, err := conn.Read(b[:reads[i%len(reads)]])
			r.mu.Lock()
			r.buf = append(r.buf, b[:n]...)
			if err != nil {
				r.err, r.errAt = err, time.Now()
				r.mu.Unlock()
				return
			}
			r.mu.Unlock()
		}
	}()
	return r
}

func (r *c16SessReader) state() (int, error) {
	r.mu.Lock()
	defer r.mu.Unlock()
	return len(r.buf), r.err
}

type c16SessCtx struct {
	ctx     context.Context
	cancel  context.CancelFunc
	ddl     time.Time
	kind    string
	afterOK bool // cancel once the call has returned
}

func c16NewSessCtx(kind string, ms int) *c16SessCtx {
	s := &c16SessCtx{kind: kind}
	switch kind {
	case "cancel":
		s.ctx, s.cancel = context.WithCancel(context.Background())
		s.afterOK = true
	case "deadline", "deadline-cancel":
		s.ddl = time.Now().Add(time.Duration(ms) * time.Millisecond)
		s.ctx, s.cancel = context.WithDeadline(context.Background(), s.ddl)
		s.afterOK = kind == "deadline-cancel"
	default:
		s.ctx, s.cancel = context.Background(), func() {}
	}
	return s
}

type c16SessEnds struct {
	dialer, acceptor net.Conn
	cleanup          func()
}

// c16SessEstablish builds the session. Errors come back with a flag saying whether only a time-out
// (or the short deadline itself) stood in the way.
func c16SessEstablish(c c16SessCase, dctx, actx *c16SessCtx) (ends c16SessEnds, err error) {
	dialSCTP, accSCTP := ClientOpen, ServerAccept
	if c.Flip {
		dialSCTP, accSCTP = ServerAccept, ClientOpen
	}
	type res struct {
		conn net.Conn
		err  error
	}
	accCh := make(chan res, 1)
	var closers []func()
	ends.cleanup = func() {
		for _, f := range closers {
			f()
		}
	}
	var dconn net.Conn
	var derr error
	switch c.Pair {
	case "listener":
		cl, lerr := c16Shared()
		if lerr != nil {
			return ends, lerr
		}
		// the acceptor may be handed a connection: it always needs some deadline to be releasable
		// (see the routing sub-check); Background / cancel-only kinds get a far one
		a := actx.ctx
		if actx.ddl.IsZero() {
			var far context.CancelFunc
			a, far = context.WithTimeout(actx.ctx, 20*time.Second)
			closers = append(closers, func() { far() })
		}
		go func() {
			conn, err := cl.l.AcceptWithContext(a, &Config{PSK: c.Secret, SCTP: accSCTP})
			accCh <- res{conn, err}
		}()
		for i := 0; i < 8000; i++ {
			if x, y := cl.registered(c.Secret); x && y {
				break
			}
			time.Sleep(200 * time.Microsecond)
		}
		dconn, derr = DialWithContext(dctx.ctx, cl.addr, &Config{PSK: c.Secret, SCTP: dialSCTP})
		if derr != nil {
			actx.cancel() // nobody will come: release the acceptor
			ends.cleanup()
		}
	default:
		kind := "pipe"
		if c.Pair == "udp" {
			kind = "udp"
		}
		// the dialling end (DTLS client) holds the dialled socket
		cEnd, sEnd, terr := c16PeerTransport(kind)
		if terr != nil {
			return ends, fmt.Errorf("transport: %w: %v", context.DeadlineExceeded, terr)
		}
		closers = append(closers, func() { cEnd.Close(); sEnd.Close() })
		go func() {
			conn, err := ServerWithContext(actx.ctx, sEnd, &Config{PSK: c.Secret, SCTP: accSCTP})
			accCh <- res{conn, err}
		}()
		dconn, derr = ClientWithContext(dctx.ctx, cEnd, &Config{PSK: c.Secret, SCTP: dialSCTP})
		if derr != nil {
			cEnd.Close()
			sEnd.Close()
		}
	}
	var ar res
	select {
	case ar = <-accCh:
	case <-time.After(12 * time.Second):
		dctx.cancel()
		actx.cancel()
		ends.cleanup()
		select {
		case ar = <-accCh:
		case <-time.After(25 * time.Second):
			return ends, fmt.Errorf("harness: the accepting call did not return")
		}
		if ar.conn != nil {
			ar.conn.Close()
		}
		if dconn != nil {
			dconn.Close()
		}
		return ends, fmt.Errorf("accepting end timed out: %w", context.DeadlineExceeded)
	}
	if derr != nil || ar.err != nil {
		if dconn != nil {
			dconn.Close()
		}
		if ar.conn != nil {
			ar.conn.Close()
		}
		ends.cleanup()
		if derr != nil {
			return ends, fmt.Errorf("dialling end: %w", derr)
		}
		return ends, fmt.Errorf("accepting end: %w", ar.err)
	}
	ends.dialer, ends.acceptor = dconn, ar.conn
	closers = append(closers, func() { dconn.Close(); ar.conn.Close() })
	return ends, nil
}

const c16SessWait = 6 * time.Second

// c16SessRun plays one case. Keys: "" | "harness" | "tmo:..." | "slow:..." | final keys.
func c16SessRun(c c16SessCase) (key, msg string, classes map[string]bool) {
	classes = map[string]bool{"pair-" + c.Pair: true, "dial-ctx-" + c.DialCtx: true, "accept-ctx-" + c.AccCtx: true}
	if c.Flip {
		classes["dtls-client-accepts-sctp"] = true
	} else {
		classes["dtls-client-opens-sctp"] = true
	}
	dctx := c16NewSessCtx(c.DialCtx, c.DialMs)
	actx := c16NewSessCtx(c.AccCtx, c.AccMs)
	defer dctx.cancel()
	defer actx.cancel()
	ends, err := c16SessEstablish(c, dctx, actx)
	if err != nil {
		if len(err.Error()) > 8 && err.Error()[:8] == "harness:" {
			return "harness", err.Error(), classes
		}
		if c16IsTimeout(err) {
			return "tmo:sessions:establish-failed", err.Error(), classes
		}
		return "slow:sessions:establish-failed", fmt.Sprintf("both ends used the same secret but the session was not established: %v", err), classes
	}
	defer ends.cleanup()
	if dctx.afterOK {
		dctx.cancel()
	}
	if actx.afterOK {
		actx.cancel()
	}
	rd := map[string]*c16SessReader{
		"dialer":   c16StartSessReader(ends.dialer, c.Reads),
		"acceptor": c16StartSessReader(ends.acceptor, c.Reads),
	}
	exp := map[string][]byte{"dialer": nil, "acceptor": nil} // what each end must have read
	sent := map[string]int{}

	// send writes the messages from one end and then waits until the other end has read all of it
	send := func(phase string, from, to string, w net.Conn, sizes []int) (string, string) {
		for i, n := range sizes {
			if n < 0 {
				n = 0
			}
			p := make([]byte, n)
			c16Fill(p, sent[from])
			var wn int
			var werr error
			done := make(chan struct{})
			go func() { wn, werr = w.Write(p); close(done) }()
			select {
			case <-done:
			case <-time.After(c16SessWait):
				w.Close()
				<-done
				return "tmo:sessions:write-failed", fmt.Sprintf("%s: Write(%d) from the %s did not return within %v", phase, n, from, c16SessWait)
			}
			if wn < 0 || wn > n {
				return "sessions:bytes-differ", fmt.Sprintf("%s: Write(%d) from the %s returned n=%d", phase, n, from, wn)
			}
			exp[to] = append(exp[to], p[:wn]...)
			sent[from] += wn
			switch {
			case n == c16SessMaxMsg:
				classes["message-of-maximum-size"] = true
			case n == c16SessMaxMsg-1:
				classes["message-one-below-maximum"] = true
			}
			if n > c16SessMaxMsg {
				classes["oversize-write"] = true
				if werr == nil && wn == n {
					classes["oversize-write-accepted"] = true
				} else if werr != nil && wn == 0 {
					classes["oversize-write-refused"] = true
				} else {
					return "sessions:partial-write", fmt.Sprintf("%s: Write(%d) from the %s returned (%d, %v)", phase, n, from, wn, werr)
				}
				continue
			}
			if werr != nil || wn != n {
				pre := c16SlowKey(werr)
				if werr == nil {
					pre = "slow:"
				}
				_, rerr := rd[from].state()
				return pre + "sessions:write-failed", fmt.Sprintf("%s: Write #%d of %d bytes from the %s returned (%d, %v) on a session nobody had closed (that end's reader: %v)", phase, i, n, from, wn, werr, rerr)
			}
		}
		// everything accepted must come out on the other side
		end := time.Now().Add(c16SessWait)
		for {
			got, rerr := rd[to].state()
			if got >= len(exp[to]) {
				break
			}
			if rerr != nil {
				pre := c16SlowKey(rerr)
				return pre + "sessions:data-lost", fmt.Sprintf("%s: the %s's Read returned %v after %d of the %d bytes the %s's Writes had accepted (sizes written in this phase: %v)", phase, to, rerr, got, len(exp[to]), from, sizes)
			}
			if time.Now().After(end) {
				return "tmo:sessions:data-lost", fmt.Sprintf("%s: the %s had read only %d of %d bytes after %v", phase, to, got, len(exp[to]), c16SessWait)
			}
			time.Sleep(300 * time.Microsecond)
		}
		r := rd[to]
		r.mu.Lock()
		same := bytes.Equal(r.buf, exp[to])
		d := c16FirstDiff(r.buf, exp[to])
		gl := len(r.buf)
		r.mu.Unlock()
		if !same {
			return "sessions:bytes-differ", fmt.Sprintf("%s: what the %s read differs from the concatenation of the %s's accepted Writes at byte %d (read %d bytes, accepted %d)", phase, to, from, d, gl, len(exp[to]))
		}
		return "", ""
	}
	phase := func(name string) (string, string) {
		if k, m := send(name, "dialer", "acceptor", ends.dialer, c.AB); k != "" {
			return k, m
		}
		return send(name, "acceptor", "dialer", ends.acceptor, c.BA)
	}
	if k, m := phase("before any deadline"); k != "" {
		return k, m, classes
	}
	last := dctx.ddl
	if actx.ddl.After(last) {
		last = actx.ddl
	}
	if !last.IsZero() {
		time.Sleep(time.Until(last.Add(150 * time.Millisecond)))
		classes["used-after-setup-deadline"] = true
		name := fmt.Sprintf("%v after the set-up deadline (dial context %s %d ms, accept context %s %d ms)", time.Since(last).Round(10*time.Millisecond), c.DialCtx, c.DialMs, c.AccCtx, c.AccMs)
		if k, m := phase(name); k != "" {
			return k, m, classes
		}
	}
	classes["exchange-complete"] = true
	return "", "", classes
}

func c16SessCheck(t vh.Fataler, rec *vh.Rec, c c16SessCase) {
	if len(c.Reads) == 0 || len(c.Secret) == 0 {
		t.Fatalf("harness problem: malformed sessions case")
	}
	for _, r := range c.Reads {
		if r < 1 {
			t.Fatalf("harness problem: malformed sessions case")
		}
	}
	key, msg, cl := c16Timed(c16Stalled, func() (string, string, map[string]bool) { return c16SessRun(c) })
	var classes []string
	for k := range cl {
		classes = append(classes, k)
	}
	rec.Case(cl["exchange-complete"] && (cl["used-after-setup-deadline"] || cl["message-of-maximum-size"]), vh.Digest(c), c, classes...)
	if key == "harness" {
		t.Fatalf("harness problem: %s", msg)
	}
	if key != "" {
		rec.Violation(t, key, c, "%s; pair=%s flip_sctp=%v", msg, c.Pair, c.Flip)
	}
}

var c16SessSecretN int

func c16SessSecret(tag string) []byte {
	c16SessSecretN++
	return c16DeriveSecret(0x5e55, c16SessSecretN*131+len(tag))
}

func c16SessSizes(rt *rapid.T, label string) []int {
	n := rapid.IntRange(1, 6).Draw(rt, label+"-n")
	var out []int
	big := 0
	for i := 0; i < n; i++ {
		var s int
		switch rapid.IntRange(0, 9).Draw(rt, label+"-cls") {
		case 0:
			s = 1
		case 1:
			s = c16SessMaxMsg - 1
		case 2, 3:
			s = c16SessMaxMsg
		case 4:
			s = c16SessMaxMsg + 1
		case 5:
			s = rapid.SampledFrom([]int{70000, 131072, 131073, 200000}).Draw(rt, label+"-over")
		case 6:
			s = rapid.IntRange(1, c16SessMaxMsg).Draw(rt, label+"-any")
		default:
			s = rapid.IntRange(1, 2000).Draw(rt, label+"-small")
		}
		if s > 4096 {
			big++
			if big > 4 {
				s = 1 + s%977
			}
		}
		out = append(out, s)
	}
	return out
}

func c16SessGen(rt *rapid.T) c16SessCase {
	kinds := []string{"background", "cancel", "deadline", "deadline-cancel"}
	c := c16SessCase{}
	c.Pair = rapid.SampledFrom([]string{"listener", "pipe", "udp"}).Draw(rt, "pair")
	c.Flip = rapid.Bool().Draw(rt, "flip")
	c.DialCtx = rapid.SampledFrom(kinds).Draw(rt, "dial-ctx")
	c.AccCtx = rapid.SampledFrom(kinds).Draw(rt, "accept-ctx")
	c.DialMs = rapid.IntRange(300, 800).Draw(rt, "dial-ms")
	c.AccMs = rapid.IntRange(300, 800).Draw(rt, "accept-ms")
	c.Secret = rapid.SliceOfN(rapid.Byte(), 32, 32).Draw(rt, "secret")
	c.AB = c16SessSizes(rt, "ab")
	c.BA = c16SessSizes(rt, "ba")
	nr := rapid.IntRange(1, 4).Draw(rt, "nreads")
	for i := 0; i < nr; i++ {
		c.Reads = append(c.Reads, rapid.SampledFrom([]int{100, 1500, 4096, 65535, 65536, 65537, 70000, 131072}).Draw(rt, "read"))
	}
	return c
}

func TestVerif_C16_sessions(t *testing.T) {
	rec := vh.NewRec("C16", "sessions", "real sessions through every pair of entry points (Listener Accept <-> Dial over loopback UDP; Server <-> Client over a pipe / a dialled UDP socket) x both SCTP arrangements x context kind on each end {Background, cancel-only, 300-800 ms deadline, deadline + cancel after success}; messages of 1..6 sizes per direction drawn from {1, small, any, 65535, 65536, 65537, 70000..200000} read with buffers {100..131072}; the exchange is repeated 150 ms after the last set-up deadline has passed; a fixed matrix (every pair x arrangement with deadline contexts and the exact size limits) runs first, then rapid-generated cases; oracle = legal Writes succeed, Reads return exactly the concatenation of the accepted Writes, oversize Writes are refused whole; non-trivial = a completed exchange that was used after the set-up deadline or carried a message of the maximum size; distinct by case")
	defer rec.Flush()
	rec.Require("exchange-complete", "used-after-setup-deadline", "message-of-maximum-size", "message-one-below-maximum", "oversize-write", "pair-listener", "pair-pipe", "pair-udp", "dtls-client-accepts-sctp", "dtls-client-opens-sctp", "dial-ctx-deadline", "accept-ctx-deadline", "dial-ctx-background", "dial-ctx-cancel")
	if p := vh.ReplayFile(); p != "" {
		var c c16SessCase
		if _, _, err := vh.LoadReplay(p, &c); err != nil {
			t.Fatal(err)
		}
		c16SessCheck(t, rec, c)
		return
	}
	sizes := []int{1, 65535, 65536, 17, 65537, 300}
	i := 0
	for _, pair := range []string{"pipe", "listener", "udp"} {
		for _, flip := range []bool{false, true} {
			for _, k := range []struct {
				d, a   string
				dm, am int
			}{
				{"deadline", "deadline-cancel", 350, 450},
				{"deadline-cancel", "deadline", 300, 400},
				{"background", "cancel", 0, 0},
				{"cancel", "background", 0, 0},
			} {
				c := c16SessCase{Pair: pair, Flip: flip, DialCtx: k.d, AccCtx: k.a, DialMs: k.dm, AccMs: k.am,
					Secret: c16SessSecret(pair), AB: sizes, BA: sizes, Reads: []int{4096, 65536, 70000}}
				if vh.Mine(i) {
					c16SessCheck(t, rec, c)
				}
				i++
			}
		}
	}
	rapid.Check(t, func(rt *rapid.T) {
		c16SessCheck(rt, rec, c16SessGen(rt))
	})
}
