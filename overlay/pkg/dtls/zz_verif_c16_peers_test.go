package dtls

// C16 sub-check "peers" — a handshake completes only when both ends used the same secret, whatever the
// other end does. The credentials sub-check only ever lets the package talk to itself; here the other
// end is drawn from adversarial behaviours built directly on the DTLS library:
//
//   victim "server"    ServerWithContext on a connection (in-memory pipe, or a dialled UDP socket)
//   victim "listener"  AcceptWithContext on the shared Listener (loopback UDP)
//      peer = the package's own Client with the same / another secret, or a raw DTLS client that ignores
//      the server certificate and presents: no certificate / a random self-signed one / one derived from
//      another secret / the right certificate with another private key (a captured certificate) / a chain
//      of two with a foreign leaf / the right certificate (and key) / a chain of two with the right leaf;
//      towards the Listener optionally with the victim's client-hello random (it travels in clear and
//      can be replayed by an observer)
//   victim "client"    ClientWithContext on a connection
//      peer = the package's own Server with the same / another secret, or a raw DTLS server that does not
//      check the client and presents: a random certificate / one derived from another secret / the right
//      certificate with another key / a chain of two with a foreign leaf / a PSK suite and no
//      certificate / the right certificate (and key) / a chain of two with the right leaf
//
// A raw peer whose DTLS handshake completes carries on like a regular peer (SCTP association, stream,
// one message). Oracle: the victim's call returns an established connection iff the peer's credentials
// derive from the same secret:
//   - peer without the secret (everything but "same", "rightcert", "two-rightleaf"): the victim must
//     not return a connection -> peers:stranger-accepted-by-<victim>
//   - own peer with the same secret, raw peer with the right certificate and key: the victim must return
//     a connection that delivers the peer's message (time-outs are inconclusive, a refusal counts when
//     seen twice) -> peers:same-secret-refused-by-<victim>
//   - chain of two with the right leaf: the peer knows the secret, but the entry points legitimately
//     differ on chains (the Listener and the Client insist on one certificate): no verdict, counted.

import (
	"bytes"
	"context"
	"crypto/tls"
	"fmt"
	"net"
	"testing"
	"time"

	piondtls "github.com/pion/dtls/v2"
	"github.com/pion/dtls/v2/pkg/protocol/handshake"
	"github.com/pion/logging"
	"github.com/pion/sctp"
	"pgregory.net/rapid"
	"verif/harness/vh"
)

type c16PeerCase struct {
	Secret    vh.Hex `json:"secret"`
	Other     vh.Hex `json:"other"`
	Victim    string `json:"victim"`    // server | listener | client
	Transport string `json:"transport"` // pipe | udp (server, client victims)
	Peer      string `json:"peer"`
	Replay    bool   `json:"replay_hello,omitempty"` // raw client uses the victim's client-hello random
	Auth      bool   `json:"server_asks_cert,omitempty"`
}

var (
	c16RawClientPeers = []string{"same", "other", "nocert", "randomcert", "othercert", "rightcert-wrongkey", "two-otherleaf", "rightcert", "two-rightleaf"}
	c16RawServerPeers = []string{"same", "other", "randomcert", "othercert", "rightcert-wrongkey", "two-otherleaf", "psk-nocert", "rightcert", "two-rightleaf"}
)

// c16PeerExpect: +1 the victim must establish, -1 it must not, 0 no verdict.
func c16PeerExpect(c c16PeerCase) int {
	switch c.Peer {
	case "same", "rightcert":
		return +1
	case "two-rightleaf":
		return 0
	}
	return -1
}

// c16UDPEnd turns an unconnected UDP socket into the net.Conn of one peer address.
type c16UDPEnd struct {
	pc    *net.UDPConn
	raddr *net.UDPAddr
}

func (u *c16UDPEnd) Read(b []byte) (int, error) {
	for {
		n, from, err := u.pc.ReadFromUDP(b)
		if err != nil {
			return n, err
		}
		if from.Port == u.raddr.Port && from.IP.Equal(u.raddr.IP) {
			return n, nil
		}
	}
}
func (u *c16UDPEnd) Write(b []byte) (int, error)        { return u.pc.WriteToUDP(b, u.raddr) }
func (u *c16UDPEnd) Close() error                       { return u.pc.Close() }
func (u *c16UDPEnd) LocalAddr() net.Addr                { return u.pc.LocalAddr() }
func (u *c16UDPEnd) RemoteAddr() net.Addr               { return u.raddr }
func (u *c16UDPEnd) SetDeadline(t time.Time) error      { return u.pc.SetDeadline(t) }
func (u *c16UDPEnd) SetReadDeadline(t time.Time) error  { return u.pc.SetReadDeadline(t) }
func (u *c16UDPEnd) SetWriteDeadline(t time.Time) error { return u.pc.SetWriteDeadline(t) }

// c16PeerTransport returns the victim's and the peer's end. Over UDP the victim holds the dialled
// (connected) socket, as the package's callers do.
func c16PeerTransport(kind string) (victim, peer net.Conn, err error) {
	if kind != "udp" {
		v, p := net.Pipe()
		return v, p, nil
	}
	pc, err := net.ListenUDP("udp", &net.UDPAddr{IP: net.IPv4(127, 0, 0, 1), Port: 0})
	if err != nil {
		return nil, nil, err
	}
	vc, err := net.DialUDP("udp", &net.UDPAddr{IP: net.IPv4(127, 0, 0, 1), Port: 0}, pc.LocalAddr().(*net.UDPAddr))
	if err != nil {
		pc.Close()
		return nil, nil, err
	}
	return vc, &c16UDPEnd{pc: pc, raddr: vc.LocalAddr().(*net.UDPAddr)}, nil
}

// c16PeerCert builds the certificate (chain) a raw peer presents; role picks the client or the server
// certificate of a secret. ok=false: the peer presents none.
func c16PeerCert(c c16PeerCase, server bool) (cert tls.Certificate, ok bool, err error) {
	pick := func(secret []byte) (*tls.Certificate, error) {
		cc, sc, err := certsFromSeed(secret)
		if err != nil {
			return nil, err
		}
		if server {
			return sc, nil
		}
		return cc, nil
	}
	right, err := pick(c.Secret)
	if err != nil {
		return cert, false, err
	}
	other, err := pick(c.Other)
	if err != nil {
		return cert, false, err
	}
	switch c.Peer {
	case "nocert", "psk-nocert":
		return cert, false, nil
	case "randomcert":
		r, err := randomCertificate()
		if err != nil {
			return cert, false, err
		}
		return *r, true, nil
	case "othercert":
		return *other, true, nil
	case "rightcert":
		return *right, true, nil
	case "rightcert-wrongkey":
		return tls.Certificate{Certificate: [][]byte{right.Certificate[0]}, PrivateKey: other.PrivateKey}, true, nil
	case "two-otherleaf":
		return tls.Certificate{Certificate: [][]byte{other.Certificate[0], right.Certificate[0]}, PrivateKey: other.PrivateKey}, true, nil
	case "two-rightleaf":
		return tls.Certificate{Certificate: [][]byte{right.Certificate[0], other.Certificate[0]}, PrivateKey: right.PrivateKey}, true, nil
	}
	return cert, false, fmt.Errorf("unknown peer behaviour %q", c.Peer)
}

const (
	c16PeerWait  = 8 * time.Second // contexts of both ends
	c16PeerSCTP  = 5 * time.Second // raw peer's SCTP set-up
	c16PeerSoon  = 400 * time.Millisecond
	c16PeerAfter = 6 * time.Second // victim's time to return once the raw peer's handshake completed
)

type c16PeerRes struct {
	conn net.Conn
	err  error
	data []byte
	rerr error
}

// c16RawFinish lets a raw peer whose DTLS handshake completed behave like a regular peer: SCTP
// association (client opens, server accepts), stream 0, one message. Returns a cleanup function.
func c16RawFinish(d *piondtls.Conn, asServer bool, tag []byte) (cleanup func(), err error) {
	cleanup = func() { d.Close() }
	_ = d.SetDeadline(time.Now().Add(c16PeerSCTP))
	cfg := sctp.Config{NetConn: d, LoggerFactory: logging.NewDefaultLoggerFactory()}
	var assoc *sctp.Association
	var st *sctp.Stream
	if asServer {
		if assoc, err = sctp.Server(cfg); err != nil {
			return cleanup, err
		}
		cleanup = func() { assoc.Close(); d.Close() }
		if st, err = assoc.AcceptStream(); err != nil {
			return cleanup, err
		}
		st.SetReliabilityParams(false, sctp.ReliabilityTypeReliable, 0)
	} else {
		if assoc, err = sctp.Client(cfg); err != nil {
			return cleanup, err
		}
		cleanup = func() { assoc.Close(); d.Close() }
		if st, err = assoc.OpenStream(0, sctp.PayloadTypeWebRTCString); err != nil {
			return cleanup, err
		}
		st.SetReliabilityParams(false, sctp.ReliabilityTypeReliable, 0)
	}
	_ = d.SetDeadline(time.Time{})
	_, err = st.Write(tag)
	return cleanup, err
}

// c16PeerRun plays one case. Keys: "" held, "harness", "tmo:"/"slow:" prefixed for c16Timed.
func c16PeerRun(c c16PeerCase) (key, msg string, classes map[string]bool) {
	classes = map[string]bool{"victim-" + c.Victim: true, "peer-" + c.Peer: true}
	raw := c.Peer != "same" && c.Peer != "other"
	if raw {
		classes["raw-peer"] = true
	}
	expect := c16PeerExpect(c)
	tag := c16Tag('P', c.Secret, 7)
	peerSecret := []byte(c.Secret)
	if c.Peer == "other" {
		peerSecret = c.Other
	}

	vctx, vcancel := context.WithTimeout(context.Background(), c16PeerWait)
	defer vcancel()
	pctx, pcancel := context.WithTimeout(context.Background(), c16PeerWait)
	defer pcancel()

	var victimEnd, peerEnd net.Conn
	var cl *c16Lis
	var err error
	if c.Victim == "listener" {
		if cl, err = c16Shared(); err != nil {
			return "harness", "listen: " + err.Error(), classes
		}
		if a, b := cl.registered(c.Secret); a || b {
			return "harness", "the secret of this case is already registered on the shared listener", classes
		}
	} else {
		classes["transport-"+c.Transport] = true
		if victimEnd, peerEnd, err = c16PeerTransport(c.Transport); err != nil {
			return "tmo:peers:no-transport", err.Error(), classes
		}
		defer victimEnd.Close()
		defer peerEnd.Close()
	}

	// the victim: one call of the package's entry point, then one read
	resCh := make(chan c16PeerRes, 1)
	go func() {
		var r c16PeerRes
		switch c.Victim {
		case "server":
			r.conn, r.err = ServerWithContext(vctx, victimEnd, &Config{PSK: c.Secret, SCTP: ServerAccept})
		case "listener":
			r.conn, r.err = cl.l.AcceptWithContext(vctx, &Config{PSK: c.Secret, SCTP: ServerAccept})
		case "client":
			r.conn, r.err = ClientWithContext(vctx, victimEnd, &Config{PSK: c.Secret, SCTP: ClientOpen})
		}
		if r.err == nil && r.conn != nil {
			r.data, r.rerr = c16ReadTag(r.conn, 4*time.Second)
		}
		resCh <- r
	}()
	if c.Victim == "listener" {
		for i := 0; i < 8000; i++ {
			if a, b := cl.registered(c.Secret); a && b {
				break
			}
			time.Sleep(250 * time.Microsecond)
		}
		if peerEnd, err = net.DialUDP("udp", nil, cl.addr); err != nil {
			vcancel()
			<-resCh
			return "tmo:peers:no-transport", err.Error(), classes
		}
		defer peerEnd.Close()
	}

	// the peer
	var peerErr error
	dtlsDone := false // the peer's side of the (DTLS) handshake completed
	peerCleanup := func() {}
	switch {
	case !raw && c.Victim != "client":
		var pc net.Conn
		pc, peerErr = ClientWithContext(pctx, peerEnd, &Config{PSK: peerSecret, SCTP: ClientOpen})
		if peerErr == nil {
			dtlsDone = true
			peerCleanup = func() { pc.Close() }
			peerErr = c16WriteTag(pc, tag, 4*time.Second)
		}
	case !raw:
		var pc net.Conn
		pc, peerErr = ServerWithContext(pctx, peerEnd, &Config{PSK: peerSecret, SCTP: ServerAccept})
		if peerErr == nil {
			dtlsDone = true
			peerCleanup = func() { pc.Close() }
			peerErr = c16WriteTag(pc, tag, 4*time.Second)
		}
	default:
		cert, have, cerr := c16PeerCert(c, c.Victim == "client")
		if cerr != nil {
			vcancel()
			<-resCh
			return "harness", "peer certificate: " + cerr.Error(), classes
		}
		conf := &piondtls.Config{ExtendedMasterSecret: piondtls.RequireExtendedMasterSecret}
		if have {
			conf.Certificates = []tls.Certificate{cert}
		}
		var d *piondtls.Conn
		if c.Victim == "client" {
			conf.InsecureSkipVerifyHello = true
			conf.ClientAuth = piondtls.NoClientCert
			if c.Auth {
				conf.ClientAuth = piondtls.RequireAnyClientCert // asks, accepts whatever comes
				classes["raw-server-asks-for-certificate"] = true
			}
			if c.Peer == "psk-nocert" {
				conf.PSK = func([]byte) ([]byte, error) { return []byte{0xC1, 0x60, 0x16}, nil }
				conf.PSKIdentityHint = []byte("c16")
				conf.CipherSuites = []piondtls.CipherSuiteID{piondtls.TLS_PSK_WITH_AES_128_GCM_SHA256}
			}
			d, peerErr = piondtls.ServerWithContext(pctx, peerEnd, conf)
		} else {
			conf.InsecureSkipVerify = true
			if c.Replay || c16PeerExpect(c) >= 0 {
				// a peer that has the secret derives it; anybody else can copy it off the wire
				var hr [handshake.RandomBytesLength]byte
				if hr, err = clientHelloRandomFromSeed(c.Secret); err != nil {
					vcancel()
					<-resCh
					return "harness", err.Error(), classes
				}
				conf.CustomClientHelloRandom = func() [handshake.RandomBytesLength]byte { return hr }
				if expect < 0 {
					classes["hello-random-replayed"] = true
				}
			}
			d, peerErr = piondtls.ClientWithContext(pctx, peerEnd, conf)
		}
		if peerErr == nil {
			classes["raw-peer-handshake-completed"] = true
			dtlsDone = true
			peerCleanup, peerErr = c16RawFinish(d, c.Victim == "client", tag)
		}
	}
	defer peerCleanup()

	// collect the victim's verdict
	var res c16PeerRes
	got := false
	wait := c16PeerAfter
	if !dtlsDone {
		// the peer's handshake failed, so the victim cannot have completed one with it: a server or
		// client call normally ends by itself on the alert, an Accept just keeps waiting
		wait = c16PeerSoon
		if c.Victim == "listener" {
			wait = 30 * time.Millisecond
		}
	}
	select {
	case res = <-resCh:
		got = true
	case <-time.After(wait):
	}
	if !got {
		// the peer is gone or silent: release the victim (handshake: context; SCTP set-up: transport)
		vcancel()
		if victimEnd != nil {
			victimEnd.Close()
		}
		peerEnd.Close()
		select {
		case res = <-resCh:
		case <-time.After(c16PeerWait + 4*time.Second):
			return "harness", "the victim's call did not return after its context ended", classes
		}
	}
	established := res.err == nil && res.conn != nil
	if res.conn != nil {
		defer res.conn.Close()
	}
	what := fmt.Sprintf("victim=%s transport=%s peer=%s replay_hello=%v", c.Victim, c.Transport, c.Peer, c.Replay)
	switch {
	case expect < 0 && established:
		return "peers:stranger-accepted-by-" + c.Victim, fmt.Sprintf("%s: the call returned an established connection to a peer whose credentials do not derive from the secret (peer's own view: %v; message read from it: %q, %v)",
			what, peerErr, res.data, res.rerr), classes
	case expect < 0:
		classes["stranger-refused"] = true
	case expect == 0:
		if established {
			classes["chain-with-right-leaf-accepted"] = true
		} else {
			classes["chain-with-right-leaf-refused"] = true
		}
	case !established:
		pre := "slow:"
		if !got || c16IsTimeout(res.err) || c16IsTimeout(peerErr) {
			pre = "tmo:"
		}
		return pre + "peers:same-secret-refused-by-" + c.Victim, fmt.Sprintf("%s: the peer's credentials derive from the secret but the call failed: %v (peer: %v)", what, res.err, peerErr), classes
	case res.rerr != nil || !bytes.Equal(res.data, tag):
		return c16SlowKey(res.rerr) + "peers:no-data-from-same-secret-peer", fmt.Sprintf("%s: established, but reading the peer's message gave %q, %v (peer: %v)", what, res.data, res.rerr, peerErr), classes
	default:
		classes["same-secret-established"] = true
	}
	if cl != nil {
		if a, b := cl.registered(c.Secret); a || b {
			return "peers:registration-leaked", what + ": the secret is still registered after Accept returned", classes
		}
	}
	return "", "", classes
}

func c16PeerCheck(t vh.Fataler, rec *vh.Rec, c c16PeerCase) {
	if bytes.Equal(c.Secret, c.Other) {
		t.Fatalf("harness problem: malformed peers case (equal secrets)")
	}
	key, msg, cl := c16Timed(c16Stalled, func() (string, string, map[string]bool) { return c16PeerRun(c) })
	var classes []string
	for k := range cl {
		classes = append(classes, k)
	}
	rec.Case(cl["raw-peer"], vh.Digest(c), c, classes...)
	if key == "harness" {
		t.Fatalf("harness problem: %s", msg)
	}
	if key != "" {
		rec.Violation(t, key, c, "%s", msg)
	}
}

func c16PeerNormalise(c c16PeerCase) c16PeerCase {
	if c.Victim == "listener" {
		c.Transport = "udp"
	} else {
		c.Replay = false
	}
	if c.Victim != "client" {
		c.Auth = false
	}
	return c
}

func c16PeerGen(rt *rapid.T) c16PeerCase {
	n := rapid.SampledFrom([]int{32, 32, 32, 16, 33, 1}).Draw(rt, "len")
	a := rapid.SliceOfN(rapid.Byte(), n, n).Draw(rt, "secret")
	mut := rapid.SampledFrom([]string{"random", "flipbit", "append0", "droplast", "prepend0"}).Draw(rt, "mut")
	other := rapid.SliceOfN(rapid.Byte(), 32, 32).Draw(rt, "other")
	bit := rapid.IntRange(0, 8*64).Draw(rt, "bit")
	c := c16PeerCase{Secret: a, Other: c16Mutate(a, mut, other, bit)}
	c.Victim = rapid.SampledFrom([]string{"server", "server", "listener", "client"}).Draw(rt, "victim")
	c.Transport = rapid.SampledFrom([]string{"pipe", "pipe", "udp"}).Draw(rt, "transport")
	if c.Victim == "client" {
		c.Peer = rapid.SampledFrom(c16RawServerPeers).Draw(rt, "peer")
	} else {
		c.Peer = rapid.SampledFrom(c16RawClientPeers).Draw(rt, "peer")
	}
	c.Replay = rapid.Bool().Draw(rt, "replay")
	c.Auth = rapid.Bool().Draw(rt, "auth")
	return c16PeerNormalise(c)
}

func TestVerif_C16_peers(t *testing.T) {
	rec := vh.NewRec("C16", "peers", "the package's three entry points (ServerWithContext on a pipe / dialled UDP socket, AcceptWithContext on the shared Listener, ClientWithContext) against a peer drawn from: own client/server with the same or a related secret, raw DTLS client (no certificate, random, derived from another secret, right certificate with a foreign key, two-certificate chains, right certificate; optionally replaying the victim's client-hello random) or raw DTLS server (random, other secret, right certificate with a foreign key, chains, PSK without certificate, right certificate; with or without asking for a client certificate); the behaviour matrix is enumerated once with a fixed secret, then drawn with rapid-generated secrets; oracle = the call returns an established connection iff the peer's credentials derive from the same secret; non-trivial = a raw (non-package) peer; distinct by case")
	defer rec.Flush()
	rec.Require("victim-server", "victim-listener", "victim-client", "stranger-refused", "same-secret-established", "raw-peer-handshake-completed", "peer-nocert", "peer-rightcert", "hello-random-replayed", "transport-udp", "transport-pipe")
	if p := vh.ReplayFile(); p != "" {
		var c c16PeerCase
		if _, _, err := vh.LoadReplay(p, &c); err != nil {
			t.Fatal(err)
		}
		c16PeerCheck(t, rec, c)
		return
	}
	// the whole behaviour matrix once, whatever the draws
	fixed := []byte("c16 peers: a secret of 32 bytes!")
	other := c16Mutate(fixed, "flipbit", nil, 77)
	i := 0
	seen := map[string]bool{}
	for _, victim := range []string{"server", "listener", "client"} {
		peers := c16RawClientPeers
		if victim == "client" {
			peers = c16RawServerPeers
		}
		for _, peer := range peers {
			for _, transport := range []string{"pipe", "udp"} {
				for _, flag := range []bool{false, true} {
					c := c16PeerNormalise(c16PeerCase{Secret: fixed, Other: other, Victim: victim, Transport: transport, Peer: peer, Replay: flag, Auth: flag})
					k := fmt.Sprint(c.Victim, c.Transport, c.Peer, c.Replay, c.Auth)
					if seen[k] {
						continue
					}
					seen[k] = true
					if vh.Mine(i) {
						c16PeerCheck(t, rec, c)
					}
					i++
				}
			}
		}
	}
	rapid.Check(t, func(rt *rapid.T) {
		c16PeerCheck(rt, rec, c16PeerGen(rt))
	})
}
