package requester

// C15 — name packing on the requester side: DNSPacketConn.send turns a packet into base32 labels of
// at most 63 bytes in front of the base domain. Whatever send accepts must be recoverable from the
// query it wrote (reference unpacking: strip the domain, join the labels, base32-decode); a packet
// that does not fit a 255-octet name must be rejected with an error, not cut.
//
// Sub-checks: query_enum (every packet length 0-260 for a set of base domains), query (rapid:
// generated base domains), dec_response (the requester's response decoders on arbitrary bytes; backs
// FuzzVerif_C15_response).  The real requester <-> responder pair is exercised in the responder
// package (sub-check exchange).

import (
	"bytes"
	"encoding/base32"
	"fmt"
	"net"
	"strings"
	"testing"
	"time"

	"github.com/refraction-networking/conjure/pkg/registrars/dns-registrar/dns"
	"github.com/refraction-networking/conjure/pkg/registrars/dns-registrar/msgformat"
	"pgregory.net/rapid"
	"verif/harness/c15h"
	"verif/harness/vh"
)

type c15QueryCase struct {
	Domain string `json:"domain"`               // base domain, dotted
	Len    int    `json:"len"`                  // packet length
	Seed   uint64 `json:"seed"`                 // packet = c15h.Expand(seed, len)
	QCase  int    `json:"qname_case,omitempty"` // case rewriting of the name on its way to the decoders (c15h.CaseKinds)
	QSeed  uint64 `json:"qname_case_seed,omitempty"`
}

// c15Capture is a net.Conn that records each Write as one datagram.
type c15Capture struct {
	grams [][]byte
}

func (c *c15Capture) Write(b []byte) (int, error) {
	c.grams = append(c.grams, append([]byte(nil), b...))
	return len(b), nil
}
func (c *c15Capture) Read(b []byte) (int, error)         { return 0, fmt.Errorf("c15Capture: no reads") }
func (c *c15Capture) Close() error                       { return nil }
func (c *c15Capture) LocalAddr() net.Addr                { return &net.UDPAddr{IP: net.IPv4(127, 0, 0, 1), Port: 1} }
func (c *c15Capture) RemoteAddr() net.Addr               { return &net.UDPAddr{IP: net.IPv4(127, 0, 0, 1), Port: 53} }
func (c *c15Capture) SetDeadline(t time.Time) error      { return nil }
func (c *c15Capture) SetReadDeadline(t time.Time) error  { return nil }
func (c *c15Capture) SetWriteDeadline(t time.Time) error { return nil }

// c15DomainOctets: wire length of the base domain including the root octet.
func c15DomainOctets(domain string) int {
	n := 1
	for _, l := range strings.Split(strings.TrimSuffix(domain, "."), ".") {
		if l != "" {
			n += 1 + len(l)
		}
	}
	return n
}

// c15Fits is the reference capacity rule: base32 without padding, 63-byte labels, 255-octet names.
func c15Fits(domain string, n int) bool {
	chars := (n*8 + 4) / 5
	labels := (chars + 62) / 63
	return chars+labels+c15DomainOctets(domain) <= 255
}

// c15Capacity is the largest packet length that fits (-1 if not even the empty packet does).
func c15Capacity(domain string) int {
	cap := -1
	for n := 0; n <= 300; n++ {
		if c15Fits(domain, n) {
			cap = n
		}
	}
	return cap
}

var c15B32 = base32.StdEncoding.WithPadding(base32.NoPadding)

func c15QueryCheck(t vh.Fataler, rec *vh.Rec, c c15QueryCase) {
	t.Helper()
	domain, err := dns.ParseName(c.Domain)
	if err != nil {
		t.Fatalf("harness problem: base domain %q: %v", c.Domain, err)
	}
	p := c15h.Expand(c.Seed, c.Len)
	orig := append([]byte(nil), p...)
	fits := c15Fits(c.Domain, c.Len)
	capN := c15Capacity(c.Domain)
	nontriv := c.Len >= 1 && c.Len >= capN-10 && c.Len <= capN+10
	classes := []string{}
	if c.Len == capN {
		classes = append(classes, "at-capacity")
	}
	if c.Len == capN+1 {
		classes = append(classes, "capacity+1")
	}
	conn := &c15Capture{}
	pc := &DNSPacketConn{domain: domain}
	var serr error
	if pan, what := c15h.Catch(func() { serr = pc.send(conn, p) }); pan {
		rec.Case(nontriv, vh.Digest(c), c, append(classes, "PANIC")...)
		rec.Violation(t, "query:encode-panic", c, "DNSPacketConn.send panicked for a %d-byte packet under %q: %s", c.Len, c.Domain, what)
		return
	}
	if serr != nil {
		classes = append(classes, "rejected")
		if fits {
			classes = append(classes, "rejected-within-capacity")
		}
		if c.Len == capN+1 {
			classes = append(classes, "rejected@capacity+1")
		}
		if len(conn.grams) != 0 {
			rec.Case(nontriv, vh.Digest(c), c, append(classes, "SENT-DESPITE-ERROR")...)
			rec.Violation(t, "query:sent-despite-error", c, "send returned %v but still wrote a query", serr)
			return
		}
		rec.Case(nontriv, vh.Digest(c), c, classes...)
		return
	}
	fail := func(key, format string, a ...any) {
		rec.Case(nontriv, vh.Digest(c), c, append(classes, "MISMATCH")...)
		rec.Violation(t, key, c, "send accepted a %d-byte packet under base domain %q (reference capacity %d) but %s", c.Len, c.Domain, capN, fmt.Sprintf(format, a...))
	}
	if len(conn.grams) != 1 {
		fail("query:not-one-datagram", "wrote %d datagrams", len(conn.grams))
		return
	}
	msg, perr := dns.MessageFromWireFormat(conn.grams[0])
	if perr != nil {
		fail("query:unparseable", "its query does not parse: %v", perr)
		return
	}
	if len(msg.Question) != 1 || msg.Flags&0x8000 != 0 || msg.Question[0].Type != dns.RRTypeTXT {
		fail("query:malformed", "the query has %d questions, flags %#04x (want one TXT question, QR=0)", len(msg.Question), msg.Flags)
		return
	}
	prefix, ok := msg.Question[0].Name.TrimSuffix(domain)
	if !ok {
		fail("query:wrong-domain", "the question name %s does not end in the base domain", msg.Question[0].Name)
		return
	}
	got, derr := c15B32.DecodeString(strings.ToUpper(string(bytes.Join(prefix, nil))))
	if derr != nil || !bytes.Equal(got, orig) {
		key := "query:payload-altered"
		if !fits {
			key = "query:over-capacity-altered"
		}
		fail(key, "the labels in front of the domain decode to err=%v, %s", derr, c15h.FirstDiff(orig, got))
		return
	}
	// DNS names are case-insensitive and resolvers rewrite their case in transit: the packet must be
	// recoverable from every case spelling of the name (reference unpacking), and the requester must
	// accept the answer to its query whatever the spelling of the names in the response is
	if c.QCase < 0 || c.QCase >= len(c15h.CaseKinds) {
		t.Fatalf("harness problem: bad qname_case %d", c.QCase)
	}
	kind := c15h.CaseKinds[c.QCase]
	classes = append(classes, "qcase:"+kind)
	re := make(dns.Name, len(msg.Question[0].Name))
	for i, l := range msg.Question[0].Name {
		re[i] = append([]byte{}, l...)
	}
	c15h.Recase(re, len(domain), c.QCase, c.QSeed)
	if pre, ok2 := re.TrimSuffix(domain); !ok2 {
		fail("query:domain-case-sensitive", "Name.TrimSuffix does not recognise the base domain in the spelling %s (%s)", re, kind)
		return
	} else if got2, derr2 := c15B32.DecodeString(strings.ToUpper(string(bytes.Join(pre, nil)))); derr2 != nil || !bytes.Equal(got2, orig) {
		fail("query:payload-altered", "the %s spelling of the name decodes to err=%v, %s", kind, derr2, c15h.FirstDiff(orig, got2))
		return
	}
	body := c15h.Expand(c.Seed^0x5a5a, 1+c.Len%300)
	respMsg := &dns.Message{ID: msg.ID, Flags: 0x8400, Question: []dns.Question{{Name: re, Type: dns.RRTypeTXT, Class: dns.ClassIN}},
		Answer: []dns.RR{{Name: re, Type: dns.RRTypeTXT, Class: dns.ClassIN, TTL: 60, Data: dns.EncodeRDataTXT(body)}}}
	var back []byte
	var stage string
	if pan, what := c15h.Catch(func() {
		w, werr := respMsg.WireFormat()
		if werr != nil {
			stage = "response WireFormat: " + werr.Error()
			return
		}
		parsed, perr := dns.MessageFromWireFormat(w)
		if perr != nil {
			stage = "response parse: " + perr.Error()
			return
		}
		back = dnsResponsePayload(&parsed, domain)
	}); pan {
		fail("response:decode-panic", "the response path panicked: %s", what)
		return
	}
	if stage != "" || !bytes.Equal(back, body) || back == nil {
		fail("response:domain-case-sensitive", "dnsResponsePayload does not extract the %d-byte TXT payload of the answer to this query when the names in the response are spelled %s (%s): %s got %d bytes", len(body), re, kind, stage, len(back))
		return
	}
	classes = append(classes, "ok")
	if c.Len == capN {
		classes = append(classes, "ok@capacity")
	}
	if c.Len == 0 {
		classes = append(classes, "ok@0")
	}
	for _, l := range prefix {
		if len(l) == 63 {
			classes = append(classes, "label63")
			break
		}
	}
	rec.Case(nontriv, vh.Digest(c), c, classes...)
}

func c15LongDomain(octets int) string {
	// labels of 39 characters (40 octets each) and a remainder, total wire length = octets
	var labels []string
	left := octets - 1
	for left >= 2 {
		n := left - 1
		if n > 39 {
			n = 39
		}
		if left-(n+1) == 1 {
			n--
		}
		labels = append(labels, strings.Repeat("d", n))
		left -= n + 1
	}
	return strings.Join(labels, ".")
}

var c15QueryDomains = []string{"a", "t.example.com", "T.Example.COM.", "x1.registrar.refraction.network", c15LongDomain(100), c15LongDomain(160), c15LongDomain(190), c15LongDomain(250), c15LongDomain(254), c15LongDomain(255)}

var c15QueryRequired = []string{"ok@0", "ok@capacity", "rejected@capacity+1", "label63", "qcase:upper", "qcase:0x20", "qcase:domain-only", "qcase:data-only"}

func TestVerif_C15_query_enum(t *testing.T) {
	rec := vh.NewRec("C15", "query_enum", "every packet length 0-260 x 10 base domains (1 to 255 octets on the wire: a, t.example.com, a mixed-case spelling with trailing dot, a 4-label domain, and synthetic domains of 100/160/190/250/254/255 octets) x two fills through DNSPacketConn.send into a capturing conn. Oracle: send errs, or its single query parses, ends in the base domain and its labels base32-decode (reference) to the packet. Non-trivial = length >= 1 within 10 of the reference capacity; distinct by (domain, len, fill)")
	defer rec.Flush()
	rec.Require(c15QueryRequired...)
	if p := vh.ReplayFile(); p != "" {
		var c c15QueryCase
		if _, _, err := vh.LoadReplay(p, &c); err != nil {
			t.Fatal(err)
		}
		c15QueryCheck(t, rec, c)
		return
	}
	rec.SetExhaustive(true)
	soft := &c15h.Soft{T: t}
	i := 0
	for _, d := range c15QueryDomains {
		for l := 0; l <= 260; l++ {
			i++
			if !vh.Mine(i) {
				continue
			}
			c15QueryCheck(soft, rec, c15QueryCase{Domain: d, Len: l, Seed: uint64(l) + 2, QCase: l % len(c15h.CaseKinds), QSeed: uint64(l)*7 + 3})
			c15QueryCheck(soft, rec, c15QueryCase{Domain: d, Len: l, Seed: 1, QCase: (l + 3) % len(c15h.CaseKinds), QSeed: uint64(l)*7 + 4})
			if soft.Failed {
				t.Fail()
				return
			}
		}
	}
}

func c15DomainGen(rt *rapid.T) string {
	n := rapid.IntRange(1, 6).Draw(rt, "labels")
	var labels []string
	oct := 1
	for i := 0; i < n; i++ {
		l := rapid.SampledFrom([]int{1, 1, 2, 3, 7, 12, 30, 62, 63}).Draw(rt, "ll")
		if oct+1+l > 250 {
			break
		}
		oct += 1 + l
		labels = append(labels, rapid.StringOfN(rapid.SampledFrom([]rune("abcxyzABZ019-")), l, l, -1).Draw(rt, "label"))
	}
	if len(labels) == 0 {
		labels = []string{"a"}
	}
	return strings.Join(labels, ".")
}

func TestVerif_C15_query(t *testing.T) {
	rec := vh.NewRec("C15", "query", "rapid: base domain of 1-6 labels (label lengths from 1,2,3,7,12,30,62,63; letters of both cases, digits, hyphen) x packet length (half of the draws within 3 of the reference capacity of that domain, otherwise 0-260) x fill; same oracle as query_enum; distinct by case")
	defer rec.Flush()
	rec.Require("ok", "ok@capacity", "rejected@capacity+1", "qcase:upper", "qcase:0x20", "qcase:domain-only", "qcase:data-only")
	if p := vh.ReplayFile(); p != "" {
		var c c15QueryCase
		if _, _, err := vh.LoadReplay(p, &c); err != nil {
			t.Fatal(err)
		}
		c15QueryCheck(t, rec, c)
		return
	}
	rapid.Check(t, func(rt *rapid.T) {
		c := c15QueryCase{Domain: c15DomainGen(rt), Seed: c15h.Seeds().Draw(rt, "seed")}
		c.QCase = rapid.IntRange(0, len(c15h.CaseKinds)-1).Draw(rt, "qcase")
		c.QSeed = rapid.Uint64Range(2, 1<<40).Draw(rt, "qseed")
		capN := c15Capacity(c.Domain)
		if rapid.Bool().Draw(rt, "near") {
			c.Len = capN + rapid.IntRange(-3, 3).Draw(rt, "delta")
			if c.Len < 0 {
				c.Len = 0
			}
		} else {
			c.Len = rapid.IntRange(0, 260).Draw(rt, "len")
		}
		c15QueryCheck(rt, rec, c)
	})
}

// ---- the requester's response decoders on arbitrary bytes ---------------------------------------

type c15RespCase struct {
	Data vh.Hex `json:"data"`
}

// c15RespDecCheck feeds one datagram through what recvLoop + RequestAndRecv do with it
// (MessageFromWireFormat -> dnsResponsePayload -> copy into the zeroed 4096-byte buffer ->
// RemoveResponseFormat): nothing panics; a payload is only extracted from a NOERROR response with one
// TXT answer under the base domain and equals the TXT decoding of that answer.
func c15RespDecCheck(t vh.Fataler, rec *vh.Rec, c c15RespCase, count bool) {
	t.Helper()
	domain, _ := dns.ParseName("t.example.com")
	var msg dns.Message
	var err error
	var payload, framed []byte
	var ferr error
	stage := "parse"
	if pan, what := c15h.Catch(func() {
		msg, err = dns.MessageFromWireFormat(append([]byte(nil), c.Data...))
		if err != nil {
			return
		}
		stage = "payload"
		payload = dnsResponsePayload(&msg, domain)
		stage = "unframe"
		var buf [4096]byte
		copy(buf[:], payload)
		framed, ferr = msgformat.RemoveResponseFormat(buf[:])
	}); pan {
		rec.Violation(t, "response:decode-panic:"+stage, c, "the requester's response path panicked at stage %s on %d arbitrary bytes: %s", stage, len(c.Data), what)
		return
	}
	cl := "dec-rejected"
	if err == nil && payload != nil {
		cl = "dec-payload"
		if ferr == nil && len(framed) > 0 {
			cl = "dec-framed"
		}
	} else if err == nil {
		cl = "dec-no-payload"
	}
	if count {
		rec.Case(len(c.Data) >= 12, vh.Digest([]byte(c.Data)), c, cl)
	}
	if err != nil || payload == nil {
		return
	}
	okShape := msg.Flags&0x8000 != 0 && msg.Flags&0xf == 0 && len(msg.Answer) == 1 && msg.Answer[0].Type == dns.RRTypeTXT
	var ref []byte
	if okShape {
		_, okShape = msg.Answer[0].Name.TrimSuffix(domain)
		ref, _ = dns.DecodeRDataTXT(msg.Answer[0].Data)
	}
	if !okShape || !bytes.Equal(ref, payload) {
		rec.Violation(t, "response:payload-wrong", c, "dnsResponsePayload extracted %d bytes from a message that is not a NOERROR response with one TXT answer under the domain, or not that answer's TXT data (%d bytes)", len(payload), len(ref))
	}
}

func c15RespSeeds() [][]byte {
	name, _ := dns.ParseName("mfrggzdfmy.t.example.com")
	other, _ := dns.ParseName("mfrggzdfmy.u.example.com")
	var out [][]byte
	for _, n := range []int{0, 1, 40, 255, 256, 600, 1100} {
		body, _ := msgformat.AddResponseFormat(c15h.Expand(uint64(n)+3, n))
		for _, nm := range []dns.Name{name, other} {
			m := &dns.Message{ID: 5, Flags: 0x8400, Question: []dns.Question{{Name: nm, Type: dns.RRTypeTXT, Class: dns.ClassIN}},
				Answer:     []dns.RR{{Name: nm, Type: dns.RRTypeTXT, Class: dns.ClassIN, TTL: 60, Data: dns.EncodeRDataTXT(body)}},
				Additional: []dns.RR{{Name: dns.Name{}, Type: dns.RRTypeOPT, Class: 4096, Data: []byte{}}}}
			b, _ := m.WireFormat()
			out = append(out, b)
		}
	}
	nx := &dns.Message{ID: 5, Flags: 0x8403, Question: []dns.Question{{Name: name, Type: dns.RRTypeTXT, Class: dns.ClassIN}}}
	b, _ := nx.WireFormat()
	return append(out, b, []byte{}, []byte{0, 5, 0x84, 0, 0, 0, 0, 1, 0, 0, 0, 0, 0, 0, 16, 0, 1, 0, 0, 0, 60, 0, 3, 5, 'a', 'b'})
}

func TestVerif_C15_dec_response(t *testing.T) {
	rec := vh.NewRec("C15", "dec_response", "rapid: arbitrary datagrams for the requester's response path: raw strings of 0-100 bytes and genuine responses (TXT bodies of 0-1100 bytes, right and wrong domain, NXDOMAIN) with 0-4 bytes changed / cut / inserted. Oracle: no panic at any stage; a payload is extracted only from a NOERROR response with one TXT answer under the base domain and equals that answer's TXT data. Non-trivial = datagram of >= 12 bytes; distinct by datagram")
	defer rec.Flush()
	rec.Require("dec-rejected", "dec-no-payload", "dec-framed")
	if p := vh.ReplayFile(); p != "" {
		var c c15RespCase
		if _, _, err := vh.LoadReplay(p, &c); err != nil {
			t.Fatal(err)
		}
		c15RespDecCheck(t, rec, c, true)
		return
	}
	seeds := c15RespSeeds()
	rapid.Check(t, func(rt *rapid.T) {
		var data []byte
		if rapid.IntRange(0, 3).Draw(rt, "raw") == 0 {
			data = rapid.SliceOfN(rapid.Byte(), 0, 100).Draw(rt, "data")
		} else {
			data = append([]byte(nil), rapid.SampledFrom(seeds).Draw(rt, "seed")...)
			for i, k := 0, rapid.IntRange(0, 4).Draw(rt, "muts"); i < k && len(data) > 0; i++ {
				at := rapid.IntRange(0, len(data)-1).Draw(rt, "at")
				switch rapid.IntRange(0, 2).Draw(rt, "op") {
				case 0:
					data[at] = rapid.Byte().Draw(rt, "b")
				case 1:
					data = data[:at]
				case 2:
					data = append(data[:at], append([]byte{rapid.Byte().Draw(rt, "ins")}, data[at:]...)...)
				}
			}
		}
		c15RespDecCheck(rt, rec, c15RespCase{Data: data}, true)
	})
}

func FuzzVerif_C15_response(f *testing.F) {
	rec := vh.NewRec("C15", "dec_response", "native fuzzing of the requester's response path (same oracle as dec_response)")
	for _, s := range c15RespSeeds() {
		f.Add(s)
	}
	f.Fuzz(func(t *testing.T, data []byte) {
		if len(data) > 4096 {
			return
		}
		c15RespDecCheck(t, rec, c15RespCase{Data: data}, false)
	})
}
