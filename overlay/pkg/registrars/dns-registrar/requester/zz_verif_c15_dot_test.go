package requester

// C15 — the registrar's length framing over the DoT transport: TLSPacketConn exchanges DNS messages
// over a byte stream, each behind a two-octet length. Every frame a peer writes must come out of the
// packet conn exactly once, in order and unmodified, however the stream is cut into reads (one byte
// at a time, inside the 2-byte prefix, mid-body, several frames in one write); every message the conn
// is given must go onto the stream behind the right prefix.
//
// TLSPacketConn takes any net.Conn from its dial function, so the stream is one end of a net.Pipe
// (synchronous: one Write of the peer is consumed by as many Reads as the reader needs, and a Read
// never returns bytes of two Writes — exactly the fragmentation the case prescribes).
//
// Sub-checks: dot_recv (recvLoop), dot_send (sendLoop).

import (
	"bytes"
	"encoding/binary"
	"fmt"
	"io"
	"log"
	"net"
	"sync"
	"testing"
	"time"

	"github.com/refraction-networking/conjure/pkg/registrars/dns-registrar/queuepacketconn"
	"pgregory.net/rapid"
	"verif/harness/c15h"
	"verif/harness/vh"
)

type c15Frame struct {
	Len  int    `json:"len"`
	Seed uint64 `json:"seed"`
}

type c15DotCase struct {
	Frames []c15Frame `json:"frames"`
	Cuts   []int      `json:"cuts"` // sizes of the peer's successive writes, used cyclically (recv only)
}

const c15DotTimeout = 30 * time.Second

var c15DotSentinel = []byte("\x00c15-end-of-case-sentinel\xff")

func c15DotStream(frames []c15Frame) (stream []byte, bodies [][]byte) {
	for _, f := range frames {
		b := c15h.Expand(f.Seed, f.Len)
		var pre [2]byte
		binary.BigEndian.PutUint16(pre[:], uint16(f.Len))
		stream = append(append(stream, pre[:]...), b...)
		bodies = append(bodies, b)
	}
	return
}

func c15DotClasses(c c15DotCase) (classes []string, nontriv bool) {
	for _, f := range c.Frames {
		switch {
		case f.Len == 0:
			classes = append(classes, "frame:0")
		case f.Len >= 4093 && f.Len <= 4099:
			classes = append(classes, "frame:~4096")
			nontriv = true
		case f.Len == 65535:
			classes = append(classes, "frame:65535")
			nontriv = true
		case f.Len > 4099:
			classes = append(classes, "frame:>4096")
		}
	}
	if len(c.Frames) > 1 {
		classes = append(classes, "several-frames")
	}
	return
}

func c15DotRecvCheck(t vh.Fataler, rec *vh.Rec, c c15DotCase) {
	t.Helper()
	for _, f := range c.Frames {
		if f.Len < 0 || f.Len > 65535 {
			t.Fatalf("harness problem: frame length %d", f.Len)
		}
	}
	if len(c.Frames) > 100 {
		t.Fatalf("harness problem: more frames than the receive queue holds")
	}
	stream, bodies := c15DotStream(c.Frames)
	cuts := c.Cuts
	if len(cuts) == 0 {
		cuts = []int{len(stream) + 1}
	}
	classes, nontriv := c15DotClasses(c)
	// classify the fragmentation
	minCut, inPrefix, coalesced := 1<<30, false, false
	{
		pos, ci := 0, 0
		bounds := map[int]bool{}
		off := 0
		for _, f := range c.Frames {
			bounds[off+1] = true // a cut here falls inside the 2-byte prefix
			off += 2 + f.Len
		}
		for pos < len(stream) {
			n := cuts[ci%len(cuts)]
			ci++
			if n < 1 {
				t.Fatalf("harness problem: cut of %d bytes", n)
			}
			if n < minCut {
				minCut = n
			}
			start := pos
			pos += n
			if pos > len(stream) {
				pos = len(stream)
			}
			if bounds[pos] && pos < len(stream) {
				inPrefix = true
			}
			// does this write hold the end of one frame and the start of another?
			o := 0
			for _, f := range c.Frames {
				e := o + 2 + f.Len
				if e > start && e < pos {
					coalesced = true
				}
				o = e
			}
		}
	}
	if minCut == 1 {
		classes = append(classes, "cut:1-byte")
	}
	if inPrefix {
		classes = append(classes, "cut:inside-prefix")
		nontriv = true
	}
	if coalesced {
		classes = append(classes, "cut:frames-coalesced")
		nontriv = true
	}
	if len(cuts) == 1 && cuts[0] > len(stream) {
		classes = append(classes, "cut:one-write")
	} else {
		classes = append(classes, "cut:fragmented")
		nontriv = true
	}

	a, b := net.Pipe() // a: the conn's side, b: the peer
	pc := &TLSPacketConn{QueuePacketConn: queuepacketconn.NewQueuePacketConn(queuepacketconn.DummyAddr{}, 0)}
	var loopErr error
	var loopPanic string
	loopDone := make(chan struct{})
	go func() {
		defer close(loopDone)
		if pan, what := c15h.Catch(func() { loopErr = pc.recvLoop(a) }); pan {
			loopPanic = what
		}
		_ = a.Close() // so that the peer cannot block on a reader that has gone away
	}()
	// the collector takes packets out of the conn until it sees the sentinel
	var got [][]byte
	collected := make(chan struct{})
	go func() {
		defer close(collected)
		buf := make([]byte, 70000)
		for {
			n, _, err := pc.ReadFrom(buf)
			if err != nil || bytes.Equal(buf[:n], c15DotSentinel) {
				return
			}
			got = append(got, append([]byte{}, buf[:n]...))
		}
	}()
	_ = b.SetWriteDeadline(time.Now().Add(c15DotTimeout))
	var werr error
	for pos, ci := 0, 0; pos < len(stream) && werr == nil; ci++ {
		n := cuts[ci%len(cuts)]
		if pos+n > len(stream) {
			n = len(stream) - pos
		}
		_, werr = b.Write(stream[pos : pos+n])
		pos += n
	}
	_ = b.Close()
	select {
	case <-loopDone:
	case <-time.After(c15DotTimeout):
		t.Fatalf("harness problem: recvLoop did not return after the peer closed the stream")
	}
	pc.QueueIncoming(c15DotSentinel, queuepacketconn.DummyAddr{})
	select {
	case <-collected:
	case <-time.After(c15DotTimeout):
		t.Fatalf("harness problem: collector did not see the sentinel")
	}
	_ = pc.Close()

	desc := fmt.Sprintf("%d frames of %v bytes written by the peer in writes of %v bytes (cyclic); recvLoop returned %v, peer write error %v", len(c.Frames), c15Lens(c.Frames), c15Head(cuts), loopErr, werr)
	if loopPanic != "" {
		rec.Case(nontriv, vh.Digest(c), c, append(classes, "PANIC")...)
		rec.Violation(t, "dot:recv:panic", c, "TLSPacketConn.recvLoop panicked: %s; %s", loopPanic, desc)
		return
	}
	if len(got) != len(bodies) {
		rec.Case(nontriv, vh.Digest(c), c, append(classes, "MISMATCH")...)
		rec.Violation(t, "dot:recv:frame-count", c, "%d packets came out of the conn, lengths %v; %s", len(got), c15PktLens(got), desc)
		return
	}
	for i := range bodies {
		if !bytes.Equal(got[i], bodies[i]) {
			rec.Case(nontriv, vh.Digest(c), c, append(classes, "MISMATCH")...)
			rec.Violation(t, "dot:recv:frame-altered", c, "packet #%d differs from frame #%d (%s); %s", i, i, c15h.FirstDiff(bodies[i], got[i]), desc)
			return
		}
	}
	if werr != nil || loopErr != nil {
		rec.Case(nontriv, vh.Digest(c), c, append(classes, "MISMATCH")...)
		rec.Violation(t, "dot:recv:stream-error", c, "all frames are complete and the peer closed the stream at a frame boundary, but %s", desc)
		return
	}
	rec.Case(nontriv, vh.Digest(c), c, append(classes, "ok")...)
}

func c15Lens(fs []c15Frame) []int {
	var out []int
	for _, f := range fs {
		out = append(out, f.Len)
	}
	return c15Head(out)
}

func c15PktLens(ps [][]byte) []int {
	var out []int
	for _, p := range ps {
		out = append(out, len(p))
	}
	return c15Head(out)
}

func c15Head(v []int) []int {
	if len(v) > 12 {
		return append(append([]int{}, v[:12]...), -1)
	}
	return v
}

var c15DotLen = rapid.OneOf(
	rapid.IntRange(0, 40),
	rapid.IntRange(0, 600),
	rapid.SampledFrom([]int{0, 1, 2, 255, 256, 511, 512, 4093, 4094, 4095, 4096, 4097, 4098, 8191, 8192, 8193, 65534, 65535}),
	rapid.IntRange(0, 65535),
)

func c15DotGen(rt *rapid.T, recv bool) c15DotCase {
	var c c15DotCase
	n := rapid.IntRange(1, 6).Draw(rt, "frames")
	total := 0
	for i := 0; i < n; i++ {
		f := c15Frame{Len: c15DotLen.Draw(rt, "len"), Seed: c15h.Seeds().Draw(rt, "seed")}
		total += 2 + f.Len
		c.Frames = append(c.Frames, f)
	}
	if !recv {
		return c
	}
	switch rapid.IntRange(0, 6).Draw(rt, "fragmentation") {
	case 0: // everything in one write
		c.Cuts = []int{total + 1}
	case 1: // one byte at a time (bounded: a pipe write costs a goroutine switch)
		if total <= 6000 {
			c.Cuts = []int{1}
		} else {
			c.Cuts = []int{1, 1, 1, 4096, 1, 1, 70000}
		}
	case 2: // first write ends inside the first prefix, then large pieces
		c.Cuts = []int{1, rapid.IntRange(1, 5000).Draw(rt, "piece")}
	case 3: // random small pieces
		c.Cuts = rapid.SliceOfN(rapid.IntRange(1, 9), 1, 8).Draw(rt, "cuts")
		if total > 6000 {
			c.Cuts = append(c.Cuts, 4096, 70000)
		}
	case 4: // pieces around the bufio size
		c.Cuts = rapid.SliceOfN(rapid.SampledFrom([]int{1, 2, 3, 4094, 4095, 4096, 4097, 4098, 8192}), 1, 6).Draw(rt, "cuts")
	case 5: // each frame in two writes: prefix + first part of the body, then the rest (and the next prefix)
		c.Cuts = []int{2 + rapid.IntRange(0, 700).Draw(rt, "first"), rapid.IntRange(1, 70000).Draw(rt, "rest")}
	default:
		c.Cuts = rapid.SliceOfN(rapid.IntRange(1, 70000), 1, 6).Draw(rt, "cuts")
	}
	return c
}

func TestVerif_C15_dot_recv(t *testing.T) {
	rec := vh.NewRec("C15", "dot_recv", "rapid: 1-6 length-prefixed frames (lengths biased to 0, 255/256, 4093-4098 around the bufio size, 8191-8193, 65534/65535, uniform 0-65535) written to one end of a net.Pipe by a peer in a drawn fragmentation (one write; one byte at a time; a cut inside the 2-byte prefix; small random pieces; pieces around 4096; every frame in two writes; large random pieces) while TLSPacketConn.recvLoop reads the other end. Oracle: exactly the frames, in order, unmodified, come out of the packet conn, and recvLoop ends without error when the peer closes at a frame boundary. Non-trivial = fragmented / coalesced stream or a frame at a limit; distinct by case")
	defer rec.Flush()
	rec.Require("ok", "cut:1-byte", "cut:inside-prefix", "cut:frames-coalesced", "cut:fragmented", "cut:one-write", "frame:0", "frame:~4096", "frame:65535", "several-frames")
	log.SetOutput(io.Discard)
	if p := vh.ReplayFile(); p != "" {
		var c c15DotCase
		if _, _, err := vh.LoadReplay(p, &c); err != nil {
			t.Fatal(err)
		}
		c15DotRecvCheck(t, rec, c)
		return
	}
	// enumerated first: every frame length around the bufio size and at the top, one per write pattern
	i := 0
	for _, l := range []int{0, 1, 4094, 4095, 4096, 4097, 4098, 65534, 65535} {
		for _, cuts := range [][]int{{70000}, {1, 70000}, {2, 70000}, {3, 70000}, {1000}, {4096}, {4097}} {
			i++
			if vh.Mine(i) {
				c15DotRecvCheck(t, rec, c15DotCase{Frames: []c15Frame{{Len: l, Seed: uint64(l) + 2}, {Len: 7, Seed: 3}}, Cuts: cuts})
			}
		}
	}
	rapid.Check(t, func(rt *rapid.T) { c15DotRecvCheck(rt, rec, c15DotGen(rt, true)) })
}

// ---- send side ----------------------------------------------------------------------------------

// c15DotSender is one TLSPacketConn whose sendLoop writes to a pipe for the whole test (sendLoop only
// ends when a write fails, so a conn per case would leave a goroutine behind each time).
type c15DotSender struct {
	pc   *TLSPacketConn
	peer net.Conn
	mu   sync.Mutex
	raw  []byte
	sig  chan struct{}
	err  error
}

func c15NewDotSender() *c15DotSender {
	a, b := net.Pipe()
	s := &c15DotSender{pc: &TLSPacketConn{QueuePacketConn: queuepacketconn.NewQueuePacketConn(queuepacketconn.DummyAddr{}, 0)}, peer: b, sig: make(chan struct{}, 1)}
	go func() {
		err := s.pc.sendLoop(a)
		s.mu.Lock()
		s.err = fmt.Errorf("sendLoop returned: %v", err)
		s.mu.Unlock()
		select {
		case s.sig <- struct{}{}:
		default:
		}
	}()
	go func() { // the peer reads whatever appears on the stream
		buf := make([]byte, 32768)
		for {
			n, err := b.Read(buf)
			s.mu.Lock()
			s.raw = append(s.raw, buf[:n]...)
			if err != nil && s.err == nil {
				s.err = err
			}
			s.mu.Unlock()
			select {
			case s.sig <- struct{}{}:
			default:
			}
			if err != nil {
				return
			}
		}
	}()
	return s
}

func c15DotSendCheck(t vh.Fataler, rec *vh.Rec, s *c15DotSender, c c15DotCase) {
	t.Helper()
	if len(c.Frames) > 100 {
		t.Fatalf("harness problem: more frames than the send queue holds")
	}
	for _, f := range c.Frames {
		if f.Len < 0 || f.Len > 65535 { // sendLoop panics beyond 65535: the callers' contract
			t.Fatalf("harness problem: frame length %d", f.Len)
		}
	}
	classes, nontriv := c15DotClasses(c)
	want, bodies := c15DotStream(c.Frames)
	var pre [2]byte
	binary.BigEndian.PutUint16(pre[:], uint16(len(c15DotSentinel)))
	tail := append(pre[:], c15DotSentinel...)
	s.mu.Lock()
	s.raw = nil
	s.mu.Unlock()
	for _, b := range bodies {
		if _, err := s.pc.WriteTo(b, queuepacketconn.DummyAddr{}); err != nil {
			t.Fatalf("harness problem: WriteTo: %v", err)
		}
	}
	if _, err := s.pc.WriteTo(c15DotSentinel, queuepacketconn.DummyAddr{}); err != nil {
		t.Fatalf("harness problem: WriteTo: %v", err)
	}
	// the case is over when the sentinel frame has appeared on the stream
	timer := time.NewTimer(c15DotTimeout)
	defer timer.Stop()
	var raw []byte
	for {
		s.mu.Lock()
		raw = append(raw[:0], s.raw...)
		err := s.err
		s.mu.Unlock()
		if bytes.HasSuffix(raw, tail) {
			raw = raw[:len(raw)-len(tail)]
			break
		}
		if err != nil {
			rec.Case(nontriv, vh.Digest(c), c, append(classes, "STREAM-ENDED")...)
			rec.Violation(t, "dot:send:stream-ended", c, "the stream ended while sending %d frames of %v bytes: %v", len(c.Frames), c15Lens(c.Frames), err)
			return
		}
		select {
		case <-s.sig:
		case <-timer.C:
			rec.Case(false, vh.Digest(c), c, append(classes, "inconclusive:timeout")...)
			rec.Note("inconclusive: sentinel frame not seen within %v after %d frames of %v bytes (%d bytes on the stream)", c15DotTimeout, len(c.Frames), c15Lens(c.Frames), len(raw))
			return
		}
	}
	if !bytes.Equal(raw, want) {
		rec.Case(nontriv, vh.Digest(c), c, append(classes, "MISMATCH")...)
		rec.Violation(t, "dot:send:stream-differs", c, "%d messages of %v bytes given to the conn are not on the stream as prefix+body each: %s", len(c.Frames), c15Lens(c.Frames), c15h.FirstDiff(want, raw))
		return
	}
	rec.Case(nontriv, vh.Digest(c), c, append(classes, "ok")...)
}

func TestVerif_C15_dot_send(t *testing.T) {
	rec := vh.NewRec("C15", "dot_send", "rapid: 1-6 messages (lengths as in dot_recv, up to 65535) handed to TLSPacketConn.WriteTo while its sendLoop writes to a net.Pipe; the peer records the byte stream up to a sentinel frame. Oracle: the stream is exactly the concatenation of big-endian 2-byte length + body of every message, in order. Non-trivial = a message at a limit (about 4096, 65535); distinct by case")
	defer rec.Flush()
	rec.Require("ok", "frame:0", "frame:~4096", "frame:65535", "several-frames")
	log.SetOutput(io.Discard)
	s := c15NewDotSender()
	defer s.peer.Close()
	if p := vh.ReplayFile(); p != "" {
		var c c15DotCase
		if _, _, err := vh.LoadReplay(p, &c); err != nil {
			t.Fatal(err)
		}
		c15DotSendCheck(t, rec, s, c)
		return
	}
	for i, l := range []int{0, 1, 255, 256, 4095, 4096, 4097, 65534, 65535} {
		if vh.Mine(i) {
			c15DotSendCheck(t, rec, s, c15DotCase{Frames: []c15Frame{{Len: l, Seed: uint64(l) + 2}, {Len: 5, Seed: 1}}})
		}
	}
	rapid.Check(t, func(rt *rapid.T) { c15DotSendCheck(rt, rec, s, c15DotGen(rt, false)) })
}
