package dns

// C15 — DNS names: a name accepted by NewName survives WriteName -> readName and a trip through a
// whole message (second occurrence compressed); labels of 64 bytes, empty labels and names of more
// than 255 octets cannot be represented and must be rejected with an error.
//
// Sub-check: names.  (messages / TXT / decoders: zz_verif_c15_msg_test.go)

import (
	"bytes"
	"errors"
	"fmt"
	"io"
	"testing"

	"pgregory.net/rapid"
	"verif/harness/c15h"
	"verif/harness/vh"
)

type c15NameCase struct {
	Labels []vh.Hex `json:"labels"`
}

func c15Labels(h []vh.Hex) [][]byte {
	out := make([][]byte, len(h))
	for i := range h {
		out[i] = append([]byte{}, h[i]...)
	}
	return out
}

// c15RefOctets is the RFC 1035 wire length of a name: one length octet per label plus the root.
func c15RefOctets(labels []vh.Hex) int {
	n := 1
	for _, l := range labels {
		n += 1 + len(l)
	}
	return n
}

// c15RefValid is the reference validity rule (RFC 1035 §2.3.4), independent of the code under test.
func c15RefValid(labels []vh.Hex) (ok bool, why string) {
	for _, l := range labels {
		if len(l) == 0 {
			return false, "empty-label"
		}
		if len(l) > 63 {
			return false, "label>63"
		}
	}
	if c15RefOctets(labels) > 255 {
		return false, "octets>255"
	}
	return true, ""
}

// c15RefWire is the RFC 1035 wire form of a name: every label behind its length octet, then the root.
func c15RefWire(labels []vh.Hex) []byte {
	var w []byte
	for _, l := range labels {
		w = append(w, byte(len(l)))
		w = append(w, l...)
	}
	return append(w, 0)
}

// c15Plain reports whether every byte of every label is one that Name.String() writes verbatim
// ([0-9A-Za-z-]); only for such names is the dotted form parseable back by ParseName (ParseName
// does not undo the \xXX escapes, on the unchanged tree either).
func c15Plain(labels []vh.Hex) bool {
	for _, l := range labels {
		for _, b := range l {
			if !(b == '-' || '0' <= b && b <= '9' || 'A' <= b && b <= 'Z' || 'a' <= b && b <= 'z') {
				return false
			}
		}
	}
	return true
}

func c15Escapes(labels []vh.Hex) int {
	n := 0
	for _, l := range labels {
		for _, b := range l {
			if !(b == '-' || '0' <= b && b <= '9' || 'A' <= b && b <= 'Z' || 'a' <= b && b <= 'z') {
				n++
			}
		}
	}
	return n
}

func c15NameEq(a Name, b [][]byte) bool {
	if len(a) != len(b) {
		return false
	}
	for i := range a {
		if !bytes.Equal(a[i], b[i]) {
			return false
		}
	}
	return true
}

func c15ErrClass(err error) string {
	switch {
	case err == nil:
		return "nil"
	case errors.Is(err, ErrTooManyPointers):
		return "too-many-pointers"
	case errors.Is(err, ErrReservedLabelType):
		return "reserved-label-type"
	case errors.Is(err, ErrTrailingBytes):
		return "trailing-bytes"
	case errors.Is(err, ErrNameTooLong):
		return "name-too-long"
	case errors.Is(err, ErrLabelTooLong):
		return "label-too-long"
	case errors.Is(err, ErrZeroLengthLabel):
		return "zero-length-label"
	case errors.Is(err, ErrIntegerOverflow):
		return "integer-overflow"
	case errors.Is(err, io.ErrUnexpectedEOF), errors.Is(err, io.EOF):
		return "eof"
	}
	return "other"
}

func c15NameCheck(t vh.Fataler, rec *vh.Rec, c c15NameCase) {
	t.Helper()
	labels := c15Labels(c.Labels)
	orig := c15Labels(c.Labels)
	refOK, why := c15RefValid(c.Labels)
	oct := c15RefOctets(c.Labels)
	maxLabel := 0
	for _, l := range c.Labels {
		if len(l) > maxLabel {
			maxLabel = len(l)
		}
	}
	var tags []string
	if oct == 255 {
		tags = append(tags, "octets255")
		if c15Plain(c.Labels) {
			tags = append(tags, "plain-octets255")
		}
	}
	if oct == 256 {
		tags = append(tags, "octets256")
	}
	if maxLabel == 63 && (refOK || why == "octets>255") {
		tags = append(tags, "label63")
	}
	if maxLabel == 64 {
		tags = append(tags, "label64")
	}
	if why == "empty-label" {
		tags = append(tags, "empty-label")
	}
	if len(c.Labels) == 0 {
		tags = append(tags, "root")
	}
	esc := c15Escapes(c.Labels)
	if esc > 0 && refOK {
		tags = append(tags, "escaped-bytes")
		if esc+3*esc+oct-2 > 253 { // dotted form longer than 253 characters although the wire form fits
			tags = append(tags, "escaped-dotted>253")
		}
		if oct >= 250 {
			tags = append(tags, "escaped-near-limit")
		}
	}
	nontriv := len(c.Labels) > 0 && (oct >= 239 && oct <= 272 || maxLabel >= 62 && maxLabel <= 65)

	done := func(outcome string) {
		cl := []string{outcome}
		for _, tg := range tags {
			cl = append(cl, tg+":"+outcome)
		}
		rec.Case(nontriv, vh.Digest(c), c, cl...)
	}

	// the decoder, fed the reference wire form inside a one-question message, must accept exactly the
	// names the wire-format rule allows (this does not depend on NewName having accepted the name)
	if maxLabel <= 63 && why != "empty-label" {
		ref := c15RefWire(c.Labels)
		dg := append([]byte{0x12, 0x34, 0x01, 0x00, 0, 1, 0, 0, 0, 0, 0, 0}, ref...)
		dg = append(dg, 0, 16, 0, 1)
		var m Message
		var derr error
		if pan, what := c15h.Catch(func() { m, derr = MessageFromWireFormat(dg) }); pan {
			done("PANIC")
			rec.Violation(t, "dns:name:decode-panic", c, "MessageFromWireFormat panicked on the reference wire form of a name (%d labels, %d octets): %s", len(c.Labels), oct, what)
			return
		}
		switch {
		case refOK && (derr != nil || len(m.Question) != 1 || !c15NameEq(m.Question[0].Name, orig)):
			done("VALID-WIRE-REJECTED")
			rec.Violation(t, "dns:name:valid-wire-rejected", c, "MessageFromWireFormat does not read a question whose name is valid on the wire (%d labels, longest %d, %d octets <= 255, %d bytes outside [0-9A-Za-z-]): err=%v", len(c.Labels), maxLabel, oct, esc, derr)
			return
		case !refOK && derr == nil:
			done("INVALID-WIRE-ACCEPTED")
			rec.Violation(t, "dns:name:over-limit-accepted", c, "MessageFromWireFormat accepted a question name of %d octets on the wire (limit 255)", oct)
			return
		}
	}
	var name Name
	var err error
	if pan, what := c15h.Catch(func() { name, err = NewName(labels) }); pan {
		done("PANIC")
		rec.Violation(t, "dns:name:encode-panic", c, "NewName panicked on %d labels (max label %d, %d octets): %s", len(c.Labels), maxLabel, oct, what)
		return
	}
	if err != nil {
		if refOK {
			// the acceptance rule is the wire format's (every label 1-63 bytes, 255 octets in all), not
			// the implementation's: a name it allows is a value the codec must represent
			done("VALID-REJECTED")
			rec.Violation(t, "dns:name:valid-rejected", c, "NewName rejects a name that is valid on the wire (%d labels, longest %d, %d octets <= 255, %d bytes outside [0-9A-Za-z-]): %v", len(c.Labels), maxLabel, oct, esc, err)
			return
		}
		done("rejected")
		return
	}

	// name-level round trip: WriteName -> readName, reader left just behind the name
	var wire []byte
	if pan, what := c15h.Catch(func() {
		b := newMessageBuilder()
		err = b.WriteName(name)
		wire = append([]byte(nil), b.Bytes()...)
	}); pan {
		done("PANIC")
		key := "dns:name:encode-panic"
		if !refOK {
			key = "dns:name:over-limit-accepted"
		}
		rec.Violation(t, key, c, "NewName accepted a name with %d labels (max label %d, %d octets; reference says valid=%v %s) and WriteName then panicked: %s", len(c.Labels), maxLabel, oct, refOK, why, what)
		return
	}
	if err != nil {
		done("rejected")
		return
	}
	if refOK && !bytes.Equal(wire, c15RefWire(c.Labels)) {
		done("WIRE-DIFFERS")
		rec.Violation(t, "dns:name:wire-differs", c, "WriteName of a lone name (%d labels, %d octets) is not its RFC 1035 wire form: %s", len(c.Labels), oct, c15h.FirstDiff(c15RefWire(c.Labels), wire))
		return
	}
	r := bytes.NewReader(append(append([]byte(nil), wire...), 0xAA, 0xBB))
	var got Name
	var rerr error
	if pan, what := c15h.Catch(func() { got, rerr = readName(r) }); pan {
		done("PANIC")
		rec.Violation(t, "dns:name:decode-panic", c, "readName panicked on the encoding of an accepted name: %s", what)
		return
	}
	pos, _ := r.Seek(0, io.SeekCurrent)
	if rerr != nil || !c15NameEq(got, orig) || int(pos) != len(wire) {
		done("MISMATCH")
		key := "dns:name:roundtrip"
		if !refOK {
			key = "dns:name:over-limit-accepted"
		}
		rec.Violation(t, key, c, "NewName accepted %d labels (max label %d, %d octets; reference valid=%v %s) but readName(WriteName(name)) gave err=%v, %d labels, reader at %d of %d", len(c.Labels), maxLabel, oct, refOK, why, rerr, len(got), pos, len(wire))
		return
	}
	// message-level round trip: the name twice, so the second occurrence is a compression pointer
	msg := &Message{ID: 0x1234, Flags: 0x0100,
		Question: []Question{{Name: name, Type: RRTypeTXT, Class: ClassIN}},
		Answer:   []RR{{Name: name, Type: RRTypeTXT, Class: ClassIN, TTL: 60, Data: []byte{0}}}}
	var buf []byte
	var m2 Message
	if pan, what := c15h.Catch(func() {
		buf, err = msg.WireFormat()
		if err == nil {
			m2, rerr = MessageFromWireFormat(buf)
		}
	}); pan {
		done("PANIC")
		rec.Violation(t, "dns:name:message-panic", c, "WireFormat/MessageFromWireFormat panicked for an accepted name: %s", what)
		return
	}
	if err == nil && (rerr != nil || len(m2.Question) != 1 || len(m2.Answer) != 1 || !c15NameEq(m2.Question[0].Name, orig) || !c15NameEq(m2.Answer[0].Name, orig)) {
		done("MISMATCH")
		key := "dns:name:roundtrip"
		if !refOK {
			key = "dns:name:over-limit-accepted"
		}
		rec.Violation(t, key, c, "a name of %d labels / %d octets (reference valid=%v %s) does not survive Message.WireFormat -> MessageFromWireFormat: err=%v", len(c.Labels), oct, refOK, why, rerr)
		return
	}
	if refOK && c15Plain(c.Labels) {
		var back Name
		var perr error
		if pan, what := c15h.Catch(func() { back, perr = ParseName(name.String()) }); pan {
			done("PANIC")
			rec.Violation(t, "dns:name:parse-panic", c, "ParseName(name.String()) panicked: %s", what)
			return
		}
		if perr != nil || !c15NameEq(back, orig) {
			done("MISMATCH")
			rec.Violation(t, "dns:name:dotted-roundtrip", c, "ParseName(name.String()) of a name made of [0-9A-Za-z-] labels only (%d labels, %d octets) gave err=%v, %d labels", len(c.Labels), oct, perr, len(back))
			return
		}
		tags = append(tags, "dotted")
	}
	if !refOK {
		done("ACCEPTED-INVALID")
		rec.Violation(t, "dns:name:over-limit-accepted", c, "NewName accepted a name that DNS cannot represent (%s: %d labels, longest label %d, %d octets)", why, len(c.Labels), maxLabel, oct)
		return
	}
	done("accepted")
}

// label bytes: the full 0-255 range, with weight on host-name characters and on the bytes that
// Name.String() escapes ('_', '.', '\\', 0x00, >= 0x80 ...) or that collide with the label-type bits.
var c15EscByte = []byte{'_', '_', '.', '\\', 0x00, 0x80, 0xff, 0xc0, 0x40, ' ', '*', '/', '@', 0x7f, 0xe9}

var c15LabelByte = rapid.OneOf(
	rapid.SampledFrom([]byte("abcdefghijklmnopqrstuvwxyzABCXYZ0123456789-")),
	rapid.SampledFrom([]byte("abcdefghijklmnopqrstuvwxyz0123456789-")),
	rapid.SampledFrom(c15EscByte),
	rapid.SampledFrom([]byte{'x', 'X', 'A', 'a', 'Z', '2', 'e'}),
	rapid.Byte(),
	rapid.ByteRange(0x80, 0xff),
)

const c15HostChars = "abcdefghijklmnopqrstuvwxyzABCDEFGHIJKLMNOPQRSTUVWXYZ0123456789-"

func c15Label(rt *rapid.T, n int, tag string) vh.Hex {
	if n == 0 {
		return vh.Hex{}
	}
	kind := rapid.IntRange(0, 5).Draw(rt, tag+"kind")
	if n <= 6 || kind == 0 {
		if n <= 24 {
			return rapid.SliceOfN(c15LabelByte, n, n).Draw(rt, tag)
		}
		kind = 1 + n%5
	}
	// longer labels: a seed keeps the draw count low
	b := c15h.Expand(rapid.Uint64Range(2, 1<<40).Draw(rt, tag+"seed"), n)
	switch kind {
	case 1, 2: // host-name characters only
		for i := range b {
			b[i] = c15HostChars[int(b[i])%len(c15HostChars)]
		}
	case 3: // any byte
	case 4: // only bytes that the dotted form escapes
		for i := range b {
			b[i] = c15EscByte[int(b[i])%len(c15EscByte)]
		}
	case 5: // host-name characters with one to four escaped bytes among them ("_conjure", "a.b")
		pos := append([]byte{}, b...)
		for i := range b {
			b[i] = c15HostChars[int(b[i])%len(c15HostChars)]
		}
		for j := 0; j < 1+int(pos[0])%4 && j < n; j++ {
			b[int(pos[j])%n] = c15EscByte[int(pos[n-1-j])%len(c15EscByte)]
		}
	}
	return b
}

// c15SplitOctets draws label lengths whose wire encoding takes exactly oct octets (incl. the root).
func c15SplitOctets(rt *rapid.T, oct int, tiny bool) []int {
	var lens []int
	left := oct - 1
	for left >= 2 {
		max := left - 1
		if max > 63 {
			max = 63
		}
		var l int
		switch {
		case tiny:
			l = 1
		case rapid.IntRange(0, 2).Draw(rt, "full") > 0:
			l = max
		default:
			l = rapid.IntRange(1, max).Draw(rt, "l")
		}
		if left-(l+1) == 1 { // a single octet cannot hold another label
			if l+1 <= max {
				l++
			} else {
				l--
			}
		}
		if l < 1 {
			break
		}
		lens = append(lens, l)
		left -= l + 1
	}
	return lens
}

func c15NameGen(rt *rapid.T) c15NameCase {
	var lens []int
	switch rapid.IntRange(0, 4).Draw(rt, "mode") {
	case 0: // small ordinary names
		n := rapid.IntRange(0, 6).Draw(rt, "n")
		for i := 0; i < n; i++ {
			lens = append(lens, rapid.IntRange(1, 20).Draw(rt, "l"))
		}
	case 1: // one label at a label-length limit (64 = 0x40 and 192 = 0xc0 collide with the label-type bits)
		n := rapid.IntRange(0, 3).Draw(rt, "n")
		for i := 0; i < n; i++ {
			lens = append(lens, rapid.IntRange(1, 20).Draw(rt, "l"))
		}
		special := rapid.SampledFrom([]int{0, 1, 62, 63, 63, 64, 64, 65, 127, 128, 191, 192, 193, 255, 256}).Draw(rt, "special")
		at := rapid.IntRange(0, len(lens)).Draw(rt, "at")
		lens = append(lens[:at], append([]int{special}, lens[at:]...)...)
	case 2, 3: // total length at the name limit
		oct := rapid.SampledFrom([]int{250, 251, 252, 253, 254, 255, 255, 255, 256, 256, 257, 258, 300}).Draw(rt, "octets")
		lens = c15SplitOctets(rt, oct, false)
	case 4: // as many labels as fit: 127 one-byte labels are 255 octets
		oct := rapid.SampledFrom([]int{251, 253, 255, 257, 259}).Draw(rt, "octets")
		lens = c15SplitOctets(rt, oct, true)
	}
	c := c15NameCase{Labels: []vh.Hex{}}
	plain := rapid.IntRange(0, 3).Draw(rt, "plain") == 0 // a quarter of the names: host-name characters only
	for i, l := range lens {
		lab := c15Label(rt, l, fmt.Sprintf("label%d", i))
		if plain {
			for j := range lab {
				lab[j] = c15HostChars[int(lab[j])%len(c15HostChars)]
			}
		}
		c.Labels = append(c.Labels, lab)
	}
	return c
}

func TestVerif_C15_names(t *testing.T) {
	rec := vh.NewRec("C15", "names", "rapid: names of 0-6 short labels; names with one label of 0/1/62/63/64/65/127/128/191/192/193/255/256 bytes; names whose wire length is 250-258 or 300 octets split into random or maximal labels; names of 125-129 one-byte labels; label bytes from the full 0-255 range with weight on host-name characters and on bytes the dotted form escapes (_ . \\ 0x00 >=0x80 0xc0 0x40): labels of host-name characters only, of arbitrary bytes, of escaped bytes only, or host-name characters with 1-4 escaped bytes. Oracle (acceptance rule taken from the wire format, not from the implementation: labels 1-63 bytes, 255 octets incl. length octets and root): NewName accepts exactly the names the rule allows; MessageFromWireFormat reads the reference wire form of exactly those names; an accepted name is written as its RFC 1035 wire form and survives WriteName->readName, Message.WireFormat->MessageFromWireFormat (second occurrence compressed) and, if made of [0-9A-Za-z-] only, ParseName(String()). Non-trivial = wire length 239-272 octets or longest label 62-65; distinct by labels")
	defer rec.Flush()
	rec.Require("octets255:accepted", "label63:accepted", "octets256:rejected", "label64:rejected", "empty-label:rejected", "root:accepted", "escaped-bytes:accepted", "escaped-dotted>253:accepted", "escaped-near-limit:accepted", "dotted:accepted", "plain-octets255:accepted")
	if p := vh.ReplayFile(); p != "" {
		var c c15NameCase
		if _, _, err := vh.LoadReplay(p, &c); err != nil {
			t.Fatal(err)
		}
		c15NameCheck(t, rec, c)
		return
	}
	rapid.Check(t, func(rt *rapid.T) { c15NameCheck(rt, rec, c15NameGen(rt)) })
}
