package dns

// C15 — DNS names: a name accepted by NewName survives WriteName -> readName and a trip through a
// whole message (second occurrence compressed); labels of 64 bytes, empty labels and names of more
// than 255 octets cannot be represented and must be rejected with an error.
//
// Sub-check: names.  (messages / TXT / decoders: zz_verif_c15_msg_test.go)

import (
	"bytes"
	"errors"
	"fmt"
	"io"
	"testing"

	"pgregory.net/rapid"
	"verif/harness/c15h"
	"verif/harness/vh"
)

type c15NameCase struct {
	Labels []vh.Hex `json:"labels"`
}

func c15Labels(h []vh.Hex) [][]byte {
	out := make([][]byte, len(h))
	for i := range h {
		out[i] = append([]byte{}, h[i]...)
	}
	return out
}

// c15RefOctets is the RFC 1035 wire length of a name: one length octet per label plus the root.
func c15RefOctets(labels []vh.Hex) int {
	n := 1
	for _, l := range labels {
		n += 1 + len(l)
	}
	return n
}

// c15RefValid is the reference validity rule (RFC 1035 §2.3.4), independent of the code under test.
func c15RefValid(labels []vh.Hex) (ok bool, why string) {
	for _, l := range labels {
		if len(l) == 0 {
			return false, "empty-label"
		}
		if len(l) > 63 {
			return false, "label>63"
		}
	}
	if c15RefOctets(labels) > 255 {
		return false, "octets>255"
	}
	return true, ""
}

func c15NameEq(a Name, b [][]byte) bool {
	if len(a) != len(b) {
		return false
	}
	for i := range a {
		if !bytes.Equal(a[i], b[i]) {
			return false
		}
	}
	return true
}

func c15ErrClass(err error) string {
	switch {
	case err == nil:
		return "nil"
	case errors.Is(err, ErrTooManyPointers):
		return "too-many-pointers"
	case errors.Is(err, ErrReservedLabelType):
		return "reserved-label-type"
	case errors.Is(err, ErrTrailingBytes):
		return "trailing-bytes"
	case errors.Is(err, ErrNameTooLong):
		return "name-too-long"
	case errors.Is(err, ErrLabelTooLong):
		return "label-too-long"
	case errors.Is(err, ErrZeroLengthLabel):
		return "zero-length-label"
	case errors.Is(err, ErrIntegerOverflow):
		return "integer-overflow"
	case errors.Is(err, io.ErrUnexpectedEOF), errors.Is(err, io.EOF):
		return "eof"
	}
	return "other"
}

func c15NameCheck(t vh.Fataler, rec *vh.Rec, c c15NameCase) {
	t.Helper()
	labels := c15Labels(c.Labels)
	orig := c15Labels(c.Labels)
	refOK, why := c15RefValid(c.Labels)
	oct := c15RefOctets(c.Labels)
	maxLabel := 0
	for _, l := range c.Labels {
		if len(l) > maxLabel {
			maxLabel = len(l)
		}
	}
	var tags []string
	if oct == 255 {
		tags = append(tags, "octets255")
	}
	if oct == 256 {
		tags = append(tags, "octets256")
	}
	if maxLabel == 63 && (refOK || why == "octets>255") {
		tags = append(tags, "label63")
	}
	if maxLabel == 64 {
		tags = append(tags, "label64")
	}
	if why == "empty-label" {
		tags = append(tags, "empty-label")
	}
	if len(c.Labels) == 0 {
		tags = append(tags, "root")
	}
	nontriv := len(c.Labels) > 0 && (oct >= 239 && oct <= 272 || maxLabel >= 62 && maxLabel <= 65)
	done := func(outcome string) {
		cl := []string{outcome}
		for _, tg := range tags {
			cl = append(cl, tg+":"+outcome)
		}
		rec.Case(nontriv, vh.Digest(c), c, cl...)
	}

	var name Name
	var err error
	if pan, what := c15h.Catch(func() { name, err = NewName(labels) }); pan {
		done("PANIC")
		rec.Violation(t, "dns:name:encode-panic", c, "NewName panicked on %d labels (max label %d, %d octets): %s", len(c.Labels), maxLabel, oct, what)
		return
	}
	if err != nil {
		// a rejection is always acceptable; that valid boundary names are still accepted is
		// enforced through the required classes octets255:accepted / label63:accepted
		done("rejected")
		return
	}

	// name-level round trip: WriteName -> readName, reader left just behind the name
	var wire []byte
	if pan, what := c15h.Catch(func() {
		b := newMessageBuilder()
		err = b.WriteName(name)
		wire = append([]byte(nil), b.Bytes()...)
	}); pan {
		done("PANIC")
		key := "dns:name:encode-panic"
		if !refOK {
			key = "dns:name:over-limit-accepted"
		}
		rec.Violation(t, key, c, "NewName accepted a name with %d labels (max label %d, %d octets; reference says valid=%v %s) and WriteName then panicked: %s", len(c.Labels), maxLabel, oct, refOK, why, what)
		return
	}
	if err != nil {
		done("rejected")
		return
	}
	r := bytes.NewReader(append(append([]byte(nil), wire...), 0xAA, 0xBB))
	var got Name
	var rerr error
	if pan, what := c15h.Catch(func() { got, rerr = readName(r) }); pan {
		done("PANIC")
		rec.Violation(t, "dns:name:decode-panic", c, "readName panicked on the encoding of an accepted name: %s", what)
		return
	}
	pos, _ := r.Seek(0, io.SeekCurrent)
	if rerr != nil || !c15NameEq(got, orig) || int(pos) != len(wire) {
		done("MISMATCH")
		key := "dns:name:roundtrip"
		if !refOK {
			key = "dns:name:over-limit-accepted"
		}
		rec.Violation(t, key, c, "NewName accepted %d labels (max label %d, %d octets; reference valid=%v %s) but readName(WriteName(name)) gave err=%v, %d labels, reader at %d of %d", len(c.Labels), maxLabel, oct, refOK, why, rerr, len(got), pos, len(wire))
		return
	}
	// message-level round trip: the name twice, so the second occurrence is a compression pointer
	msg := &Message{ID: 0x1234, Flags: 0x0100,
		Question: []Question{{Name: name, Type: RRTypeTXT, Class: ClassIN}},
		Answer:   []RR{{Name: name, Type: RRTypeTXT, Class: ClassIN, TTL: 60, Data: []byte{0}}}}
	var buf []byte
	var m2 Message
	if pan, what := c15h.Catch(func() {
		buf, err = msg.WireFormat()
		if err == nil {
			m2, rerr = MessageFromWireFormat(buf)
		}
	}); pan {
		done("PANIC")
		rec.Violation(t, "dns:name:message-panic", c, "WireFormat/MessageFromWireFormat panicked for an accepted name: %s", what)
		return
	}
	if err == nil && (rerr != nil || len(m2.Question) != 1 || len(m2.Answer) != 1 || !c15NameEq(m2.Question[0].Name, orig) || !c15NameEq(m2.Answer[0].Name, orig)) {
		done("MISMATCH")
		key := "dns:name:roundtrip"
		if !refOK {
			key = "dns:name:over-limit-accepted"
		}
		rec.Violation(t, key, c, "a name of %d labels / %d octets (reference valid=%v %s) does not survive Message.WireFormat -> MessageFromWireFormat: err=%v", len(c.Labels), oct, refOK, why, rerr)
		return
	}
	if !refOK {
		done("ACCEPTED-INVALID")
		rec.Violation(t, "dns:name:over-limit-accepted", c, "NewName accepted a name that DNS cannot represent (%s: %d labels, longest label %d, %d octets)", why, len(c.Labels), maxLabel, oct)
		return
	}
	done("accepted")
}

// label bytes: mostly host-name characters, plus the characters that matter to Name.String() (the
// compression cache key) and to the label-type bits.
var c15LabelByte = rapid.OneOf(
	rapid.SampledFrom([]byte("abcdefghijklmnopqrstuvwxyz0123456789-")),
	rapid.SampledFrom([]byte("abcdefghijklmnopqrstuvwxyz0123456789-")),
	rapid.SampledFrom([]byte{'.', '\\', 'x', 'X', 'A', 'a', 'Z', '2', 'e', 0x00, 0xff, 0xc0, 0x40, ' '}),
	rapid.Byte(),
)

func c15Label(rt *rapid.T, n int, tag string) vh.Hex {
	if n == 0 {
		return vh.Hex{}
	}
	if n > 8 && rapid.IntRange(0, 3).Draw(rt, tag+"fill") > 0 {
		// long labels: content is rarely what matters; a seed keeps the draw count low
		b := c15h.Expand(rapid.Uint64Range(2, 1<<40).Draw(rt, tag+"seed"), n)
		for i := range b {
			b[i] = "abcdefghijklmnopqrstuvwxyz234567"[b[i]&31]
		}
		return b
	}
	return rapid.SliceOfN(c15LabelByte, n, n).Draw(rt, tag)
}

// c15SplitOctets draws label lengths whose wire encoding takes exactly oct octets (incl. the root).
func c15SplitOctets(rt *rapid.T, oct int, tiny bool) []int {
	var lens []int
	left := oct - 1
	for left >= 2 {
		max := left - 1
		if max > 63 {
			max = 63
		}
		var l int
		switch {
		case tiny:
			l = 1
		case rapid.IntRange(0, 2).Draw(rt, "full") > 0:
			l = max
		default:
			l = rapid.IntRange(1, max).Draw(rt, "l")
		}
		if left-(l+1) == 1 { // a single octet cannot hold another label
			if l+1 <= max {
				l++
			} else {
				l--
			}
		}
		if l < 1 {
			break
		}
		lens = append(lens, l)
		left -= l + 1
	}
	return lens
}

func c15NameGen(rt *rapid.T) c15NameCase {
	var lens []int
	switch rapid.IntRange(0, 4).Draw(rt, "mode") {
	case 0: // small ordinary names
		n := rapid.IntRange(0, 6).Draw(rt, "n")
		for i := 0; i < n; i++ {
			lens = append(lens, rapid.IntRange(1, 20).Draw(rt, "l"))
		}
	case 1: // one label at a label-length limit (64 = 0x40 and 192 = 0xc0 collide with the label-type bits)
		n := rapid.IntRange(0, 3).Draw(rt, "n")
		for i := 0; i < n; i++ {
			lens = append(lens, rapid.IntRange(1, 20).Draw(rt, "l"))
		}
		special := rapid.SampledFrom([]int{0, 1, 62, 63, 63, 64, 64, 65, 127, 128, 191, 192, 193, 255, 256}).Draw(rt, "special")
		at := rapid.IntRange(0, len(lens)).Draw(rt, "at")
		lens = append(lens[:at], append([]int{special}, lens[at:]...)...)
	case 2, 3: // total length at the name limit
		oct := rapid.SampledFrom([]int{250, 253, 254, 255, 255, 256, 256, 257, 258, 300}).Draw(rt, "octets")
		lens = c15SplitOctets(rt, oct, false)
	case 4: // as many labels as fit: 127 one-byte labels are 255 octets
		oct := rapid.SampledFrom([]int{251, 253, 255, 257, 259}).Draw(rt, "octets")
		lens = c15SplitOctets(rt, oct, true)
	}
	c := c15NameCase{Labels: []vh.Hex{}}
	for i, l := range lens {
		c.Labels = append(c.Labels, c15Label(rt, l, fmt.Sprintf("label%d", i)))
	}
	return c
}

func TestVerif_C15_names(t *testing.T) {
	rec := vh.NewRec("C15", "names", "rapid: names of 0-6 short labels; names with one label of 0/1/62/63/64/65/127/128/191/192/193/255/256 bytes; names whose wire length is 250-258 or 300 octets split into random or maximal labels; names of 125-129 one-byte labels; label bytes biased to host-name characters plus . \\ x case variants 0x00 0xff 0xc0 0x40. Oracle: accepted by NewName => WriteName->readName and Message.WireFormat->MessageFromWireFormat (second occurrence compressed) give the labels back and the reader stops right behind the name; a name invalid by RFC 1035 (label >63, empty label, >255 octets) must not be accepted. Non-trivial = wire length 239-272 octets or longest label 62-65; distinct by labels")
	defer rec.Flush()
	rec.Require("octets255:accepted", "label63:accepted", "octets256:rejected", "label64:rejected", "empty-label:rejected", "root:accepted")
	if p := vh.ReplayFile(); p != "" {
		var c c15NameCase
		if _, _, err := vh.LoadReplay(p, &c); err != nil {
			t.Fatal(err)
		}
		c15NameCheck(t, rec, c)
		return
	}
	rapid.Check(t, func(rt *rapid.T) { c15NameCheck(rt, rec, c15NameGen(rt)) })
}
