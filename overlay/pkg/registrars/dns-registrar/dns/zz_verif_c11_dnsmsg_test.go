package dns

// C11 — DNS registration requests are attacker-controlled datagrams: the wire-format parser.
//
// Entry point: MessageFromWireFormat on the datagram, then what the responder does with whatever the
// parser returned (it carries on with the partial message after a parse error): re-encoding
// (WireFormat — the response repeats the question section), Name.String / TrimSuffix, and TXT
// decoding of record data.
//
// Oracle: every call returns (value or error), none panics, all finish within c11h.BoundCPU — a
// compression pointer loop must end in ErrTooManyPointers, not in an endless loop.

import (
	"testing"

	"pgregory.net/rapid"
	"verif/harness/c11h"
	"verif/harness/vh"
)

const c11DNSMsgSub = "dnsmsg"

type c11DNSMsgCase struct {
	Data vh.Hex `json:"datagram"`
}

var c11Domain = Name{[]byte("t"), []byte("example"), []byte("com")}

func c11DNSMsgRun(c c11DNSMsgCase) (classes []string, nontrivial bool, o c11h.Outcome) {
	var cls []string
	o = c11h.Guard(c11h.BoundCPU, func() {
		m, err := MessageFromWireFormat(append([]byte(nil), c.Data...))
		if err != nil {
			switch err {
			case ErrTooManyPointers:
				cls = append(cls, "err:too-many-pointers")
			case ErrReservedLabelType:
				cls = append(cls, "err:reserved-label")
			case ErrTrailingBytes:
				cls = append(cls, "err:trailing")
			default:
				cls = append(cls, "err:other")
			}
		} else {
			cls = append(cls, "parsed")
		}
		if len(m.Question)+len(m.Answer)+len(m.Authority)+len(m.Additional) > 0 {
			nontrivial = true
			cls = append(cls, "has-entries")
		}
		if _, err := m.WireFormat(); err != nil {
			cls = append(cls, "reencode-error")
		}
		for _, q := range m.Question {
			_ = q.Name.String()
			if _, ok := q.Name.TrimSuffix(c11Domain); ok {
				cls = append(cls, "our-domain")
			}
		}
		for _, rrs := range [][]RR{m.Answer, m.Authority, m.Additional} {
			for _, rr := range rrs {
				_ = rr.Name.String()
				if p, err := DecodeRDataTXT(rr.Data); err == nil {
					_ = EncodeRDataTXT(p)
				}
			}
		}
		_ = m.Opcode()
		_ = m.Rcode()
	})
	if o.Hung || o.Inconclusive {
		return []string{"gave-up-waiting"}, true, o
	}
	return cls, nontrivial, o
}

func c11DNSMsgCheck(t vh.Fataler, rec *vh.Rec, c c11DNSMsgCase, fuzz bool) {
	classes, nontrivial, o := c11DNSMsgRun(c)
	classes = append(classes, c11h.Source(fuzz))
	c11h.Report(t, rec, c11DNSMsgSub, "dnsmsg", c, vh.Digest([]byte(c.Data)), o, nontrivial, classes...)
}

const c11DNSMsgRule = "MessageFromWireFormat + re-encoding / name / TXT handling of the (possibly partial) result on datagrams assembled from drawn parts: header with true or lying counts, names of labels / reserved label types / compression pointers (back, forward, self, two-pointer cycles, chains of 2..200, label+pointer loops, out of range), questions, records with true or lying RDLENGTH, OPT records; 30 % truncated / extended / byte-mutated; plus hostile constants; non-trivial = at least one question or record was parsed; distinct by datagram"

func c11DNSMsgSeeds() [][]any {
	var out [][]any
	for _, b := range c11h.DNSHostileSeeds() {
		out = append(out, []any{b})
	}
	q := &Message{ID: 7, Flags: 0x0100, Question: []Question{{Name: append(Name{[]byte("mfrggzdfmztwq2lknnwg23tpobyxe43uov3ho6dzpi"), []byte("abcdefgh")}, c11Domain...), Type: RRTypeTXT, Class: ClassIN}},
		Additional: []RR{{Name: Name{}, Type: RRTypeOPT, Class: 4096, Data: []byte{}}}}
	if b, err := q.WireFormat(); err == nil {
		out = append(out, []any{b})
	}
	r := &Message{ID: 7, Flags: 0x8400, Question: q.Question, Answer: []RR{{Name: q.Question[0].Name, Type: RRTypeTXT, Class: ClassIN, TTL: 60, Data: EncodeRDataTXT(make([]byte, 300))}}}
	if b, err := r.WireFormat(); err == nil {
		out = append(out, []any{b})
	}
	return out
}

func TestVerif_C11_dnsmsg(t *testing.T) {
	rec := c11h.Rec(c11DNSMsgSub, c11DNSMsgRule)
	defer rec.Flush()
	if p := vh.ReplayFile(); p != "" {
		var c c11DNSMsgCase
		if _, _, err := vh.LoadReplay(p, &c); err != nil {
			t.Fatal(err)
		}
		c11DNSMsgCheck(t, rec, c, false)
		return
	}
	rec.Require("parsed", "has-entries", "err:too-many-pointers", "err:reserved-label", "err:trailing", "err:other", "our-domain")
	if err := c11h.WriteCorpus("FuzzVerif_C11_dnsmsg", c11DNSMsgSeeds()); err != nil {
		t.Fatalf("harness problem: %v", err)
	}
	rapid.Check(t, func(rt *rapid.T) {
		var payload [][]byte
		if rapid.Bool().Draw(rt, "haspayload") {
			payload = [][]byte{c11h.Bytes(rt, "payloadlabel", []int{1, 20, 63})}
		}
		c11DNSMsgCheck(rt, rec, c11DNSMsgCase{Data: c11h.GenDNSWire(rt, c11Domain, payload)}, false)
	})
}

func FuzzVerif_C11_dnsmsg(f *testing.F) {
	rec := c11h.Rec(c11DNSMsgSub, c11DNSMsgRule)
	defer rec.Flush()
	for _, s := range c11DNSMsgSeeds() {
		f.Add(s...)
	}
	f.Fuzz(func(t *testing.T, data []byte) {
		if len(data) > 4096 { // the responder's receive buffer
			return
		}
		c11DNSMsgCheck(t, rec, c11DNSMsgCase{Data: data}, true)
	})
}
