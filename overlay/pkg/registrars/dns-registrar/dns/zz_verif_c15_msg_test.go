package dns

// C15 — DNS message and TXT wire formats.
//
// Sub-checks: messages (rapid: arbitrary sections, names sharing suffixes so that compression
// pointers are produced, incl. deeply nested suffix chains), txt_enum / txt (TXT character-string
// chunking at 255/256/510 and at the 65535 RDLENGTH limit), dec_dnsmsg / dec_txt (decoders on
// arbitrary bytes; the same check functions back FuzzVerif_C15_dnsmsg / FuzzVerif_C15_txt).

import (
	"bytes"
	"fmt"
	"testing"

	"pgregory.net/rapid"
	"verif/harness/c15h"
	"verif/harness/vh"
)

// ---- messages -----------------------------------------------------------------------------------

type c15RR struct {
	Name     []vh.Hex `json:"name"`
	Type     uint16   `json:"type"`
	Class    uint16   `json:"class"`
	TTL      uint32   `json:"ttl,omitempty"`
	DataLen  int      `json:"data_len,omitempty"`
	DataSeed uint64   `json:"data_seed,omitempty"` // data = c15h.Expand(seed, len)
}

type c15MsgCase struct {
	ID     uint16  `json:"id"`
	Flags  uint16  `json:"flags"`
	Q      []c15RR `json:"question"` // only name/type/class are used
	An     []c15RR `json:"answer"`
	Ns     []c15RR `json:"authority"`
	Ar     []c15RR `json:"additional"`
	Repeat bool    `json:"repeat,omitempty"` // the deepest name of an enumerated chain is written a second time (a bare pointer)
	Nested int     `json:"nested,omitempty"` // informational: length of the longest chain name_k = label_k + name_(k-1) the generator built
	Bulk   [4]int  `json:"bulk,omitempty"`   // further cheap entries appended to question / answer / authority / additional (root name, TXT IN, empty RDATA)
}

func (c c15MsgCase) counts() [4]int {
	return [4]int{len(c.Q) + c.Bulk[0], len(c.An) + c.Bulk[1], len(c.Ns) + c.Bulk[2], len(c.Ar) + c.Bulk[3]}
}

func (c c15MsgCase) countOverflow() bool {
	for _, n := range c.counts() {
		if n > 65535 {
			return true
		}
	}
	return false
}

// c15Build turns a case into a Message; names go through NewName like every caller does. ok=false
// if NewName refused one of them (not a violation here; the names sub-check covers NewName).
func c15Build(c c15MsgCase) (m *Message, ok bool, overflow bool) {
	m = &Message{ID: c.ID, Flags: c.Flags}
	mk := func(r c15RR) (Name, bool) {
		n, err := NewName(c15Labels(r.Name))
		return n, err == nil
	}
	for _, q := range c.Q {
		n, k := mk(q)
		if !k {
			return nil, false, false
		}
		m.Question = append(m.Question, Question{Name: n, Type: q.Type, Class: q.Class})
	}
	for i, sec := range [][]c15RR{c.An, c.Ns, c.Ar} {
		for _, r := range sec {
			n, k := mk(r)
			if !k {
				return nil, false, false
			}
			if r.DataLen > 65535 {
				overflow = true
			}
			rr := RR{Name: n, Type: r.Type, Class: r.Class, TTL: r.TTL, Data: c15h.Expand(r.DataSeed, r.DataLen)}
			switch i {
			case 0:
				m.Answer = append(m.Answer, rr)
			case 1:
				m.Authority = append(m.Authority, rr)
			default:
				m.Additional = append(m.Additional, rr)
			}
		}
	}
	for i := 0; i < c.Bulk[0]; i++ {
		m.Question = append(m.Question, Question{Name: Name{}, Type: RRTypeTXT, Class: ClassIN})
	}
	bulk := RR{Name: Name{}, Type: RRTypeTXT, Class: ClassIN, Data: []byte{}}
	for i := 0; i < c.Bulk[1]; i++ {
		m.Answer = append(m.Answer, bulk)
	}
	for i := 0; i < c.Bulk[2]; i++ {
		m.Authority = append(m.Authority, bulk)
	}
	for i := 0; i < c.Bulk[3]; i++ {
		m.Additional = append(m.Additional, bulk)
	}
	return m, true, overflow
}

// c15MsgDiff compares two messages field by field ("" = equal; nil and empty slices are equal).
func c15MsgDiff(a, b *Message) string {
	if a.ID != b.ID {
		return "header:id"
	}
	if a.Flags != b.Flags {
		return "header:flags"
	}
	if len(a.Question) != len(b.Question) {
		return "question:count"
	}
	for i := range a.Question {
		x, y := a.Question[i], b.Question[i]
		if !c15NameEq(x.Name, y.Name) {
			return "question:name"
		}
		if x.Type != y.Type || x.Class != y.Class {
			return "question:fields"
		}
	}
	for _, s := range []struct {
		n    string
		x, y []RR
	}{{"answer", a.Answer, b.Answer}, {"authority", a.Authority, b.Authority}, {"additional", a.Additional, b.Additional}} {
		if len(s.x) != len(s.y) {
			return s.n + ":count"
		}
		for i := range s.x {
			x, y := s.x[i], s.y[i]
			if !c15NameEq(x.Name, y.Name) {
				return s.n + ":name"
			}
			if x.Type != y.Type || x.Class != y.Class || x.TTL != y.TTL {
				return s.n + ":fields"
			}
			if !bytes.Equal(x.Data, y.Data) {
				return s.n + ":data"
			}
		}
	}
	return ""
}

// c15Uncompressed is the wire size the message would have without any compression pointer.
func c15Uncompressed(c c15MsgCase) int {
	n := 12
	for _, q := range c.Q {
		n += c15RefOctets(q.Name) + 4
	}
	for _, sec := range [][]c15RR{c.An, c.Ns, c.Ar} {
		for _, r := range sec {
			n += c15RefOctets(r.Name) + 10 + r.DataLen
		}
	}
	return n + 5*c.Bulk[0] + 11*(c.Bulk[1]+c.Bulk[2]+c.Bulk[3])
}

func c15MsgCheck(t vh.Fataler, rec *vh.Rec, c c15MsgCase) {
	t.Helper()
	m, ok, overflow := c15Build(c)
	if !ok {
		// the generator only builds names that are valid on the wire: a refusal is NewName rejecting
		// a representable value (the names sub-check owns the boundary cases)
		for _, sec := range [][]c15RR{c.Q, c.An, c.Ns, c.Ar} {
			for _, r := range sec {
				if v, _ := c15RefValid(r.Name); !v {
					continue
				}
				if _, err := NewName(c15Labels(r.Name)); err != nil {
					rec.Case(true, vh.Digest(c), c, "VALID-NAME-REJECTED")
					rec.Violation(t, "dns:name:valid-rejected", c, "NewName rejects a name that is valid on the wire (%d labels, %d octets <= 255, %d bytes outside [0-9A-Za-z-]): %v", len(r.Name), c15RefOctets(r.Name), c15Escapes(r.Name), err)
					return
				}
			}
		}
		rec.Case(false, vh.Digest(c), nil, "name-refused")
		return
	}
	classes := []string{}
	if c.Nested == 127 && c.Repeat {
		classes = append(classes, "nested=127+repeat")
	}
	if c.Nested == 127 {
		classes = append(classes, "nested=127")
	}
	if c.Nested >= 12 {
		classes = append(classes, "nested>=12")
	} else if c.Nested >= 2 {
		classes = append(classes, "nested<12")
	}
	if overflow {
		classes = append(classes, "rdlength>65535")
	}
	cnt := c.counts()
	cntOver := c.countOverflow()
	secName := []string{"question", "answer", "authority", "additional"}
	for i, n := range cnt {
		if n >= 65535 {
			classes = append(classes, fmt.Sprintf("%s-count=%d", secName[i], n))
		}
	}
	var buf []byte
	var err error
	if pan, what := c15h.Catch(func() { buf, err = m.WireFormat() }); pan {
		rec.Case(true, vh.Digest(c), c, append(classes, "PANIC")...)
		rec.Violation(t, "dns:msg:encode-panic", c, "WireFormat panicked on a message of NewName-validated names: %s", what)
		return
	}
	if err != nil {
		classes = append(classes, "rejected:"+c15ErrClass(err))
		for i, n := range cnt {
			if n > 65535 {
				classes = append(classes, secName[i]+"-count>65535:rejected")
			}
		}
		if !overflow && !cntOver && (c.Bulk != [4]int{}) {
			// every section within its 16-bit count, every RDATA within its 16-bit length: representable
			rec.Case(true, vh.Digest(c), c, append(classes, "VALID-REJECTED")...)
			rec.Violation(t, "dns:msg:valid-rejected", c, "WireFormat refuses a message whose section counts (%v) and RDATA lengths all fit their 16-bit fields: %v", cnt, err)
			return
		}
		rec.Case(overflow || cntOver, vh.Digest(c), c, classes...)
		return
	}
	if cntOver {
		key := "dns:msg:count-overflow"
		rec.Case(true, vh.Digest(c), c, append(classes, "COUNT-OVERFLOW-ACCEPTED")...)
		m2, derr := MessageFromWireFormat(buf)
		got := "does not parse: "
		if derr != nil {
			got += derr.Error()
		} else {
			got = fmt.Sprintf("parses as %d questions, %d/%d/%d records", len(m2.Question), len(m2.Answer), len(m2.Authority), len(m2.Additional))
		}
		hdr := buf
		if len(hdr) > 12 {
			hdr = hdr[:12]
		}
		rec.Violation(t, key, c, "WireFormat accepted (err=nil) a message with %v entries in question/answer/authority/additional although a section count does not fit 16 bits; header % x; its output %s", cnt, hdr, got)
		return
	}
	compressed := len(buf) < c15Uncompressed(c)
	if compressed {
		classes = append(classes, "compressed")
	}
	if len(buf) > 0x3fff {
		classes = append(classes, "message>16383")
	}
	nontriv := compressed || overflow || cnt[0] >= 65535 || cnt[1] >= 65535 || cnt[2] >= 65535 || cnt[3] >= 65535
	var m2 Message
	var derr error
	if pan, what := c15h.Catch(func() { m2, derr = MessageFromWireFormat(buf) }); pan {
		rec.Case(nontriv, vh.Digest(c), c, append(classes, "PANIC")...)
		rec.Violation(t, "dns:msg:decode-panic", c, "MessageFromWireFormat panicked on the output of WireFormat: %s", what)
		return
	}
	if derr != nil {
		rec.Case(nontriv, vh.Digest(c), c, append(classes, "DECODE-ERROR")...)
		key := "dns:msg:decode-error:" + c15ErrClass(derr)
		if overflow {
			key = "dns:msg:rdlength-overflow"
		}
		rec.Violation(t, key, c, "WireFormat accepted the message (%d questions, %d/%d/%d records, %d bytes on the wire, longest nested-suffix chain %d) but MessageFromWireFormat rejects its output: %v",
			len(c.Q), len(c.An), len(c.Ns), len(c.Ar), len(buf), c.Nested, derr)
		return
	}
	if d := c15MsgDiff(m, &m2); d != "" {
		rec.Case(nontriv, vh.Digest(c), c, append(classes, "MISMATCH")...)
		key := "dns:msg:mismatch:" + d
		if overflow {
			key = "dns:msg:rdlength-overflow"
		}
		rec.Violation(t, key, c, "message decoded from its own wire format differs at %s (%d questions, %d/%d/%d records, %d bytes on the wire)", d, len(c.Q), len(c.An), len(c.Ns), len(c.Ar), len(buf))
		return
	}
	classes = append(classes, "ok")
	rec.Case(nontriv, vh.Digest(c), c, classes...)
}

func c15FlipCase(l vh.Hex) vh.Hex {
	out := append(vh.Hex{}, l...)
	for i, b := range out {
		if b >= 'a' && b <= 'z' {
			out[i] = b - 32
			break
		}
		if b >= 'A' && b <= 'Z' {
			out[i] = b + 32
			break
		}
	}
	return out
}

// c15Spec holds every random choice for one entry of a message; the entries are drawn as a slice
// so that rapid can shrink a failing message by deleting entries.
type c15Spec struct {
	Nest    bool // name = one pool label in front of the previous entry's name
	Shape   int  // otherwise: 0 root, 1 case-flipped copy of an earlier name, else pool labels + suffix of the base
	L       [4]int
	Pre     int
	Cut     int
	Sec     int
	Type    uint16
	Class   uint16
	TTL     uint32
	DataLen int
	Seed    uint64
}

func c15MsgGen(rt *rapid.T) c15MsgCase {
	c := c15MsgCase{ID: rapid.Uint16().Draw(rt, "id"), Flags: rapid.Uint16().Draw(rt, "flags")}
	// a small label pool and a base suffix, so that names share suffixes
	np := rapid.IntRange(1, 5).Draw(rt, "pool")
	pool := make([]vh.Hex, np)
	for i := range pool {
		pool[i] = c15Label(rt, rapid.SampledFrom([]int{1, 1, 2, 3, 7, 20, 63}).Draw(rt, "pl"), fmt.Sprintf("pool%d", i))
	}
	var base []vh.Hex
	for i, n := 0, rapid.IntRange(0, 3).Draw(rt, "base"); i < n; i++ {
		base = append(base, pool[rapid.IntRange(0, np-1).Draw(rt, "bl")])
	}
	// nestBias: 0 = names are pool labels in front of a suffix of the base; 7 = (almost) every name
	// is label + previous name, so every name is written as one label and a pointer to the previous
	nestBias := rapid.SampledFrom([]int{0, 0, 2, 7, 7}).Draw(rt, "nestbias") // eighths
	minEntries, maxEntries := 0, 12
	if nestBias > 0 {
		maxEntries = 40
	}
	if nestBias == 7 && rapid.Bool().Draw(rt, "deep") {
		minEntries = 14 // rapid favours short slices; deep chains need many entries
	}
	// rare large RDATA: 16 KiB (later names sit beyond the 14-bit pointer range), 65535, 65536
	big := rapid.SampledFrom([]int{0, 0, 0, 0, 0, 0, 0, 0, 0, 0, 0, 0, 16400, 65535, 65536}).Draw(rt, "big")
	specs := rapid.SliceOfN(rapid.Custom(func(rt *rapid.T) c15Spec {
		sp := c15Spec{
			Nest:    rapid.IntRange(0, 7).Draw(rt, "nest") < nestBias,
			Shape:   rapid.IntRange(0, 9).Draw(rt, "shape"),
			Pre:     rapid.IntRange(0, 3).Draw(rt, "pre"),
			Cut:     rapid.IntRange(0, 3).Draw(rt, "cut"),
			Sec:     rapid.IntRange(0, 3).Draw(rt, "section"),
			Type:    rapid.SampledFrom([]uint16{1, 16, 16, 41, 255, 65535}).Draw(rt, "type"),
			Class:   rapid.SampledFrom([]uint16{1, 1, 4096, 0, 65535}).Draw(rt, "class"),
			TTL:     rapid.SampledFrom([]uint32{0, 60, 1 << 31, 0xffffffff}).Draw(rt, "ttl"),
			DataLen: rapid.SampledFrom([]int{0, 0, 1, 4, 17, 255, 256}).Draw(rt, "dlen"),
			Seed:    c15h.Seeds().Draw(rt, "dseed"),
		}
		for i := range sp.L {
			sp.L[i] = rapid.IntRange(0, np-1).Draw(rt, "l")
		}
		return sp
	}), minEntries, maxEntries).Draw(rt, "entries")

	var names [][]vh.Hex
	chain := 0
	var prev []vh.Hex
	bigUsed := false
	for i, sp := range specs {
		n := []vh.Hex{}
		if sp.Nest && i > 0 && c15RefOctets(prev)+1+len(pool[sp.L[0]]) <= 255 {
			n = append(append(n, pool[sp.L[0]]), prev...)
			chain++
			if chain+1 > c.Nested {
				c.Nested = chain + 1
			}
		} else {
			chain = 0
			switch {
			case sp.Shape == 0: // root
			case sp.Shape == 1 && len(names) > 0: // an earlier name again, one label's case flipped
				n = append(n, names[sp.Pre%len(names)]...)
				if len(n) > 0 {
					k := sp.Cut % len(n)
					n[k] = c15FlipCase(n[k])
				}
			default:
				for j := 0; j < sp.Pre; j++ {
					n = append(n, pool[sp.L[j]])
				}
				if len(base) > 0 {
					n = append(n, base[sp.Cut%(len(base)+1):]...)
				}
			}
			if c15RefOctets(n) > 255 {
				n = []vh.Hex{}
			}
		}
		names = append(names, n)
		prev = n
		r := c15RR{Name: n, Type: sp.Type, Class: sp.Class}
		if sp.Sec == 0 {
			c.Q = append(c.Q, r)
			continue
		}
		r.TTL, r.DataLen, r.DataSeed = sp.TTL, sp.DataLen, sp.Seed
		if big > 0 && !bigUsed {
			r.DataLen, bigUsed = big, true
		}
		switch sp.Sec {
		case 1:
			c.An = append(c.An, r)
		case 2:
			c.Ns = append(c.Ns, r)
		default:
			c.Ar = append(c.Ar, r)
		}
	}
	return c
}

func TestVerif_C15_messages(t *testing.T) {
	rec := vh.NewRec("C15", "messages", "section counts of 65535 / 65536 / 65537 entries in each of the four sections (enumerated: 65535 must round-trip, more must be refused with an error) and nested chains of every depth 2-127, each also with its deepest name written a second time (a bare pointer: depth pointers to follow; enumerated), then rapid: messages of 0-40 entries spread over the four sections; names are 0-3 labels from a pool of 1-5 labels in front of a suffix of a common base (shared suffixes => compression pointers), case-flipped copies of earlier names, the root, or nested chains name_k = label+name_(k-1) of up to 40 links; types/classes/TTLs from boundary values; RDATA of 0/1/4/17/255/256 bytes and rarely 16400 (later names sit beyond the 14-bit pointer range), 65535 or 65536 bytes. Oracle: WireFormat returned an error, or MessageFromWireFormat(WireFormat(m)) == m field by field. Non-trivial = at least one compression pointer was emitted (wire size < uncompressed size) or an RDATA beyond 65535; distinct by case")
	defer rec.Flush()
	rec.Require("ok", "compressed", "nested<12", "nested>=12", "nested=127", "nested=127+repeat", "rdlength>65535", "message>16383",
		"question-count=65535", "answer-count=65535", "authority-count=65535", "additional-count=65535", "question-count>65535:rejected", "answer-count>65535:rejected", "authority-count>65535:rejected", "additional-count>65535:rejected")
	if p := vh.ReplayFile(); p != "" {
		var c c15MsgCase
		if _, _, err := vh.LoadReplay(p, &c); err != nil {
			t.Fatal(err)
		}
		c15MsgCheck(t, rec, c)
		return
	}
	// enumerated first: the 16-bit section counts. 65535 entries must be accepted and survive the round
	// trip, 65536 and 65537 must be refused with an error, in each of the four sections (cheap entries:
	// root-name questions / root-name records with empty RDATA)
	ci := 0
	for sec := 0; sec < 4; sec++ {
		for _, n := range []int{65535, 65536, 65537} {
			ci++
			if !vh.Mine(ci) {
				continue
			}
			c := c15MsgCase{ID: uint16(ci), Flags: 0x8400}
			c.Bulk[sec] = n - 1
			one := c15RR{Name: []vh.Hex{{'a'}}, Type: 16, Class: 1, TTL: 60, DataLen: 1} // one ordinary entry among them
			switch sec {
			case 0:
				c.Q = []c15RR{one}
			case 1:
				c.An = []c15RR{one}
			case 2:
				c.Ns = []c15RR{one}
			default:
				c.Ar = []c15RR{one}
			}
			c15MsgCheck(t, rec, c)
		}
	}
	// then: nested chains of every depth a 255-octet name allows (one-byte labels:
	// name_k has k labels and is written as one label plus a pointer to name_(k-1))
	// (not sharded: 126 cheap cases, and every shard then reports the same smallest failing depth)
	for depth := 2; depth <= 127; depth++ {
		c := c15MsgCase{ID: uint16(depth), Flags: 0x8400, Nested: depth}
		var n []vh.Hex
		for k := 0; k < depth; k++ {
			n = append([]vh.Hex{{byte('a' + k%26)}}, n...)
			r := c15RR{Name: append([]vh.Hex{}, n...), Type: 16, Class: 1, TTL: 60, DataLen: 1}
			if k == 0 {
				c.Q = append(c.Q, r)
			} else {
				c.An = append(c.An, r)
			}
		}
		c15MsgCheck(t, rec, c)
		// the same chain with its deepest name written once more (added after a round-8 seed): the
		// repeat is a bare pointer to name_depth, so reading it follows `depth` pointers - one more
		// than any name of the chain itself; depth 127 is the longest chain the encoder can emit
		c2 := c
		c2.ID = uint16(1000 + depth)
		c2.Repeat = true
		c2.Ar = append([]c15RR{}, c15RR{Name: append([]vh.Hex{}, n...), Type: 16, Class: 1, TTL: 60, DataLen: 1})
		c15MsgCheck(t, rec, c2)
	}
	rapid.Check(t, func(rt *rapid.T) { c15MsgCheck(rt, rec, c15MsgGen(rt)) })
}

// ---- TXT chunking -------------------------------------------------------------------------------

type c15TxtCase struct {
	Len  int    `json:"len"`
	Seed uint64 `json:"seed"`
}

func c15TxtCheck(t vh.Fataler, rec *vh.Rec, c c15TxtCase) {
	t.Helper()
	p := c15h.Expand(c.Seed, c.Len)
	orig := append([]byte(nil), p...)
	classes := []string{}
	nontriv := c15h.Near(c.Len, 16, 255, 510, 765, 65535, 65279)
	var enc, dec []byte
	var err error
	if pan, what := c15h.Catch(func() {
		enc = EncodeRDataTXT(p)
		dec, err = DecodeRDataTXT(enc)
	}); pan {
		rec.Case(nontriv, vh.Digest(c), c, "PANIC")
		rec.Violation(t, "dns:txt:panic", c, "EncodeRDataTXT/DecodeRDataTXT panicked for a %d-byte payload: %s", c.Len, what)
		return
	}
	if err != nil || !bytes.Equal(dec, orig) {
		rec.Case(nontriv, vh.Digest(c), c, "MISMATCH")
		rec.Violation(t, "dns:txt:roundtrip", c, "DecodeRDataTXT(EncodeRDataTXT(p)) for a %d-byte p gave err=%v, %s; encoding is %d bytes", c.Len, err, c15h.FirstDiff(orig, dec), len(enc))
		return
	}
	classes = append(classes, "ok")
	for _, b := range []int{0, 255, 256, 510, 511} {
		if c.Len == b {
			classes = append(classes, fmt.Sprintf("ok@%d", b))
		}
	}
	// the encoding as RDATA of a TXT record inside a message: RDLENGTH is 16 bits
	name, _ := NewName([][]byte{[]byte("t"), []byte("example"), []byte("com")})
	m := &Message{ID: 7, Flags: 0x8400, Question: []Question{{Name: name, Type: RRTypeTXT, Class: ClassIN}},
		Answer: []RR{{Name: name, Type: RRTypeTXT, Class: ClassIN, TTL: 60, Data: enc}}}
	var buf []byte
	var m2 Message
	var werr, derr error
	if pan, what := c15h.Catch(func() {
		buf, werr = m.WireFormat()
		if werr == nil {
			m2, derr = MessageFromWireFormat(buf)
		}
	}); pan {
		rec.Case(nontriv, vh.Digest(c), c, append(classes, "PANIC")...)
		rec.Violation(t, "dns:txt:panic", c, "message carrying the TXT encoding of a %d-byte payload panicked: %s", c.Len, what)
		return
	}
	if werr != nil {
		classes = append(classes, "in-rr:rejected")
		if len(enc) <= 65535 {
			classes = append(classes, "in-rr:rejected-within-limit")
		}
		rec.Case(nontriv, vh.Digest(c), c, classes...)
		return
	}
	var back []byte
	var terr error
	if derr == nil && len(m2.Answer) == 1 {
		back, terr = DecodeRDataTXT(m2.Answer[0].Data)
	}
	if derr != nil || len(m2.Answer) != 1 || terr != nil || !bytes.Equal(back, orig) {
		rec.Case(nontriv, vh.Digest(c), c, append(classes, "MISMATCH")...)
		key := "dns:txt:in-rr-roundtrip"
		if len(enc) > 65535 {
			key = "dns:txt:rdlength-overflow"
		}
		rec.Violation(t, key, c, "a %d-byte payload (TXT encoding %d bytes) was accepted by WireFormat but does not come back out of the message: decode err=%v, txt err=%v, %s", c.Len, len(enc), derr, terr, c15h.FirstDiff(orig, back))
		return
	}
	classes = append(classes, "in-rr:ok")
	if len(enc) == 65535 {
		classes = append(classes, "in-rr:ok@65535")
	}
	rec.Case(nontriv, vh.Digest(c), c, classes...)
}

// c15TxtFails is the oracle of c15TxtCheck without any recording (used to minimise).
func c15TxtFails(n int) bool {
	failed := false
	if pan, _ := c15h.Catch(func() {
		p := c15h.Expand(1, n)
		enc := EncodeRDataTXT(p)
		dec, err := DecodeRDataTXT(enc)
		if err != nil || !bytes.Equal(dec, p) {
			failed = true
			return
		}
		m := &Message{Answer: []RR{{Name: Name{}, Type: RRTypeTXT, Class: ClassIN, Data: enc}}}
		buf, werr := m.WireFormat()
		if werr != nil {
			return
		}
		m2, derr := MessageFromWireFormat(buf)
		if derr != nil || len(m2.Answer) != 1 {
			failed = true
			return
		}
		back, terr := DecodeRDataTXT(m2.Answer[0].Data)
		failed = terr != nil || !bytes.Equal(back, p)
	}); pan {
		return true
	}
	return failed
}

var c15TxtRequired = []string{"ok@0", "ok@255", "ok@256", "ok@510", "ok@511", "in-rr:ok", "in-rr:rejected", "in-rr:ok@65535"}

func TestVerif_C15_txt_enum(t *testing.T) {
	rec := vh.NewRec("C15", "txt_enum", "every payload length 0-1100 and 65200-65600 (thorough: every length 0-70000), two fills each, through EncodeRDataTXT -> DecodeRDataTXT and through a TXT record inside a message (RDLENGTH limit 65535 is reached by a 65279-byte payload); non-trivial = length >= 1 within 16 of 255, 510, 765, 65279 or 65535; distinct by (len, fill)")
	defer rec.Flush()
	rec.Require(c15TxtRequired...)
	if p := vh.ReplayFile(); p != "" {
		var c c15TxtCase
		if _, _, err := vh.LoadReplay(p, &c); err != nil {
			t.Fatal(err)
		}
		c15TxtCheck(t, rec, c)
		return
	}
	rec.SetExhaustive(true)
	var lens []int
	if vh.Thorough() {
		for l := 0; l <= 70000; l++ {
			lens = append(lens, l)
		}
	} else {
		for l := 0; l <= 1100; l++ {
			lens = append(lens, l)
		}
		for l := 65200; l <= 65600; l++ {
			lens = append(lens, l)
		}
	}
	soft := &c15h.Soft{T: t}
	for i, l := range lens {
		if !vh.Mine(i) {
			continue
		}
		c15TxtCheck(soft, rec, c15TxtCase{Len: l, Seed: uint64(l) + 2})
		c15TxtCheck(soft, rec, c15TxtCase{Len: l, Seed: 1})
		if soft.Failed {
			t.Fail()
			// report the smallest failing length of this run (same result in every shard)
			m := c15h.ShrinkLen(l, c15TxtFails)
			c15TxtCheck(soft, rec, c15TxtCase{Len: m, Seed: 1})
			break
		}
	}
}

func TestVerif_C15_txt(t *testing.T) {
	rec := vh.NewRec("C15", "txt", "rapid: payload length biased to 0, 254-257, 509-512, 764-767, 65278-65281, 65534-65537 (uniform tail to 70000) x fill (0x00, 0xff - a payload of 0xff bytes looks like length octets -, random stream); same oracle as txt_enum; distinct by case")
	defer rec.Flush()
	rec.Require("ok", "in-rr:ok", "in-rr:rejected")
	if p := vh.ReplayFile(); p != "" {
		var c c15TxtCase
		if _, _, err := vh.LoadReplay(p, &c); err != nil {
			t.Fatal(err)
		}
		c15TxtCheck(t, rec, c)
		return
	}
	rapid.Check(t, func(rt *rapid.T) {
		c15TxtCheck(rt, rec, c15TxtCase{Len: c15h.Lens(70000, 0, 255, 256, 510, 765, 65279, 65280, 65535, 65536).Draw(rt, "len"), Seed: c15h.Seeds().Draw(rt, "seed")})
	})
}

// ---- decoders on arbitrary bytes ---------------------------------------------------------------

type c15BytesCase struct {
	Data vh.Hex `json:"data"`
}

// c15DecMsgCheck: MessageFromWireFormat never panics; a message it accepts can be re-encoded, and
// the re-encoding decodes to the same message (decode -> encode -> decode).
func c15DecMsgCheck(t vh.Fataler, rec *vh.Rec, c c15BytesCase, count bool) {
	t.Helper()
	var m Message
	var err error
	in := append([]byte(nil), c.Data...)
	if pan, what := c15h.Catch(func() { m, err = MessageFromWireFormat(in) }); pan {
		rec.Violation(t, "dns:msg:decode-panic", c, "MessageFromWireFormat panicked on %d arbitrary bytes: %s", len(c.Data), what)
		return
	}
	if err != nil {
		if count {
			rec.Case(len(c.Data) >= 12, vh.Digest([]byte(c.Data)), c, "dec-rejected", "dec-rejected:"+c15ErrClass(err))
		}
		return
	}
	var buf []byte
	var m2 Message
	var werr, derr error
	if pan, what := c15h.Catch(func() {
		buf, werr = m.WireFormat()
		if werr == nil {
			m2, derr = MessageFromWireFormat(buf)
		}
	}); pan {
		rec.Violation(t, "dns:msg:reencode-panic", c, "re-encoding a decoded message panicked: %s", what)
		return
	}
	names := len(m.Question) + len(m.Answer) + len(m.Authority) + len(m.Additional)
	if count {
		rec.Case(names >= 1, vh.Digest([]byte(c.Data)), c, "dec-accepted")
	}
	switch {
	case werr != nil:
		rec.Violation(t, "dns:msg:reencode-error", c, "a message decoded from %d bytes cannot be re-encoded: %v", len(c.Data), werr)
	case derr != nil:
		rec.Violation(t, "dns:msg:decode-error:"+c15ErrClass(derr), c, "a message decoded from %d bytes (%d names) re-encodes to %d bytes that MessageFromWireFormat rejects: %v", len(c.Data), names, len(buf), derr)
	default:
		if d := c15MsgDiff(&m, &m2); d != "" {
			rec.Violation(t, "dns:msg:mismatch:"+d, c, "decode -> encode -> decode changes the message at %s", d)
		}
	}
}

// c15DecTxtCheck: DecodeRDataTXT never panics; what it accepts is the concatenation of the
// character-strings, and survives Encode -> Decode.
func c15DecTxtCheck(t vh.Fataler, rec *vh.Rec, c c15BytesCase, count bool) {
	t.Helper()
	var dec []byte
	var err error
	in := append([]byte(nil), c.Data...)
	if pan, what := c15h.Catch(func() { dec, err = DecodeRDataTXT(in) }); pan {
		rec.Violation(t, "dns:txt:decode-panic", c, "DecodeRDataTXT panicked on %d arbitrary bytes: %s", len(c.Data), what)
		return
	}
	// reference parse
	var ref []byte
	refOK := len(c.Data) > 0
	for p := []byte(c.Data); len(p) > 0; {
		n := int(p[0])
		if len(p)-1 < n {
			refOK = false
			break
		}
		ref = append(ref, p[1:1+n]...)
		p = p[1+n:]
	}
	if count {
		cl := "dec-rejected"
		if err == nil {
			cl = "dec-accepted"
		}
		rec.Case(len(c.Data) >= 1, vh.Digest([]byte(c.Data)), c, cl)
	}
	if err != nil {
		return
	}
	if !refOK || !bytes.Equal(dec, ref) {
		rec.Violation(t, "dns:txt:decode-wrong", c, "DecodeRDataTXT accepted %d bytes and returned %d bytes; the concatenation of the character-strings is %d bytes (well-formed=%v)", len(c.Data), len(dec), len(ref), refOK)
		return
	}
	back, berr := DecodeRDataTXT(EncodeRDataTXT(dec))
	if berr != nil || !bytes.Equal(back, dec) {
		rec.Violation(t, "dns:txt:roundtrip", c, "decoded TXT payload of %d bytes does not survive Encode -> Decode (err=%v)", len(dec), berr)
	}
}

// c15SampleMsgs are valid wire messages used as mutation bases / fuzz seeds.
func c15SampleMsgs() [][]byte {
	mk := func(s string) Name { n, _ := ParseName(s); return n }
	var out [][]byte
	q := &Message{ID: 1, Flags: 0x0100, Question: []Question{{Name: mk("mfrggzdfmy.t.example.com"), Type: RRTypeTXT, Class: ClassIN}},
		Additional: []RR{{Name: Name{}, Type: RRTypeOPT, Class: 4096, Data: []byte{}}}}
	b, _ := q.WireFormat()
	out = append(out, b)
	r := &Message{ID: 1, Flags: 0x8400, Question: q.Question,
		Answer:     []RR{{Name: q.Question[0].Name, Type: RRTypeTXT, Class: ClassIN, TTL: 60, Data: EncodeRDataTXT(c15h.Expand(9, 300))}},
		Additional: q.Additional}
	b, _ = r.WireFormat()
	out = append(out, b)
	// a nested chain of 11 names (10 pointers to follow for the last one)
	ch := &Message{ID: 2, Flags: 0x8000}
	n := Name{[]byte("com")}
	for i := 0; i < 11; i++ {
		ch.Answer = append(ch.Answer, RR{Name: n, Type: 1, Class: 1, Data: []byte{1, 2, 3, 4}})
		n = append(Name{[]byte{byte('a' + i)}}, n...)
	}
	b, _ = ch.WireFormat()
	out = append(out, b)
	// hand-made: pointer to itself, pointer forward, reserved label types, counts without bodies
	out = append(out,
		[]byte{0, 1, 0, 0, 0, 1, 0, 0, 0, 0, 0, 0, 0xc0, 12, 0, 16, 0, 1},
		[]byte{0, 1, 0, 0, 0, 1, 0, 0, 0, 0, 0, 0, 0xc0, 14, 0, 16, 0, 1},
		[]byte{0, 1, 0, 0, 0, 1, 0, 0, 0, 0, 0, 0, 0x40, 'a', 0, 0, 16, 0, 1},
		[]byte{0, 1, 0, 0, 0xff, 0xff, 0xff, 0xff, 0xff, 0xff, 0xff, 0xff},
		[]byte{0, 1, 0, 0, 0, 0, 0, 1, 0, 0, 0, 0, 0, 0, 16, 0, 1, 0, 0, 0, 0, 0xff, 0xff, 1},
	)
	return out
}

func c15Mutate(rt *rapid.T, b []byte) []byte {
	b = append([]byte(nil), b...)
	for i, n := 0, rapid.IntRange(0, 4).Draw(rt, "muts"); i < n && len(b) > 0; i++ {
		at := rapid.IntRange(0, len(b)-1).Draw(rt, "at")
		switch rapid.IntRange(0, 4).Draw(rt, "op") {
		case 0:
			b[at] = rapid.Byte().Draw(rt, "v")
		case 1:
			b[at] = rapid.SampledFrom([]byte{0, 1, 0x3f, 0x40, 0x80, 0xc0, 0xff, 12, 13}).Draw(rt, "sv")
		case 2:
			b = b[:at]
		case 3:
			b = append(b[:at], append([]byte{rapid.Byte().Draw(rt, "ins")}, b[at:]...)...)
		case 4:
			if at+1 < len(b) { // plant a compression pointer
				b[at] = 0xc0 | rapid.Byte().Draw(rt, "hi")&0x3f
				b[at+1] = byte(rapid.IntRange(0, 64).Draw(rt, "lo"))
			}
		}
	}
	return b
}

func TestVerif_C15_dec_dnsmsg(t *testing.T) {
	rec := vh.NewRec("C15", "dec_dnsmsg", "rapid: arbitrary bytes for MessageFromWireFormat: raw strings of 0-120 bytes, and 0-4 mutations (byte set to a random/boundary value, truncation, insertion, planted compression pointer) of valid messages (a requester query, a responder answer with a 300-byte TXT, an 11-deep nested-name chain, hand-made pointer loops / reserved label types / counts without bodies, and freshly generated messages of the `messages` generator). Oracle: no panic; an accepted message re-encodes, and the re-encoding decodes to the same message. Non-trivial = accepted message with >= 1 name, or rejected input of >= 12 bytes; distinct by input")
	defer rec.Flush()
	rec.Require("dec-accepted", "dec-rejected", "dec-rejected:too-many-pointers", "dec-rejected:reserved-label-type", "dec-rejected:eof")
	if p := vh.ReplayFile(); p != "" {
		var c c15BytesCase
		if _, _, err := vh.LoadReplay(p, &c); err != nil {
			t.Fatal(err)
		}
		c15DecMsgCheck(t, rec, c, true)
		return
	}
	samples := c15SampleMsgs()
	rapid.Check(t, func(rt *rapid.T) {
		var data []byte
		switch rapid.IntRange(0, 3).Draw(rt, "src") {
		case 0:
			data = rapid.SliceOfN(rapid.Byte(), 0, 120).Draw(rt, "raw")
		case 1:
			mc := c15MsgGen(rt)
			if m, ok, _ := c15Build(mc); ok && mc.Nested < 11 {
				if b, err := m.WireFormat(); err == nil && len(b) < 3000 {
					data = c15Mutate(rt, b)
				}
			}
		default:
			data = c15Mutate(rt, rapid.SampledFrom(samples).Draw(rt, "sample"))
		}
		c15DecMsgCheck(rt, rec, c15BytesCase{Data: data}, true)
	})
}

func TestVerif_C15_dec_txt(t *testing.T) {
	rec := vh.NewRec("C15", "dec_txt", "rapid: arbitrary bytes for DecodeRDataTXT: raw strings of 0-600 bytes and valid TXT encodings with 0-4 mutations. Oracle: no panic; an accepted input yields the concatenation of its character-strings (reference parser) and that payload survives Encode -> Decode. Non-trivial = non-empty input; distinct by input")
	defer rec.Flush()
	rec.Require("dec-accepted", "dec-rejected")
	if p := vh.ReplayFile(); p != "" {
		var c c15BytesCase
		if _, _, err := vh.LoadReplay(p, &c); err != nil {
			t.Fatal(err)
		}
		c15DecTxtCheck(t, rec, c, true)
		return
	}
	rapid.Check(t, func(rt *rapid.T) {
		var data []byte
		if rapid.Bool().Draw(rt, "raw") {
			data = rapid.SliceOfN(rapid.Byte(), 0, 600).Draw(rt, "data")
		} else {
			data = c15Mutate(rt, EncodeRDataTXT(c15h.Expand(rapid.Uint64().Draw(rt, "seed"), c15h.Lens(800, 0, 255, 510).Draw(rt, "len"))))
		}
		c15DecTxtCheck(rt, rec, c15BytesCase{Data: data}, true)
	})
}

func FuzzVerif_C15_dnsmsg(f *testing.F) {
	rec := vh.NewRec("C15", "dec_dnsmsg", "native fuzzing of MessageFromWireFormat (same oracle as dec_dnsmsg)")
	for _, s := range c15SampleMsgs() {
		f.Add(s)
	}
	f.Add([]byte{})
	f.Fuzz(func(t *testing.T, data []byte) {
		if len(data) > 8192 {
			return
		}
		c15DecMsgCheck(t, rec, c15BytesCase{Data: data}, false)
	})
}

func FuzzVerif_C15_txt(f *testing.F) {
	rec := vh.NewRec("C15", "dec_txt", "native fuzzing of DecodeRDataTXT (same oracle as dec_txt)")
	for _, n := range []int{0, 1, 254, 255, 256, 510, 511} {
		f.Add(EncodeRDataTXT(c15h.Expand(uint64(n)+2, n)))
	}
	f.Add([]byte{})
	f.Add([]byte{5, 1, 2})
	f.Add([]byte{0, 0, 0})
	f.Fuzz(func(t *testing.T, data []byte) {
		c15DecTxtCheck(t, rec, c15BytesCase{Data: data}, false)
	})
}
