package msgformat

// C15 — the DNS registrar's length framing: the request format (one length byte) and the response
// format (two length bytes, big endian) must be inverted exactly by their decoders for every payload
// the encoder accepts; a payload whose length does not fit the prefix must be rejected with an
// error, never silently altered.
//
// Sub-checks: framing_enum (every length in windows around the limits), framing (rapid), dec_framing
// (decoders on arbitrary bytes; the same check function backs the native target
// FuzzVerif_C15_framing).

import (
	"bytes"
	"encoding/binary"
	"fmt"
	"testing"

	"pgregory.net/rapid"
	"verif/harness/c15h"
	"verif/harness/vh"
)

type c15FrameCase struct {
	Dir       string `json:"dir"`  // "request" (1 length byte) | "response" (2 length bytes)
	Len       int    `json:"len"`  // payload length
	Seed      uint64 `json:"seed"` // payload = c15h.Expand(seed, len)
	Trail     int    `json:"trail"`
	TrailSeed uint64 `json:"trail_seed"` // bytes that follow the frame in the decoder's buffer (the requester decodes a zero-padded 4096-byte buffer)
}

func c15FrameFns(dir string) (add, remove func([]byte) ([]byte, error), limit, hdr int) {
	if dir == "request" {
		return AddRequestFormat, RemoveRequestFormat, 255, 1
	}
	return AddResponseFormat, RemoveResponseFormat, 65535, 2
}

func c15FrameCheck(t vh.Fataler, rec *vh.Rec, c c15FrameCase) {
	t.Helper()
	if c.Dir != "request" && c.Dir != "response" {
		t.Fatalf("harness problem: bad dir %q", c.Dir)
	}
	add, remove, limit, _ := c15FrameFns(c.Dir)
	p := c15h.Expand(c.Seed, c.Len)
	orig := append([]byte(nil), p...)
	var framed, out []byte
	var err, derr error
	classes := []string{}
	if c.Len > limit {
		classes = append(classes, c.Dir+":beyond-limit")
	}
	if c.Trail > 0 {
		classes = append(classes, c.Dir+":trailing-bytes")
	}
	nontriv := c15h.Near(c.Len, 16, limit, limit+1)
	if pan, what := c15h.Catch(func() { framed, err = add(p) }); pan {
		rec.Case(nontriv, vh.Digest(c), c, append(classes, c.Dir+":encode-panic")...)
		rec.Violation(t, "msgformat:"+c.Dir+":encode-panic", c, "Add%sFormat panicked on a %d-byte payload: %s", c15Fn(c.Dir), c.Len, what)
		return
	}
	if err != nil {
		// "or encode returned an error": a rejection is always acceptable; that the encoder still
		// accepts everything up to the limit is enforced through the required class <dir>:ok@limit.
		classes = append(classes, c.Dir+":rejected")
		if c.Len <= limit {
			classes = append(classes, c.Dir+":rejected-within-limit")
		}
		rec.Case(nontriv, vh.Digest(c), c, classes...)
		return
	}
	buf := append(append([]byte(nil), framed...), c15h.Expand(c.TrailSeed, c.Trail)...)
	if pan, what := c15h.Catch(func() { out, derr = remove(buf) }); pan {
		rec.Case(nontriv, vh.Digest(c), c, append(classes, c.Dir+":decode-panic")...)
		rec.Violation(t, "msgformat:"+c.Dir+":decode-panic", c, "Remove%sFormat panicked on the framing of a %d-byte payload: %s", c15Fn(c.Dir), c.Len, what)
		return
	}
	if derr == nil && bytes.Equal(out, orig) {
		classes = append(classes, c.Dir+":ok")
		if c.Len == limit {
			classes = append(classes, c.Dir+":ok@limit")
		}
		if c.Len == 0 {
			classes = append(classes, c.Dir+":ok@0")
		}
		rec.Case(nontriv, vh.Digest(c), c, classes...)
		return
	}
	rec.Case(nontriv, vh.Digest(c), c, append(classes, c.Dir+":MISMATCH")...)
	key := "msgformat:" + c.Dir + ":roundtrip"
	if c.Len > limit {
		key = "msgformat:" + c.Dir + ":length-overflow"
	}
	got := fmt.Sprintf("%d bytes (%s)", len(out), c15h.FirstDiff(orig, out))
	if derr != nil {
		got = "error " + derr.Error()
	}
	rec.Violation(t, key, c, "Add%sFormat accepted a %d-byte payload without error (prefix limit %d) but Remove%sFormat gave back %s; frame starts % x",
		c15Fn(c.Dir), c.Len, limit, c15Fn(c.Dir), got, framed[:c15min(4, len(framed))])
}

// c15Fn gives the spelling used in the function names ("Request" / "Response").
func c15Fn(dir string) string {
	if dir == "request" {
		return "Request"
	}
	return "Response"
}

func c15min(a, b int) int {
	if a < b {
		return a
	}
	return b
}

// c15FrameFails is the oracle of c15FrameCheck without any recording (used to minimise).
func c15FrameFails(dir string, n int) bool {
	add, remove, _, _ := c15FrameFns(dir)
	p := c15h.Expand(1, n)
	failed := false
	if pan, _ := c15h.Catch(func() {
		fr, err := add(p)
		if err != nil {
			return
		}
		out, derr := remove(fr)
		failed = derr != nil || !bytes.Equal(out, p)
	}); pan {
		return true
	}
	return failed
}

var c15FrameRequired = []string{"request:ok@limit", "response:ok@limit", "request:ok@0", "response:ok@0", "request:beyond-limit", "response:beyond-limit"}

// Every length in windows around the representation limits (and, in the thorough tier, every length
// from 0 to 70 000 for both formats).
func TestVerif_C15_framing_enum(t *testing.T) {
	rec := vh.NewRec("C15", "framing_enum", "every payload length in the windows 0-600, 65000-66100 and 130800-131400 (thorough: every length 0-70000 and 130800-131400) x {request,response} x two fills x {no trailing bytes, 40 zero bytes}; non-trivial = length >= 1 within 16 of the prefix limit (255 / 65535); distinct by (dir,len,fill,trail)")
	defer rec.Flush()
	rec.Require(c15FrameRequired...)
	if p := vh.ReplayFile(); p != "" {
		var c c15FrameCase
		if _, _, err := vh.LoadReplay(p, &c); err != nil {
			t.Fatal(err)
		}
		c15FrameCheck(t, rec, c)
		return
	}
	rec.SetExhaustive(true)
	var lens []int
	if vh.Thorough() {
		for l := 0; l <= 70000; l++ {
			lens = append(lens, l)
		}
	} else {
		for l := 0; l <= 600; l++ {
			lens = append(lens, l)
		}
		for l := 65000; l <= 66100; l++ {
			lens = append(lens, l)
		}
	}
	for l := 130800; l <= 131400; l++ { // 2*65536 +- : a prefix that wraps twice
		lens = append(lens, l)
	}
	soft := &c15h.Soft{T: t}
	seen := map[string]bool{} // one report per direction is enough: every longer payload fails the same way
	i := 0
	for _, l := range lens {
		for _, dir := range []string{"request", "response"} {
			i++
			if !vh.Mine(i) || seen[dir] {
				continue
			}
			c15FrameCheck(soft, rec, c15FrameCase{Dir: dir, Len: l, Seed: uint64(l) + 2})
			c15FrameCheck(soft, rec, c15FrameCase{Dir: dir, Len: l, Seed: 1, Trail: 40})
			if soft.Failed {
				seen[dir], soft.Failed = true, false
				defer t.Fail()
				// report the smallest failing length of this run (same result in every shard)
				d := dir
				m := c15h.ShrinkLen(l, func(n int) bool { return c15FrameFails(d, n) })
				c15FrameCheck(soft, rec, c15FrameCase{Dir: dir, Len: m, Seed: 1})
			}
		}
	}
}

func c15FrameGen(rt *rapid.T) c15FrameCase {
	c := c15FrameCase{Dir: rapid.SampledFrom([]string{"request", "response"}).Draw(rt, "dir")}
	if c.Dir == "request" {
		c.Len = c15h.Lens(1200, 0, 127, 128, 255, 256, 511, 512).Draw(rt, "len")
	} else {
		c.Len = c15h.Lens(140000, 0, 255, 256, 32767, 32768, 65535, 65536, 131071, 131072).Draw(rt, "len")
	}
	c.Seed = c15h.Seeds().Draw(rt, "seed")
	if rapid.Bool().Draw(rt, "trailing") {
		c.Trail = rapid.IntRange(1, 4096).Draw(rt, "trail")
		c.TrailSeed = c15h.Seeds().Draw(rt, "trailseed")
	}
	return c
}

func TestVerif_C15_framing(t *testing.T) {
	rec := vh.NewRec("C15", "framing", "rapid: direction x payload length (biased to 0, 127/128, 255/256, 511/512, 32767/32768, 65535/65536, 131071/131072, uniform tail) x fill (0x00, 0xff, random stream) x 0-4096 trailing bytes after the frame; non-trivial = length >= 1 within 16 of the prefix limit; distinct by case")
	defer rec.Flush()
	rec.Require(c15FrameRequired...)
	if p := vh.ReplayFile(); p != "" {
		var c c15FrameCase
		if _, _, err := vh.LoadReplay(p, &c); err != nil {
			t.Fatal(err)
		}
		c15FrameCheck(t, rec, c)
		return
	}
	rapid.Check(t, func(rt *rapid.T) { c15FrameCheck(rt, rec, c15FrameGen(rt)) })
}

// ---- decoders on arbitrary bytes ---------------------------------------------------------------

type c15FrameDecCase struct {
	Data vh.Hex `json:"data"`
}

// c15FrameDecCheck: neither decoder panics; when a decoder accepts, its result is exactly the
// bytes the prefix announces, and re-encoding that result reproduces the consumed part of the input
// (decode -> encode direction of the round trip).
func c15FrameDecCheck(t vh.Fataler, rec *vh.Rec, c c15FrameDecCase, count bool) {
	t.Helper()
	classes := []string{}
	for _, dir := range []string{"request", "response"} {
		add, remove, _, hdr := c15FrameFns(dir)
		var out []byte
		var err error
		in := append([]byte(nil), c.Data...)
		if pan, what := c15h.Catch(func() { out, err = remove(in) }); pan {
			rec.Violation(t, "msgformat:"+dir+":decode-panic", c, "Remove%sFormat panicked on %d arbitrary bytes: %s", c15Fn(dir), len(c.Data), what)
			continue
		}
		if err != nil {
			classes = append(classes, dir+":dec-rejected")
			continue
		}
		classes = append(classes, dir+":dec-accepted")
		n := 0
		if len(c.Data) >= hdr {
			if hdr == 1 {
				n = int(c.Data[0])
			} else {
				n = int(binary.BigEndian.Uint16(c.Data[:2]))
			}
		}
		if len(c.Data) < hdr+n || !bytes.Equal(out, c.Data[hdr:hdr+n]) {
			rec.Violation(t, "msgformat:"+dir+":decode-wrong-slice", c, "Remove%sFormat accepted %d bytes whose prefix announces %d and returned %d bytes that are not input[%d:%d]", c15Fn(dir), len(c.Data), n, len(out), hdr, hdr+n)
			continue
		}
		re, rerr := add(out)
		if rerr != nil || !bytes.Equal(re, c.Data[:hdr+n]) {
			rec.Violation(t, "msgformat:"+dir+":reencode", c, "re-encoding the decoded %d-byte payload does not reproduce the consumed frame (err=%v)", len(out), rerr)
		}
	}
	if count {
		rec.Case(len(c.Data) >= 1, vh.Digest([]byte(c.Data)), c, classes...)
	}
}

func c15FrameDecGen(rt *rapid.T) c15FrameDecCase {
	switch rapid.IntRange(0, 3).Draw(rt, "mode") {
	case 0: // raw bytes
		return c15FrameDecCase{Data: rapid.SliceOfN(rapid.Byte(), 0, 80).Draw(rt, "raw")}
	case 1: // a prefix that promises more or less than what follows
		n := rapid.IntRange(0, 700).Draw(rt, "n")
		hdr := rapid.SliceOfN(rapid.Byte(), 0, 2).Draw(rt, "hdr")
		return c15FrameDecCase{Data: append(hdr, c15h.Expand(rapid.Uint64().Draw(rt, "seed"), n)...)}
	default: // a valid frame, cut or extended
		dir := rapid.SampledFrom([]string{"request", "response"}).Draw(rt, "dir")
		add, _, limit, _ := c15FrameFns(dir)
		if limit > 700 {
			limit = 700
		}
		fr, _ := add(c15h.Expand(rapid.Uint64().Draw(rt, "seed"), rapid.IntRange(0, limit).Draw(rt, "len")))
		cut := rapid.IntRange(-3, 3).Draw(rt, "cut")
		if cut < 0 && len(fr)+cut >= 0 {
			fr = fr[:len(fr)+cut]
		} else if cut > 0 {
			fr = append(fr, make([]byte, cut)...)
		}
		return c15FrameDecCase{Data: fr}
	}
}

func TestVerif_C15_dec_framing(t *testing.T) {
	rec := vh.NewRec("C15", "dec_framing", "rapid: arbitrary byte strings (raw; arbitrary 0-2 byte prefix + 0-700 bytes; valid frames cut short or extended by up to 3 bytes) fed to both Remove*Format decoders: no panic, an accepted input yields exactly the announced slice, and re-encoding it reproduces the consumed frame; non-trivial = non-empty input; distinct by input")
	defer rec.Flush()
	rec.Require("request:dec-accepted", "request:dec-rejected", "response:dec-accepted", "response:dec-rejected")
	if p := vh.ReplayFile(); p != "" {
		var c c15FrameDecCase
		if _, _, err := vh.LoadReplay(p, &c); err != nil {
			t.Fatal(err)
		}
		c15FrameDecCheck(t, rec, c, true)
		return
	}
	rapid.Check(t, func(rt *rapid.T) { c15FrameDecCheck(rt, rec, c15FrameDecGen(rt), true) })
}

func FuzzVerif_C15_framing(f *testing.F) {
	rec := vh.NewRec("C15", "dec_framing", "native fuzzing of both Remove*Format decoders (same oracle as dec_framing)")
	for _, s := range [][]byte{{}, {0}, {1}, {0, 0}, {0, 1, 7}, {255}, {0xff, 0xff, 1, 2, 3}, {3, 'a', 'b', 'c'}, {0, 3, 'a', 'b', 'c'}, {3, 'a', 'b'}} {
		f.Add(s)
	}
	for _, n := range []int{254, 255, 256, 300} {
		a, _ := AddRequestFormat(c15h.Expand(uint64(n), n))
		b, _ := AddResponseFormat(c15h.Expand(uint64(n), n))
		f.Add(a)
		f.Add(b)
	}
	f.Fuzz(func(t *testing.T, data []byte) {
		c15FrameDecCheck(t, rec, c15FrameDecCase{Data: data}, false)
	})
}
