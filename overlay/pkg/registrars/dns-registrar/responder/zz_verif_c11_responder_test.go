package responder

// C11 — DNS registration requests: what the responder does with one received UDP datagram.
//
// The per-datagram code of RecvAndRespond is an inline closure inside a goroutine started per
// datagram, so it cannot be called (and a panic in it could not be recovered). c11Handle repeats its
// steps with the Responder's own methods, in the same order and with the same error handling:
// dns.MessageFromWireFormat (a parse error is only logged, the partial message is used) ->
// responseFor -> msgformat.RemoveRequestFormat -> craftResponse (Noise handshake, callback, encrypt)
// -> msgformat.AddResponseFormat -> dnsRespToUDPResp -> size check -> dnsRespToUDPResp with an empty
// answer. The callback stands for DNSRegServer.processRequest (checked by the dnsproc sub-check) and
// answers with 0..3000 bytes or an error.
//
// A second sub-check (msgformat) covers RemoveRequestFormat / RemoveResponseFormat on their own.
//
// Oracle: every step returns, nothing panics, within c11h.BoundCPU.

import (
	"bytes"
	"errors"
	"io"
	"log"
	"testing"

	"github.com/flynn/noise"
	"github.com/refraction-networking/conjure/pkg/registrars/dns-registrar/dns"
	"github.com/refraction-networking/conjure/pkg/registrars/dns-registrar/encryption"
	"github.com/refraction-networking/conjure/pkg/registrars/dns-registrar/msgformat"
	"pgregory.net/rapid"
	"verif/harness/c11h"
	"verif/harness/vh"
)

const (
	c11RespSub = "responder"
	c11FmtSub  = "msgformat"
)

var c11Priv = []byte{0x28, 1, 2, 3, 4, 5, 6, 7, 8, 9, 10, 11, 12, 13, 14, 15, 16, 17, 18, 19, 20, 21, 22, 23, 24, 25, 26, 27, 28, 29, 30, 0x41}

func c11Responder() *Responder {
	cfg := encryption.NewConfig()
	cfg.Initiator = false
	cfg.StaticKeypair = noise.DHKey{Private: c11Priv, Public: encryption.PubkeyFromPrivkey(c11Priv)}
	dom, err := dns.ParseName("t.example.com")
	if err != nil {
		panic(err)
	}
	return &Responder{privkey: c11Priv, domain: dom, noiseConfig: cfg, maxUDPPayload: 1280 - 40 - 8}
}

// c11Handle mirrors the body of the goroutine in RecvAndRespond for one datagram.
func c11Handle(r *Responder, datagram []byte, getResponse func([]byte) ([]byte, error)) (out []byte, stage string) {
	query, err := dns.MessageFromWireFormat(datagram)
	parseErr := err != nil
	resp, payload := r.responseFor(&query, r.domain)
	if resp == nil {
		return nil, "no-response"
	}
	var responseBuf []byte
	stage = "answered-error"
	if payload != nil {
		payload, err = msgformat.RemoveRequestFormat(payload)
		if err != nil {
			return nil, "unframe-rejected"
		}
		responseBuf, err = r.craftResponse(payload, getResponse)
		if err != nil {
			return nil, "handshake-or-callback-rejected"
		}
		responseBuf, err = msgformat.AddResponseFormat(responseBuf)
		if err != nil {
			return nil, "frame-rejected"
		}
		stage = "answered-payload"
	}
	responsePayload, err := r.dnsRespToUDPResp(resp, responseBuf)
	if err != nil {
		return nil, "encode-rejected"
	}
	if len(responsePayload) > r.maxUDPPayload {
		stage = "answered-empty-too-large"
		responsePayload, err = r.dnsRespToUDPResp(resp, []byte{})
		if err != nil {
			return nil, "encode-rejected"
		}
	}
	if parseErr {
		stage += "+after-parse-error"
	}
	return responsePayload, stage
}

type c11RespCase struct {
	Data   vh.Hex `json:"datagram"`
	Answer int    `json:"callback"` // callback: <0 error, otherwise answers with that many bytes
	Kind   string `json:"kind,omitempty"`
}

func c11RespRun(r *Responder, c c11RespCase) (classes []string, nontrivial bool, o c11h.Outcome) {
	called := false
	cb := func(b []byte) ([]byte, error) {
		called = true
		if c.Answer < 0 {
			return nil, errors.New("verif: callback refuses")
		}
		return bytes.Repeat([]byte{0x5a}, c.Answer), nil
	}
	var stage string
	o = c11h.Guard(c11h.BoundCPU, func() { _, stage = c11Handle(r, append([]byte(nil), c.Data...), cb) })
	if o.Hung || o.Inconclusive {
		return []string{"gave-up-waiting"}, true, o
	}
	if o.Panic == nil {
		classes = append(classes, "stage:"+stage)
	}
	if called {
		classes = append(classes, "callback-called")
	}
	if oc := c11OptClass(c.Data); oc != "" {
		classes = append(classes, oc)
		if oc == "edns:options-wellformed" && o.Panic == nil && stage == "answered-payload" {
			classes = append(classes, "edns:options-wellformed+answered-payload")
		}
	}
	return classes, len(c.Data) >= 12, o
}

// c11OptClass says what the RDATA of the OPT record the responder negotiates on (the first one in the
// additional section of whatever the parser returned, if it announces EDNS version 0) looks like
// when read as the RFC 6891 section 6.1.2 sequence of {OPTION-CODE, OPTION-LENGTH, OPTION-DATA}.
// It only labels the input (for rec.Require); it takes no part in the verdict.
func c11OptClass(datagram []byte) (class string) {
	defer func() {
		if recover() != nil {
			class = ""
		}
	}()
	query, _ := dns.MessageFromWireFormat(append([]byte(nil), datagram...))
	if query.Flags&0x8000 != 0 {
		return ""
	}
	for _, rr := range query.Additional {
		if rr.Type != dns.RRTypeOPT {
			continue
		}
		if (rr.TTL>>16)&0xff != 0 {
			return ""
		}
		opts := rr.Data
		if len(opts) == 0 {
			return "edns:no-options"
		}
		for len(opts) > 0 {
			if len(opts) < 4 {
				return "edns:option-header-cut"
			}
			end := 4 + int(opts[2])<<8 + int(opts[3])
			switch {
			case end > len(opts)+4:
				return "edns:option-overruns-by-more"
			case end > len(opts):
				return "edns:option-overruns-by-1..4"
			}
			opts = opts[end:]
		}
		return "edns:options-wellformed"
	}
	return ""
}

func c11RespCheck(t vh.Fataler, rec *vh.Rec, r *Responder, c c11RespCase, fuzz bool) {
	classes, nontrivial, o := c11RespRun(r, c)
	classes = append(classes, c11h.Source(fuzz))
	if c.Kind != "" {
		classes = append(classes, "kind:"+c.Kind)
	}
	c11h.Report(t, rec, c11RespSub, "responder", c, vh.Digest(c), o, nontrivial, classes...)
}

// c11Query builds the datagram a genuine client sends for payload (what requester.sendHandshake and
// DNSPacketConn.send do): Noise handshake message, one-byte length prefix, base32, labels, TXT query
// with an EDNS(0) OPT record.
func c11Query(payload []byte, domain dns.Name, id uint16) ([]byte, error) {
	framed, err := c11Framed(payload)
	if err != nil {
		return nil, err
	}
	return c11QueryRaw(framed, domain, id)
}

func c11Labels(p []byte) [][]byte {
	enc := make([]byte, base32Encoding.EncodedLen(len(p)))
	base32Encoding.Encode(enc, p)
	enc = bytes.ToLower(enc)
	var labels [][]byte
	for len(enc) > 0 {
		n := 63
		if n > len(enc) {
			n = len(enc)
		}
		labels = append(labels, enc[:n])
		enc = enc[n:]
	}
	return labels
}

func c11QueryRaw(framed []byte, domain dns.Name, id uint16) ([]byte, error) {
	return c11QueryOpt(framed, domain, id, 4096, 0, []byte{})
}

// c11QueryOpt is c11QueryRaw with the OPT record's fields chosen by the caller: what a recursive
// resolver between client and registrar (or an attacker) makes of the client's empty OPT record.
func c11QueryOpt(framed []byte, domain dns.Name, id uint16, size uint16, ttl uint32, rdata []byte) ([]byte, error) {
	name, err := dns.NewName(append(c11Labels(framed), domain...))
	if err != nil {
		return nil, err
	}
	q := &dns.Message{ID: id, Flags: 0x0100, Question: []dns.Question{{Name: name, Type: dns.RRTypeTXT, Class: dns.ClassIN}},
		Additional: []dns.RR{{Name: dns.Name{}, Type: dns.RRTypeOPT, Class: size, TTL: ttl, Data: rdata}}}
	return q.WireFormat()
}

// c11Framed is the framed Noise handshake message a genuine client sends for payload.
func c11Framed(payload []byte) ([]byte, error) {
	cfg := encryption.NewConfig()
	cfg.Initiator = true
	cfg.PeerStatic = encryption.PubkeyFromPrivkey(c11Priv)
	hs, err := noise.NewHandshakeState(cfg)
	if err != nil {
		return nil, err
	}
	msg, _, _, err := hs.WriteMessage(nil, payload)
	if err != nil {
		return nil, err
	}
	return msgformat.AddRequestFormat(msg)
}

// c11EDNSEnum enumerates OPT RDATA around every boundary between "the last option fits" and "it does
// not": 0-1 well-formed options in front, then either a last option with p bytes of data present
// and an OPTION-LENGTH of p-1 .. p+6 or 0xffff, or 1-3 bytes of an option header.
func c11EDNSEnum() [][]byte {
	var out [][]byte
	for _, front := range [][]byte{nil, c11h.EDNSOption(10, 8, []byte("verifck1"))} {
		out = append(out, append([]byte(nil), front...))
		for _, code := range []uint16{10, 12} {
			for _, p := range []int{0, 1, 2, 3, 4, 5, 8} {
				data := bytes.Repeat([]byte{0x11}, p)
				for d := p - 1; d <= p+6; d++ {
					if d >= 0 {
						out = append(out, append(append([]byte(nil), front...), c11h.EDNSOption(code, d, data)...))
					}
				}
				out = append(out, append(append([]byte(nil), front...), c11h.EDNSOption(code, 0xffff, data)...))
			}
		}
		for n := 1; n <= 3; n++ {
			out = append(out, append(append([]byte(nil), front...), []byte{0, 10, 0}[:n]...))
		}
	}
	return out
}

const c11RespRule = "the responder's per-datagram path (parse -> responseFor -> unframe -> Noise handshake -> callback -> frame -> TXT answer -> size fallback) on: genuine encrypted queries for payloads of 0-90 bytes (intact, with DNS-level edits, with a corrupted Noise message or length prefix, for a foreign domain, with an OPT record as a resolver or an attacker would rewrite it: drawn payload size and version, RDATA drawn as a sequence of EDNS options whose last one fits, overruns the RDATA by 1..6 bytes or by a lot, or is cut inside its header; the same boundaries enumerated on a genuine query), datagrams assembled from hostile parts as in the dnsmsg sub-check (around a genuine or a garbage payload name), hostile constants; callback answers with 0..3000 bytes or an error; non-trivial = a datagram of at least a DNS header; distinct by case"

func c11RespGen(rt *rapid.T, r *Responder) c11RespCase {
	c := c11RespCase{Answer: rapid.SampledFrom([]int{20, 20, 0, 100, 900, 1100, 1200, 3000, -1}).Draw(rt, "answer")}
	kind := rapid.SampledFrom([]string{"genuine", "genuine", "genuine-mutated", "bad-noise", "bad-frame", "foreign-domain", "parts", "parts", "parts-genuine-name", "genuine-edns", "genuine-edns"}).Draw(rt, "kind")
	c.Kind = kind
	payload := c11h.Bytes(rt, "payload", []int{0, 1, 30, 60, 90})
	id := rapid.Uint16().Draw(rt, "id")
	var err error
	switch kind {
	case "genuine", "genuine-mutated":
		c.Data, err = c11Query(payload, r.domain, id)
		if err == nil && kind == "genuine-mutated" {
			c.Data = c11h.Mutate(rt, "mut", c.Data)
		}
	case "foreign-domain":
		other, _ := dns.ParseName("u.example.com")
		c.Data, err = c11Query(payload, other, id)
	case "genuine-edns":
		var framed []byte
		if framed, err = c11Framed(payload); err == nil {
			size := rapid.SampledFrom([]uint16{4096, 4096, 4096, 1232, 1231, 512, 0, 0xffff}).Draw(rt, "optsize")
			ttl := rapid.SampledFrom([]uint32{0, 0, 0, 0, 0x8000, 0x00010000, 0xff00ffff}).Draw(rt, "optttl")
			c.Data, err = c11QueryOpt(framed, r.domain, id, size, ttl, c11h.EDNSOptions(rt, "opt"))
		}
	case "bad-noise":
		// a well-framed message that is not a valid Noise handshake (too short, or garbage)
		msg := c11h.Bytes(rt, "noise", []int{0, 1, 31, 32, 47, 48, 49, 80})
		framed, _ := msgformat.AddRequestFormat(msg)
		c.Data, err = c11QueryRaw(framed, r.domain, id)
	case "bad-frame":
		// length prefix larger / smaller than what follows, or nothing at all
		body := c11h.Bytes(rt, "body", []int{0, 1, 10, 60})
		framed := append([]byte{rapid.Byte().Draw(rt, "lenprefix")}, body...)
		if rapid.IntRange(0, 4).Draw(rt, "empty") == 4 {
			framed = nil
		}
		c.Data, err = c11QueryRaw(framed, r.domain, id)
	case "parts":
		var pl [][]byte
		if rapid.Bool().Draw(rt, "haspayload") {
			pl = [][]byte{c11h.Bytes(rt, "payloadlabel", []int{1, 20, 63})}
		}
		c.Data = c11h.GenDNSWire(rt, r.domain, pl)
	case "parts-genuine-name":
		cfg := encryption.NewConfig()
		cfg.Initiator = true
		cfg.PeerStatic = encryption.PubkeyFromPrivkey(c11Priv)
		hs, herr := noise.NewHandshakeState(cfg)
		if herr != nil {
			rt.Fatalf("harness problem: %v", herr)
		}
		msg, _, _, herr := hs.WriteMessage(nil, payload)
		if herr != nil {
			rt.Fatalf("harness problem: %v", herr)
		}
		framed, _ := msgformat.AddRequestFormat(msg)
		c.Data = c11h.GenDNSWire(rt, r.domain, c11Labels(framed))
	}
	if err != nil {
		rt.Fatalf("harness problem: building the query: %v", err)
	}
	return c
}

func c11RespSeeds(r *Responder) [][]any {
	var out [][]any
	for i, n := range []int{0, 1, 40, 90} {
		q, err := c11Query(bytes.Repeat([]byte{byte(i + 1)}, n), r.domain, uint16(i))
		if err != nil {
			panic(err)
		}
		out = append(out, []any{q, uint16(20)}, []any{q, uint16(3000)}, []any{q, uint16(0xffff)})
		noOpt := append([]byte{}, q[:len(q)-11]...)
		noOpt[11] = 0 // ARCOUNT = 0: no EDNS
		out = append(out, []any{noOpt, uint16(20)})
	}
	other, _ := dns.ParseName("u.example.com")
	if q, err := c11Query([]byte("hello"), other, 9); err == nil {
		out = append(out, []any{q, uint16(20)})
	}
	if q, err := c11QueryRaw([]byte{200, 1, 2}, r.domain, 10); err == nil { // length prefix beyond the data
		out = append(out, []any{q, uint16(20)})
	}
	if q, err := c11QueryRaw(append([]byte{10}, make([]byte, 10)...), r.domain, 11); err == nil { // too short for Noise
		out = append(out, []any{q, uint16(20)})
	}
	if q, err := c11QueryRaw(nil, r.domain, 12); err == nil { // no payload labels at all
		out = append(out, []any{q, uint16(20)})
	}
	for _, b := range c11h.DNSHostileSeeds() {
		out = append(out, []any{b, uint16(20)})
	}
	// what resolvers attach to the OPT record: cookie, cookie + padding, client subnet; and an option
	// that does not fit
	if framed, err := c11Framed([]byte("hello")); err == nil {
		cookie := c11h.EDNSOption(10, 8, []byte("verifck1"))
		for i, rd := range [][]byte{cookie, append(append([]byte(nil), cookie...), c11h.EDNSOption(12, 40, make([]byte, 40))...),
			c11h.EDNSOption(8, 7, []byte{0, 1, 24, 0, 192, 0, 2}), c11h.EDNSOption(10, 24, []byte("verifck1")), append(append([]byte(nil), cookie...), 0, 12)} {
			if q, err := c11QueryOpt(framed, r.domain, uint16(20+i), 1232, 0, rd); err == nil {
				out = append(out, []any{q, uint16(20)})
			}
		}
	}
	return out
}

func c11Answer(sel uint16) int {
	if sel == 0xffff {
		return -1
	}
	return int(sel % 4000)
}

func TestVerif_C11_responder(t *testing.T) {
	rec := c11h.Rec(c11RespSub, c11RespRule)
	defer rec.Flush()
	log.SetOutput(io.Discard)
	r := c11Responder()
	if p := vh.ReplayFile(); p != "" {
		var c c11RespCase
		if _, _, err := vh.LoadReplay(p, &c); err != nil {
			t.Fatal(err)
		}
		c11RespCheck(t, rec, r, c, false)
		return
	}
	rec.Require("stage:answered-payload", "stage:answered-error", "stage:no-response", "stage:unframe-rejected", "stage:handshake-or-callback-rejected",
		"stage:answered-empty-too-large", "stage:answered-error+after-parse-error", "callback-called", "kind:parts", "kind:genuine-mutated", "kind:genuine-edns",
		"edns:no-options", "edns:options-wellformed", "edns:options-wellformed+answered-payload", "edns:option-overruns-by-1..4", "edns:option-overruns-by-more", "edns:option-header-cut")
	if err := c11h.WriteCorpus("FuzzVerif_C11_responder", c11RespSeeds(r)); err != nil {
		t.Fatalf("harness problem: %v", err)
	}
	if framed, err := c11Framed([]byte("enumerated")); err != nil {
		t.Fatalf("harness problem: %v", err)
	} else {
		for i, rd := range c11EDNSEnum() {
			if !vh.Mine(i) {
				continue
			}
			q, err := c11QueryOpt(framed, r.domain, uint16(i), 4096, 0, rd)
			if err != nil {
				t.Fatalf("harness problem: building the query: %v", err)
			}
			c11RespCheck(t, rec, r, c11RespCase{Data: q, Answer: 20, Kind: "enum-edns"}, false)
		}
	}
	rapid.Check(t, func(rt *rapid.T) { c11RespCheck(rt, rec, r, c11RespGen(rt, r), false) })
}

func FuzzVerif_C11_responder(f *testing.F) {
	rec := c11h.Rec(c11RespSub, c11RespRule)
	defer rec.Flush()
	log.SetOutput(io.Discard)
	r := c11Responder()
	for _, s := range c11RespSeeds(r) {
		f.Add(s...)
	}
	f.Fuzz(func(t *testing.T, data []byte, answer uint16) {
		if len(data) > 4096 {
			return
		}
		c11RespCheck(t, rec, r, c11RespCase{Data: data, Answer: c11Answer(answer)}, true)
	})
}

// ---- msgformat ----------------------------------------------------------------------------------

type c11FmtCase struct {
	Data vh.Hex `json:"data"`
}

func c11FmtCheck(t vh.Fataler, rec *vh.Rec, c c11FmtCase, fuzz bool) {
	var cls []string
	o := c11h.Guard(c11h.BoundCPU, func() {
		if _, err := msgformat.RemoveRequestFormat(append([]byte(nil), c.Data...)); err != nil {
			cls = append(cls, "request:rejected")
		} else {
			cls = append(cls, "request:ok")
		}
		if _, err := msgformat.RemoveResponseFormat(append([]byte(nil), c.Data...)); err != nil {
			cls = append(cls, "response:rejected")
		} else {
			cls = append(cls, "response:ok")
		}
	})
	if o.Hung || o.Inconclusive {
		cls = []string{"gave-up-waiting"}
	}
	c11h.Report(t, rec, c11FmtSub, "msgformat", c, vh.Digest([]byte(c.Data)), o, len(c.Data) > 0, append(cls, c11h.Source(fuzz))...)
}

const c11FmtRule = "msgformat.RemoveRequestFormat / RemoveResponseFormat on byte strings of 0..70000 bytes whose length prefix is below, at and above the real length; non-trivial = non-empty input; distinct by input"

func c11FmtSeeds() [][]any {
	return [][]any{{[]byte{}}, {[]byte{0}}, {[]byte{1}}, {[]byte{0, 0}}, {[]byte{0, 1}}, {[]byte{1, 0}}, {[]byte{0xff}}, {[]byte{0xff, 0xff}},
		{append([]byte{0xff}, make([]byte, 255)...)}, {append([]byte{0xff}, make([]byte, 254)...)}, {append([]byte{0xff, 0xff}, make([]byte, 65535)...)},
		{append([]byte{0xff, 0xff}, make([]byte, 65534)...)}, {append([]byte{0, 5}, []byte("hello")...)}, {append([]byte{5}, []byte("hello")...)}}
}

func TestVerif_C11_msgformat(t *testing.T) {
	rec := c11h.Rec(c11FmtSub, c11FmtRule)
	defer rec.Flush()
	if p := vh.ReplayFile(); p != "" {
		var c c11FmtCase
		if _, _, err := vh.LoadReplay(p, &c); err != nil {
			t.Fatal(err)
		}
		c11FmtCheck(t, rec, c, false)
		return
	}
	rec.Require("request:ok", "request:rejected", "response:ok", "response:rejected")
	if err := c11h.WriteCorpus("FuzzVerif_C11_msgformat", c11FmtSeeds()); err != nil {
		t.Fatalf("harness problem: %v", err)
	}
	rapid.Check(t, func(rt *rapid.T) {
		n := rapid.SampledFrom([]int{0, 1, 2, 3, 10, 254, 255, 256, 257, 300, 65534, 65535, 65536, 65537, 70000}).Draw(rt, "len")
		d := make([]byte, n)
		for i := 0; i < n && i < 2; i++ {
			d[i] = rapid.SampledFrom([]byte{0, 1, 2, 0x7f, 0x80, 0xfe, 0xff, byte(n), byte(n - 1), byte(n - 2), byte(n >> 8)}).Draw(rt, "prefixbyte")
		}
		c11FmtCheck(rt, rec, c11FmtCase{Data: d}, false)
	})
}

func FuzzVerif_C11_msgformat(f *testing.F) {
	rec := c11h.Rec(c11FmtSub, c11FmtRule)
	defer rec.Flush()
	for _, s := range c11FmtSeeds() {
		f.Add(s...)
	}
	f.Fuzz(func(t *testing.T, data []byte) {
		if len(data) > 1<<17 {
			return
		}
		c11FmtCheck(t, rec, c11FmtCase{Data: data}, true)
	})
}
