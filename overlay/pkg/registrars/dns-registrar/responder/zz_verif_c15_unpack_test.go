package responder

// C15 — name packing, responder side: a packet packed into a query name the way the requester does
// (base32 without padding, lower case, labels of at most 63 bytes, base domain appended; the
// requester-side sub-check `query` shows that DNSPacketConn.send produces exactly this) must come
// back out of Responder.responseFor unchanged — for EVERY case spelling of that name, because DNS
// names are case-insensitive and resolvers rewrite the case of query names in transit (0x20
// randomisation). The responder must also recognise its own base domain in any spelling.
//
// Sub-check: unpack.

import (
	"bytes"
	"fmt"
	"strings"
	"testing"

	"github.com/refraction-networking/conjure/pkg/registrars/dns-registrar/dns"
	"pgregory.net/rapid"
	"verif/harness/c15h"
	"verif/harness/vh"
)

type c15UnpackCase struct {
	Domain int    `json:"domain"` // index into c15UnpackDomains
	Len    int    `json:"len"`    // packet length
	Seed   uint64 `json:"seed"`   // packet = c15h.Expand(seed, len)
	QCase  int    `json:"qname_case"`
	QSeed  uint64 `json:"qname_case_seed,omitempty"`
}

// (responder's spelling, spelling used in the query)
var c15UnpackDomains = [][2]string{
	{"t.example.com", "t.example.com"},
	{"t.example.com", "T.Example.COM"},
	{"T.EXAMPLE.COM", "t.example.com"},
	{"a", "a"},
	{"x1.registrar.refraction.network", "x1.registrar.refraction.network"},
	{"reg-7.Conjure_Test.example", "reg-7.conjure_test.EXAMPLE"},
}

func c15PackFits(domain string, n int) bool {
	chars := (n*8 + 4) / 5
	labels := (chars + 62) / 63
	return chars+labels+c15DomainOctets(domain) <= 255
}

// c15Packed builds the wire form of the query that carries p under the base domain (reference packing).
func c15Packed(p []byte, domain string) ([]byte, error) {
	enc := strings.ToLower(base32Encoding.EncodeToString(p))
	var labels [][]byte
	for len(enc) > 0 {
		n := len(enc)
		if n > 63 {
			n = 63
		}
		labels = append(labels, []byte(enc[:n]))
		enc = enc[n:]
	}
	dom, err := dns.ParseName(domain)
	if err != nil {
		return nil, err
	}
	name, err := dns.NewName(append(labels, dom...))
	if err != nil {
		return nil, err
	}
	q := &dns.Message{ID: 0x0c15, Flags: 0x0100, Question: []dns.Question{{Name: name, Type: dns.RRTypeTXT, Class: dns.ClassIN}},
		Additional: []dns.RR{{Name: dns.Name{}, Type: dns.RRTypeOPT, Class: 4096, Data: []byte{}}}}
	return q.WireFormat()
}

func c15UnpackCheck(t vh.Fataler, rec *vh.Rec, c c15UnpackCase) {
	t.Helper()
	if c.Domain < 0 || c.Domain >= len(c15UnpackDomains) || c.QCase < 0 || c.QCase >= len(c15h.CaseKinds) {
		t.Fatalf("harness problem: malformed case")
	}
	d := c15UnpackDomains[c.Domain]
	if !c15PackFits(d[1], c.Len) {
		t.Fatalf("harness problem: %d bytes do not fit under %s", c.Len, d[1])
	}
	p := c15h.Expand(c.Seed, c.Len)
	dom, err := dns.ParseName(d[0])
	if err != nil {
		t.Fatalf("harness problem: %v", err)
	}
	r := &Responder{domain: dom, maxUDPPayload: 1280 - 40 - 8}
	wire, err := c15Packed(p, d[1])
	if err != nil {
		t.Fatalf("harness problem: cannot pack %d bytes under %s: %v", c.Len, d[1], err)
	}
	// what the responder extracts from a query datagram ("" = no payload)
	unpack := func(dg []byte) (payload []byte, rcode uint16, what string) {
		pan, msg := c15h.Catch(func() {
			q, perr := dns.MessageFromWireFormat(dg)
			if perr != nil {
				what = "query does not parse: " + perr.Error()
				return
			}
			resp, pl := r.responseFor(&q, r.domain)
			if resp == nil {
				what = "no response"
				return
			}
			rcode = resp.Rcode()
			if pl == nil {
				what = fmt.Sprintf("no payload, RCODE %d", rcode)
				return
			}
			payload = pl
		})
		if pan {
			what = "PANIC " + msg
		}
		return
	}
	classes := []string{"qcase:" + c15h.CaseKinds[c.QCase], fmt.Sprintf("domain:%d", c.Domain)}
	if d[0] != d[1] {
		classes = append(classes, "domain-spelled-differently")
	}
	nontriv := c.Len >= 1 && c.QCase != 0
	// as sent
	got, _, what := unpack(append([]byte{}, wire...))
	if what != "" || !bytes.Equal(got, p) {
		rec.Case(nontriv, vh.Digest(c), c, append(classes, "MISMATCH")...)
		key := "name-packing:decode"
		if d[0] != d[1] {
			key = "name-packing:domain-case-sensitive"
		}
		rec.Violation(t, key, c, "a %d-byte packet packed (reference packing, as the requester sends it) under %q is not recovered by a responder for %q: %s %s", c.Len, d[1], d[0], what, c15h.FirstDiff(p, got))
		return
	}
	// after a third party rewrote the case of the query name
	dg := append([]byte{}, wire...)
	if !c15h.RecaseQuestion(dg, c15DomainLabels(d[1]), c.QCase, c.QSeed) {
		t.Fatalf("harness problem: cannot rewrite the query name")
	}
	got, _, what = unpack(dg)
	if what != "" || !bytes.Equal(got, p) {
		rec.Case(nontriv, vh.Digest(c), c, append(classes, "CASE-SENSITIVE")...)
		q, _ := dns.MessageFromWireFormat(dg)
		qn := ""
		if len(q.Question) == 1 {
			qn = q.Question[0].Name.String()
		}
		key := "name-packing:case-sensitive"
		if c.QCase == 4 {
			key = "name-packing:domain-case-sensitive"
		}
		rec.Violation(t, key, c, "a %d-byte packet under %q is recovered from the query name as sent, but not after the case of the name was rewritten in transit (%s: %s): %s %s", c.Len, d[1], c15h.CaseKinds[c.QCase], qn, what, c15h.FirstDiff(p, got))
		return
	}
	classes = append(classes, "ok")
	if bytes.Equal(dg, wire) {
		classes = append(classes, "rewrite-changed-nothing")
	} else {
		classes = append(classes, "rewritten")
	}
	rec.Case(nontriv, vh.Digest(c), c, classes...)
}

func TestVerif_C15_unpack(t *testing.T) {
	rec := vh.NewRec("C15", "unpack", "rapid: packet of 0..capacity bytes (biased to the capacity of the base domain) packed by the reference packing (= what DNSPacketConn.send produces) under 6 (responder spelling, query spelling) pairs of base domains, fed to Responder.responseFor as sent and after the letter case of the query name was rewritten (all upper, all lower, random per letter, only the base domain, only the data labels). Oracle: the payload comes back unchanged with RCODE 0 in every spelling. Non-trivial = non-empty packet with a rewritten name; distinct by case")
	defer rec.Flush()
	rec.Require("ok", "rewritten", "domain-spelled-differently", "qcase:upper", "qcase:lower", "qcase:0x20", "qcase:domain-only", "qcase:data-only")
	if p := vh.ReplayFile(); p != "" {
		var c c15UnpackCase
		if _, _, err := vh.LoadReplay(p, &c); err != nil {
			t.Fatal(err)
		}
		c15UnpackCheck(t, rec, c)
		return
	}
	rapid.Check(t, func(rt *rapid.T) {
		c := c15UnpackCase{Domain: rapid.IntRange(0, len(c15UnpackDomains)-1).Draw(rt, "domain")}
		capN := 0
		for n := 0; n < 300 && c15PackFits(c15UnpackDomains[c.Domain][1], n); n++ {
			capN = n
		}
		c.Len = rapid.OneOf(rapid.IntRange(0, capN), rapid.IntRange(0, capN), rapid.SampledFrom([]int{0, 1, 5, 39, 40, capN - 1, capN})).Draw(rt, "len")
		c.Seed = c15h.Seeds().Draw(rt, "seed")
		c.QCase = rapid.IntRange(0, len(c15h.CaseKinds)-1).Draw(rt, "qcase")
		c.QSeed = rapid.Uint64Range(2, 1<<40).Draw(rt, "qseed")
		c15UnpackCheck(rt, rec, c)
	})
}
