package responder

// C15 — the encrypted request/response exchange under concurrent traffic: k real Requesters (2-8)
// send one request each to one real Responder, and all k queries are sitting in the responder's
// socket buffer before its read loop is allowed to go on (the tap keeps the loop stalled with the
// first datagram in its hands), so the loop finds them back to back. Every requester must get
// exactly the answer computed from ITS payload, and the callback must have seen exactly the multiset
// of payloads that were sent. In half of the cases the drain additionally runs on a single P, which
// makes "the read loop reads the next datagram before the previous query's goroutine ran" certain
// instead of likely.
//
// Sub-check: exchange_concurrent. Observation points, quiescence rule and inconclusive handling are
// those of the exchange sub-check (zz_verif_c15_exchange_test.go).

import (
	"bytes"
	"crypto/sha256"
	"fmt"
	"log"
	"runtime"
	"sort"
	"strings"
	"testing"
	"time"

	"pgregory.net/rapid"
	"verif/harness/c15h"
	"verif/harness/vh"
)

type c15BurstCase struct {
	Lens  []int    `json:"lens"`                 // one requester per entry: payload length (>= 1; the first byte is the requester's index)
	Seeds []uint64 `json:"seeds"`                // payload i = byte(i) ++ c15h.Expand(seed_i, len_i-1)
	OneP  bool     `json:"one_p"`                // drain the queued queries with GOMAXPROCS(1)
	QCase int      `json:"qname_case,omitempty"` // case rewriting of every query name in transit (c15h.CaseKinds)
	QSeed uint64   `json:"qname_case_seed,omitempty"`
}

const c15BurstDomain = "t.example.com"

func c15BurstPayload(i, n int, seed uint64) []byte {
	if n < 1 {
		n = 1
	}
	return append([]byte{byte(i)}, c15h.Expand(seed, n-1)...)
}

// c15BurstAnswer is the responder callback of this sub-check: a response that is a function of the
// request only (8-187 bytes derived from its SHA-256).
func c15BurstAnswer(req []byte) []byte {
	h := sha256.Sum256(req)
	n := 8 + int(h[0])%180
	out := make([]byte, 0, n+32)
	for len(out) < n {
		out = append(out, h[:]...)
	}
	return out[:n]
}

type c15Burst struct {
	s       *c15Server
	clients []*c15Client
	made    int
}

var c15TheBurst c15Burst

func (b *c15Burst) server() (*c15Server, error) {
	if b.s != nil && !b.s.tainted {
		return b.s, nil
	}
	if b.made >= 8 {
		return nil, nil // give up replacing timed-out servers; remaining cases are skipped
	}
	for _, cl := range b.clients {
		if cl != nil {
			cl.shut()
		}
	}
	b.clients = make([]*c15Client, 8)
	b.made++
	s, err := c15NewServer(c15BurstDomain, c15BurstDomain, uint64(100+b.made))
	if err != nil {
		return nil, err
	}
	s.answer = c15BurstAnswer
	b.s = s
	return s, nil
}

func c15Requesters(payloads [][]byte) string {
	var ix []int
	for _, p := range payloads {
		if len(p) > 0 {
			ix = append(ix, int(p[0]))
		} else {
			ix = append(ix, -1)
		}
	}
	sort.Ints(ix)
	return fmt.Sprint(ix)
}

func c15BurstCheck(t vh.Fataler, rec *vh.Rec, e *c15Env, c c15BurstCase) {
	t.Helper()
	k := len(c.Lens)
	if k < 1 || k > 8 || len(c.Seeds) != k {
		t.Fatalf("harness problem: malformed case")
	}
	b := &c15TheBurst
	s, err := b.server()
	if err != nil {
		t.Fatalf("harness problem: %v", err)
	}
	if s == nil {
		rec.Case(false, vh.Digest(c), nil, "skipped:servers-tainted-by-timeouts")
		return
	}
	payloads := make([][]byte, k)
	cls := make([]*c15Client, k)
	wrote0 := make([]int, k)
	for i := range payloads {
		payloads[i] = c15BurstPayload(i, c.Lens[i], c.Seeds[i])
		if !c15ReqFits(c15BurstDomain, len(payloads[i])) {
			t.Fatalf("harness problem: payload %d (%d bytes) is beyond the capacity of %s", i, len(payloads[i]), c15BurstDomain)
		}
		if b.clients[i] == nil {
			if b.clients[i], err = c15NewClient(s); err != nil {
				t.Fatalf("harness problem: cannot create requester: %v", err)
			}
		}
		cls[i] = b.clients[i]
		if sock := cls[i].socket(); sock != nil {
			wrote0[i] = int(sock.wrote.Load())
		}
	}
	s.mu.Lock()
	s.calls, s.retErr = nil, false
	s.mu.Unlock()
	s.tap.reset()
	if c.QCase < 0 || c.QCase >= len(c15h.CaseKinds) {
		t.Fatalf("harness problem: bad qname_case %d", c.QCase)
	}
	s.tap.setRecase(c15DomainLabels(c15BurstDomain), c.QCase, c.QSeed)
	e.logs.reset()

	type result struct {
		b    []byte
		err  error
		done bool
	}
	type msg struct {
		i int
		r result
	}
	results := make([]result, k)
	ch := make(chan msg, k)
	s.tap.setHold(true)
	for i := range cls {
		cls[i].used = true
		go func(i int) {
			out, err := cls[i].req.RequestAndRecv(append([]byte{}, payloads[i]...))
			ch <- msg{i, result{append([]byte{}, out...), err, true}}
		}(i)
	}
	timer := time.NewTimer(c15XchgTimeout)
	defer timer.Stop()
	timedOut := false
	nDone := 0
	take := func(m msg) { results[m.i] = m.r; nDone++ }
	wroteAll := func() bool {
		for i, cl := range cls {
			if results[i].done {
				continue
			}
			sock := cl.socket()
			if sock == nil || int(sock.wrote.Load())-wrote0[i] < 1 {
				return false
			}
		}
		return true
	}
	// 1. every query is in the responder's socket buffer (or already in the stalled read loop's hands)
	for !wroteAll() && !timedOut {
		select {
		case m := <-ch:
			take(m)
		case <-c15Sig:
		case <-timer.C:
			timedOut = true
		}
	}
	// 2. let the read loop go on; it finds the queued queries back to back
	restore := func() {}
	if c.OneP && !timedOut {
		prev := runtime.GOMAXPROCS(1)
		restore = func() { runtime.GOMAXPROCS(prev); restore = func() {} }
	}
	defer func() { restore() }()
	s.tap.setHold(false)
	addrs := map[string]int{}
	local := make([]string, k)
	for i, cl := range cls {
		if sock := cl.socket(); sock != nil {
			local[i] = sock.LocalAddr().String()
			addrs[local[i]] = i
		}
	}
	type obs struct {
		arrived, strays, sentTotal, noResponse int
		sent                                   []int
		lines                                  []string
	}
	observe := func() obs {
		o := obs{sent: make([]int, k)}
		in, out, _ := s.tap.snapshot()
		for _, a := range in {
			if _, ok := addrs[a]; ok {
				o.arrived++
			} else {
				o.strays++
			}
		}
		for _, a := range out {
			if i, ok := addrs[a]; ok {
				o.sent[i]++
				o.sentTotal++
			}
		}
		o.lines = e.logs.snapshot()
		for _, l := range o.lines {
			if c15Has([]string{l}, c15DecodeFailLogs...) != "" {
				o.noResponse++
			}
		}
		return o
	}
	// 3. wait until nothing is in flight: every query that was written has arrived and has been
	// answered or given up on (logged), and every requester that was sent an answer has returned
	var o obs
	for !timedOut {
		o = observe()
		if o.arrived >= k || nDone == k {
			restore() // all queued queries have been read: back to the normal number of Ps
		}
		if nDone == k {
			break
		}
		if o.arrived >= k && o.sentTotal+o.noResponse >= o.arrived {
			waiting := false
			for i := range cls {
				if !results[i].done && o.sent[i] >= 1 {
					waiting = true // its answer is on the way
				}
			}
			if !waiting {
				break
			}
		}
		select {
		case m := <-ch:
			take(m)
		case <-c15Sig:
		case <-timer.C:
			timedOut = true
		}
	}
	restore()
	s.tap.setHold(false)
	// requesters that will never get an answer are closed (RequestAndRecv blocks for ever); requesters
	// whose exchange failed are not reused
	hung := make([]bool, k)
	for i, cl := range cls {
		if !results[i].done {
			hung[i] = true
			cl.shut()
			b.clients[i] = nil
		}
	}
	for nDone < k {
		select {
		case m := <-ch:
			take(m)
		case <-time.After(c15XchgTimeout):
			t.Fatalf("harness problem: RequestAndRecv did not return after Close")
		}
	}
	for i, cl := range cls {
		if !hung[i] && results[i].err != nil {
			cl.shut()
			b.clients[i] = nil
		}
	}
	if timedOut {
		s.tainted = true
	}
	o = observe()
	s.mu.Lock()
	calls := append([][]byte(nil), s.calls...)
	s.mu.Unlock()

	sameLen := true
	for _, l := range c.Lens {
		if l != c.Lens[0] {
			sameLen = false
		}
	}
	classes := []string{fmt.Sprintf("k=%d", k)}
	if sameLen && k > 1 {
		classes = append(classes, "same-length")
	}
	if c.OneP {
		classes = append(classes, "one-p")
	}
	classes = append(classes, "qcase:"+c15h.CaseKinds[c.QCase])
	var per []string
	okAll := true
	for i := range cls {
		st := "ok"
		switch {
		case hung[i]:
			st, okAll = "no-answer", false
		case results[i].err != nil:
			st, okAll = "err="+results[i].err.Error(), false
		}
		per = append(per, fmt.Sprintf("#%d(%dB):%s,sent-back=%d", i, len(payloads[i]), st, o.sent[i]))
	}
	summary := fmt.Sprintf("{query-name case in transit: "+c15h.CaseKinds[c.QCase]+"; %d requesters %v; one-P drain=%v; responder read %d of their queries (+%d foreign), wrote %d answers; callback saw requesters %s of %s; timeout=%v; log=%q}",
		k, per, c.OneP, o.arrived, o.strays, o.sentTotal, c15Requesters(calls), c15Requesters(payloads), timedOut, o.lines)
	finish := func(outcome string) {
		rec.Case(outcome == "ok-all" && k >= 2, vh.Digest(c), c, append(classes, outcome)...)
	}
	if o.strays > 0 {
		finish("inconclusive:stray-datagram")
		rec.Note("inconclusive (stray-datagram): %s", summary)
		return
	}
	if timedOut {
		finish("inconclusive:timeout")
		rec.Note("inconclusive (timeout): %s", summary)
		return
	}
	// a. nobody gets a wrong answer
	for i := range cls {
		if results[i].done && !hung[i] && results[i].err == nil && !bytes.Equal(results[i].b, c15BurstAnswer(payloads[i])) {
			finish("WRONG-ANSWER")
			rec.Violation(t, "exchange:concurrent:wrong-answer", c, "requester #%d got %d bytes without error that are not the answer computed from its own payload %s", i, len(results[i].b), summary)
			return
		}
	}
	// b. the callback saw exactly the payloads that were sent (all of them arrived)
	want := make([]string, k)
	got := make([]string, len(calls))
	for i := range payloads {
		want[i] = string(payloads[i])
	}
	for i := range calls {
		got[i] = string(calls[i])
	}
	sort.Strings(want)
	sort.Strings(got)
	if o.arrived == k && strings.Join(want, "\x00|") != strings.Join(got, "\x00|") {
		finish("CALLBACK-PAYLOADS")
		rec.Violation(t, "exchange:concurrent:callback-payloads", c, "all %d queries reached the responder, but its callback did not receive exactly the %d payloads that were sent %s", k, k, summary)
		return
	}
	// c. every requester whose answer was sent without a logged rejection gets it
	for i := range cls {
		if !hung[i] && results[i].err != nil && o.sent[i] >= 1 && c15Has(o.lines, c15ResponseRejectLogs...) == "" {
			finish("RESPONSE-LOST")
			rec.Violation(t, "exchange:concurrent:response-lost", c, "requester #%d was sent an answer (no rejection logged) but RequestAndRecv failed: %v %s", i, results[i].err, summary)
			return
		}
	}
	// d. a query that arrived is not dropped
	for i := range cls {
		if hung[i] && o.arrived == k {
			finish("REQUEST-LOST")
			rec.Violation(t, "exchange:concurrent:request-lost", c, "requester #%d's query reached the responder (within capacity) but was never answered %s", i, summary)
			return
		}
	}
	if !okAll {
		finish("inconclusive:unexplained")
		rec.Note("inconclusive (unexplained): %s", summary)
		return
	}
	finish("ok-all")
}

func c15BurstGen(rt *rapid.T) c15BurstCase {
	k := rapid.SampledFrom([]int{2, 2, 3, 4, 5, 8}).Draw(rt, "k")
	capN := c15ReqCapacity(c15BurstDomain)
	c := c15BurstCase{OneP: rapid.Bool().Draw(rt, "one_p")}
	same := rapid.Bool().Draw(rt, "same_length")
	first := rapid.IntRange(1, capN).Draw(rt, "len0")
	for i := 0; i < k; i++ {
		l := first
		if !same && i > 0 {
			l = rapid.OneOf(rapid.IntRange(1, capN), rapid.SampledFrom([]int{1, 2, capN - 1, capN})).Draw(rt, "len")
		}
		c.Lens = append(c.Lens, l)
		c.Seeds = append(c.Seeds, rapid.Uint64Range(2, 1<<62).Draw(rt, "seed"))
	}
	c.QCase = rapid.SampledFrom([]int{0, 0, 0, 1, 3, 4, 5}).Draw(rt, "qcase")
	if c.QCase != 0 {
		c.QSeed = rapid.Uint64Range(2, 1<<40).Draw(rt, "qseed")
	}
	return c
}

func TestVerif_C15_exchange_concurrent(t *testing.T) {
	rec := vh.NewRec("C15", "exchange_concurrent", "rapid: 2-8 real Requesters (UDP) send one request each (payloads of 1-98 bytes, all of one length in half of the cases, first byte = requester index so that all differ) to one real Responder under t.example.com whose read loop is stalled by the harness until every query has been written to its socket, then released (in half of the cases with GOMAXPROCS(1) until all queued queries have been read) so that it reads them back to back; the callback answers with a function of the request. Oracle: nobody receives a wrong answer; once all queries arrived the callback has seen exactly the multiset of payloads sent; a requester that was sent an answer (no rejection logged) gets it; a query that arrived is answered. Foreign datagrams or a time-out make the case inconclusive. Non-trivial = all of >= 2 requesters answered correctly; distinct by case")
	defer rec.Flush()
	rec.Require("ok-all", "one-p", "same-length", "k=2", "k=8", "qcase:as-sent", "qcase:0x20")
	e, err := c15GetEnv()
	if err != nil {
		t.Fatalf("harness problem: %v", err)
	}
	log.SetFlags(0)
	log.SetOutput(e.logs)
	defer func() {
		for i, cl := range c15TheBurst.clients {
			if cl != nil {
				cl.shut()
				c15TheBurst.clients[i] = nil
			}
		}
	}()
	if p := vh.ReplayFile(); p != "" {
		var c c15BurstCase
		if _, _, err := vh.LoadReplay(p, &c); err != nil {
			t.Fatal(err)
		}
		for i := 0; i < 16; i++ { // the schedule is not part of the case: repeat
			c15BurstCheck(t, rec, e, c)
		}
		return
	}
	rapid.Check(t, func(rt *rapid.T) { c15BurstCheck(rt, rec, e, c15BurstGen(rt)) })
}
