package responder

// C15 — the encrypted request/response exchange: a real requester.Requester talks to a real
// Responder over a loopback UDP socket. What the responder's callback receives must be the
// requester's payload, and what RequestAndRecv returns must be what the callback returned, for every
// payload both directions accept. Beyond the capacity implied by the base domain (request) or by the
// 1232-byte UDP limit (response) the exchange may fail, but the callback must never see an altered
// payload and the requester must never return altered bytes.
//
// Errors of the two background loops are only visible in the std log, so the harness captures the
// log: a logged rejection is the exchange's way of "returning an error". An exchange that produces
// neither an answer nor a logged rejection within the (generous) time-out is inconclusive
// (no_answer_unexplained) — never a violation and never counted as a pass.
//
// Sub-checks: exchange (rapid, one exchange at a time), exchange_concurrent (several requesters whose
// queries reach the responder back to back; zz_verif_c15_concurrent_test.go), dec_responder (the responder's datagram path on arbitrary bytes;
// backs FuzzVerif_C15_responder).

import (
	"bytes"
	"context"
	"fmt"
	"io"
	"log"
	"net"
	"os"
	"strings"
	"sync"
	"sync/atomic"
	"testing"
	"time"

	"github.com/flynn/noise"
	"github.com/refraction-networking/conjure/pkg/registrars/dns-registrar/dns"
	"github.com/refraction-networking/conjure/pkg/registrars/dns-registrar/encryption"
	"github.com/refraction-networking/conjure/pkg/registrars/dns-registrar/msgformat"
	"github.com/refraction-networking/conjure/pkg/registrars/dns-registrar/requester"
	"pgregory.net/rapid"
	"verif/harness/c15h"
	"verif/harness/vh"
)

// ---- observation points ---------------------------------------------------------------------------
//
// Nothing in the oracle is inferred from timing. The harness observes ground truth at four points and
// is woken through c15Sig whenever one of them changes:
//   * the std log (errors of the requester's send loop and of the responder's per-datagram goroutine),
//   * the requester's UDP socket (c15Conn: how many datagrams it put on the wire, its local address),
//   * the responder's UDP socket (c15Tap: source of every datagram read, destination of every
//     datagram written),
//   * the responder's callback (arguments, in order).
// A case ends only when nothing of it can still be in flight (see c15XchgCheck), so that no late
// effect of one case is ever attributed to the next one.

var c15Sig = make(chan struct{}, 1)

func c15Poke() {
	select {
	case c15Sig <- struct{}{}:
	default:
	}
}

type c15Log struct {
	mu    sync.Mutex
	lines []string
}

func (l *c15Log) Write(b []byte) (int, error) {
	s := strings.TrimSpace(string(b))
	l.mu.Lock()
	l.lines = append(l.lines, s)
	l.mu.Unlock()
	c15Poke()
	return len(b), nil
}

func (l *c15Log) reset() {
	l.mu.Lock()
	l.lines = nil
	l.mu.Unlock()
}

func (l *c15Log) snapshot() []string {
	l.mu.Lock()
	defer l.mu.Unlock()
	return append([]string(nil), l.lines...)
}

func c15Has(lines []string, prefixes ...string) string {
	for _, s := range lines {
		for _, p := range prefixes {
			if strings.HasPrefix(s, p) {
				return s
			}
		}
	}
	return ""
}

const c15RefuseText = "c15: callback refuses"

// responder log lines after which no datagram is sent back for the query being handled
var c15DecodeFailLogs = []string{"RemoveFormat err", "craftResponse err", "AddFormat err", "dnsRespToUDPResp err"}

// responder log lines that show a query was received but refused / not decoded
var c15RequestDecodeLogs = []string{"RemoveFormat err", "craftResponse err", "NXDOMAIN", "FORMERR", "NOTIMPL", "BADVERS", "cannot parse DNS query"}

// responder log lines by which it rejects a response it cannot carry
var c15ResponseRejectLogs = []string{"ERR: Response UDP payload length", "AddFormat err", "dnsRespToUDPResp err", "resp WireFormat"}

// c15Tap wraps the responder's socket.
type c15Tap struct {
	net.PacketConn
	mu     sync.Mutex
	in     []string     // source address of every datagram read
	out    []string     // destination address of every datagram written
	recase func([]byte) // applied to every datagram read, before the responder sees it (see setRecase)
	hold   bool         // while set, a datagram that was read is not handed to the responder yet (see setHold)
	held   int          // datagrams currently kept back
	gate   *sync.Cond
}

func (t *c15Tap) ReadFrom(p []byte) (int, net.Addr, error) {
	n, a, err := t.PacketConn.ReadFrom(p)
	if err == nil {
		t.mu.Lock()
		t.in = append(t.in, a.String())
		if t.recase != nil {
			t.recase(p[:n]) // a third party between requester and responder rewrote the case of the query name
		}
		if t.hold && t.gate != nil {
			t.held++
			c15Poke()
			for t.hold {
				t.gate.Wait()
			}
			t.held--
		}
		t.mu.Unlock()
		c15Poke()
	}
	return n, a, err
}

// setHold(true) makes the responder's read loop stall with the next datagram in its hands, so that
// everything sent meanwhile queues up in the socket buffer; setHold(false) lets it run again: the
// read loop then finds all queued datagrams immediately, back to back.
func (t *c15Tap) setHold(h bool) {
	t.mu.Lock()
	if t.gate == nil {
		t.gate = sync.NewCond(&t.mu)
	}
	t.hold = h
	t.mu.Unlock()
	t.gate.Broadcast()
}

// setRecase makes the tap act as a relay that rewrites the letter case of the query name (DNS names
// are case-insensitive; recursive resolvers with 0x20 randomisation do this): kind as in c15h.Recase.
func (t *c15Tap) setRecase(nDomain, kind int, seed uint64) {
	t.mu.Lock()
	defer t.mu.Unlock()
	if kind == 0 {
		t.recase = nil
		return
	}
	t.recase = func(p []byte) { c15h.RecaseQuestion(p, nDomain, kind, seed) }
}

func c15DomainLabels(domain string) int {
	n := 0
	for _, l := range strings.Split(strings.TrimSuffix(domain, "."), ".") {
		if l != "" {
			n++
		}
	}
	return n
}

func (t *c15Tap) snapshot() (in, out []string, held int) {
	t.mu.Lock()
	defer t.mu.Unlock()
	return append([]string(nil), t.in...), append([]string(nil), t.out...), t.held
}

func (t *c15Tap) WriteTo(p []byte, a net.Addr) (int, error) {
	// recorded before the datagram leaves, so that the record can never trail the effects of the
	// datagram (the requester returning, the case ending, the next case starting)
	t.mu.Lock()
	t.out = append(t.out, a.String())
	t.mu.Unlock()
	c15Poke()
	return t.PacketConn.WriteTo(p, a)
}

func (t *c15Tap) reset() {
	t.mu.Lock()
	t.in, t.out = nil, nil
	t.mu.Unlock()
}

// count returns how many datagrams came from / went to addr, and how many came from elsewhere.
func (t *c15Tap) count(addr string) (from, to, strays int) {
	t.mu.Lock()
	defer t.mu.Unlock()
	for _, a := range t.in {
		if addr != "" && a == addr {
			from++
		} else {
			strays++
		}
	}
	for _, a := range t.out {
		if addr != "" && a == addr {
			to++
		}
	}
	return
}

// ---- fixtures -----------------------------------------------------------------------------------

type c15Server struct {
	domain    string // what the responder is configured with
	reqDomain string // what the requester is configured with (may differ in case / trailing dot)
	r         *Responder
	tap       *c15Tap
	addr      string
	pub       []byte
	tainted   bool // an exchange on this server timed out: something of it may still be in flight, so it is not used again

	mu     sync.Mutex
	calls  [][]byte
	ret    []byte
	retErr bool
	answer func([]byte) []byte // if set, the response is computed from the request (concurrent sub-check)
}

func (s *c15Server) callback(b []byte) ([]byte, error) {
	s.mu.Lock()
	defer s.mu.Unlock()
	defer c15Poke()
	s.calls = append(s.calls, append([]byte{}, b...))
	if s.retErr {
		return nil, fmt.Errorf(c15RefuseText)
	}
	if s.answer != nil {
		return s.answer(b), nil
	}
	return append([]byte{}, s.ret...), nil
}

// c15Conn wraps the requester's (connected) UDP socket: it counts the datagrams written, and lets
// the harness end the requester's receive loop: after Close, Read fails with io.EOF (not a
// net.Error), on which recvLoop returns.
type c15Conn struct {
	net.Conn
	closed atomic.Bool
	writes atomic.Int32 // Write calls begun
	wrote  atomic.Int32 // Write calls whose datagram has been handed to the kernel
}

func (c *c15Conn) Read(b []byte) (int, error) {
	n, err := c.Conn.Read(b)
	if err != nil && c.closed.Load() {
		return 0, io.EOF
	}
	return n, err
}

func (c *c15Conn) Write(b []byte) (int, error) {
	c.writes.Add(1) // counted before the datagram leaves (see c15Tap.WriteTo)
	c15Poke()
	n, err := c.Conn.Write(b)
	c.wrote.Add(1)
	c15Poke()
	return n, err
}

func (c *c15Conn) Close() error {
	c.closed.Store(true)
	return c.Conn.Close()
}

type c15Client struct {
	req  *requester.Requester
	used bool
	mu   sync.Mutex
	conn *c15Conn // set when the requester dials (inside its first RequestAndRecv)
}

func (cl *c15Client) socket() *c15Conn {
	cl.mu.Lock()
	defer cl.mu.Unlock()
	return cl.conn
}

type c15Env struct {
	logs    *c15Log
	servers []*c15Server
	clients []*c15Client // one per server, recreated after an unanswered exchange
}

func c15LongDomain(octets int) string {
	var labels []string
	left := octets - 1
	for left >= 2 {
		n := left - 1
		if n > 39 {
			n = 39
		}
		if left-(n+1) == 1 {
			n--
		}
		labels = append(labels, strings.Repeat("d", n))
		left -= n + 1
	}
	return strings.Join(labels, ".")
}

// (responder domain, requester domain)
var c15Domains = [][2]string{
	{"a", "a"},
	{"t.example.com", "t.example.com"},
	{"t.example.com", "T.Example.COM."},
	{"x1.registrar.refraction.network", "x1.registrar.refraction.network"},
	{c15LongDomain(120), c15LongDomain(120)},
	{c15LongDomain(160), c15LongDomain(160)},
	{c15LongDomain(172), c15LongDomain(172)},
	{c15LongDomain(200), c15LongDomain(200)},
}

var (
	c15EnvOnce sync.Once
	c15TheEnv  *c15Env
	c15EnvErr  error
)

// c15GetEnv starts one Responder per base domain (they live until the process exits:
// RecvAndRespond has no way to stop — closing its socket makes it spin on the read error).
func c15GetEnv() (*c15Env, error) {
	c15EnvOnce.Do(func() {
		e := &c15Env{logs: &c15Log{}}
		log.SetFlags(0)
		log.SetOutput(e.logs)
		for i, d := range c15Domains {
			s, err := c15NewServer(d[0], d[1], uint64(i))
			if err != nil {
				c15EnvErr = err
				return
			}
			e.servers = append(e.servers, s)
			e.clients = append(e.clients, nil)
		}
		c15TheEnv = e
	})
	return c15TheEnv, c15EnvErr
}

// c15NewServer starts a real Responder on a loopback port with the harness' tap on its socket.
func c15NewServer(domain, reqDomain string, keyIndex uint64) (*c15Server, error) {
	priv := c15h.Expand(uint64(vh.Seed())*1000+keyIndex+2, 32)
	r, err := NewDnsResponder(domain, "127.0.0.1:0", priv)
	if err != nil {
		return nil, fmt.Errorf("NewDnsResponder(%q): %v", domain, err)
	}
	tap := &c15Tap{PacketConn: r.transport}
	r.transport = tap
	s := &c15Server{domain: domain, reqDomain: reqDomain, r: r, tap: tap, addr: tap.LocalAddr().String(), pub: encryption.PubkeyFromPrivkey(priv)}
	go func() { _ = r.RecvAndRespond(s.callback) }()
	return s, nil
}

func (e *c15Env) client(i int) (*c15Client, error) {
	if e.clients[i] != nil {
		return e.clients[i], nil
	}
	cl, err := c15NewClient(e.servers[i])
	if err != nil {
		return nil, err
	}
	e.clients[i] = cl
	return cl, nil
}

// c15NewClient makes a real Requester (UDP) for the server, dialling through c15Conn.
func c15NewClient(s *c15Server) (*c15Client, error) {
	cl := &c15Client{}
	req, err := requester.NewRequester(&requester.Config{
		TransportMethod: requester.UDP,
		Target:          s.addr,
		BaseDomain:      s.reqDomain,
		Pubkey:          s.pub,
		DialTransport: func(ctx context.Context, network, addr string) (net.Conn, error) {
			c, err := (&net.Dialer{}).DialContext(ctx, network, addr)
			if err != nil {
				return nil, err
			}
			w := &c15Conn{Conn: c}
			cl.mu.Lock()
			cl.conn = w
			cl.mu.Unlock()
			return w, nil
		},
	})
	if err != nil {
		return nil, err
	}
	cl.req = req
	return cl, nil
}

func (cl *c15Client) shut() {
	if cl.used {
		// Requester.Close dereferences its transport, which is nil if dialling failed
		c15h.Catch(func() { _ = cl.req.Close() })
	}
	if c := cl.socket(); c != nil {
		_ = c.Close()
	}
}

func (e *c15Env) drop(i int) {
	if cl := e.clients[i]; cl != nil {
		cl.shut()
		e.clients[i] = nil
	}
}

// ---- reference capacities (used to bias generation and to label classes, not as oracle) ---------

func c15DomainOctets(domain string) int {
	n := 1
	for _, l := range strings.Split(strings.TrimSuffix(domain, "."), ".") {
		if l != "" {
			n += 1 + len(l)
		}
	}
	return n
}

// c15ReqFits: payload -> Noise N message (32 + n + 16) -> 1 length byte -> base32 labels + domain.
func c15ReqFits(domain string, n int) bool {
	pkt := n + 49
	chars := (pkt*8 + 4) / 5
	labels := (chars + 62) / 63
	return chars+labels+c15DomainOctets(domain) <= 255
}

func c15ReqCapacity(domain string) int {
	c := -1
	for n := 0; n < 300; n++ {
		if c15ReqFits(domain, n) {
			c = n
		}
	}
	return c
}

// c15RespFits: response -> +16 AEAD tag -> 2 length bytes -> TXT chunks -> message <= 1232 bytes.
func c15RespFits(domain string, reqLen, n int) bool {
	pkt := reqLen + 49
	chars := (pkt*8 + 4) / 5
	labels := (chars + 62) / 63
	qname := chars + labels + c15DomainOctets(domain)
	body := n + 18
	rd := body + 1
	if body > 0 {
		rd = body + (body-1)/255 + 1
	}
	return 12+qname+4+2+10+rd+11 <= 1232
}

func c15RespCapacity(domain string, reqLen int) int {
	c := -1
	for n := 0; n < 1400; n++ {
		if c15RespFits(domain, reqLen, n) {
			c = n
		}
	}
	return c
}

// ---- the check ----------------------------------------------------------------------------------

type c15XchgCase struct {
	Server   int    `json:"server"` // index into the fixed domain table
	Domain   string `json:"domain"` // informational
	ReqLen   int    `json:"req_len"`
	ReqSeed  uint64 `json:"req_seed"` // request payload = c15h.Expand(seed, len)
	RespLen  int    `json:"resp_len"`
	RespSeed uint64 `json:"resp_seed"`
	CbErr    bool   `json:"callback_error"`       // the callback returns an error instead of a response
	QCase    int    `json:"qname_case,omitempty"` // case rewriting of the query name in transit (c15h.CaseKinds)
	QSeed    uint64 `json:"qname_case_seed,omitempty"`
}

const c15XchgTimeout = 20 * time.Second

// c15History keeps the last few evaluated exchanges (diagnostics in violation messages).
var c15History []string

// c15Obs is what the observation points show for the current case.
type c15Obs struct {
	writes  int // datagrams the requester put on the wire
	arrived int // datagrams the responder read from this requester's socket
	strays  int // datagrams the responder read from anywhere else
	sent    int // datagrams the responder wrote to this requester's socket
	calls   [][]byte
	lines   []string
}

func (o c15Obs) refused(c c15XchgCase) bool {
	return c.CbErr && len(o.calls) >= 1 && c15Has(o.lines, "craftResponse err: "+c15RefuseText) != ""
}

func (o c15Obs) decodeFail() string {
	for _, l := range o.lines {
		if c15Has([]string{l}, c15DecodeFailLogs...) != "" && !strings.Contains(l, c15RefuseText) {
			return l
		}
	}
	return ""
}

// serverFinished: the responder has read this case's query and is done with it (answered it, or
// logged why it will not).
func (o c15Obs) serverFinished(c c15XchgCase) bool {
	return o.arrived >= 1 && (o.sent >= 1 || o.refused(c) || o.decodeFail() != "")
}

func c15XchgCheck(t vh.Fataler, rec *vh.Rec, e *c15Env, c c15XchgCase) {
	t.Helper()
	if c.Server < 0 || c.Server >= len(e.servers) {
		t.Fatalf("harness problem: no server %d", c.Server)
	}
	s := e.servers[c.Server]
	c.Domain = s.reqDomain
	if s.tainted {
		rec.Case(false, vh.Digest(c), nil, "skipped:server-tainted-by-timeout")
		return
	}
	cl, err := e.client(c.Server)
	if err != nil {
		t.Fatalf("harness problem: cannot create requester for %q: %v", s.reqDomain, err)
	}
	reqP := c15h.Expand(c.ReqSeed, c.ReqLen)
	respP := c15h.Expand(c.RespSeed, c.RespLen)
	s.mu.Lock()
	s.calls, s.ret, s.retErr = nil, respP, c.CbErr
	s.mu.Unlock()
	s.tap.reset()
	if c.QCase < 0 || c.QCase >= len(c15h.CaseKinds) {
		t.Fatalf("harness problem: bad qname_case %d", c.QCase)
	}
	s.tap.setRecase(c15DomainLabels(s.reqDomain), c.QCase, c.QSeed)
	e.logs.reset()
	writes0 := 0
	if sock := cl.socket(); sock != nil {
		writes0 = int(sock.writes.Load())
	}
	observe := func() c15Obs {
		var o c15Obs
		local := ""
		if sock := cl.socket(); sock != nil {
			o.writes = int(sock.writes.Load()) - writes0
			local = sock.LocalAddr().String()
		}
		o.arrived, o.sent, o.strays = s.tap.count(local)
		s.mu.Lock()
		o.calls = append([][]byte(nil), s.calls...)
		s.mu.Unlock()
		o.lines = e.logs.snapshot()
		return o
	}

	type result struct {
		b   []byte
		err error
	}
	done := make(chan result, 1)
	cl.used = true
	go func() {
		b, err := cl.req.RequestAndRecv(append([]byte{}, reqP...))
		done <- result{append([]byte{}, b...), err}
	}()
	var res result
	var o c15Obs
	answered, timedOut := false, false
	timer := time.NewTimer(c15XchgTimeout)
	defer timer.Stop()
wait:
	for {
		o = observe()
		switch {
		case answered && (o.writes == 0 || o.serverFinished(c)):
			break wait // RequestAndRecv returned and nothing of this case is in flight any more
		case !answered && o.writes == 0 && c15Has(o.lines, "send: ") != "":
			break wait // the requester's encoder refused; the error is only logged and RequestAndRecv blocks for ever
		case !answered && o.serverFinished(c) && o.sent == 0:
			break wait // the responder is done with the query and will not answer
		}
		select {
		case res = <-done:
			answered = true
		case <-c15Sig:
		case <-timer.C:
			timedOut = true
			break wait
		}
	}
	if !answered {
		// nothing will come back: unblock RequestAndRecv and start over with a fresh requester
		e.drop(c.Server)
		select {
		case <-done:
		case <-time.After(c15XchgTimeout):
			t.Fatalf("harness problem: RequestAndRecv did not return after Close")
		}
	} else if res.err != nil {
		e.drop(c.Server) // do not reuse a requester after a failed exchange
	}
	if timedOut {
		s.tainted = true
		e.drop(c.Server)
	}
	o = observe()
	lines, calls := o.lines, o.calls

	reqCap, respCap := c15ReqCapacity(s.reqDomain), c15RespCapacity(s.reqDomain, c.ReqLen)
	classes := []string{"domain:" + fmt.Sprint(c15DomainOctets(s.domain)) + "oct"}
	if c.ReqLen > reqCap {
		classes = append(classes, "req-beyond-capacity")
	} else if c.ReqLen == reqCap {
		classes = append(classes, "req-at-capacity")
	}
	if c.RespLen > respCap {
		classes = append(classes, "resp-beyond-capacity")
	} else if c.RespLen == respCap {
		classes = append(classes, "resp-at-capacity")
	}
	if c.CbErr {
		classes = append(classes, "callback-error")
	}
	classes = append(classes, "qcase:"+c15h.CaseKinds[c.QCase])
	nontriv := answered && res.err == nil
	summary := fmt.Sprintf("{query-name case in transit: "+c15h.CaseKinds[c.QCase]+"; srv %d req %d resp %d cberr %v: answered=%v err=%v timeout=%v wire: %d written, %d arrived, %d strays, %d sent back; %d callback calls; log=%q}",
		c.Server, c.ReqLen, c.RespLen, c.CbErr, answered, res.err, timedOut, o.writes, o.arrived, o.strays, o.sent, len(calls), lines)
	finish := func(outcome string) {
		rec.Case(nontriv && outcome == "ok", vh.Digest(c), c, append(classes, outcome)...)
		c15History = append(c15History, outcome+" "+summary)
		if os.Getenv("C15_TRACE") != "" {
			fmt.Fprintln(os.Stderr, "C15TRACE", outcome, summary)
		}
		if len(c15History) > 4 {
			c15History = c15History[1:]
		}
	}
	inconclusive := func(why string) {
		finish("inconclusive:" + why)
		rec.Note("inconclusive (%s): %s", why, summary)
	}
	desc := fmt.Sprintf("base domain %q (%d octets), %d-byte request (reference capacity %d), %d-byte response (reference capacity %d) %s [previous cases: %v]",
		s.reqDomain, c15DomainOctets(s.reqDomain), c.ReqLen, reqCap, c.RespLen, respCap, summary, c15History)

	// 0. datagrams from anywhere but this requester's socket reached the responder during the case:
	// log lines and callback calls can then not be attributed to this case
	if o.strays > 0 {
		inconclusive("stray-datagram")
		return
	}
	// 1. the callback never sees anything but the requester's payload
	for _, got := range calls {
		if !bytes.Equal(got, reqP) {
			finish("REQUEST-ALTERED")
			rec.Violation(t, "exchange:request-altered", c, "%s: the responder callback received %d bytes that are not the requester's payload (%s)", desc, len(got), c15h.FirstDiff(reqP, got))
			return
		}
	}
	// 2. the requester's parser must understand what the responder sent (the requester's socket is
	// connected, so only the responder's datagrams reach it)
	if l := c15Has(lines, "MessageFromWireFormat:"); l != "" {
		finish("RESPONSE-UNPARSEABLE")
		rec.Violation(t, "exchange:response-unparseable", c, "%s: the requester could not parse the responder's datagram: %s", desc, l)
		return
	}
	switch {
	case answered && res.err == nil:
		// 3. a successful exchange returns exactly what the callback returned
		if len(calls) == 0 || c.CbErr || !bytes.Equal(res.b, respP) {
			finish("RESPONSE-ALTERED")
			rec.Violation(t, "exchange:response-altered", c, "%s: RequestAndRecv returned %d bytes without error, the callback (called %d times, refusing=%v) returned %d bytes: %s", desc, len(res.b), len(calls), c.CbErr, len(respP), c15h.FirstDiff(respP, res.b))
			return
		}
		finish("ok")
	case o.writes == 0:
		// nothing went on the wire: the requester's encoder refused the request
		switch {
		case c15Has(lines, "send: ") != "":
			finish("req-rejected:name-too-long") // error only logged by the send loop
		case answered:
			finish("req-rejected:error") // RequestAndRecv itself returned an error
		default:
			inconclusive("nothing-sent-no-error")
		}
	case o.arrived == 0:
		inconclusive("query-never-arrived")
	case len(calls) == 0:
		// the responder read this case's query (and nothing else) but did not hand it to the callback
		var evidence []string
		for _, l := range lines {
			if !strings.Contains(l, c15RefuseText) { // a refusing callback is never a decode failure
				evidence = append(evidence, l)
			}
		}
		if l := c15Has(evidence, c15RequestDecodeLogs...); l != "" {
			finish("REQUEST-LOST")
			rec.Violation(t, "exchange:request-lost", c, "%s: the requester's encoder accepted the request and sent it, the responder received it and failed to decode it: %q", desc, l)
			return
		}
		inconclusive("query-arrived-callback-not-called")
	case c.CbErr:
		finish("callback-refused")
	default:
		// the callback accepted the request and returned a response, but the requester has no result
		switch {
		case c15Has(lines, c15ResponseRejectLogs...) != "":
			finish("resp-rejected:too-large")
		case answered && o.sent >= 1:
			finish("RESPONSE-LOST")
			rec.Violation(t, "exchange:response-lost", c, "%s: the callback received the request and returned a response, the responder sent its answer without logging a rejection, but RequestAndRecv failed: %v", desc, res.err)
		default:
			inconclusive("no-response-no-rejection")
		}
	}
}

func c15XchgGen(rt *rapid.T) c15XchgCase {
	c := c15XchgCase{Server: rapid.IntRange(0, len(c15Domains)-1).Draw(rt, "server")}
	d := c15Domains[c.Server][1]
	reqCap := c15ReqCapacity(d)
	switch rapid.IntRange(0, 5).Draw(rt, "reqkind") {
	case 0, 1:
		c.ReqLen = reqCap + rapid.IntRange(-2, 2).Draw(rt, "reqdelta")
	case 2:
		c.ReqLen = rapid.SampledFrom([]int{0, 1, 2, 14, 15, 16, 205, 206, 207, 208, 209, 250}).Draw(rt, "reqspecial")
	default:
		c.ReqLen = rapid.IntRange(0, reqCap+12).Draw(rt, "reqlen")
	}
	if c.ReqLen < 0 {
		c.ReqLen = 0
	}
	c.ReqSeed = c15h.Seeds().Draw(rt, "reqseed")
	respCap := c15RespCapacity(d, c.ReqLen)
	switch rapid.IntRange(0, 5).Draw(rt, "respkind") {
	case 0, 1:
		c.RespLen = respCap + rapid.IntRange(-3, 3).Draw(rt, "respdelta")
	case 2: // TXT chunk boundaries: 2 length bytes + response + 16 = 255, 510, 765, 1020
		c.RespLen = rapid.SampledFrom([]int{0, 1, 236, 237, 238, 491, 492, 493, 746, 747, 748, 1001, 1002, 1003, 2000, 4078, 4079, 4080, 5000}).Draw(rt, "respspecial")
	default:
		c.RespLen = rapid.IntRange(0, 1300).Draw(rt, "resplen")
	}
	if c.RespLen < 0 {
		c.RespLen = 0
	}
	c.RespSeed = c15h.Seeds().Draw(rt, "respseed")
	c.CbErr = rapid.IntRange(0, 19).Draw(rt, "cberr") == 0
	c.QCase = rapid.SampledFrom([]int{0, 0, 1, 2, 3, 3, 4, 5}).Draw(rt, "qcase")
	if c.QCase != 0 {
		c.QSeed = rapid.Uint64Range(2, 1<<40).Draw(rt, "qseed")
	}
	c.Domain = d
	return c
}

func TestVerif_C15_exchange(t *testing.T) {
	rec := vh.NewRec("C15", "exchange", "rapid: one request/response exchange between a real Requester (UDP) and a real Responder on 127.0.0.1, over 8 (responder domain, requester domain) pairs of 3 to 200 octets (incl. a mixed-case / trailing-dot spelling and a domain that leaves no room at all); request length biased to the reference capacity of the domain +-2, to 0/1/15/16 and 205-209 (Noise message of 255/256 bytes), uniform otherwise; response length biased to the reference capacity +-3 (1232-byte UDP limit), the TXT chunk boundaries and sizes beyond 4096; the callback refuses now and then; between requester and responder the letter case of the query name is left as sent or rewritten (all upper, all lower, random per letter as 0x20 resolvers do, only the base domain, only the data labels). Oracle: the callback only ever receives the requester's payload; a successful RequestAndRecv returns exactly the callback's bytes; a failure is accepted only with a logged rejection (name too long, response too large, callback error) or an error before anything reached the responder; an exchange with neither answer nor logged rejection is inconclusive. Non-trivial = answered successfully; distinct by case")
	defer rec.Flush()
	rec.Require("ok", "req-at-capacity", "req-beyond-capacity", "resp-at-capacity", "resp-beyond-capacity", "req-rejected:name-too-long", "resp-rejected:too-large",
		"qcase:as-sent", "qcase:upper", "qcase:lower", "qcase:0x20", "qcase:domain-only", "qcase:data-only")
	e, err := c15GetEnv()
	if err != nil {
		t.Fatalf("harness problem: %v", err)
	}
	log.SetFlags(0)
	log.SetOutput(e.logs)
	defer func() {
		for i := range e.clients {
			e.drop(i)
		}
	}()
	if p := vh.ReplayFile(); p != "" {
		var c c15XchgCase
		if _, _, err := vh.LoadReplay(p, &c); err != nil {
			t.Fatal(err)
		}
		c15XchgCheck(t, rec, e, c)
		return
	}
	// the capacity boundaries of every domain first (enumerated), then the random part
	for i, d := range c15Domains {
		if !vh.Mine(i) {
			continue
		}
		rc := c15ReqCapacity(d[1])
		for dl := -1; dl <= 1; dl++ {
			if rc+dl < 0 {
				continue
			}
			pc := c15RespCapacity(d[1], rc+dl)
			for dr := -1; dr <= 1; dr++ {
				c15XchgCheck(t, rec, e, c15XchgCase{Server: i, ReqLen: rc + dl, ReqSeed: uint64(7 + dl), RespLen: pc + dr, RespSeed: uint64(11 + dr)})
			}
		}
	}
	rapid.Check(t, func(rt *rapid.T) { c15XchgCheck(rt, rec, e, c15XchgGen(rt)) })
}

// ---- the responder's datagram path on arbitrary bytes -------------------------------------------

type c15DgramCase struct {
	Data vh.Hex `json:"data"`
}

var c15FuzzPriv = c15h.Expand(4242, 32)

func c15FuzzResponder() *Responder {
	cfg := encryption.NewConfig()
	cfg.Initiator = false
	cfg.StaticKeypair = noise.DHKey{Private: c15FuzzPriv, Public: encryption.PubkeyFromPrivkey(c15FuzzPriv)}
	dom, _ := dns.ParseName("t.example.com")
	return &Responder{privkey: c15FuzzPriv, domain: dom, noiseConfig: cfg, maxUDPPayload: 1280 - 40 - 8}
}

// c15Handle mirrors the body of the goroutine in RecvAndRespond for one datagram (that body is an
// inline closure and cannot be called directly), using the Responder's own methods.
func c15Handle(r *Responder, datagram []byte, cb func([]byte) ([]byte, error)) (out []byte, stage string) {
	stage = "parse"
	query, _ := dns.MessageFromWireFormat(datagram) // like the original: a parse error is only logged
	stage = "responseFor"
	resp, payload := r.responseFor(&query, r.domain)
	if resp == nil {
		return nil, "no-response"
	}
	var responseBuf []byte
	var err error
	if payload != nil {
		stage = "unframe"
		payload, err = msgformat.RemoveRequestFormat(payload)
		if err != nil {
			return nil, "unframe-rejected"
		}
		stage = "craftResponse"
		responseBuf, err = r.craftResponse(payload, cb)
		if err != nil {
			return nil, "handshake-rejected"
		}
		stage = "frame"
		responseBuf, err = msgformat.AddResponseFormat(responseBuf)
		if err != nil {
			return nil, "frame-rejected"
		}
	}
	stage = "encode"
	out, err = r.dnsRespToUDPResp(resp, responseBuf)
	if err != nil {
		return nil, "encode-rejected"
	}
	if len(out) > r.maxUDPPayload {
		out, err = r.dnsRespToUDPResp(resp, []byte{})
		if err != nil {
			return nil, "encode-rejected"
		}
		return out, "answered-empty"
	}
	if payload != nil {
		return out, "answered-payload"
	}
	return out, "answered-error"
}

// c15Query builds a genuine query datagram for the fuzz responder (reference packing; the Noise
// handshake uses a deterministic byte source so that seeds are reproducible).
func c15Query(payload []byte, domain string, seed uint64) []byte {
	cfg := encryption.NewConfig()
	cfg.Initiator = true
	cfg.PeerStatic = encryption.PubkeyFromPrivkey(c15FuzzPriv)
	cfg.Random = bytes.NewReader(c15h.Expand(seed+2, 64))
	hs, err := noise.NewHandshakeState(cfg)
	if err != nil {
		panic(err)
	}
	msg, _, _, err := hs.WriteMessage(nil, payload)
	if err != nil {
		panic(err)
	}
	framed, _ := msgformat.AddRequestFormat(msg)
	enc := strings.ToLower(base32Encoding.EncodeToString(framed))
	var labels [][]byte
	for len(enc) > 0 {
		n := len(enc)
		if n > 63 {
			n = 63
		}
		labels = append(labels, []byte(enc[:n]))
		enc = enc[n:]
	}
	dom, _ := dns.ParseName(domain)
	name, err := dns.NewName(append(labels, dom...))
	if err != nil {
		panic(err)
	}
	q := &dns.Message{ID: uint16(seed), Flags: 0x0100, Question: []dns.Question{{Name: name, Type: dns.RRTypeTXT, Class: dns.ClassIN}},
		Additional: []dns.RR{{Name: dns.Name{}, Type: dns.RRTypeOPT, Class: 4096, Data: []byte{}}}}
	b, err := q.WireFormat()
	if err != nil {
		panic(err)
	}
	return b
}

func c15DgramSeeds() [][]byte {
	var out [][]byte
	for i, n := range []int{0, 1, 30, 97, 98} {
		out = append(out, c15Query(c15h.Expand(uint64(n)+9, n), "t.example.com", uint64(i)))
	}
	out = append(out, c15Query([]byte("hello"), "u.example.com", 9)) // not our domain
	q := c15Query([]byte("hello"), "t.example.com", 10)
	noOpt := append([]byte{}, q[:len(q)-11]...)
	noOpt[11] = 0 // ARCOUNT = 0: no EDNS -> payload size too small
	out = append(out, noOpt, []byte{}, []byte{0, 1, 0x80, 0, 0, 0, 0, 0, 0, 0, 0, 0})
	return out
}

func c15DgramCheck(t vh.Fataler, rec *vh.Rec, r *Responder, c c15DgramCase, count bool) {
	t.Helper()
	var out []byte
	var stage string
	var cbArg []byte
	called := 0
	cb := func(b []byte) ([]byte, error) {
		called++
		cbArg = append([]byte{}, b...)
		return append([]byte("echo:"), b...), nil
	}
	if pan, what := c15h.Catch(func() { out, stage = c15Handle(r, append([]byte{}, c.Data...), cb) }); pan {
		rec.Violation(t, "responder:decode-panic:"+stage, c, "the responder's datagram path panicked at stage %s on %d arbitrary bytes: %s", stage, len(c.Data), what)
		return
	}
	if count {
		rec.Case(len(c.Data) >= 12, vh.Digest([]byte(c.Data)), c, "stage:"+stage)
	}
	if out == nil {
		return
	}
	// what the responder emits must be decodable by the requester's parser and echo the query's ID
	m, err := dns.MessageFromWireFormat(out)
	if err != nil {
		rec.Violation(t, "responder:response-unparseable", c, "the responder answered %d arbitrary bytes with a datagram that does not parse: %v", len(c.Data), err)
		return
	}
	if len(c.Data) >= 2 && (m.ID != uint16(c.Data[0])<<8|uint16(c.Data[1]) || m.Flags&0x8000 == 0) {
		rec.Violation(t, "responder:response-header", c, "response ID/QR do not answer the query")
	}
	_ = cbArg
	_ = called
}

func TestVerif_C15_dec_responder(t *testing.T) {
	rec := vh.NewRec("C15", "dec_responder", "rapid: arbitrary datagrams through the responder's per-datagram path (parse -> responseFor -> RemoveRequestFormat -> Noise handshake -> callback -> AddResponseFormat -> TXT answer): raw strings of 0-100 bytes and genuine queries (payloads 0-98 bytes, foreign domain, no EDNS) with 0-4 bytes changed / cut / inserted. Oracle: no panic at any stage; every datagram the responder emits parses and answers the query's ID. Non-trivial = datagram of >= 12 bytes; distinct by datagram")
	defer rec.Flush()
	rec.Require("stage:answered-payload", "stage:answered-error", "stage:no-response", "stage:handshake-rejected")
	r := c15FuzzResponder()
	log.SetOutput(io.Discard)
	if p := vh.ReplayFile(); p != "" {
		var c c15DgramCase
		if _, _, err := vh.LoadReplay(p, &c); err != nil {
			t.Fatal(err)
		}
		c15DgramCheck(t, rec, r, c, true)
		return
	}
	seeds := c15DgramSeeds()
	rapid.Check(t, func(rt *rapid.T) {
		var data []byte
		if rapid.IntRange(0, 3).Draw(rt, "raw") == 0 {
			data = rapid.SliceOfN(rapid.Byte(), 0, 100).Draw(rt, "data")
		} else {
			data = append([]byte(nil), rapid.SampledFrom(seeds).Draw(rt, "seed")...)
			for i, k := 0, rapid.IntRange(0, 4).Draw(rt, "muts"); i < k && len(data) > 0; i++ {
				at := rapid.IntRange(0, len(data)-1).Draw(rt, "at")
				switch rapid.IntRange(0, 2).Draw(rt, "op") {
				case 0:
					data[at] = rapid.Byte().Draw(rt, "b")
				case 1:
					data = data[:at]
				case 2:
					data = append(data[:at], append([]byte{rapid.Byte().Draw(rt, "ins")}, data[at:]...)...)
				}
			}
		}
		c15DgramCheck(rt, rec, r, c15DgramCase{Data: data}, true)
	})
}

func FuzzVerif_C15_responder(f *testing.F) {
	rec := vh.NewRec("C15", "dec_responder", "native fuzzing of the responder's datagram path (same oracle as dec_responder)")
	r := c15FuzzResponder()
	log.SetOutput(io.Discard)
	for _, s := range c15DgramSeeds() {
		f.Add(s)
	}
	f.Fuzz(func(t *testing.T, data []byte) {
		if len(data) > 4096 {
			return
		}
		c15DgramCheck(t, rec, r, c15DgramCase{Data: data}, false)
	})
}
