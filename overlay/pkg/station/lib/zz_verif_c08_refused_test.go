package lib

// C08 — registrations the station refuses.
//
// The ingest pipeline first admits a registration to the registry (it is tracked, with a time-out
// record, not yet valid) and only then validates it: covert address, liveness of the phantom, the
// phantom blocklist for registrations that came from the detector. A registration refused there is
// still a tracked registration: it is unused, so it is tracked until it is 10 minutes old (a copy
// that arrives meanwhile is a duplicate), never matches a connection, and is forgotten entirely -
// both records - by the first sweep after that. A registration refused BEFORE it is tracked
// (blocklisted phantom over the API) leaves no state at all.
//
// The operations of the C08 history model carry the refusal (c08Op.Refuse / Covert / Src, phantom
// override c08BlockedOvr); c08Run's model and per-step invariants (tracked set, time-out record
// count, lookups) do the judging. This file holds the pieces of that and the sub-check `refused`:
// exhaustive short histories around refusals, plus floods of mostly refused registrations.

import (
	"fmt"
	"net"
	"testing"

	"pgregory.net/rapid"
	"verif/harness/vh"
)

// c08BlockedOvr is the registrar-overridden phantom (#3 of each family) that is on the station's
// phantom blocklist in c08Conf.
const c08BlockedOvr = 3

const (
	c08BlockedV4 = "203.0.113.3"
	c08BlockedV6 = "2001:db8::3"
)

func c08PhantomBlocked(ip net.IP) bool {
	return ip.Equal(net.ParseIP(c08BlockedV4)) || ip.Equal(net.ParseIP(c08BlockedV6))
}

// Covert addresses the station refuses, each unambiguously (no name resolution involved).
var c08BadCoverts = []struct{ addr, why string }{
	{"not-a-host-port", "covert-malformed"},
	{"192.0.2.10", "covert-malformed"},                // no port
	{"192.0.2.10:99999", "covert-malformed"},          // no such port
	{"10.1.2.3:443", "covert-blocklisted"},            // covert_blocklist_subnets
	{"www.blocked.example:443", "covert-blocklisted"}, // covert_blocklist_domains
}

// c08Conf is the station configuration of the sub-checks that generate refusals. The covert
// ("192.0.2.10:443", "127.0.0.1:1") and phantom addresses of accepted registrations are not on
// any of the lists.
func c08Conf() *RegConfig {
	return &RegConfig{
		EnableIPv4:             true,
		EnableIPv6:             true,
		CovertBlocklistSubnets: []string{"10.0.0.0/8"},
		CovertBlocklistDomains: []string{`(^|\.)blocked\.example$`},
		PhantomBlocklist:       []string{c08BlockedV4 + "/32", c08BlockedV6 + "/128"},
	}
}

// c08SetLive scripts the verdict of the next liveness scans.
func c08SetLive(e *vEnv, live bool) {
	e.live.mu.Lock()
	e.live.Calls = nil
	if live {
		e.live.Verdict = func(string, uint16) (bool, error) { return true, fmt.Errorf("verif: the phantom answered") }
	} else {
		e.live.Verdict = nil
	}
	e.live.mu.Unlock()
}

// c08RefuseReason says why the station refuses this (already tracked) registration during
// validation, "" if it accepts it.
func c08RefuseReason(o c08Op, reg *DecoyRegistration) string {
	switch {
	case o.Refuse == "covert":
		return c08BadCoverts[o.Covert%len(c08BadCoverts)].why
	case o.Refuse == "live" && reg.PhantomIp.To4() != nil:
		return "phantom-live"
	case o.Src == "detector" && c08PhantomBlocked(reg.PhantomIp):
		return "phantom-blocklisted-detector"
	}
	return ""
}

func c08RefString(o c08Op) string {
	s := fmt.Sprintf("%s(s%d,t%d,v6=%v,o%d", o.Kind, o.Secret, o.TT, o.V6, o.Ovr)
	if o.Ovr == c08BlockedOvr {
		s += "=blocklisted phantom"
	}
	if o.Src != "" {
		s += ",from " + o.Src
	}
	switch o.Refuse {
	case "covert":
		s += fmt.Sprintf(",covert %q", c08BadCoverts[o.Covert%len(c08BadCoverts)].addr)
	case "live":
		s += ",phantom answers the liveness scan"
	}
	if o.TT == 3 {
		s += ",station's dial: " + o.Dial
	}
	return s + ")"
}

// c08DrawRefusal makes about every third ingest one that the station refuses (or, from the
// detector, accepts).
func c08DrawRefusal(rt *rapid.T, o *c08Op) {
	switch rapid.SampledFrom([]string{"", "", "", "", "", "", "covert", "covert", "live", "live", "detector-blocked", "api-blocked", "detector"}).Draw(rt, "refusal") {
	case "covert":
		o.Refuse = "covert"
		o.Covert = rapid.IntRange(0, len(c08BadCoverts)-1).Draw(rt, "covert")
	case "live":
		o.Refuse = "live"
	case "detector-blocked":
		o.Src, o.Ovr = "detector", c08BlockedOvr
	case "api-blocked":
		o.Src, o.Ovr = "", c08BlockedOvr
	case "detector":
		o.Src = "detector"
	}
}

// c08FloodGen: many registrations with distinct secrets, most of them refused for one reason or
// another, some re-sent; then time passes and the station sweeps; once or twice.
func c08FloodGen(rt *rapid.T) c08Case {
	var ops []c08Op
	next := 1000
	rounds := rapid.IntRange(1, 2).Draw(rt, "rounds")
	for r := 0; r < rounds; r++ {
		n := rapid.IntRange(25, 160).Draw(rt, "n")
		first := len(ops)
		for i := 0; i < n; i++ {
			if i > 0 && rapid.IntRange(0, 9).Draw(rt, "resend") == 0 {
				// a copy of an earlier message of this round
				ops = append(ops, ops[first+rapid.IntRange(0, len(ops)-first-1).Draw(rt, "which")])
				continue
			}
			o := c08Op{Kind: "ingest", Secret: next, TT: rapid.IntRange(0, 2).Draw(rt, "tt"), V6: rapid.IntRange(0, 3).Draw(rt, "v6") == 0}
			next++
			if rapid.IntRange(0, 5).Draw(rt, "ovrp") == 0 {
				o.Ovr = rapid.IntRange(1, 2).Draw(rt, "ovr")
			}
			switch rapid.SampledFrom([]string{"", "covert", "covert", "covert", "live", "live", "detector-blocked", "api-blocked"}).Draw(rt, "refusal") {
			case "covert":
				o.Refuse = "covert"
				o.Covert = rapid.IntRange(0, len(c08BadCoverts)-1).Draw(rt, "covert")
			case "live":
				o.Refuse = "live"
				o.V6 = false
			case "detector-blocked":
				o.Src, o.Ovr = "detector", c08BlockedOvr
			case "api-blocked":
				o.Src, o.Ovr = "", c08BlockedOvr
			}
			ops = append(ops, o)
		}
		ops = append(ops, c08Op{Kind: "adv", DeltaS: rapid.SampledFrom([]int64{601, 601, 3600, 599, 240}).Draw(rt, "delta")}, c08Op{Kind: "sweep"})
	}
	ops = append(ops, c08Op{Kind: "adv", DeltaS: 601}, c08Op{Kind: "sweep"})
	return c08Case{Ops: ops}
}

func TestVerif_C08_refused(t *testing.T) {
	rec := vh.NewRec("C08", "refused", "registrations the station refuses AFTER it has tracked them (malformed / blocklisted covert address, phantom that answers the liveness scan, blocklisted phantom from the detector) or before (blocklisted phantom over the API), in the history model of the other sub-checks: (a) all histories up to length L over {ingest(s0,min) refused: malformed covert, ingest(s0,min) accepted, ingest(s1,min) refused: live phantom, ingest(s0,prefix) refused: blocklisted covert, connect(s0,min), adv 9m59s, adv 6m, sweep}, each followed by a final sweep; (b) rapid-generated floods: one or two rounds of 25-160 registrations with distinct secrets, 7 of 8 refused, every tenth message a re-sent copy, then time passes and a sweep. A refused registration is tracked (unused, never matching) until it is 10 minutes old and leaves nothing behind afterwards. Non-trivial as in the exhaustive sub-check; distinct by history")
	defer rec.Flush()
	rec.Require("refused:covert-malformed", "refused:covert-blocklisted", "refused:phantom-live", "refused:phantom-blocklisted-detector", "refused:never-tracked",
		"refused-then-duplicate", "refused-expires", "refused-kept-while-young", "sweep-removes-20+-refused", "sweep-removes-some-keeps-some", "connect")
	e := vNewEnv(t, c08Conf(), "")
	if p := vh.ReplayFile(); p != "" {
		var c c08Case
		if _, _, err := vh.LoadReplay(p, &c); err != nil {
			t.Fatal(err)
		}
		c08Check(t, rec, e, c)
		return
	}
	alpha := []c08Op{
		{Kind: "ingest", Secret: 0, TT: 0, Refuse: "covert", Covert: 0},
		{Kind: "ingest", Secret: 0, TT: 0},
		{Kind: "ingest", Secret: 1, TT: 0, Refuse: "live"},
		{Kind: "ingest", Secret: 0, TT: 1, Refuse: "covert", Covert: 3},
		{Kind: "connect", Secret: 0, TT: 0},
		{Kind: "adv", DeltaS: 9*60 + 59},
		{Kind: "adv", DeltaS: 6 * 60},
		{Kind: "sweep"},
	}
	maxLen := vh.Pick(5, 7)
	idx := 0
	var gen func(prefix []c08Op)
	gen = func(prefix []c08Op) {
		if len(prefix) > 0 {
			idx++
			if vh.Mine(idx) {
				ops := append(append([]c08Op(nil), prefix...), c08Op{Kind: "sweep"})
				c08Check(t, rec, e, c08Case{Ops: ops})
			}
		}
		if len(prefix) == maxLen {
			return
		}
		for _, a := range alpha {
			gen(append(prefix, a))
		}
	}
	gen(nil)
	// floods
	n := vh.Pick(48, 4800)
	_, shards := vh.Shard()
	left := (n + shards - 1) / shards
	rapid.Check(t, func(rt *rapid.T) {
		if left <= 0 {
			return
		}
		left--
		c08Check(rt, rec, e, c08FloodGen(rt))
	})
}
