package lib

// C17 (error shapes) - the forms in which a wrapper around a connection reports a failed operation:
// the socket's *net.OpError wrapped, or together with the wrapper's own state as an error with several
// causes. Same catalogue as in cmd/application (zz_verif_c17_shapes_test.go there); used by the
// 'connecting' sub-check for the connection a connecting transport hands to the relay.

import (
	"errors"
	"fmt"
	"io"
	"net"
	"strings"
	"time"
)

var errC17sState = errors.New("transport: incomplete frame pending")
var errC17sState2 = errors.New("transport: session torn down")

// c17sMultiErr is an error type of a wrapper's own with several causes.
type c17sMultiErr struct{ errs []error }

func (m c17sMultiErr) Error() string {
	var parts []string
	for _, e := range m.errs {
		parts = append(parts, e.Error())
	}
	return "transport failed [" + strings.Join(parts, "; ") + "]"
}
func (m c17sMultiErr) Unwrap() []error { return m.errs }

// c17sSingleErr is an error type of a wrapper's own with one cause.
type c17sSingleErr struct {
	op  string
	err error
}

func (s c17sSingleErr) Error() string { return "transport " + s.op + ": " + s.err.Error() }
func (s c17sSingleErr) Unwrap() error { return s.err }

// c17sShapes: the forms in which a wrapper reports the operation error `op`. multi = the reported
// error has (somewhere) a link with several causes.
var c17sShapes = []struct {
	name  string
	multi bool
	mk    func(op error) error
}{
	{"wrap", false, func(op error) error { return fmt.Errorf("transport read: %w", op) }},
	{"wrap(wrap)", false, func(op error) error { return fmt.Errorf("relay: %w", fmt.Errorf("transport read: %w", op)) }},
	{"type(wrap)", false, func(op error) error { return c17sSingleErr{"io", fmt.Errorf("frame: %w", op)} }},
	{"two-w:op-first", true, func(op error) error { return fmt.Errorf("%w (%w)", op, errC17sState) }},
	{"two-w:op-last", true, func(op error) error { return fmt.Errorf("%w: %w", errC17sState, op) }},
	{"join:op-first", true, func(op error) error { return errors.Join(op, errC17sState) }},
	{"join:op-last", true, func(op error) error { return errors.Join(errC17sState, op) }},
	{"join:op-middle", true, func(op error) error { return errors.Join(errC17sState, op, errC17sState2) }},
	{"wrap(join)", true, func(op error) error {
		return fmt.Errorf("transport read: %w", errors.Join(errC17sState, op))
	}},
	{"join(wrap)", true, func(op error) error {
		return errors.Join(errC17sState, fmt.Errorf("transport read: %w", op))
	}},
	{"join(join)", true, func(op error) error {
		return errors.Join(errC17sState, errors.Join(errC17sState2, op))
	}},
	{"multi-type", true, func(op error) error { return c17sMultiErr{[]error{errC17sState, op}} }},
	{"type(multi-type)", true, func(op error) error {
		return c17sSingleErr{"io", c17sMultiErr{[]error{op, errC17sState}}}
	}},
}

func c17sShapeErr(shape string, err error) error {
	if err == nil || err == io.EOF || shape == "" {
		return err // a wrapper hands end-of-stream through as it is
	}
	for _, s := range c17sShapes {
		if s.name == shape {
			return s.mk(err)
		}
	}
	return err
}

func c17sShapeMulti(shape string) bool {
	for _, s := range c17sShapes {
		if s.name == shape {
			return s.multi
		}
	}
	return false
}

// c17sConn is the wrapper: every failed operation of the connection inside is reported in the
// wrapper's form.
type c17sConn struct {
	net.Conn
	shape string
}

func (c c17sConn) Read(p []byte) (int, error) {
	n, err := c.Conn.Read(p)
	return n, c17sShapeErr(c.shape, err)
}
func (c c17sConn) Write(p []byte) (int, error) {
	n, err := c.Conn.Write(p)
	return n, c17sShapeErr(c.shape, err)
}
func (c c17sConn) Close() error { return c17sShapeErr(c.shape, c.Conn.Close()) }
func (c c17sConn) SetDeadline(t time.Time) error {
	return c17sShapeErr(c.shape, c.Conn.SetDeadline(t))
}
func (c c17sConn) SetReadDeadline(t time.Time) error {
	return c17sShapeErr(c.shape, c.Conn.SetReadDeadline(t))
}
func (c c17sConn) SetWriteDeadline(t time.Time) error {
	return c17sShapeErr(c.shape, c.Conn.SetWriteDeadline(t))
}
