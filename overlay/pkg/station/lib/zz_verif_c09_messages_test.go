package lib

// C09 (message level) — a registration message of a dual-stack client yields two registrations
// (IPv4 and IPv6 phantom) that live separate lives: one can be used (6 h) while the other expires
// (10 min), one can be known while the other is new. Histories of message deliveries through the
// real HandleRegUpdates pipeline (distributor + workers, i.e. the workers' own per-message loop),
// connections, time and sweeps are compared with a per-(secret, family) model: tracked set, and
// "announced as new exactly once per lifetime".

import (
	"context"
	"fmt"
	"net"
	"sort"
	"strings"
	"sync"
	"sync/atomic"
	"testing"
	"time"

	"github.com/refraction-networking/conjure/pkg/station/log"
	pb "github.com/refraction-networking/conjure/proto"
	"google.golang.org/protobuf/proto"
	"pgregory.net/rapid"
	"verif/harness/vh"
)

type c09mOp struct {
	Kind   string `json:"kind"` // deliver | connect | age | sweep
	Secret int    `json:"secret,omitempty"`
	V4     bool   `json:"v4,omitempty"` // deliver: families the client supports; connect: family connected to (V6 = !V4)
	V6     bool   `json:"v6,omitempty"`
	DeltaS int64  `json:"delta_s,omitempty"`
}

type c09mCase struct {
	Ops []c09mOp `json:"ops"`
}

const c09mSubnets = `
[Networks]
    [Networks.957]
        Generation = 957
        [[Networks.957.WeightedSubnets]]
            Weight = 9
            Subnets = ["192.122.190.0/24", "2001:48a8:687f:1::/64"]
`

// c09mCounter counts the log lines with which a worker ends its handling of one registration.
type c09mCounter struct{ n atomic.Int64 }

func (c *c09mCounter) Write(p []byte) (int, error) {
	l := string(p)
	if strings.Contains(l, "Duplicate registration") || strings.Contains(l, "Adding registration") || strings.Contains(l, "Dropping reg") || strings.Contains(l, "error tracking registration") {
		c.n.Add(1)
	}
	return len(p), nil
}

func TestVerif_C09_messages(t *testing.T) {
	rec := vh.NewRec("C09", "messages", "rapid-generated histories of {registration message of secret s for a v4-only / v6-only / dual-stack client delivered through the real HandleRegUpdates (10 workers), connection on the IPv4 or IPv6 phantom, time passes, sweep} against a model per (secret, family): after every step the tracked set equals the model's and each (secret, family) was announced as New exactly once per lifetime; non-trivial = a re-delivery of a dual-stack message of which one family is still tracked and the other is not; distinct by history")
	defer rec.Flush()
	rec.Require("redelivery:one-family-known-other-not", "sweep-removes")
	if vh.ReplayFile() != "" && !strings.Contains(vh.ReplayFile(), "_messages_") {
		t.Skip("replay file belongs to another sub-check")
	}
	e := vNewEnv(t, nil, c09mSubnets)
	run := func(tf vh.Fataler, c c09mCase) {
		e.resetRegistry()
		rm := *e.rm
		conf := *e.rm.RegConfig
		conf.IngestWorkerCount = 10
		rm.RegConfig = &conf
		rm.RegistrationStats = newRegistrationStats()
		handled := &c09mCounter{}
		lg := log.New(handled, "", 0)
		lg.SetLevel(log.DebugLevel)
		rm.Logger = lg
		expectHandled := int64(0)
		in := make(chan interface{})
		ctx, cancel := context.WithCancel(context.Background())
		var wg sync.WaitGroup
		wg.Add(1)
		returned := make(chan struct{})
		go func() { rm.HandleRegUpdates(ctx, in, &wg); close(returned) }()
		defer func() {
			cancel()
			select {
			case <-returned:
			case <-time.After(30 * time.Second):
			}
		}()
		type ent struct {
			age   time.Duration
			used  bool
			lives int
			reg   *DecoyRegistration
		}
		model := map[string]*ent{}     // "s|v6" -> tracked entry
		lifetimes := map[string]int{}  // "s|v6" -> lifetimes started so far
		objs := map[string]*DecoyRegistration{}
		mk := func(s int, v6 bool) *DecoyRegistration {
			k := fmt.Sprintf("%d|%v", s, v6)
			if objs[k] == nil {
				w := vWrapper(vSecret(8000+s), pb.TransportType_Min, 0, "198.51.100.10:443", !v6, v6, 4, 957, pb.RegistrationSource_API, net.ParseIP("198.51.100.7").To4())
				reg, err := rm.NewRegistrationC2SWrapper(w, v6)
				if err != nil {
					tf.Fatalf("harness problem: %v", err)
				}
				objs[k] = reg
			}
			return objs[k]
		}
		news := func() map[string]int {
			out := map[string]int{}
			for _, a := range e.Anns() {
				if a.Op == "New" {
					out[a.Secret+"|"+a.Phantom]++
				}
			}
			return out
		}
		// agree reports the first difference between registry / announcements and the model
		agree := func() string {
			for k, reg := range objs {
				tracked, valid, used := VerifRegState(&rm, reg)
				m := model[k]
				switch {
				case m == nil && tracked:
					return fmt.Sprintf("registration %s is tracked, the model holds none", k)
				case m != nil && !tracked:
					return fmt.Sprintf("registration %s is not tracked (model: age %v, used=%v)", k, m.age, m.used)
				case m != nil && (!valid || used != m.used):
					return fmt.Sprintf("registration %s: valid=%v used=%v, model valid=true used=%v", k, valid, used, m.used)
				}
			}
			n := news()
			for k, reg := range objs {
				got := n[fmt.Sprintf("%x", reg.Keys.SharedSecret)+"|"+reg.PhantomIp.String()]
				if got != lifetimes[k] {
					return fmt.Sprintf("registration %s was announced as New %d times over %d lifetimes", k, got, lifetimes[k])
				}
			}
			return ""
		}
		classes := map[string]bool{}
		for step, o := range c.Ops {
			switch o.Kind {
			case "deliver":
				known, unknown := 0, 0
				for _, v6 := range []bool{false, true} {
					if (v6 && !o.V6) || (!v6 && !o.V4) {
						continue
					}
					k := fmt.Sprintf("%d|%v", o.Secret, v6)
					mk(o.Secret, v6)
					if model[k] == nil {
						unknown++
						lifetimes[k]++
						model[k] = &ent{lives: lifetimes[k]}
					} else {
						known++
					}
				}
				if known > 0 && unknown > 0 {
					classes["redelivery:one-family-known-other-not"] = true
				}
				w := vWrapper(vSecret(8000+o.Secret), pb.TransportType_Min, 0, "198.51.100.10:443", o.V4, o.V6, 4, 957, pb.RegistrationSource_API, net.ParseIP("198.51.100.7").To4())
				b, err := proto.Marshal(w)
				if err != nil {
					tf.Fatalf("harness problem: %v", err)
				}
				select {
				case in <- b:
				case <-time.After(20 * time.Second):
					tf.Fatalf("harness problem: the distributor did not take the message")
				}
				// a delivery of known registrations changes nothing that can be waited for in the
				// registry: wait for the workers' own account of having handled each registration of
				// the message (bounded; what is missing then shows in the comparison below)
				expectHandled += int64(known + unknown)
				for deadline := time.Now().Add(15 * time.Second); handled.n.Load() < expectHandled && time.Now().Before(deadline); time.Sleep(100 * time.Microsecond) {
				}
				expectHandled = handled.n.Load()
			case "connect":
				k := fmt.Sprintf("%d|%v", o.Secret, !o.V4)
				if m := model[k]; m != nil {
					reg := objs[k]
					id := rm.registeredDecoys.transports[reg.Transport].GetIdentifier(reg)
					if found, ok := rm.GetRegistrations(reg.PhantomIp)[id]; ok {
						rm.MarkActive(found.(*DecoyRegistration))
						m.used = true
						classes["connect"] = true
					}
				}
			case "age":
				e.vShiftAll(time.Duration(o.DeltaS) * time.Second)
				for _, m := range model {
					m.age += time.Duration(o.DeltaS) * time.Second
				}
			case "sweep":
				rm.RemoveOldRegistrations()
				for k, m := range model {
					if (!m.used && m.age > 10*time.Minute) || m.age > 6*time.Hour {
						delete(model, k)
						classes["sweep-removes"] = true
					}
				}
			}
			// the workers run on their own: wait until registry and model agree (only a
			// disagreement that persists is a finding)
			diff := ""
			for deadline := time.Now().Add(15 * time.Second); ; time.Sleep(200 * time.Microsecond) {
				if diff = agree(); diff == "" || time.Now().After(deadline) {
					break
				}
			}
			if diff != "" {
				var cl []string
				for k := range classes {
					cl = append(cl, k)
				}
				rec.Case(true, vh.Digest(c), c, cl...)
				key := "message-history:state"
				if strings.Contains(diff, "announced as New") {
					key = "message-history:announced-once-per-lifetime"
				} else if strings.Contains(diff, "tracked") {
					key = "message-history:tracked-set"
				}
				rec.Violation(tf, key, c, "step %d (%+v): %s - still so 15 s after the step", step, o, diff)
				return
			}
		}
		var cl []string
		for k := range classes {
			cl = append(cl, k)
		}
		sort.Strings(cl)
		rec.Case(classes["redelivery:one-family-known-other-not"], vh.Digest(c), c, cl...)
	}
	if p := vh.ReplayFile(); p != "" {
		var c c09mCase
		if _, _, err := vh.LoadReplay(p, &c); err != nil {
			t.Fatal(err)
		}
		run(t, c)
		return
	}
	// the history the sub-check exists for, then drawn ones
	run(t, c09mCase{Ops: []c09mOp{{Kind: "deliver", Secret: 1, V4: true, V6: true}, {Kind: "connect", Secret: 1, V4: true}, {Kind: "age", DeltaS: 660}, {Kind: "sweep"}, {Kind: "deliver", Secret: 1, V4: true, V6: true}, {Kind: "age", DeltaS: 660}, {Kind: "sweep"}}})
	run(t, c09mCase{Ops: []c09mOp{{Kind: "deliver", Secret: 2, V4: true}, {Kind: "deliver", Secret: 2, V4: true, V6: true}, {Kind: "deliver", Secret: 2, V6: true}}})
	rapid.Check(t, func(rt *rapid.T) {
		var c c09mCase
		n := rapid.IntRange(2, 14).Draw(rt, "n")
		for i := 0; i < n; i++ {
			k := rapid.SampledFrom([]string{"deliver", "deliver", "deliver", "connect", "age", "sweep"}).Draw(rt, "kind")
			o := c09mOp{Kind: k}
			switch k {
			case "deliver":
				o.Secret = rapid.IntRange(0, 2).Draw(rt, "secret")
				switch rapid.IntRange(0, 3).Draw(rt, "families") {
				case 0:
					o.V4 = true
				case 1:
					o.V6 = true
				default:
					o.V4, o.V6 = true, true
				}
			case "connect":
				o.Secret = rapid.IntRange(0, 2).Draw(rt, "secret")
				o.V4 = rapid.Bool().Draw(rt, "v4")
			case "age":
				o.DeltaS = rapid.SampledFrom([]int64{61, 360, 660, 3*3600 - 7, 6*3600 + 60}).Draw(rt, "delta")
			}
			c.Ops = append(c.Ops, o)
		}
		run(rt, c)
	})
}
