package lib

// C19 — configuration sub-checks: a generated configuration (TOML text in a temp file, loaded through
// the real ParseConfig via CJ_STATION_CONFIG) is either refused with an error or accepted; an
// accepted one (1) must have every configured list entry in force — an entry without any reading
// must have made the load fail — and (2) once the station has come up with it the way main.go
// brings it up (log level, liveness tester, NewRegistrationManager, ZMQ ingester object, ingest
// workers), every stats module's PrintAndReset, the Stats printer, RemoveOldRegistrations and a
// reload of the same file must not panic.

import (
	"context"
	"errors"
	"regexp"
	"sync/atomic"
	"unicode"
	"fmt"
	golog "log"
	"net"
	"os"
	"path/filepath"
	"encoding/binary"
	"runtime"
	"runtime/debug"
	"sort"
	"strings"
	"sync"
	"testing"
	"time"

	"github.com/refraction-networking/conjure/pkg/station/liveness"
	"github.com/refraction-networking/conjure/pkg/station/log"
	"github.com/refraction-networking/conjure/pkg/transports/wrapping/min"
	"github.com/refraction-networking/conjure/pkg/transports/wrapping/obfs4"
	"github.com/refraction-networking/conjure/pkg/transports/wrapping/prefix"
	pb "github.com/refraction-networking/conjure/proto"
	"google.golang.org/protobuf/proto"
	"pgregory.net/rapid"
	"verif/harness/vh"
)

// c19Ctx is the per-test fixture: fixed file locations (the station reads its configuration and
// its phantom subnets from paths given by environment variables that never change while it runs).
type c19Ctx struct {
	dir        string
	confPath   string
	subnetPath string
	local      []*net.IPNet
	shipped    string
	prefixTp   Transport
}

// c19DNSQuestions counts attempts to reach a name server. The C19 checks run with a resolver whose
// dialer refuses: names resolve through /etc/hosts or not at all, and no packet leaves the process.
var c19DNSQuestions int64

func c19NoDNS(tb testing.TB) {
	old := net.DefaultResolver
	net.DefaultResolver = &net.Resolver{PreferGo: true, Dial: func(ctx context.Context, network, address string) (net.Conn, error) {
		atomic.AddInt64(&c19DNSQuestions, 1)
		return nil, errors.New("c19: no name server in this check")
	}}
	tb.Cleanup(func() { net.DefaultResolver = old })
}

func c19NewCtx(tb testing.TB) *c19Ctx {
	tb.Helper()
	c19NoDNS(tb)
	dir := tb.TempDir()
	x := &c19Ctx{dir: dir, confPath: filepath.Join(dir, "app_config.toml"), subnetPath: filepath.Join(dir, "phantom_subnets.toml"), local: c19LocalNets()}
	s, err := c19ShippedText()
	if err != nil {
		tb.Fatalf("harness problem: cannot read the shipped app_config.toml: %v", err)
	}
	x.shipped = s
	for _, d := range append(append([]c19Dom(nil), c19DomOk...), c19DomWs...) {
		if d.Host == "" {
			continue
		}
		if re, err := regexp.Compile(d.Text); err != nil || !re.MatchString(d.Host) {
			tb.Fatalf("harness problem: pool pattern %q does not match its host %q (%v)", d.Text, d.Host, err)
		}
	}
	if err := c19EnsureGeoFiles(); err != nil {
		tb.Fatalf("harness problem: %v", err)
	}
	os.Setenv("CJ_STATION_CONFIG", x.confPath)
	os.Setenv("PHANTOM_SUBNET_LOCATION", x.subnetPath)
	if err := os.WriteFile(x.subnetPath, []byte(vDefaultSubnets), 0o644); err != nil {
		tb.Fatalf("harness problem: %v", err)
	}
	var priv [32]byte
	for i := range priv {
		priv[i] = byte(i*7 + 1)
	}
	priv[0] &= 248
	priv[31] &= 127
	priv[31] |= 64
	pt, err := prefix.Default([][32]byte{priv})
	if err != nil {
		tb.Fatalf("harness problem: prefix.Default: %v", err)
	}
	x.prefixTp = pt
	return x
}

// c19Panic describes a recovered panic.
type c19Panic struct {
	Val   string
	Stack string
}

func c19Recover(f func()) (p *c19Panic) {
	defer func() {
		if r := recover(); r != nil {
			p = &c19Panic{Val: fmt.Sprint(r), Stack: string(debug.Stack())}
		}
	}()
	f()
	return nil
}

// c19PanicCause names the root cause of a panic inside ParseConfig.
func c19PanicCause(p *c19Panic) string {
	switch {
	case strings.Contains(p.Val, "regexp"):
		return "bad-regexp"
	case strings.Contains(p.Val, "nil pointer"):
		return "nil-deref"
	case strings.Contains(p.Val, "divide by zero"):
		return "div-zero"
	}
	return "other"
}

func c19ShortStack(p *c19Panic) string {
	// the first frames of the code under test below the panic (file:line)
	var out []string
	seenPanic := false
	for _, ln := range strings.Split(p.Stack, "\n") {
		if strings.HasPrefix(ln, "panic(") {
			seenPanic = true
			continue
		}
		if !seenPanic || !strings.HasPrefix(ln, "\t") || !strings.Contains(ln, ".go:") {
			continue
		}
		if strings.Contains(ln, "zz_verif") || strings.Contains(ln, "/src/runtime/") || strings.Contains(ln, "/src/testing/") {
			continue
		}
		f := strings.TrimSpace(ln)
		if i := strings.Index(f, " +0x"); i > 0 {
			f = f[:i]
		}
		f = strings.TrimPrefix(f, c19RepoDir()+"/")
		out = append(out, f)
		if len(out) == 2 {
			break
		}
	}
	return strings.Join(out, " <- ")
}

// c19Load runs the real ParseConfig on the file currently at the configured path.
func c19Load() (conf *Config, err error, p *c19Panic) {
	p = c19Recover(func() { conf, err = ParseConfig() })
	return
}

// c19Result collects the classes of one run. Violations are handed to report, which does not return
// for a violation that is not a listed known finding (the test fails there); when it returns, the
// finding is known and the run carries on behind it where that is meaningful. harness != "" is a
// harness problem (never a violation).
type c19Result struct {
	classes map[string]bool
	report  func(key, msg string)
	harness string
}

func (r *c19Result) class(c string) { r.classes[c] = true }

// c19Enforced checks that every configured list entry of the accepted configuration conf is in
// force. Returns (key, message) of the first violation.
func c19Enforced(x *c19Ctx, c c19Conf, conf *RegConfig, res *c19Result) (string, string) {
	pol := c19BuildPolicy(c)
	if k, e, bad := pol.anyUnreadable(); bad {
		more := ""
		if _, a, b := c.cutPairs(); k == "covert_blocklist_domains" && a == e {
			more = fmt.Sprintf(" (the entry is a pattern only when read together with the later entry %q; every entry is a pattern of its own)", b)
		}
		return "dropped:" + k, fmt.Sprintf("the configuration was accepted although %s entry %q cannot be parsed: the load must fail instead of dropping the entry%s", k, e, more)
	}
	// how the entry and the probe address are written (an IPv4 range / address in IPv4-mapped IPv6
	// notation is the same range / address)
	notation := func(base string, n *net.IPNet, ip net.IP) {
		res.class(base)
		if c19MappedNet(n) {
			res.class(base + ":v4-entry-in-v6-notation")
		} else if c19MappedForm(ip) {
			res.class(base + ":v4-address-in-v6-notation")
		}
	}
	if pol.anyRepaired() {
		res.class("accepted-with-stray-whitespace-entry")
	}
	refusedCovert := func(ip net.IP) (bool, *c19Panic) {
		var out string
		p := c19Recover(func() { out, _ = conf.ParseOrResolveBlocklisted(c19HostPort(ip)) })
		return out == "", p
	}
	// blocklist entries
	if l := c.list("covert_blocklist_subnets"); l != nil {
		for _, e := range l.Entries {
			n, _, _ := c19ReadCIDR(e.Text)
			for _, ip := range c19Probes(n) {
				if pol.AllowConfigured && c19In(pol.Allow, ip) {
					continue // the allowlist documents that it takes precedence
				}
				ref, p := refusedCovert(ip)
				if p != nil {
					return "panic:policy", fmt.Sprintf("ParseOrResolveBlocklisted(%s) panicked: %s", c19HostPort(ip), p.Val)
				}
				notation("enforced-blocklist-probe", n, ip)
				if !ref {
					return "dropped:covert_blocklist_subnets", fmt.Sprintf("covert_blocklist_subnets entry %q of an accepted configuration is not enforced: covert %s (inside it) is not refused", e.Text, c19HostPort(ip))
				}
			}
		}
	}
	// allowlist entries
	if l := c.list("covert_allowlist_subnets"); l != nil && len(l.Entries) > 0 {
		for _, e := range l.Entries {
			n, _, _ := c19ReadCIDR(e.Text)
			for _, ip := range c19Probes(n) {
				if pol.domainMaybeRefused(c19Host(ip)) {
					continue
				}
				ref, p := refusedCovert(ip)
				if p != nil {
					return "panic:policy", fmt.Sprintf("ParseOrResolveBlocklisted(%s) panicked: %s", c19HostPort(ip), p.Val)
				}
				notation("enforced-allowlist-probe", n, ip)
				if ref {
					return "dropped:covert_allowlist_subnets", fmt.Sprintf("covert_allowlist_subnets entry %q of an accepted configuration is not enforced: covert %s (inside it) is refused", e.Text, c19HostPort(ip))
				}
			}
		}
		// an allowlist is in force: everything outside it is refused
		var outside []net.IP
		for _, s := range []string{"203.0.113.200", "2001:db8:ffff:ffff::1", "198.18.77.1", "8.8.8.8"} {
			outside = append(outside, c19Forms(net.ParseIP(s))...)
		}
		for _, ip := range outside {
			if c19In(pol.Allow, ip) {
				continue
			}
			ref, p := refusedCovert(ip)
			if p != nil {
				return "panic:policy", fmt.Sprintf("ParseOrResolveBlocklisted(%s) panicked: %s", c19HostPort(ip), p.Val)
			}
			res.class("enforced-allowlist-outside-probe")
			if !ref {
				return "dropped:covert_allowlist_subnets", fmt.Sprintf("covert_allowlist_subnets %v is configured in an accepted configuration but not in force: covert %s (outside every entry) is not refused", c19Texts(l.Entries), c19HostPort(ip))
			}
		}
	}
	// phantom blocklist entries
	if l := c.list("phantom_blocklist"); l != nil {
		for _, e := range l.Entries {
			n, _, _ := c19ReadCIDR(e.Text)
			for _, ip := range c19Probes(n) {
				var ref bool
				if p := c19Recover(func() { ref = conf.IsBlocklistedPhantom(ip) }); p != nil {
					return "panic:policy", fmt.Sprintf("IsBlocklistedPhantom(%s) panicked: %s", ip, p.Val)
				}
				notation("enforced-phantom-probe", n, ip)
				if !ref {
					return "dropped:phantom_blocklist", fmt.Sprintf("phantom_blocklist entry %q of an accepted configuration is not enforced: phantom %s (inside it) is not refused", e.Text, ip)
				}
			}
		}
	}
	// domain patterns: the oracle is Go's regexp package applied to the entry as written. Hosts the
	// pattern matches must be refused before any resolution; hosts that no configured pattern matches
	// (in either case reading) must not be refused by the domain policy.
	if l := c.list("covert_blocklist_domains"); l != nil {
		hasUpper := func(h string) bool { return strings.IndexFunc(h, unicode.IsUpper) >= 0 }
		for _, e := range l.Entries {
			re, err := regexp.Compile(e.Text)
			if err != nil {
				continue // unreadable entries were dealt with above
			}
			matched, negViaPublic := false, false
			for _, h := range c19DomCandidates(e) {
				hp := net.JoinHostPort(h, "443")
				isIP := net.ParseIP(h) != nil
				if re.MatchString(h) {
					matched = true
					var ref bool
					if p := c19Recover(func() { ref = conf.isBlocklistedCovertDomain(h) }); p != nil {
						return "panic:policy", fmt.Sprintf("isBlocklistedCovertDomain(%q) panicked: %s", h, p.Val)
					}
					res.class("enforced-domain-probe")
					if hasUpper(h) {
						res.class("enforced-domain-probe:mixed-case-host")
					}
					if !ref {
						return "dropped:covert_blocklist_domains", fmt.Sprintf("covert_blocklist_domains entry %q of an accepted configuration is not enforced: host %q matches it (regexp.MatchString) but is not refused", e.Text, h)
					}
					// refused before any resolution happens: no DNS question, no lookup reported
					var out string
					var lookup bool
					q0 := atomic.LoadInt64(&c19DNSQuestions)
					if p := c19Recover(func() { out, lookup = conf.ParseOrResolveBlocklisted(hp) }); p != nil {
						return "panic:policy", fmt.Sprintf("ParseOrResolveBlocklisted(%q) panicked: %s", hp, p.Val)
					}
					if out != "" || lookup || atomic.LoadInt64(&c19DNSQuestions) != q0 {
						return "dropped:covert_blocklist_domains", fmt.Sprintf("covert_blocklist_domains entry %q of an accepted configuration is not enforced: covert %q matches it but ParseOrResolveBlocklisted went on to resolve it (result %q, lookup=%v, DNS questions %d)", e.Text, hp, out, lookup, atomic.LoadInt64(&c19DNSQuestions)-q0)
					}
					continue
				}
				if isIP || pol.domainMaybeRefused(h) {
					continue
				}
				var ref bool
				if p := c19Recover(func() { ref = conf.isBlocklistedCovertDomain(h) }); p != nil {
					return "panic:policy", fmt.Sprintf("isBlocklistedCovertDomain(%q) panicked: %s", h, p.Val)
				}
				res.class("domain-nonmatching-probe")
				if ref {
					return "domain:refuses-nonmatching", fmt.Sprintf("host %q matches none of the configured covert_blocklist_domains %q (in neither case reading) but the domain policy refuses it", h, c19Texts(l.Entries))
				}
				if !negViaPublic {
					// once per entry through the public function: it must get as far as resolving the name
					negViaPublic = true
					var out string
					var lookup bool
					if p := c19Recover(func() { out, lookup = conf.ParseOrResolveBlocklisted(hp) }); p != nil {
						return "panic:policy", fmt.Sprintf("ParseOrResolveBlocklisted(%q) panicked: %s", hp, p.Val)
					}
					if out == "" && !lookup {
						return "domain:refuses-nonmatching", fmt.Sprintf("covert %q matches none of the configured covert_blocklist_domains %q but ParseOrResolveBlocklisted refuses it before resolving", hp, c19Texts(l.Entries))
					}
				}
			}
			if !matched {
				res.class("domain-pattern-without-known-match")
			}
		}
	}
	return "", ""
}

func c19Texts(es []c19Entry) []string {
	var out []string
	for _, e := range es {
		out = append(out, e.Text)
	}
	return out
}

// c19Station is a station brought up the way main.go does it, minus sockets.
type c19Station struct {
	annMu    sync.Mutex
	anns     []string // phantoms announced to the detector (New or Update)
	rm       *RegistrationManager
	realLive liveness.Tester
	zmq      *ZMQIngester
	logs     *vSyncBuf
	stLogger *log.Logger
	cancel   context.CancelFunc
	regChan  chan interface{}
	done     chan *c19Panic
	started  bool
}

// c19PreStart, when set, is called on the station after it is assembled and before its ingest
// workers start (the place to replace loggers / the liveness tester without racing with workers).
var c19PreStart func(st *c19Station)

// c19BringUp mirrors main.go between ParseConfig and the signal loop. It returns a class naming the
// start-up stage that refused the configuration ("" when the station is up), or a violation key.
func c19BringUp(x *c19Ctx, conf *Config, withIngest bool) (st *c19Station, rejected string, key string, msg string) {
	// main.go: log level
	if conf.LogLevel != "" {
		lvl, err := log.ParseLevel(conf.LogLevel)
		if err != nil || lvl == log.UnknownLevel {
			return nil, "rejected:startup-loglevel", "", ""
		}
	}
	if conf.RegConfig == nil {
		// NewRegistrationManager(nil) returns nil; main.go cannot continue
		return nil, "rejected:startup-regmanager", "", ""
	}
	// NewRegistrationManager calls logger.Fatal (os.Exit) when the liveness configuration is
	// refused: find that out first with the same constructor.
	var lerr error
	if p := c19Recover(func() { _, lerr = liveness.New(conf.RegConfig.LivenessConfig()) }); p != nil {
		return nil, "", "panic:liveness-new", fmt.Sprintf("liveness.New panicked: %s [%s]", p.Val, c19ShortStack(p))
	}
	if lerr != nil {
		return nil, "rejected:startup-liveness", "", ""
	}
	var rm *RegistrationManager
	if p := c19Recover(func() { rm = NewRegistrationManager(conf.RegConfig) }); p != nil {
		return nil, "", "panic:new-regmanager", fmt.Sprintf("NewRegistrationManager panicked: %s [%s]", p.Val, c19ShortStack(p))
	}
	if rm == nil {
		return nil, "rejected:startup-regmanager", "", ""
	}
	st = &c19Station{rm: rm, realLive: rm.LivenessTester, logs: &vSyncBuf{}}
	rm.Logger = log.New(st.logs, "[REG] ", golog.Ldate|golog.Lmicroseconds)
	rm.Logger.SetLevel(log.TraceLevel)
	st.stLogger = log.New(st.logs, "[STATS] ", golog.Ldate|golog.Lmicroseconds)
	st.stLogger.SetLevel(log.TraceLevel)
	_ = rm.AddTransport(pb.TransportType_Min, min.Transport{})
	_ = rm.AddTransport(pb.TransportType_Obfs4, obfs4.Transport{})
	_ = rm.AddTransport(pb.TransportType_Prefix, x.prefixTp)
	note := func(d *DecoyRegistration) {
		st.annMu.Lock()
		st.anns = append(st.anns, d.PhantomIp.String())
		st.annMu.Unlock()
	}
	rm.registeredDecoys.registerForDetector = note
	rm.registeredDecoys.updateInDetector = note

	st.regChan = make(chan interface{})
	var zerr error
	var key32 [32]byte
	for i := range key32 {
		key32[i] = byte(3*i + 1)
	}
	if p := c19Recover(func() { st.zmq, zerr = NewZMQIngest("ipc://@c19-unused", st.regChan, key32, conf.ZMQConfig) }); p != nil {
		return nil, "", "panic:new-zmq", fmt.Sprintf("NewZMQIngest panicked: %s [%s]", p.Val, c19ShortStack(p))
	}
	if zerr != nil {
		st.zmq = nil
	}
	if c19PreStart != nil {
		c19PreStart(st)
	}
	if !withIngest {
		return st, "", "", ""
	}
	// main.go: go regManager.HandleRegUpdates(ctx, regChan, wg) — this is where ingest_worker_count
	// takes effect and where the registration manager learns the buffer it reports on.
	ctx, cancel := context.WithCancel(context.Background())
	st.cancel = cancel
	st.done = make(chan *c19Panic, 1)
	wg := new(sync.WaitGroup)
	wg.Add(1)
	go func() {
		st.done <- c19Recover(func() { rm.HandleRegUpdates(ctx, st.regChan, wg) })
	}()
	// one undecodable message: when the send completes the distributor is running (and has
	// published its buffer); the message itself is dropped or rejected by a worker.
	select {
	case st.regChan <- []byte{0xff, 0xff, 0xff}:
		st.started = true
	case p := <-st.done:
		cancel()
		if p != nil {
			return nil, "rejected:startup-ingest-panic", "", fmt.Sprintf("HandleRegUpdates panicked at start-up: %s", p.Val)
		}
		return nil, "", "harness", "HandleRegUpdates returned before its channel was closed"
	case <-time.After(60 * time.Second):
		cancel()
		return nil, "", "harness", "HandleRegUpdates did not take a message within 60 s"
	}
	return st, "", "", ""
}

func (st *c19Station) shutdown() string {
	if st == nil || st.cancel == nil {
		return ""
	}
	st.cancel()
	close(st.regChan)
	select {
	case p := <-st.done:
		if p != nil {
			return "HandleRegUpdates panicked at shutdown: " + p.Val
		}
	case <-time.After(60 * time.Second):
		return "HandleRegUpdates did not stop within 60 s"
	}
	return ""
}

// housekeeping runs every stats module the way Stats.PrintStats does, module by module so that a
// panic is attributed, then the real Stats printer over the modules that survived.
func (st *c19Station) housekeeping(stage string, report func(key, msg string)) {
	type mod struct {
		name string
		m    stats
	}
	var mods []mod
	if st.zmq != nil {
		mods = append(mods, mod{"zmq-printstats", st.zmq})
	}
	mods = append(mods, mod{"liveness-printstats", st.realLive}, mod{"proxy-printstats", GetProxyStats()}, mod{"regmanager-printstats", st.rm})
	s := &Stats{logger: st.stLogger, generations: make(map[uint32]int64), genMutex: &sync.Mutex{}}
	for _, m := range mods {
		m := m
		if p := c19Recover(func() { m.m.PrintAndReset(st.stLogger) }); p != nil {
			report("panic:"+m.name, fmt.Sprintf("%s: PrintAndReset of the %s module panicked: %s [%s]", stage, strings.TrimSuffix(m.name, "-printstats"), p.Val, c19ShortStack(p)))
			continue
		}
		s.AddStatsModule(m.m, false)
		if m.name == "liveness-printstats" {
			if p := c19Recover(func() { st.realLive.PrintStats(st.stLogger) }); p != nil {
				report("panic:liveness-printstats", fmt.Sprintf("%s: PrintStats of the liveness module panicked: %s [%s]", stage, p.Val, c19ShortStack(p)))
			}
		}
	}
	if p := c19Recover(func() { s.PrintStats(false); s.PrintStats(true); s.ResetAll() }); p != nil {
		report("panic:stats-print", fmt.Sprintf("%s: Stats.PrintStats panicked: %s [%s]", stage, p.Val, c19ShortStack(p)))
	}
}

var c19TT = []pb.TransportType{pb.TransportType_Min, pb.TransportType_Prefix, pb.TransportType_Obfs4}

var c19Sources = []pb.RegistrationSource{pb.RegistrationSource_API, pb.RegistrationSource_DetectorPrescan, pb.RegistrationSource_Detector}

// ingest feeds registrations through the real parse + ingest path (liveness probing replaced by a
// scripted tester for the duration, so that no packet is sent).
func (st *c19Station) ingest(regs []c19RegSpec, res *c19Result) {
	stub := &vTester{}
	st.rm.LivenessTester = stub
	defer func() { st.rm.LivenessTester = st.realLive }()
	for _, r := range regs {
		src := c19Sources[r.Src%3]
		if src == pb.RegistrationSource_Detector && st.rm.EnableShareOverAPI {
			src = pb.RegistrationSource_API // the share path posts to the network from a goroutine
		}
		w := vWrapper(vSecret(100+r.Secret), c19TT[r.TT%3], 0, r.Covert, !r.V6, r.V6, r.LibVer, r.Gen, src, net.ParseIP("198.51.100.7").To4())
		b, err := proto.Marshal(w)
		if err != nil {
			continue
		}
		p := c19Recover(func() {
			parsedRegs, err := st.rm.parseRegMessage(b)
			if err != nil {
				return
			}
			for _, reg := range parsedRegs {
				if reg != nil {
					st.rm.ingestRegistration(reg)
				}
			}
		})
		if p != nil {
			res.class("ingest-panicked-not-judged")
		}
	}
	if st.rm.registeredDecoys.TotalRegistrations() > 0 {
		res.class("registry-non-empty")
	}
}

var c19AllSources = []pb.RegistrationSource{pb.RegistrationSource_Unspecified, pb.RegistrationSource_Detector, pb.RegistrationSource_API,
	pb.RegistrationSource_DetectorPrescan, pb.RegistrationSource_BidirectionalAPI, pb.RegistrationSource_DNS, pb.RegistrationSource_BidirectionalDNS}

var c19ProbeSecret int64

// phantomIngestProbes: the phantom blocklist enforced where it matters. For every phantom_blocklist
// entry a registration on a phantom inside it (the registrar's phantom override, applied by the real
// NewRegistrationC2SWrapper) is ingested through the real ingestRegistration for EVERY registration
// source x prescanned flag with the configuration's own share setting, and for the Detector source
// also with the other share setting (peer endpoint that refuses). Whatever the source, it must never
// become valid or be announced to the detector. A control registration on a phantom in no entry shows
// that the same registration does become valid otherwise.
func (st *c19Station) phantomIngestProbes(x *c19Ctx, c c19Conf, res *c19Result) {
	l := c.list("phantom_blocklist")
	if l == nil || len(l.Entries) == 0 {
		return
	}
	pol := c19BuildPolicy(c)
	covert := c19AllowedCovert(x, pol)
	stub := &vTester{}
	st.rm.LivenessTester = stub
	defer func() { st.rm.LivenessTester = st.realLive }()
	share0, ep0 := st.rm.EnableShareOverAPI, st.rm.PreshareEndpoint
	defer func() { st.rm.EnableShareOverAPI, st.rm.PreshareEndpoint = share0, ep0 }()
	baseG := runtime.NumGoroutine()
	regAddr := net.ParseIP("198.51.100.7").To4()

	// returns (built, valid-or-announced)
	try := func(ip net.IP, src pb.RegistrationSource, prescanned bool) (bool, bool, *c19Panic) {
		v6 := ip.To4() == nil
		w := vWrapper(vSecret(20000+int(atomic.AddInt64(&c19ProbeSecret, 1))), pb.TransportType_Min, 0, covert, !v6, v6, 4, 957, src, regAddr)
		w.RegistrationPayload.Flags = &pb.RegistrationFlags{Prescanned: proto.Bool(prescanned)}
		rr := &pb.RegistrationResponse{}
		if v6 {
			rr.Ipv6Addr = append([]byte(nil), ip.To16()...)
		} else {
			rr.Ipv4Addr = proto.Uint32(binary.BigEndian.Uint32(ip.To4()))
		}
		w.RegistrationResponse = rr
		built, bad := false, false
		p := c19Recover(func() {
			reg, err := st.rm.NewRegistrationC2SWrapper(w, v6)
			if err != nil || reg == nil || !reg.PhantomIp.Equal(ip) {
				return
			}
			built = true
			st.annMu.Lock()
			n0 := len(st.anns)
			st.annMu.Unlock()
			st.rm.ingestRegistration(reg)
			st.annMu.Lock()
			for _, a := range st.anns[n0:] {
				if a == ip.String() {
					bad = true
				}
			}
			st.annMu.Unlock()
			r := st.rm.registeredDecoys
			r.m.RLock()
			for _, d := range r.decoys[ip.String()] {
				if d.Valid {
					bad = true
				}
			}
			r.m.RUnlock()
		})
		return built, bad, p
	}
	// control: the same registration on a phantom outside every entry becomes valid
	controlOK := false
	for _, s := range []string{"192.122.190.77", "141.219.7.7", "2001:48a8:687f:1::77"} {
		ip := net.ParseIP(s)
		if c19In(pol.Phantom, ip) {
			continue
		}
		if built, valid, p := try(ip, pb.RegistrationSource_Detector, false); p == nil && built && valid {
			controlOK = true
			break
		}
	}
	if controlOK {
		res.class("phantom-ingest-control-valid")
	}
	for _, e := range l.Entries {
		n, _, ok := c19ReadCIDR(e.Text)
		if !ok {
			continue
		}
		ip := c19Probes(n)[0]
		for _, src := range c19AllSources {
			shares := []bool{share0}
			if src == pb.RegistrationSource_Detector {
				shares = []bool{share0, !share0}
			}
			for _, share := range shares {
				st.rm.EnableShareOverAPI = share
				st.rm.PreshareEndpoint = ep0
				if share && ep0 == "" {
					st.rm.PreshareEndpoint = "http://127.0.0.1:9/c19-peer-refuses"
				}
				for _, pre := range []bool{false, true} {
					built, bad, p := try(ip, src, pre)
					if p != nil {
						res.report("panic:after-reload:registration", fmt.Sprintf("ingesting a well-formed registration (source %v) panicked: %s [%s]", src, p.Val, c19ShortStack(p)))
						continue
					}
					if !built {
						continue
					}
					if controlOK {
						res.class("enforced-phantom-ingest-probe")
						if src == pb.RegistrationSource_Detector {
							res.class("enforced-phantom-ingest-probe:detector")
						}
					}
					if bad {
						res.report("unenforced:phantom_blocklist:ingest", fmt.Sprintf("phantom_blocklist entry %q of an accepted configuration is not enforced at ingest: a registration with source %v (prescanned=%v, enable_share_over_api=%v) on phantom %s, which is inside the entry, became valid / was announced to the detector", e.Text, src, pre, share, ip))
					}
				}
			}
		}
	}
	st.rm.EnableShareOverAPI, st.rm.PreshareEndpoint = share0, ep0
	// share attempts run in their own goroutines (the peer refuses at once): let them finish
	for i := 0; i < 2000 && runtime.NumGoroutine() > baseG; i++ {
		time.Sleep(time.Millisecond)
	}
}

func (st *c19Station) age(d time.Duration) {
	r := st.rm.registeredDecoys
	r.m.Lock()
	for _, to := range r.decoysTimeouts {
		to.registrationTime = to.registrationTime.Add(-d)
	}
	r.m.Unlock()
}

func c19LiveClass(conf *RegConfig) string {
	lc := conf.LivenessConfig()
	switch {
	case lc.CacheDuration == "" && lc.CacheDurationNonLive == "":
		return "live-cache:none"
	case lc.CacheDurationNonLive == "":
		return "live-cache:live-only"
	case lc.CacheDuration == "":
		return "live-cache:nonlive-only"
	}
	return "live-cache:both"
}

// c19RunConfig evaluates one configuration case.
func c19RunConfig(x *c19Ctx, c c19ConfigCase, res *c19Result) {
	conf := c.Conf
	text, err := conf.Render()
	if err != nil {
		res.harness = err.Error()
		return
	}
	if conf.Verbatim {
		sc, err := c19FromTOML(text)
		if err != nil {
			res.harness = "shipped file does not decode: " + err.Error()
			return
		}
		sc.Verbatim = true
		conf = sc
		res.class("shipped-file")
	}
	if err := os.WriteFile(x.confPath, []byte(text), 0o644); err != nil {
		res.harness = err.Error()
		return
	}
	if err := os.WriteFile(x.subnetPath, []byte(vDefaultSubnets), 0o644); err != nil {
		res.harness = err.Error()
		return
	}
	if cl, _, _ := conf.cutPairs(); len(cl) > 0 {
		for _, k := range cl {
			res.class(k)
		}
	}
	parsed, perr, pp := c19Load()
	if pp != nil {
		res.class("parseconfig-panicked")
		res.report("panic:parseconfig:"+c19PanicCause(pp), fmt.Sprintf("ParseConfig panicked instead of returning an error: %s [%s]", pp.Val, c19ShortStack(pp)))
		return
	}
	if perr != nil {
		res.class("rejected:parse")
		return
	}
	if conf.tomlMalformed() {
		res.class("accepted-although-toml-malformed")
		res.report("malformed-accepted", "ParseConfig accepted a file that is not valid TOML for the configuration's types")
		return
	}
	res.class("accepted-by-parseconfig")
	if parsed.RegConfig == nil {
		res.class("rejected:startup-regmanager")
		return
	}
	// (2) every list entry is in force
	if k, m := c19Enforced(x, conf, parsed.RegConfig, res); k != "" {
		res.report(k, m)
	}
	// (1) housekeeping never panics once the station is up
	st, rejected, key, msg := c19BringUp(x, parsed, true)
	if key == "harness" {
		res.harness = msg
		return
	}
	if key != "" {
		res.report(key, msg)
		return
	}
	if rejected != "" {
		res.class(rejected)
		if msg != "" {
			res.class("note:" + msg)
		}
		return
	}
	defer func() {
		if m := st.shutdown(); m != "" && res.harness == "" {
			res.harness = m
		}
	}()
	res.class("accepted")
	res.class(c19LiveClass(parsed.RegConfig))
	lc := parsed.RegConfig.LivenessConfig()
	if (lc.CacheDuration != "" && lc.CacheCapacity != 0) || (lc.CacheDurationNonLive != "" && lc.CacheCapacityNonLive != 0) {
		res.class("live-cache:bounded")
	}
	if cap(st.rm.ingestChan) == 0 {
		res.class("ingest-buffer:zero-capacity")
	} else {
		res.class("ingest-buffer:positive-capacity")
	}
	st.housekeeping("fresh station", res.report)
	st.ingest(c.Regs, res)
	st.phantomIngestProbes(x, conf, res)
	st.housekeeping("after ingest", res.report)
	for _, d := range []time.Duration{11 * time.Minute, 7 * time.Hour} {
		st.age(d)
		if p := c19Recover(func() { st.rm.RemoveOldRegistrations() }); p != nil {
			res.report("panic:remove-old", fmt.Sprintf("RemoveOldRegistrations panicked: %s [%s]", p.Val, c19ShortStack(p)))
		}
		st.housekeeping("after expiry sweep", res.report)
	}
	if st.rm.registeredDecoys.TotalRegistrations() != 0 {
		res.class("sweep-left-registrations") // C08 territory, not judged here
	}
	// SIGHUP with the same file: ParseConfig; on success OnReload
	again, aerr, ap := c19Load()
	if ap != nil || aerr != nil {
		res.report("reload:same-file-not-accepted", fmt.Sprintf("the file accepted at start-up is not accepted on reload: err=%v panic=%v", aerr, ap))
		return
	}
	if p := c19Recover(func() { st.rm.OnReload(again.RegConfig) }); p != nil {
		res.report("panic:onreload", fmt.Sprintf("OnReload panicked: %s [%s]", p.Val, c19ShortStack(p)))
		return
	}
	if k, m := c19Enforced(x, conf, st.rm.RegConfig, res); k != "" {
		res.report(k, "after a reload of the same file: "+m)
	}
	st.useGeoIP("after a reload of the same file", 50, res)
	st.housekeeping("after reload", res.report)
}

func c19CheckConfig(t vh.Fataler, rec *vh.Rec, x *c19Ctx, c c19ConfigCase) {
	res := &c19Result{classes: map[string]bool{}}
	recorded := false
	record := func() {
		if recorded {
			return
		}
		recorded = true
		var classes []string
		for k := range res.classes {
			if strings.HasPrefix(k, "note:") {
				rec.Note("%s", strings.TrimPrefix(k, "note:"))
				continue
			}
			classes = append(classes, k)
		}
		sort.Strings(classes)
		nontriv := true
		if c.Conf.Verbatim {
			nontriv = false
		} else if text, err := c.Conf.Render(); err == nil && c19SameAsShipped(text, x.shipped) {
			nontriv = false
		}
		rec.Case(nontriv, vh.Digest(c), c, classes...)
	}
	defer record()
	res.report = func(key, msg string) {
		if _, known := vh.IsKnown(rec.Prop, key); !known {
			record() // the test ends inside rec.Violation
		}
		text, _ := c.Conf.Render()
		if len(text) > 1500 {
			text = text[:1500] + "..."
		}
		rec.Violation(t, key, c, "%s\n--- configuration (%s) ---\n%s", msg, c.Conf.Note, text)
	}
	c19RunConfig(x, c, res)
	if res.harness != "" {
		record()
		t.Fatalf("harness problem: %s", res.harness)
	}
}

// TestVerif_C19_shipped: the shipped configuration itself, and every configuration that differs
// from it in exactly one optional key (all alternatives of that key), exhaustively.
func TestVerif_C19_shipped(t *testing.T) {
	rec := vh.NewRec("C19", "shipped", "the shipped cmd/application/app_config.toml byte for byte, then every configuration differing from it in exactly one optional key: each scalar key x each of its alternatives {unset, zero, set values, unusable value, wrong TOML type}, each list key x {unset, empty, every pool entry alone (valid / stray whitespace / unparseable; subnets in every notation net.ParseCIDR reads, IPv4 ranges also as IPv4-mapped IPv6), shipped entries + one more}, the domain list x every ordered pair over the unreadable pool and a pool of pattern halves; every subnet entry probed with addresses in both forms (dotted / ::ffff:a.b.c.d, 4-byte / 16-byte); loaded through ParseConfig from a temp file; non-trivial = differs from the shipped file in >= 1 key; distinct by configuration")
	defer rec.Flush()
	rec.Require("shipped-file", "rejected:parse",
		"enforced-blocklist-probe:v4-entry-in-v6-notation", "enforced-allowlist-probe:v4-entry-in-v6-notation", "enforced-phantom-probe:v4-entry-in-v6-notation",
		"enforced-blocklist-probe:v4-address-in-v6-notation", "enforced-allowlist-probe:v4-address-in-v6-notation", "enforced-phantom-probe:v4-address-in-v6-notation",
		"unreadable-domain-entry-completed-by-later-entry:missing-paren", "unreadable-domain-entry-completed-by-later-entry:missing-bracket",
		"unreadable-domain-entry-completed-by-later-entry:trailing-backslash", "two-unreadable-domain-entries-forming-one-pattern")
	x := c19NewCtx(t)
	if p := vh.ReplayFile(); p != "" {
		var c c19ConfigCase
		if _, _, err := vh.LoadReplay(p, &c); err != nil {
			t.Fatal(err)
		}
		c19CheckConfig(t, rec, x, c)
		return
	}
	rec.SetExhaustive(true)
	idx := 0
	run := func(c c19ConfigCase) {
		idx++
		if vh.Mine(idx) {
			c19CheckConfig(t, rec, x, c)
		}
	}
	regs := []c19RegSpec{{Secret: 1, TT: 0, Gen: 957, Covert: "192.0.2.200:443", LibVer: 4}, {Secret: 2, TT: 1, V6: true, Gen: 957, Covert: "203.0.113.9:80", LibVer: 4}}
	// the shipped file itself: first, and in every shard, so that it is what a failing run reports
	c19CheckConfig(t, rec, x, c19ConfigCase{Conf: c19Conf{Verbatim: true, Note: "shipped file verbatim"}, Regs: regs})
	base, err := c19FromTOML(x.shipped)
	if err != nil {
		t.Fatalf("harness problem: shipped file does not decode: %v", err)
	}
	clone := func() c19Conf {
		c := base
		c.Scalars = append([]c19KV(nil), base.Scalars...)
		c.Lists = nil
		for _, l := range base.Lists {
			l.Entries = append([]c19Entry(nil), l.Entries...)
			c.Lists = append(c.Lists, l)
		}
		return c
	}
	// the structured re-rendering of the shipped file itself (same key/value tree)
	c0 := clone()
	c0.Note = "shipped file re-rendered from its key/value tree"
	run(c19ConfigCase{Conf: c0, Regs: regs})
	alts := c19ScalarAlts()
	for _, k := range c19ScalarOrder {
		for _, a := range alts[k] {
			c := clone()
			found := false
			for i := range c.Scalars {
				if c.Scalars[i].Key == k {
					c.Scalars[i] = c19KV{Key: k, Mode: a.Mode, Raw: a.Raw}
					found = true
				}
			}
			if !found {
				c.Scalars = append(c.Scalars, c19KV{Key: k, Mode: a.Mode, Raw: a.Raw})
			}
			c.Note = fmt.Sprintf("shipped with %s: %s %s", k, a.Mode, a.Raw)
			run(c19ConfigCase{Conf: c, Regs: regs})
		}
	}
	for _, k := range c19ListKeys {
		setList := func(l c19List, note string) {
			c := clone()
			found := false
			for i := range c.Lists {
				if c.Lists[i].Key == k {
					c.Lists[i] = l
					found = true
				}
			}
			if !found {
				c.Lists = append(c.Lists, l)
			}
			c.Note = "shipped with " + k + ": " + note
			run(c19ConfigCase{Conf: c, Regs: regs})
		}
		setList(c19List{Key: k, Mode: "unset"}, "unset")
		setList(c19List{Key: k, Mode: "empty"}, "empty")
		setList(c19List{Key: k, Mode: "malformed", Raw: `"10.0.0.0/8"`}, "a string instead of a list")
		setList(c19List{Key: k, Mode: "malformed", Raw: `["10.0.0.0/8", 5]`}, "a list with a number")
		var pool []c19Entry
		if k == "covert_blocklist_domains" {
			for _, d := range c19DomOk {
				pool = append(pool, c19Entry{Text: d.Text, Host: d.Host})
			}
			for _, d := range c19DomWs {
				pool = append(pool, c19Entry{Text: d.Text, Host: d.Host})
			}
			for _, d := range c19DomBad {
				pool = append(pool, c19Entry{Text: d})
			}
		} else {
			for _, s := range c19CIDROk {
				pool = append(pool, c19Entry{Text: s})
			}
			for _, s := range []string{"fc00::/7 ", " 10.0.0.0/8", "192.168.0.0/16\t", "172.16.0.0/12\n", "10.0.0.0 /8", "10.0.0.1", "fd00::1"} {
				pool = append(pool, c19Entry{Text: s})
			}
			for _, s := range c19CIDRBad {
				pool = append(pool, c19Entry{Text: s})
			}
		}
		var shippedEntries []c19Entry
		if l := base.list(k); l != nil {
			shippedEntries = l.Entries
		}
		for _, e := range pool {
			setList(c19List{Key: k, Mode: "set", Entries: []c19Entry{e}}, fmt.Sprintf("only %q", e.Text))
			setList(c19List{Key: k, Mode: "set", Entries: append(append([]c19Entry(nil), shippedEntries...), e)}, fmt.Sprintf("shipped entries + %q", e.Text))
		}
	}
	// domain lists of two entries: every ordered pair over the unreadable pool and a pool of pattern
	// halves (what is left and right of a cut through a group, a class, an escape, a repetition).
	// Each entry is judged alone: the pair must be refused unless both are patterns by themselves.
	{
		halves := append(append([]string(nil), c19DomBad...), c19DomHalves...)
		for _, a := range halves {
			for _, b := range halves {
				c := clone()
				l := c19List{Key: "covert_blocklist_domains", Mode: "set", Entries: []c19Entry{{Text: a}, {Text: b}}}
				found := false
				for i := range c.Lists {
					if c.Lists[i].Key == l.Key {
						c.Lists[i] = l
						found = true
					}
				}
				if !found {
					c.Lists = append(c.Lists, l)
				}
				c.Note = fmt.Sprintf("shipped with covert_blocklist_domains: the pair %q, %q", a, b)
				run(c19ConfigCase{Conf: c, Regs: regs})
			}
		}
	}
	// no key of the registration section at all / nothing at all
	run(c19ConfigCase{Conf: c19Conf{Note: "empty file"}})
	run(c19ConfigCase{Conf: c19Conf{Scalars: []c19KV{{Key: "log_level", Mode: "set", Raw: `"error"`}}, Note: "only log_level"}})
	run(c19ConfigCase{Conf: c19Conf{Scalars: []c19KV{{Key: "log_level", Mode: "set", Raw: `"error"`}}, ZMQ: true, Note: "only log_level and the ZMQ section"}})
	rec.Extra("enumerated", idx)
}

func c19GenConfigCase(rt *rapid.T) c19ConfigCase {
	sd := rapid.Bool().Draw(rt, "scalarsDirty")
	ld := rapid.Bool().Draw(rt, "listsDirty")
	return c19ConfigCase{Conf: c19GenConf(rt, sd, ld, false), Regs: c19GenRegs(rt)}
}

// TestVerif_C19_config: rapid-generated configurations over all optional keys at once.
func TestVerif_C19_config(t *testing.T) {
	rec := vh.NewRec("C19", "config", "rapid-generated station configurations: every optional key (4 liveness keys, GeoIP paths, worker count, share settings, v4/v6, public-address blocklisting, log level) independently {unset, zero, set, unusable value}, at most one key of the wrong TOML type, optional syntax garbage, optional ZMQ section; blocklist / allowlist / domain / phantom lists {unset, empty, 1-4 entries: pool or random CIDRs, stray whitespace, bare addresses, unparseable, bad regexps; subnets in every notation net.ParseCIDR reads (IPv4 ranges dotted or IPv4-mapped IPv6 with dotted / hexadecimal tail, compressed / expanded, either case; IPv6 ranges compressed, capitals, leading zeros, dotted tail), each probed with its first and last address in both forms (dotted / ::ffff:a.b.c.d covert literal, 4-byte / 16-byte phantom); domain lists made of a well-formed pattern cut at a drawn position into two entries (inside a group, class, \\Q..\\E, repetition, after a backslash) with well-formed entries before / between / after: every entry is judged alone by regexp.Compile, an unreadable one must make the load fail; patterns drawn from the regexp syntax at large: [flag][anchor] 1-4 fragments [anchor] over literals in both cases, \\d \\D \\s \\S \\w \\W \\b \\B \\A \\z, POSIX and Unicode classes, (?i) (?s) (?U) and scoped flags, alternations, named groups, \\Q..\\E, hex escapes}; domain oracle = Go regexp on the entry as written over host spellings in written / upper / lower / swapped / title case, embedded and unrelated names: matching hosts refused by ParseOrResolveBlocklisted with no DNS question, hosts matching in neither case reading not refused by the domain policy; plus 0-4 registrations ingested before housekeeping. Loaded through ParseConfig from a temp file, brought up as main.go does. Non-trivial = differs from the shipped file in >= 1 key; distinct by (configuration, registrations)")
	defer rec.Flush()
	rec.Require("accepted", "rejected:parse", "live-cache:none", "live-cache:live-only", "live-cache:nonlive-only", "live-cache:both", "live-cache:bounded",
		"enforced-blocklist-probe", "enforced-allowlist-probe", "enforced-phantom-probe", "enforced-phantom-ingest-probe:detector", "enforced-domain-probe", "enforced-domain-probe:mixed-case-host", "domain-nonmatching-probe", "registry-non-empty",
		"ingest-buffer:zero-capacity", "ingest-buffer:positive-capacity",
		// entries and addresses in the other notation of the same range / address
		"enforced-blocklist-probe:v4-entry-in-v6-notation", "enforced-allowlist-probe:v4-entry-in-v6-notation", "enforced-phantom-probe:v4-entry-in-v6-notation",
		"enforced-blocklist-probe:v4-address-in-v6-notation", "enforced-allowlist-probe:v4-address-in-v6-notation", "enforced-phantom-probe:v4-address-in-v6-notation",
		// lists in which an unreadable entry would be cured by reading the list as one text
		"unreadable-domain-entry-completed-by-later-entry:missing-paren", "unreadable-domain-entry-completed-by-later-entry:missing-bracket",
		"unreadable-domain-entry-completed-by-later-entry:trailing-backslash", "two-unreadable-domain-entries-forming-one-pattern")
	x := c19NewCtx(t)
	if p := vh.ReplayFile(); p != "" {
		var c c19ConfigCase
		if _, _, err := vh.LoadReplay(p, &c); err != nil {
			t.Fatal(err)
		}
		c19CheckConfig(t, rec, x, c)
		return
	}
	rapid.Check(t, func(rt *rapid.T) {
		c := c19GenConfigCase(rt)
		c19CheckConfig(rt, rec, x, c)
	})
}
