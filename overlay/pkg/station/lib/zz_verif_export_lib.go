package lib

// Export shim for /verif checks that live in other packages (cmd/application is `package main`
// and cannot reach the registry's unexported state). Injected with `go test -overlay` only; this
// file never exists in /repo and adds no behaviour to any existing function.

import (
	"net"
	"sync/atomic"
	"time"
)

// VerifSetDetectorHooks replaces the Redis publication by callbacks.
func VerifSetDetectorHooks(rm *RegistrationManager, onNew, onUpdate func(*DecoyRegistration)) {
	rm.registeredDecoys.m.Lock()
	defer rm.registeredDecoys.m.Unlock()
	rm.registeredDecoys.registerForDetector = onNew
	rm.registeredDecoys.updateInDetector = onUpdate
}

// VerifShiftTimes makes every tracked registration look d older.
func VerifShiftTimes(rm *RegistrationManager, d time.Duration) {
	r := rm.registeredDecoys
	r.m.Lock()
	defer r.m.Unlock()
	for _, to := range r.decoysTimeouts {
		to.registrationTime = to.registrationTime.Add(-d)
	}
}

// VerifRegState reports whether reg's (phantom, identifier) is tracked, valid, and marked used.
func VerifRegState(rm *RegistrationManager, reg *DecoyRegistration) (tracked, valid, used bool) {
	r := rm.registeredDecoys
	r.m.RLock()
	defer r.m.RUnlock()
	t, ok := r.transports[reg.Transport]
	if !ok {
		return
	}
	id := t.GetIdentifier(reg)
	ph := reg.PhantomIp.String()
	cur, ok := r.decoys[ph][id]
	if !ok {
		return
	}
	tracked = true
	valid = cur.Valid
	for _, to := range r.decoysTimeouts {
		if to.decoy == ph && to.identifier == id && to.status == regStatusUsed {
			used = true
		}
	}
	return
}

// VerifIdentifier returns the transport identifier of a registration.
func VerifIdentifier(rm *RegistrationManager, reg *DecoyRegistration) string {
	t, ok := rm.registeredDecoys.transports[reg.Transport]
	if !ok {
		return ""
	}
	return t.GetIdentifier(reg)
}

// VerifSetRegistrationAddr sets the registrant address of a registration.
func VerifSetRegistrationAddr(reg *DecoyRegistration, ip net.IP) { reg.registrationAddr = ip }

// VerifTunnelCount returns the number of tunnels counted for a registration.
func VerifTunnelCount(reg *DecoyRegistration) int64 { return reg.tunnelCount }

// VerifProxySessions returns the current value of the open-proxy-session gauge.
func VerifProxySessions() int64 {
	return atomic.LoadInt64(&getProxyStats().sessionsProxying)
}

// VerifResetRegistry forgets every tracked registration (transports and detector hooks stay).
func VerifResetRegistry(rm *RegistrationManager) {
	r := rm.registeredDecoys
	r.m.Lock()
	defer r.m.Unlock()
	r.decoys = make(map[string]map[string]*DecoyRegistration)
	r.decoysTimeouts = make(map[string]*DecoyTimeout)
}

// VerifIngest runs the station's real ingest path on a registration object (what an ingest worker
// does after parsing a message).
func VerifIngest(rm *RegistrationManager, reg *DecoyRegistration) { rm.ingestRegistration(reg) }

// VerifShiftTimesOf makes one registration's (phantom, identifier) time-out record look d older.
func VerifShiftTimesOf(rm *RegistrationManager, reg *DecoyRegistration, d time.Duration) {
	r := rm.registeredDecoys
	r.m.Lock()
	defer r.m.Unlock()
	t, ok := r.transports[reg.Transport]
	if !ok {
		return
	}
	id := t.GetIdentifier(reg)
	ph := reg.PhantomIp.String()
	for _, to := range r.decoysTimeouts {
		if to.decoy == ph && to.identifier == id {
			to.registrationTime = to.registrationTime.Add(-d)
		}
	}
}

// VerifIngestMessage runs what an ingest worker does with one serialized C2SWrapper: parse it into
// registrations (one per address family) and ingest each. Returns the number of registrations built.
func VerifIngestMessage(rm *RegistrationManager, b []byte) (int, error) {
	regs, err := rm.parseRegMessage(b)
	if err != nil {
		return 0, err
	}
	n := 0
	for _, reg := range regs {
		if reg != nil {
			rm.ingestRegistration(reg)
			n++
		}
	}
	return n, nil
}
