package lib

// C08 — registrations expire on schedule: never early, never kept past their lifetime.
//
// Model-based check over histories of {track, validate, ingest (duplicate), connect, advance time,
// sweep, lookup}. Time is advanced by shifting the recorded registration times backwards (the code
// only ever uses time.Since(registrationTime)).

import (
	"encoding/binary"
	"sync/atomic"
	"sync"
	"context"
	"fmt"
	"net"
	"runtime"
	"sort"
	"strings"
	"testing"
	"time"


	"github.com/refraction-networking/conjure/pkg/station/log"
	pb "github.com/refraction-networking/conjure/proto"
	"google.golang.org/protobuf/proto"
	"pgregory.net/rapid"
	"verif/harness/vh"
)

type c08Op struct {
	Kind   string `json:"kind"` // track | validate | ingest | connect | adv | sweep
	Secret int    `json:"secret,omitempty"`
	TT     int    `json:"tt,omitempty"` // 0 min 1 prefix 2 obfs4
	V6     bool   `json:"v6,omitempty"`
	Ovr    int    `json:"ovr,omitempty"` // 0 = derived phantom, k>0 = registrar-overridden phantom #k
	DeltaS int64  `json:"delta_s,omitempty"`
	Tunnel bool   `json:"tunnel,omitempty"` // connect: the handler also relays (Proxy), as it does for every matched connection
	Busy   bool   `json:"busy,omitempty"`   // connect: another connection handler holds the registry's read lock at the moment of activation (the activation has to wait for it, not be skipped)
	Dial   string `json:"dial,omitempty"`   // ingest of a connecting-transport registration (TT 3): outcome of the station's dial to the client: "fail" | "timeout" | "ok" (connected; the session ends at once)
	Mid    string `json:"mid,omitempty"`    // sweep: an operation of this kind (connect | ingest, with this op's Secret/TT/V6/Ovr/Tunnel) arrives between the sweep's collection and removal phases
	// ingest: the station refuses the registration. Ovr == c08BlockedOvr is a phantom on the station's
	// phantom blocklist: refused before it is tracked when it came over the API, after it was tracked
	// when it came from the detector (Src "detector").
	Refuse string `json:"refuse,omitempty"` // "" | "covert" (the covert address is c08BadCoverts[Covert]) | "live" (the phantom answers the liveness scan; IPv4 phantoms only, IPv6 phantoms are not scanned)
	Covert int    `json:"covert,omitempty"`
	Src    string `json:"src,omitempty"` // "" = API registrar | "detector"
}

func (o c08Op) String() string {
	switch o.Kind {
	case "adv":
		return fmt.Sprintf("adv(%s)", time.Duration(o.DeltaS)*time.Second)
	case "sweep":
		if o.Mid != "" {
			return fmt.Sprintf("sweep[%s(s%d,t%d,v6=%v,o%d,tunnel=%v) arrives mid-sweep]", o.Mid, o.Secret, o.TT, o.V6, o.Ovr, o.Tunnel)
		}
		return "sweep"
	}
	if o.Tunnel || o.Busy {
		return fmt.Sprintf("%s(s%d,t%d,v6=%v,o%d,relay=%v,lock-read-held=%v)", o.Kind, o.Secret, o.TT, o.V6, o.Ovr, o.Tunnel, o.Busy)
	}
	if o.Refuse != "" || o.Src != "" || o.Ovr == c08BlockedOvr {
		return c08RefString(o)
	}
	if o.TT == 3 {
		return fmt.Sprintf("%s(s%d,dtls,v6=%v,o%d,station's dial: %s)", o.Kind, o.Secret, o.V6, o.Ovr, o.Dial)
	}
	return fmt.Sprintf("%s(s%d,t%d,v6=%v,o%d)", o.Kind, o.Secret, o.TT, o.V6, o.Ovr)
}

type c08Case struct {
	Ops []c08Op `json:"ops"`
}

var c08TT = []pb.TransportType{pb.TransportType_Min, pb.TransportType_Prefix, pb.TransportType_Obfs4, pb.TransportType_DTLS}

var c08cOutcomes = newVConnTransport()
var c08cDone = newVConnStats()

// c08Connecting makes the environment handle connecting-transport registrations.
func c08Connecting(e *vEnv) {
	e.rm.connectingStats = c08cDone
	_ = e.rm.AddTransport(pb.TransportType_DTLS, c08cOutcomes)
}

// secrets 0..2 are unrelated; secret 3 shares its first 8 bytes (the logging id) with secret 0.
func c08Secret(i int) []byte {
	if i == 3 {
		s := vSecret(0)
		for j := 8; j < 32; j++ {
			s[j] ^= 0x5a
		}
		return s
	}
	return vSecret(i)
}

type c08Entry struct {
	age     time.Duration
	used    bool
	valid   bool
	refused bool // tracked by the ingest pipeline, then refused during validation
	desc    string
}

const (
	c08Unused = 10 * time.Minute
	c08Active = 6 * time.Hour
)

func c08MakeReg(e *vEnv, o c08Op) (*DecoyRegistration, error) {
	src := pb.RegistrationSource_API
	if o.Src == "detector" {
		src = pb.RegistrationSource_Detector
	}
	w := vWrapper(c08Secret(o.Secret), c08TT[o.TT], 0, "192.0.2.10:443", !o.V6, o.V6, 4, 957, src, net.ParseIP("198.51.100.7").To4())
	if o.Ovr > 0 {
		rr := &pb.RegistrationResponse{}
		if o.Ovr == c08BlockedOvr {
			// the blocklisted phantom of each family: outside the subnets phantoms are derived from
			if o.V6 {
				rr.Ipv6Addr = net.ParseIP(c08BlockedV6)
			} else {
				rr.Ipv4Addr = proto.Uint32(binary.BigEndian.Uint32(net.ParseIP(c08BlockedV4).To4()))
			}
		} else if o.V6 {
			rr.Ipv6Addr = net.ParseIP(fmt.Sprintf("2001:48a8:687f:1::%x", o.Ovr))
		} else {
			rr.Ipv4Addr = proto.Uint32(0xC07ABE00 | uint32(o.Ovr)) // 192.122.190.k
		}
		w.RegistrationResponse = rr
	}
	if o.TT == 3 {
		w.RegistrationPayload.TransportParams = nil
		w.RegistrationPayload.CovertAddress = proto.String("127.0.0.1:1") // refuses at once
	}
	if o.Kind == "ingest" && o.Refuse == "covert" {
		w.RegistrationPayload.CovertAddress = proto.String(c08BadCoverts[o.Covert%len(c08BadCoverts)].addr)
	}
	return e.rm.NewRegistrationC2SWrapper(w, o.V6)
}

func c08Key(e *vEnv, reg *DecoyRegistration) string {
	t := e.rm.registeredDecoys.transports[reg.Transport]
	return reg.PhantomIp.String() + "|" + fmt.Sprintf("%x", t.GetIdentifier(reg))
}

type c08HookWriter struct{ f func(line string) }

func (w c08HookWriter) Write(p []byte) (int, error) {
	if w.f != nil {
		w.f(string(p))
	}
	return len(p), nil
}

// c08Run applies the history to the real registry and to the model and compares after every step.
// It returns (violation key, message) or ("", "").
func c08Run(e *vEnv, c c08Case) (key, msg string, stats map[string]bool) {
	e.resetRegistry()
	stats = map[string]bool{}
	model := map[string]*c08Entry{}
	start := time.Now()
	r := e.rm.registeredDecoys
	sharedSecret := map[string]map[string]bool{} // secret|phantom -> identifiers
	// doReg / doConnect apply one registration / connection operation to the real registry and to
	// the model (used for top-level operations and for operations that arrive in the middle of a sweep)
	doReg := func(step int, o c08Op) (string, string) {
		reg, err := c08MakeReg(e, o)
		if err != nil {
			// e.g. an IPv6 registration whose seed selects a subnet group without IPv6 subnets:
			// the station refuses the message, nothing is registered
			stats["registration-refused"] = true
			return "", ""
		}
		k := c08Key(e, reg)
		ent, exists := model[k]
		sk := fmt.Sprintf("%d|%s", o.Secret, reg.PhantomIp)
		if sharedSecret[sk] == nil {
			sharedSecret[sk] = map[string]bool{}
		}
		sharedSecret[sk][k] = true
		if len(sharedSecret[sk]) > 1 {
			stats["one-secret-several-transports"] = true
		}
		switch o.Kind {
		case "track":
			if err := e.rm.TrackRegistration(reg); err != nil {
				return "harness", fmt.Sprintf("step %d track: %v", step, err)
			}
			if !exists {
				model[k] = &c08Entry{desc: o.String()}
			} else {
				stats["duplicate"] = true
			}
		case "validate":
			e.rm.AddRegistration(reg)
			if !exists {
				model[k] = &c08Entry{desc: o.String(), valid: true}
			} else {
				ent.valid = true
			}
		case "ingest":
			if o.TT == 3 {
				c08cOutcomes.Script(reg.Keys.SharedSecret, o.Dial)
			}
			c08SetLive(e, o.Refuse == "live")
			e.rm.ingestRegistration(reg)
			c08SetLive(e, false)
			if c08PhantomBlocked(reg.PhantomIp) && o.Src != "detector" {
				// a blocklisted phantom, not from the detector: refused before anything is
				// tracked (whatever is tracked under that key got there by other means and stays as it is)
				stats["refused:never-tracked"] = true
				return "", ""
			}
			// the registration was admitted to the registry: tracked from now on, whatever the
			// validation that follows says about it
			refuse := c08RefuseReason(o, reg)
			if !exists {
				model[k] = &c08Entry{desc: o.String(), valid: refuse == "", refused: refuse != ""}
			} else if ent.refused {
				stats["refused-then-duplicate"] = true
			}
			if refuse != "" && !exists {
				stats["refused:"+refuse] = true
			}
			if tracked, _, _ := VerifRegState(e.rm, reg); !tracked {
				what := "a duplicate of a tracked registration"
				if !exists {
					what = "a new registration"
					if refuse != "" {
						what = "a new registration the station refused during validation (" + refuse + ")"
					}
				}
				return "expired-early", fmt.Sprintf("step %d %v: %s is not tracked right after it was ingested (age %v, lifetime of an unused registration %v)", step, o, what, model[k].age, c08Unused)
			}
			if !exists && refuse == "" {
				if o.TT == 3 {
					// the station dials the client now; wait for the outcome
					select {
					case got := <-c08cDone.done:
						want := o.Dial
						if want == "" {
							want = "fail"
						}
						if got != want {
							return "harness", fmt.Sprintf("step %d: dial outcome %q, scripted %q", step, got, want)
						}
					case <-time.After(30 * time.Second):
						return "harness", fmt.Sprintf("step %d: the station never dialled the client of a new connecting-transport registration", step)
					}
					// a dial that succeeded carried a connection (the session it relayed has ended)
					model[k].used = o.Dial == "ok"
					stats["connecting:"+o.Dial] = true
				}
			} else if exists {
				stats["duplicate"] = true
			}
		}
		return "", ""
	}
	doConnect := func(step int, o c08Op) (string, string) {
		reg, err := c08MakeReg(e, o)
		if err != nil {
			stats["registration-refused"] = true
			return "", ""
		}
		k := c08Key(e, reg)
		id := e.rm.registeredDecoys.transports[reg.Transport].GetIdentifier(reg)
		found, ok := e.rm.GetRegistrations(reg.PhantomIp)[id]
		ent := model[k]
		want := ent != nil && ent.valid
		if ok != want {
			return "lookup", fmt.Sprintf("step %d %v: lookup found=%v, model says %v", step, o, ok, want)
		}
		if ok {
			// what the connection handler does with a matched registration: activate, then relay
			fr := found.(*DecoyRegistration)
			if o.Busy {
				// A reader (e.g. another handler inside its lookup) holds the lock while this
				// handler activates. Hold it until the activation is seen waiting for it (a
				// pending writer makes TryRLock fail) or has returned, then release.
				r.m.RLock()
				done := make(chan struct{})
				go func() { e.rm.MarkActive(fr); close(done) }()
				deadline := time.Now().Add(2 * time.Second)
			wait:
				for time.Now().Before(deadline) {
					select {
					case <-done:
						break wait
					default:
					}
					if r.m.TryRLock() {
						r.m.RUnlock()
						runtime.Gosched()
						continue
					}
					break // a writer is waiting
				}
				r.m.RUnlock()
				select {
				case <-done:
				case <-time.After(30 * time.Second):
					return "harness", fmt.Sprintf("step %d: activation did not return within 30 s after the reader released the lock", step)
				}
				stats["connect-while-lock-read-held"] = true
			} else {
				e.rm.MarkActive(fr)
			}
			if o.Tunnel {
				// the relay itself: the covert refuses the connection, the tunnel ends at once
				fr.Covert = "127.0.0.1:1"
				c1, c2 := net.Pipe()
				Proxy(fr, c1, e.rm.Logger)
				c1.Close()
				c2.Close()
				stats["connect-with-tunnel"] = true
			}
			ent.used = true
			stats["connect"] = true
		}
		return "", ""
	}
	for step, o := range c.Ops {
		switch o.Kind {
		case "track", "validate", "ingest":
			if k, m := doReg(step, o); k != "" {
				return k, m, stats
			}
		case "connect":
			if k, m := doConnect(step, o); k != "" {
				return k, m, stats
			}
		case "adv":
			e.vShiftAll(time.Duration(o.DeltaS) * time.Second)
			for _, ent := range model {
				ent.age += time.Duration(o.DeltaS) * time.Second
			}
		case "sweep":
			midKey, midMsg := "", ""
			if o.Mid != "" {
				// an operation arrives while the sweep is between collecting the expired set and
				// removing it (the sweeper holds no lock there): same outcome as that operation
				// followed by the sweep, because removal re-examines each entry
				mid := o
				mid.Kind = o.Mid
				old := e.rm.Logger
				done := false
				lg := log.New(c08HookWriter{f: func(line string) {
					if done || !strings.Contains(line, "cleansing registrations") {
						return
					}
					done = true
					e.rm.Logger = old
					if mid.Kind == "connect" {
						midKey, midMsg = doConnect(step, mid)
					} else {
						midKey, midMsg = doReg(step, mid)
					}
					stats["operation-during-sweep"] = true
				}}, "", 0)
				lg.SetLevel(log.DebugLevel)
				e.rm.Logger = lg
				e.rm.RemoveOldRegistrations()
				e.rm.Logger = old
			} else {
				e.rm.RemoveOldRegistrations()
			}
			if midKey != "" {
				return midKey, midMsg + " (operation arriving during the sweep)", stats
			}
			slack := time.Since(start) + 50*time.Millisecond
			// entries whose expiry depends on the real time elapsed during this test are ambiguous
			amb := map[string]bool{}
			removed, kept, removedRefused := 0, 0, 0
			for k, ent := range model {
				lim := c08Unused
				if ent.used {
					lim = c08Active
				}
				if ent.age <= lim && ent.age+slack > lim {
					amb[k] = true
				}
			}
			impl := c08Tracked(r)
			for k, ent := range model {
				lim := c08Unused
				if ent.used {
					lim = c08Active
				}
				_, still := impl[k]
				if amb[k] {
					if !still {
						delete(model, k)
					}
					continue
				}
				if ent.age > lim {
					if still {
						return "kept-past-lifetime", fmt.Sprintf("step %d sweep: %s (age %v, used=%v) is still tracked after its lifetime", step, ent.desc, ent.age, ent.used), stats
					}
					delete(model, k)
					removed++
					if ent.refused {
						stats["refused-expires"] = true
						removedRefused++
					}
				} else {
					if !still {
						return "expired-early", fmt.Sprintf("step %d sweep: %s (age %v, used=%v) was removed before its lifetime ended", step, ent.desc, ent.age, ent.used), stats
					}
					kept++
					if ent.refused {
						stats["refused-kept-while-young"] = true
					}
				}
			}
			if removed > 0 && kept > 0 {
				stats["sweep-removes-some-keeps-some"] = true
			}
			if removed > 0 {
				stats["sweep-removes"] = true
			}
			if removedRefused >= 20 {
				stats["sweep-removes-20+-refused"] = true
			}
		}
		// invariants after every step
		impl := c08Tracked(r)
		if len(impl) != len(model) {
			return "tracked-set", fmt.Sprintf("step %d %v: tracked %d registrations %v, model has %d", step, o, len(impl), c08Keys(impl), len(model)), stats
		}
		for k := range model {
			if _, ok := impl[k]; !ok {
				return "tracked-set", fmt.Sprintf("step %d %v: model entry %s is not tracked", step, o, model[k].desc), stats
			}
		}
		r.m.RLock()
		nt := len(r.decoysTimeouts)
		r.m.RUnlock()
		if nt != len(model) {
			return "timeout-records", fmt.Sprintf("step %d %v: %d time-out records for %d tracked registrations (state not in bijection: an entry can no longer expire, or state leaks)", step, o, nt, len(model)), stats
		}
		// lookups: exactly the valid tracked entries are visible to connection handling
		for k, ent := range model {
			parts := strings.SplitN(k, "|", 2)
			regs := e.rm.GetRegistrations(net.ParseIP(parts[0]))
			seen := false
			for id := range regs {
				if fmt.Sprintf("%x", id) == parts[1] {
					seen = true
				}
			}
			if seen != ent.valid {
				return "lookup", fmt.Sprintf("step %d %v: entry %s visible=%v, model valid=%v", step, o, ent.desc, seen, ent.valid), stats
			}
		}
		total := 0
		phantoms := map[string]bool{}
		for k := range model {
			phantoms[strings.SplitN(k, "|", 2)[0]] = true
		}
		for p := range phantoms {
			total += e.rm.CountRegistrations(net.ParseIP(p))
		}
		if total != len(model) {
			return "tracked-set", fmt.Sprintf("step %d %v: CountRegistrations sums to %d, model %d", step, o, total, len(model)), stats
		}
	}
	return "", "", stats
}

func c08Tracked(r *RegisteredDecoys) map[string]bool {
	out := map[string]bool{}
	r.m.RLock()
	defer r.m.RUnlock()
	for ph, m := range r.decoys {
		for id := range m {
			out[ph+"|"+fmt.Sprintf("%x", id)] = true
		}
	}
	return out
}

func c08Keys(m map[string]bool) []string {
	var out []string
	for k := range m {
		if len(k) > 28 {
			k = k[:28]
		}
		out = append(out, k)
	}
	sort.Strings(out)
	return out
}

func c08Check(t vh.Fataler, rec *vh.Rec, e *vEnv, c c08Case) {
	key, msg, st := c08Run(e, c)
	var classes []string
	for k := range st {
		classes = append(classes, k)
	}
	sort.Strings(classes)
	nontriv := st["sweep-removes-some-keeps-some"] || st["one-secret-several-transports"]
	rec.Case(nontriv, vh.Digest(c), c, classes...)
	if key == "harness" {
		t.Fatalf("harness problem: %s", msg)
	}
	if key != "" {
		rec.Violation(t, key, c, "%s; history=%v", msg, c.Ops)
	}
}

// Exhaustive short histories over an 8-symbol alphabet.
func TestVerif_C08_exhaustive(t *testing.T) {
	rec := vh.NewRec("C08", "exhaustive", "all histories up to length L over the alphabet {ingest(s0,min), ingest(s0,prefix), ingest(s1,min), connect+relay(s0,min), adv 9m59s, adv 5h55m, adv 6m, sweep, sweep during which connect(s0,min) arrives between collection and removal}, each followed by a final sweep; non-trivial = a sweep removed one entry while keeping another, or one secret registered under several transports on one phantom; distinct by history")
	defer rec.Flush()
	rec.Require("sweep-removes-some-keeps-some", "one-secret-several-transports", "connect", "duplicate", "connect-with-tunnel", "operation-during-sweep")
	e := vNewEnv(t, nil, "")
	if p := vh.ReplayFile(); p != "" {
		var c c08Case
		if _, _, err := vh.LoadReplay(p, &c); err != nil {
			t.Fatal(err)
		}
		c08Check(t, rec, e, c)
		return
	}
	alpha := []c08Op{
		{Kind: "ingest", Secret: 0, TT: 0},
		{Kind: "ingest", Secret: 0, TT: 1},
		{Kind: "ingest", Secret: 1, TT: 0},
		{Kind: "connect", Secret: 0, TT: 0, Tunnel: true},
		{Kind: "adv", DeltaS: 9*60 + 59},
		{Kind: "adv", DeltaS: 5*3600 + 55*60},
		{Kind: "adv", DeltaS: 6 * 60},
		{Kind: "sweep"},
		{Kind: "sweep", Mid: "connect", Secret: 0, TT: 0},
	}
	maxLen := vh.Pick(5, 7)
	rec.SetExhaustive(true)
	idx := 0
	var gen func(prefix []c08Op)
	gen = func(prefix []c08Op) {
		if len(prefix) > 0 {
			idx++
			if vh.Mine(idx) {
				ops := append(append([]c08Op(nil), prefix...), c08Op{Kind: "sweep"})
				c08Check(t, rec, e, c08Case{Ops: ops})
			}
		}
		if len(prefix) == maxLen {
			return
		}
		for _, a := range alpha {
			gen(append(prefix, a))
		}
	}
	gen(nil)
}

func c08Gen(rt *rapid.T) c08Case {
	n := rapid.IntRange(1, 120).Draw(rt, "n")
	deltas := []int64{60, 240, 599, 601, 3600, 5*3600 + 59*60, 6*3600 + 60, 3 * 3600}
	var ops []c08Op
	for i := 0; i < n; i++ {
		k := rapid.SampledFrom([]string{"ingest", "ingest", "track", "validate", "connect", "connect", "adv", "adv", "sweep", "sweep"}).Draw(rt, "kind")
		o := c08Op{Kind: k}
		switch k {
		case "adv":
			o.DeltaS = rapid.SampledFrom(deltas).Draw(rt, "delta")
		case "sweep":
			if rapid.IntRange(0, 3).Draw(rt, "midp") == 0 {
				o.Mid = rapid.SampledFrom([]string{"connect", "connect", "ingest"}).Draw(rt, "mid")
				o.Secret = rapid.IntRange(0, 3).Draw(rt, "secret")
				o.TT = rapid.IntRange(0, 2).Draw(rt, "tt")
				o.V6 = rapid.Bool().Draw(rt, "v6")
				o.Tunnel = rapid.Bool().Draw(rt, "tunnel")
				if o.Mid == "ingest" {
					c08DrawRefusal(rt, &o)
				}
			}
		default:
			if k == "connect" {
				o.Tunnel = rapid.Bool().Draw(rt, "tunnel")
				o.Busy = rapid.IntRange(0, 3).Draw(rt, "busy") == 0
			}
			o.Secret = rapid.IntRange(0, 3).Draw(rt, "secret")
			if rapid.IntRange(0, 2).Draw(rt, "widesecret") == 0 {
				// identifiers are raw HMAC / key bytes: vary them widely (data-dependent handling)
				o.Secret = rapid.IntRange(4, 400).Draw(rt, "secret2")
			}
			o.TT = rapid.IntRange(0, 2).Draw(rt, "tt")
			if k == "ingest" && rapid.IntRange(0, 4).Draw(rt, "connecting") == 0 {
				o.TT = 3
				o.Dial = rapid.SampledFrom([]string{"fail", "fail", "timeout", "ok"}).Draw(rt, "dial")
			}
			o.V6 = rapid.Bool().Draw(rt, "v6")
			if rapid.IntRange(0, 3).Draw(rt, "ovrp") == 0 {
				o.Ovr = rapid.IntRange(1, 3).Draw(rt, "ovr") // #3 is a blocklisted phantom
			}
			if k == "ingest" {
				c08DrawRefusal(rt, &o)
			}
		}
		ops = append(ops, o)
	}
	ops = append(ops, c08Op{Kind: "sweep"})
	return c08Case{Ops: ops}
}

// Long random histories over a larger alphabet (4 secrets incl. two sharing their 8-byte log id,
// 3 transports, both families, registrar-overridden phantoms that make different secrets share a
// phantom).
func TestVerif_C08_random(t *testing.T) {
	rec := vh.NewRec("C08", "random", "rapid-generated histories of 1-120 operations (track, validate, ingest - incl. connecting-transport registrations whose dial to the client fails, times out or succeeds, and registrations the station refuses after it has tracked them: malformed / blocklisted covert address, phantom that answers the liveness scan, blocklisted phantom from the detector; or before: blocklisted phantom over the API -, connect with or without the relay step, advance time, sweep, sweep during which a connect or ingest arrives between collection and removal) over 4 secrets x {min,prefix,obfs4} x {v4,v6} x {derived, overridden phantom}; non-trivial as in the exhaustive sub-check; distinct by history")
	defer rec.Flush()
	rec.Require("sweep-removes-some-keeps-some", "one-secret-several-transports", "connect", "connect-with-tunnel", "operation-during-sweep", "connecting:fail", "connecting:ok", "connect-while-lock-read-held",
		"refused:covert-malformed", "refused:covert-blocklisted", "refused:phantom-live", "refused:phantom-blocklisted-detector", "refused:never-tracked", "refused-then-duplicate", "refused-expires", "refused-kept-while-young")
	e := vNewEnv(t, c08Conf(), "")
	c08Connecting(e)
	if p := vh.ReplayFile(); p != "" {
		var c c08Case
		if _, _, err := vh.LoadReplay(p, &c); err != nil {
			t.Fatal(err)
		}
		c08Check(t, rec, e, c)
		return
	}
	rapid.Check(t, func(rt *rapid.T) {
		c := c08Gen(rt)
		c08Check(rt, rec, e, c)
	})
}

// Bulk sweeps: many registrations expire at the same sweep. One sweep must forget all of them
// ("tracked state stays bounded by the registration rate"), whatever their number.
type c08BulkCase struct {
	N      int   `json:"n"`       // registrations
	Used   int   `json:"used"`    // every Used-th registration carries a connection (0 = none)
	AgeS   int64 `json:"age_s"`   // time that passes before the sweep
	Sweeps int   `json:"sweeps"`  // number of sweeps after which the state is compared
}

func c08BulkRun(e *vEnv, c c08BulkCase) (key, msg string) {
	e.resetRegistry()
	r := e.rm.registeredDecoys
	wantLeft := 0
	for i := 0; i < c.N; i++ {
		w := vWrapper(vSecret(10000+i), pb.TransportType_Min, 0, "192.0.2.10:443", true, false, 4, 957, pb.RegistrationSource_API, net.ParseIP("198.51.100.7").To4())
		reg, err := e.rm.NewRegistrationC2SWrapper(w, false)
		if err != nil {
			return "harness", err.Error()
		}
		e.rm.AddRegistration(reg)
		used := c.Used > 0 && i%c.Used == 0
		if used {
			e.rm.MarkActive(reg)
		}
		age := time.Duration(c.AgeS) * time.Second
		if (used && age <= c08Active) || (!used && age <= c08Unused) {
			wantLeft++
		}
	}
	e.vShiftAll(time.Duration(c.AgeS) * time.Second)
	for s := 0; s < c.Sweeps; s++ {
		e.rm.RemoveOldRegistrations()
	}
	left := len(c08Tracked(r))
	r.m.RLock()
	nt := len(r.decoysTimeouts)
	r.m.RUnlock()
	if left != wantLeft {
		return "bulk:kept-past-lifetime", fmt.Sprintf("%d registrations (every %d-th used) aged %v, %d sweep(s): %d still tracked, expected %d", c.N, c.Used, time.Duration(c.AgeS)*time.Second, c.Sweeps, left, wantLeft)
	}
	if nt != wantLeft {
		return "timeout-records", fmt.Sprintf("%d time-out records for %d tracked registrations after a bulk sweep", nt, left)
	}
	return "", ""
}

func TestVerif_C08_bulk(t *testing.T) {
	rec := vh.NewRec("C08", "bulk", "N registrations (N around powers of two up to 20000; every k-th marked used) aged past a lifetime and swept once: exactly those past their lifetime must be gone after ONE sweep; non-trivial = at least 1000 registrations expire in one sweep; distinct by case")
	defer rec.Flush()
	e := vNewEnv(t, nil, "")
	run := func(c c08BulkCase) {
		key, msg := c08BulkRun(e, c)
		rec.Case(c.N >= 1000 && c.AgeS > 600, vh.Digest(c), c, fmt.Sprintf("n>=%d", (c.N/1000)*1000))
		if key == "harness" {
			t.Fatalf("harness problem: %s", msg)
		}
		if key != "" {
			rec.Violation(t, key, c, "%s", msg)
		}
	}
	if p := vh.ReplayFile(); p != "" {
		var c c08BulkCase
		if _, _, err := vh.LoadReplay(p, &c); err != nil {
			t.Fatal(err)
		}
		run(c)
		return
	}
	ns := []int{1, 255, 1000, 1024, 4095, 4096, 4097, 5000, 8193}
	if vh.Thorough() {
		ns = append(ns, 16385, 20000, 32769, 65537)
	}
	i := 0
	for _, n := range ns {
		for _, used := range []int{0, 3} {
			for _, age := range []int64{11 * 60, 6*3600 + 60, 5 * 60} {
				i++
				if vh.Mine(i) {
					run(c08BulkCase{N: n, Used: used, AgeS: age, Sweeps: 1})
				}
			}
		}
	}
}


// Expiry under load: the sweeper must do its work also while the ingest pipeline is saturated (all
// workers busy, hand-off buffer full, registrations being dropped) - that is exactly when tracked
// state must stay bounded.
type c08LoadCase struct {
	Workers int   `json:"workers"`
	Aged    int   `json:"aged"`  // registrations that are past their lifetime when the sweep runs
	Fresh   int   `json:"fresh"` // registrations that are not
	AgeS    int64 `json:"age_s"`
}

type c08Gate struct {
	mu      sync.Mutex
	waiting int
	open    bool
	ch      chan struct{}
}

func (g *c08Gate) PhantomIsLive(string, uint16) (bool, error) {
	g.mu.Lock()
	if g.open {
		g.mu.Unlock()
		return false, nil
	}
	g.waiting++
	ch := g.ch
	g.mu.Unlock()
	<-ch
	return false, nil
}
func (g *c08Gate) Waiting() int { g.mu.Lock(); defer g.mu.Unlock(); return g.waiting }
func (g *c08Gate) Open() {
	g.mu.Lock()
	if !g.open {
		g.open = true
		close(g.ch)
	}
	g.mu.Unlock()
}
func (g *c08Gate) PrintAndReset(*log.Logger) {}
func (g *c08Gate) PrintStats(*log.Logger)    {}
func (g *c08Gate) Reset()                    {}

func TestVerif_C08_underload(t *testing.T) {
	rec := vh.NewRec("C08", "underload", "the real HandleRegUpdates with W workers all parked in their liveness probes and the hand-off buffer full (further registrations are being dropped) while N registrations ingested earlier pass their lifetime: one sweep must forget exactly the expired ones; W in {10,20}, N and ages drawn; non-trivial = the pipeline was saturated when the sweep ran and something had to expire; distinct by case")
	defer rec.Flush()
	rec.Require("saturated-at-sweep")
	e := vNewEnv(t, nil, "")
	run := func(tf vh.Fataler, c c08LoadCase) {
		e.resetRegistry()
		rm := *e.rm
		conf := *e.rm.RegConfig
		conf.IngestWorkerCount = c.Workers
		rm.RegConfig = &conf
		rm.RegistrationStats = newRegistrationStats()
		rm.Logger = log.New(c08HookWriter{}, "", 0)
		// 1. registrations ingested while the station was idle
		quiet := &vTester{}
		rm.LivenessTester = quiet
		mk := func(i int) *DecoyRegistration {
			w := vWrapper(vSecret(3000+i), pb.TransportType_Min, 0, "192.0.2.10:443", true, false, 4, 957, pb.RegistrationSource_API, net.ParseIP("198.51.100.7").To4())
			reg, err := rm.NewRegistrationC2SWrapper(w, false)
			if err != nil {
				tf.Fatalf("harness problem: %v", err)
			}
			return reg
		}
		var aged, fresh []*DecoyRegistration
		for i := 0; i < c.Aged; i++ {
			reg := mk(i)
			rm.ingestRegistration(reg)
			aged = append(aged, reg)
		}
		e.vShiftAll(time.Duration(c.AgeS) * time.Second)
		for i := 0; i < c.Fresh; i++ {
			reg := mk(1000 + i)
			rm.ingestRegistration(reg)
			fresh = append(fresh, reg)
		}
		// 2. saturate the pipeline
		gate := &c08Gate{ch: make(chan struct{})}
		rm.LivenessTester = gate
		defer gate.Open()
		in := make(chan interface{})
		ctx, cancel := context.WithCancel(context.Background())
		defer cancel()
		var wg sync.WaitGroup
		wg.Add(1)
		returned := make(chan struct{})
		go func() { rm.HandleRegUpdates(ctx, in, &wg); close(returned) }()
		msg := func(i int) []byte {
			w := vWrapper(vSecret(5000+i), pb.TransportType_Min, 0, "192.0.2.10:443", true, false, 4, 957, pb.RegistrationSource_API, net.ParseIP("198.51.100.7").To4())
			b, _ := proto.Marshal(w)
			return b
		}
		waitFor := func(cond func() bool) bool {
			for deadline := time.Now().Add(20 * time.Second); time.Now().Before(deadline); time.Sleep(200 * time.Microsecond) {
				if cond() {
					return true
				}
			}
			return false
		}
		for i := 0; i < c.Workers; i++ {
			select {
			case in <- msg(i):
			case <-time.After(20 * time.Second):
				tf.Fatalf("harness problem: the distributor did not take message %d", i)
			}
			if !waitFor(func() bool { return gate.Waiting() >= i+1 }) {
				tf.Fatalf("harness problem: worker %d never reached its probe", i)
			}
		}
		buffer := c.Workers / jobBufferDivisor
		for i := 0; i < buffer+3; i++ {
			select {
			case in <- msg(100 + i):
			case <-time.After(20 * time.Second):
				tf.Fatalf("harness problem: the distributor did not take excess message %d", i)
			}
		}
		if !waitFor(func() bool { return len(rm.ingestChan) == cap(rm.ingestChan) && atomic.LoadInt64(&rm.RegistrationStats.totalDroppedMessages) >= 1 }) {
			tf.Fatalf("harness problem: the pipeline did not saturate (buffer %d/%d)", len(rm.ingestChan), cap(rm.ingestChan))
		}
		// 3. the sweep
		rm.RemoveOldRegistrations()
		expired := time.Duration(c.AgeS)*time.Second > c08Unused
		classes := []string{fmt.Sprintf("workers:%d", c.Workers)}
		if expired && c.Aged > 0 {
			classes = append(classes, "saturated-at-sweep")
		}
		rec.Case(expired && c.Aged > 0, vh.Digest(c), c, classes...)
		for i, reg := range aged {
			tracked, _, _ := VerifRegState(&rm, reg)
			if expired && tracked {
				rec.Violation(tf, "kept-past-lifetime:under-load", c, "registration %d of %d (unused, %v old) is still tracked after a sweep that ran while the ingest pipeline was saturated (%d workers busy, buffer full, registrations being dropped)", i, c.Aged, time.Duration(c.AgeS)*time.Second, c.Workers)
				return
			}
			if !expired && !tracked {
				rec.Violation(tf, "expired-early", c, "registration %d (%v old) was forgotten before its lifetime ended", i, time.Duration(c.AgeS)*time.Second)
				return
			}
		}
		for i, reg := range fresh {
			if tracked, _, _ := VerifRegState(&rm, reg); !tracked {
				rec.Violation(tf, "expired-early", c, "fresh registration %d was forgotten by the sweep", i)
				return
			}
		}
		gate.Open()
		cancel()
		select {
		case <-returned:
		case <-time.After(30 * time.Second):
			tf.Fatalf("harness problem: HandleRegUpdates did not return")
		}
	}
	if p := vh.ReplayFile(); p != "" {
		if !strings.Contains(p, "underload") {
			t.Skip("replay file belongs to another sub-check")
		}
		var c c08LoadCase
		if _, _, err := vh.LoadReplay(p, &c); err != nil {
			t.Fatal(err)
		}
		run(t, c)
		return
	}
	n := vh.Pick(6, 200)
	_, shards := vh.Shard()
	left := (n + shards - 1) / shards
	rapid.Check(t, func(rt *rapid.T) {
		if left <= 0 {
			return
		}
		left--
		run(rt, c08LoadCase{
			Workers: rapid.SampledFrom([]int{10, 20}).Draw(rt, "workers"),
			Aged:    rapid.IntRange(1, 40).Draw(rt, "aged"),
			Fresh:   rapid.IntRange(0, 10).Draw(rt, "fresh"),
			AgeS:    rapid.SampledFrom([]int64{660, 660, 3600, 7 * 3600, 540}).Draw(rt, "age"),
		})
	})
}
