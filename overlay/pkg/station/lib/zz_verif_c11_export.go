package lib

// Export shim for the C11 checks in cmd/application (`package main` cannot reach the ingest path).
// A NON-test file that is only ever compiled through the /verif overlay for property C11; it never
// exists in /repo and adds no behaviour to any existing function.

// VerifC11Ingest does with one ZMQ message exactly what an ingest worker (startIngestThread) does:
// parseRegMessage, then ingestRegistration for every registration it returned. It returns those
// registration objects.
func VerifC11Ingest(rm *RegistrationManager, msg []byte) ([]*DecoyRegistration, error) {
	regs, err := rm.parseRegMessage(msg)
	if err != nil {
		return nil, err
	}
	var out []*DecoyRegistration
	for _, reg := range regs {
		if reg == nil {
			continue
		}
		rm.ingestRegistration(reg)
		out = append(out, reg)
	}
	return out, nil
}

// VerifC11SetConnectingStats installs the connecting-transport stats sink (cmd/application sets its
// connManager through RegConfig.ConnectingStats at start-up).
func VerifC11SetConnectingStats(rm *RegistrationManager, s ConnectingTpStats) { rm.connectingStats = s }
