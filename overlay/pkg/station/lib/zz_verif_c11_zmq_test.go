package lib

// C11 — no externally supplied bytes can crash a station: the ZMQ ingest path.
//
// Entry point: the bytes of one ZMQ registration message -> parseRegMessage -> ingestRegistration
// for every returned registration (exactly what startIngestThread does), on a RegistrationManager
// with every transport enabled (min, obfs4, prefix, and the DTLS connecting transport whose
// parameter / port / identifier code is the real one and whose Connect is a stub that fails at once:
// the real Connect is exercised by the dtlsconnect sub-check in pkg/transports/connecting/dtls),
// recorders instead of the detector publication, a scripted liveness tester, a resolver that
// answers nothing (no network), no share-over-API.
//
// Oracle (inside the target): the call returns, with or without an error; it does not panic
// (recovered -> violation panic:zmq:<top frame>); it finishes within c11h.Bound.

import (
	"context"
	"encoding/json"
	"errors"
	"fmt"
	golog "log"
	"net"
	"os"
	"strings"
	"sync"
	"sync/atomic"
	"testing"
	"time"

	"github.com/refraction-networking/conjure/pkg/station/geoip"
	"github.com/refraction-networking/conjure/pkg/station/log"
	"github.com/refraction-networking/conjure/pkg/transports"
	cdtls "github.com/refraction-networking/conjure/pkg/transports/connecting/dtls"
	pb "github.com/refraction-networking/conjure/proto"
	"google.golang.org/protobuf/proto"
	"google.golang.org/protobuf/types/known/anypb"
	"pgregory.net/rapid"
	"verif/harness/c11h"
	"verif/harness/vh"
)

const c11ZmqSub = "zmq"

// c11DTLS is the station's DTLS transport with Connect replaced: everything the ingest path calls
// while parsing (ParseParams, GetDstPort, GetProto, GetIdentifier, ParamStrings) is the real code.
type c11DTLS struct {
	cdtls.Transport
	calls atomic.Int64
}

func (d *c11DTLS) Connect(ctx context.Context, reg transports.Registration) (net.Conn, error) {
	d.calls.Add(1)
	// what the real Connect does before it touches the network
	if reg.TransportType() != pb.TransportType_DTLS {
		return nil, transports.ErrNotTransport
	}
	if _, ok := reg.TransportParams().(*pb.DTLSTransportParams); !ok {
		return nil, fmt.Errorf("transport params is not *pb.DTLSTransportParams")
	}
	return nil, errors.New("verif: no network")
}

// c11ConnStats records the life cycle of the goroutine handleConnectingTpReg starts.
type c11ConnStats struct {
	started, finished atomic.Int64
}

func (s *c11ConnStats) AddCreatedConnecting(uint, string, string)               { s.started.Add(1) }
func (s *c11ConnStats) AddCreatedToSuccessfulConnecting(uint, string, string)   {}
func (s *c11ConnStats) AddCreatedToTimeoutConnecting(uint, string, string)      { s.finished.Add(1) }
func (s *c11ConnStats) AddSuccessfulToDiscardedConnecting(uint, string, string) { s.finished.Add(1) }
func (s *c11ConnStats) AddOtherFailConnecting(uint, string, string)             { s.finished.Add(1) }

// c11Geo behaves like the MaxMind reader: a verdict for well-formed addresses, an error otherwise.
type c11Geo struct{}

func (c11Geo) CC(ip net.IP) (string, error) {
	if len(ip) != 4 && len(ip) != 16 {
		return "", errors.New("ipAddress passed to Lookup cannot be nil or malformed")
	}
	if ip[len(ip)-1]&1 == 1 {
		return "unk", nil
	}
	return "US", nil
}
func (c11Geo) ASN(ip net.IP) (uint, error) {
	if len(ip) != 4 && len(ip) != 16 {
		return 0, errors.New("ipAddress passed to Lookup cannot be nil or malformed")
	}
	return 64512, nil
}

type c11LibEnv struct {
	*vEnv
	peer     *c11Peer
	slog     *c11ShareLog
	dtls     *c11DTLS
	cs       *c11ConnStats
	emptyGeo geoip.Database
	block    []*net.IPNet
}

var c11ResolverOnce sync.Once

// c11NoNetwork makes every name lookup fail at once instead of sending DNS queries.
func c11NoNetwork() {
	c11ResolverOnce.Do(func() {
		net.DefaultResolver = &net.Resolver{PreferGo: true, Dial: func(context.Context, string, string) (net.Conn, error) {
			return nil, errors.New("verif: no network")
		}}
	})
}

func c11NewLibEnv(tb testing.TB) *c11LibEnv {
	c11NoNetwork()
	cs := &c11ConnStats{}
	e := &c11LibEnv{vEnv: vNewEnv(tb, &RegConfig{EnableIPv4: true, EnableIPv6: true, ConnectingStats: cs}, ""), dtls: &c11DTLS{}, cs: cs}
	e.slog = &c11ShareLog{}
	lg := log.New(e.slog, "[REG] ", golog.Ldate|golog.Lmicroseconds)
	lg.SetLevel(log.TraceLevel)
	e.rm.Logger = lg
	e.peer = c11NewPeer(tb)
	e.emptyGeo = e.rm.GeoIP
	if err := e.rm.AddTransport(pb.TransportType_DTLS, e.dtls); err != nil {
		tb.Fatalf("harness problem: %v", err)
	}
	_, n1, _ := net.ParseCIDR("192.122.190.0/25")
	_, n2, _ := net.ParseCIDR("2001:48a8:687f:1::/65")
	e.block = []*net.IPNet{n1, n2}
	return e
}

// c11Reset puts every piece of state a case can touch back to its initial value.
func (e *c11LibEnv) c11Reset(cfg uint16) {
	old := e.rm.registeredDecoys
	nr := NewRegisteredDecoys()
	for k, v := range old.transports {
		nr.transports[k] = v
	}
	nr.registerForDetector = old.registerForDetector
	nr.updateInDetector = old.updateInDetector
	e.rm.registeredDecoys = nr
	e.mu.Lock()
	e.anns = nil
	e.mu.Unlock()
	e.live.mu.Lock()
	e.live.Calls = nil
	switch {
	case cfg&1 != 0:
		e.live.Verdict = func(string, uint16) (bool, error) { return true, errors.New("phantom is live") }
	case cfg&2 != 0:
		e.live.Verdict = func(string, uint16) (bool, error) { return false, errors.New("scan failed") }
	default:
		e.live.Verdict = nil
	}
	e.live.mu.Unlock()
	if cfg&4 != 0 {
		e.rm.GeoIP = c11Geo{}
	} else {
		e.rm.GeoIP = e.emptyGeo
	}
	mode := c11ShareMode(cfg)
	e.rm.EnableShareOverAPI = mode != 0
	e.rm.PreshareEndpoint = e.peer.endpoint(mode)
	e.peer.mode.Store(int32(mode))
	e.rm.EnableIPv4 = cfg&8 == 0
	e.rm.EnableIPv6 = cfg&16 == 0
	if cfg&64 != 0 {
		e.rm.RegConfig.phantomBlocklist = e.block
	} else {
		e.rm.RegConfig.phantomBlocklist = nil
	}
	e.cs.started.Store(0)
	e.cs.finished.Store(0)
	e.dtls.calls.Store(0)
}

type c11ZmqCase struct {
	Msg  vh.Hex `json:"msg"`
	Cfg  uint16 `json:"cfg"` // 1 live phantom, 2 liveness error, 4 MaxMind-like GeoIP, 8 IPv4 off, 16 IPv6 off, 32 deliver twice, 64 phantom blocklist, bits 7-9 share-over-API mode (see zz_verif_c11_share_test.go)
	Kind string `json:"kind,omitempty"`
}

func c11ErrClass(err error) string {
	s := err.Error()
	for _, k := range []string{"failed to generate keys", "failed phantom select", "unknown transport", "error handling transport params",
		"error selecting phantom dst port", "error determining phantom connection proto", "IPv6 client chose IPv4 phantom", "failed geoip", "cannot parse invalid wire-format", "proto:"} {
		if strings.Contains(s, k) {
			return strings.ReplaceAll(k, " ", "-")
		}
	}
	return "other"
}

// c11ZmqRun is what one ingest worker does with one message.
func c11ZmqRun(e *c11LibEnv, c c11ZmqCase) (classes []string, nontrivial bool, o c11h.Outcome) {
	e.c11Reset(c.Cfg)
	rounds := 1
	if c.Cfg&32 != 0 {
		rounds = 2
	}
	cls := map[string]bool{}
	wantConnect := int64(0)
	mode := c11ShareMode(c.Cfg)
	wantShare, handled0, failed0 := int64(0), e.peer.handled.Load(), e.slog.failed.Load()
	if w := (&pb.C2SWrapper{}); mode != 0 && proto.Unmarshal(c.Msg, w) == nil && w.GetRegistrationSource() == pb.RegistrationSource_Detector {
		// a panic in the sharing goroutine cannot be recovered and kills the process: leave the case in
		// the log so that the crash report (the log) says which input it was
		if b, err := json.Marshal(c); err == nil {
			fmt.Fprintf(os.Stderr, "C11-ZMQ-SHARE-CASE %s\n", b)
		}
	}
	o = c11h.Guard(c11h.Bound, func() {
		for r := 0; r < rounds; r++ {
			before := len(e.Anns())
			regs, err := e.rm.parseRegMessage(append([]byte(nil), c.Msg...))
			if err != nil {
				cls["err:"+c11ErrClass(err)] = true
				if !strings.HasPrefix(c11ErrClass(err), "cannot-parse") && !strings.HasPrefix(c11ErrClass(err), "proto:") {
					nontrivial = true
				}
				continue
			}
			if len(regs) == 0 {
				cls["no-family-requested"] = true
				continue
			}
			nontrivial = true
			for _, reg := range regs {
				if reg == nil {
					continue
				}
				if reg.PhantomIp.To4() != nil {
					cls["created-v4"] = true
				} else {
					cls["created-v6"] = true
				}
				cls["transport:"+reg.Transport.String()] = true
				e.rm.ingestRegistration(reg)
				// what the connection handler and the sweeper do with whatever was stored
				_ = e.rm.GetRegistrations(reg.PhantomIp)
				_ = e.rm.CountRegistrations(reg.PhantomIp)
			}
			anns := e.Anns()
			for _, a := range anns[before:] {
				cls["validated"] = true
				if a.Reg != nil && a.Reg.Transport == pb.TransportType_DTLS {
					wantConnect++
				}
				if a.Reg != nil {
					_ = a.Reg.String()
					shared := a.Reg.GenerateC2SWrapper()
					if mode != 0 && shared != nil && a.Reg.RegistrationSource != nil && *a.Reg.RegistrationSource == pb.RegistrationSource_Detector {
						wantShare++ // ingest started `go tryShareRegistrationOverAPI` for it
					}
				}
			}
			if len(anns) == before {
				cls["not-validated"] = true
			}
			if r == 1 {
				cls["second-delivery"] = true
			}
		}
		e.rm.RemoveOldRegistrations()
		// the goroutine started for a connecting transport must end (its Connect fails at once);
		// if it never does, the Guard's watch reports the hang
		for e.cs.finished.Load() < wantConnect {
			time.Sleep(50 * time.Microsecond)
		}
		if wantShare > 0 {
			cls[fmt.Sprintf("share-started:mode-%d", mode)] = true
			if !e.c11AwaitShares(mode, wantShare, handled0, failed0) {
				cls["share-wait-gave-up"] = true // no verdict
			} else if mode == 1 {
				cls["share-accepted-by-peer"] = true
			} else {
				cls["share-failed-and-logged"] = true
			}
		}
	})
	if o.Hung || o.Inconclusive {
		// the abandoned goroutine may still be writing to cls
		return []string{"gave-up-waiting"}, true, o
	}
	if wantConnect > 0 {
		cls["connecting-transport-started"] = true
	}
	for k := range cls {
		classes = append(classes, k)
	}
	return classes, nontrivial, o
}

func c11ZmqCheck(t vh.Fataler, rec *vh.Rec, e *c11LibEnv, c c11ZmqCase, fuzz bool) {
	classes, nontrivial, o := c11ZmqRun(e, c)
	classes = append(classes, c11h.Source(fuzz))
	if c.Kind != "" {
		classes = append(classes, "kind:"+c.Kind)
	}
	c11h.Report(t, rec, c11ZmqSub, "zmq", c, vh.Digest(c), o, nontrivial, classes...)
}

const c11ZmqRule = "one ZMQ message through parseRegMessage + ingestRegistration (all transports, DTLS Connect stubbed, recorders, drawn station configuration incl. share-over-API against a local peer that answers 200 / 500 / garbage, closes, refuses, stalls or does not resolve); generated: C2SWrapper built field by field (each field present / absent / hostile: secrets and addresses of every length, out-of-range enums and versions, transport parameters of the matching, a mismatched or a corrupt type, registrar responses with overrides), 25 % with byte-level edits, 5 % raw bytes; plus the seed corpus (messages as the real registrar forwards them, hostile constants); non-trivial = the message parsed and asked for at least one address family, i.e. registration building / ingest logic ran; distinct by (message, configuration)"

func c11ZmqGen(rt *rapid.T) c11ZmqCase {
	msg, kind := c11h.GenWrapperBytes(rt, c11h.Dom{Gens: []uint32{1, 957}})
	cfg := uint16(0)
	if rapid.IntRange(0, 2).Draw(rt, "cfg_nondefault") == 0 {
		cfg = uint16(rapid.IntRange(0, 127).Draw(rt, "cfg"))
	} else if rapid.Bool().Draw(rt, "twice") {
		cfg = 32
	}
	if rapid.IntRange(0, 2).Draw(rt, "share") == 2 {
		cfg |= uint16(rapid.IntRange(1, 7).Draw(rt, "share_mode")) << 7
		// sharing only concerns registrations learned from the detector: mostly say so
		if rapid.IntRange(0, 3).Draw(rt, "as_detector") != 3 {
			w := &pb.C2SWrapper{}
			if proto.Unmarshal(msg, w) == nil {
				w.RegistrationSource = pb.RegistrationSource_Detector.Enum()
				if b, err := proto.Marshal(w); err == nil {
					msg = b
				}
			}
		}
	}
	return c11ZmqCase{Msg: msg, Cfg: cfg, Kind: kind}
}

func c11Any(m proto.Message, url string) *anypb.Any {
	a, err := anypb.New(m)
	if err != nil {
		panic(err)
	}
	if url != "keep" {
		a.TypeUrl = url
	}
	return a
}

// c11ZmqSeeds: messages in the shape the registrars forward them (the byte-exact output of the real
// registrar is in the committed corpus, written by the regprocessor check) and hostile constants.
func c11ZmqSeeds() [][]any {
	var out [][]any
	add := func(w *pb.C2SWrapper, cfg uint16) {
		b, err := proto.Marshal(w)
		if err != nil {
			panic(err)
		}
		out = append(out, []any{b, cfg})
	}
	v4 := net.ParseIP("198.51.100.7").To4()
	for i, tt := range []pb.TransportType{pb.TransportType_Min, pb.TransportType_Obfs4, pb.TransportType_Prefix, pb.TransportType_DTLS} {
		w := vWrapper(vSecret(100+i), tt, 0, "192.0.2.10:443", true, true, 4, 957, pb.RegistrationSource_API, v4)
		if tt == pb.TransportType_DTLS {
			w.RegistrationPayload.TransportParams = c11Any(&pb.DTLSTransportParams{
				SrcAddr4: &pb.Addr{IP: v4, Port: proto.Uint32(40000)}, SrcAddr6: &pb.Addr{IP: net.ParseIP("2001:db8::7"), Port: proto.Uint32(40001)},
				RandomizeDstPort: proto.Bool(true)}, "keep")
		}
		add(w, 0)
		add(w, 32)
		w2 := proto.Clone(w).(*pb.C2SWrapper)
		w2.RegistrationSource = pb.RegistrationSource_Detector.Enum()
		w2.DecoyAddress = net.ParseIP("203.0.113.9").To4()
		w2.RegistrationPayload.TransportParams.TypeUrl = "" // as sent over the DNS registrar
		add(w2, 4)
		for m := uint16(1); m <= 7; m++ {
			add(w2, m<<7|uint16(i%2)*16) // share-over-API enabled, every peer behaviour; v4+v6 and v4-only stations
		}
		w3 := proto.Clone(w).(*pb.C2SWrapper)
		w3.RegistrationSource = pb.RegistrationSource_BidirectionalAPI.Enum()
		w3.RegistrationResponse = &pb.RegistrationResponse{Ipv4Addr: proto.Uint32(0xC07ABE21), Ipv6Addr: net.ParseIP("2001:48a8:687f:1::21"), DstPort: proto.Uint32(8443),
			TransportParams: c11Any(&pb.PrefixTransportParams{PrefixId: proto.Int32(3), Prefix: []byte("HTTP/1.1 200\r\n"), CustomFlushPolicy: proto.Int32(1)}, "keep")}
		add(w3, 0)
	}
	// hostile constants
	base := func() *pb.C2SWrapper {
		return vWrapper(vSecret(200), pb.TransportType_Min, 0, "192.0.2.10:443", true, true, 4, 957, pb.RegistrationSource_API, v4)
	}
	w := base()
	w.RegistrationPayload = nil
	add(w, 0)
	w = base()
	w.SharedSecret = nil
	add(w, 0)
	w = base()
	w.SharedSecret = []byte{1, 2, 3}
	add(w, 0)
	w = base()
	w.RegistrationAddress = []byte{1, 2, 3}
	add(w, 4)
	w = base()
	w.RegistrationAddress = nil
	w.RegistrationSource = nil
	add(w, 0)
	w = base()
	w.RegistrationPayload.TransportParams = nil
	w.RegistrationPayload.Transport = pb.TransportType_Prefix.Enum()
	add(w, 0)
	w = base()
	w.RegistrationPayload.Transport = pb.TransportType(77).Enum()
	add(w, 0)
	w = base()
	w.RegistrationPayload.Flags = nil
	w.RegistrationPayload.ClientLibVersion = proto.Uint32(0)
	w.RegistrationPayload.DecoyListGeneration = proto.Uint32(1)
	add(w, 0)
	w = base()
	w.RegistrationResponse = &pb.RegistrationResponse{Ipv6Addr: []byte{1, 2, 3}, Ipv4Addr: proto.Uint32(1), DstPort: proto.Uint32(1 << 20)}
	add(w, 0)
	w = base()
	w.RegistrationPayload.Transport = pb.TransportType_DTLS.Enum()
	w.RegistrationPayload.TransportParams = c11Any(&pb.DTLSTransportParams{SrcAddr4: &pb.Addr{}, SrcAddr6: nil}, "keep")
	add(w, 0)
	w = base()
	w.RegistrationPayload.Transport = pb.TransportType_DTLS.Enum()
	w.RegistrationPayload.TransportParams = c11Any(&pb.GenericTransportParams{RandomizeDstPort: proto.Bool(true)}, "")
	add(w, 0)
	w = base()
	w.RegistrationPayload.CovertAddress = proto.String("verif-c11.invalid:443")
	add(w, 1)
	out = append(out, []any{[]byte{}, uint16(0)}, []any{[]byte{0x1a, 0x00}, uint16(0)}, []any{[]byte{0x1a, 0x02, 0xb8, 0x01}, uint16(0)},
		[]any{[]byte{0x0a, 0xff, 0xff, 0xff, 0xff, 0x0f}, uint16(0)}, []any{[]byte{0x1a, 0x04, 0xb8, 0x01, 0x01, 0x0b}, uint16(0)})
	return out
}

func TestVerif_C11_zmq(t *testing.T) {
	rec := c11h.Rec(c11ZmqSub, c11ZmqRule)
	defer rec.Flush()
	e := c11NewLibEnv(t)
	if p := vh.ReplayFile(); p != "" {
		var c c11ZmqCase
		if _, _, err := vh.LoadReplay(p, &c); err != nil {
			t.Fatal(err)
		}
		c11ZmqCheck(t, rec, e, c, false)
		return
	}
	rec.Require("share-started:mode-1", "share-started:mode-2", "share-started:mode-3", "share-started:mode-4", "share-started:mode-5", "share-started:mode-6", "share-started:mode-7",
		"share-accepted-by-peer", "share-failed-and-logged",
		"validated", "created-v4", "created-v6", "second-delivery", "connecting-transport-started", "err:error-handling-transport-params",
		"err:failed-phantom-select", "transport:Min", "transport:Obfs4", "transport:Prefix", "transport:DTLS", "kind:mutated", "kind:structured")
	if err := c11h.WriteCorpus("FuzzVerif_C11_zmq", c11ZmqSeeds()); err != nil {
		t.Fatalf("harness problem: %v", err)
	}
	rapid.Check(t, func(rt *rapid.T) {
		c11ZmqCheck(rt, rec, e, c11ZmqGen(rt), false)
	})
}

func FuzzVerif_C11_zmq(f *testing.F) {
	rec := c11h.Rec(c11ZmqSub, c11ZmqRule)
	defer rec.Flush()
	e := c11NewLibEnv(f)
	for _, s := range c11ZmqSeeds() {
		f.Add(s[0], s[1])
	}
	f.Fuzz(func(t *testing.T, msg []byte, cfg uint16) {
		if len(msg) > 1<<16 {
			return
		}
		c11ZmqCheck(t, rec, e, c11ZmqCase{Msg: msg, Cfg: cfg & 1023}, true)
	})
}
