package lib

// C07 — a registration becomes usable only when every admission condition holds.
//
// C2SWrapper messages from a field grammar x station configurations x scripted liveness verdicts
// (generator, builder, environment and reference predicate: zz_verif_helpers_c07gen_test.go) are
// marshalled and pushed through the station's own parseRegMessage + ingestRegistration. Compared
// with the reference admission predicate:
//   - GetRegistrations(phantom)            usable   <=> admitted
//   - detector announcement recorder       announced <=> admitted, exactly once
//   - calls on the injected liveness tester probe    <=> IPv4 phantom, not pre-scanned, all earlier conditions hold
//   - requests seen by the peer-API stand-in: only detector-sourced, only after a passing probe, at
//     most one per client registration, marked pre-scanned / DetectorPrescan, payload otherwise equal
// Both directions on the well-formed domain; only "never usable unless every condition holds" on the
// quirk domain. Necessity of each condition: from an admitted case exactly one condition is falsified
// and rejection is required (metamorphic twins).

import (
	"bytes"
	"errors"
	"fmt"
	"net"
	"sort"
	"strings"
	"testing"

	pb "github.com/refraction-networking/conjure/proto"
	"google.golang.org/protobuf/proto"
	"pgregory.net/rapid"
	"verif/harness/vh"
)

// c07Obs is what was observed after delivering a case's message.
type c07Obs struct {
	ParseErr string
	Usable   [2]bool
	NewAnns  [2]int
	Probes   [2]int
	ProbeLog []string
	Shares   [][]byte
	Ports    [2]int // destination port of the usable registration (-1 if none)
}

type c07Viol struct{ Key, Msg string }

var errC07Collision = errors.New("both slots share one phantom")

func c07V(key, format string, a ...any) *c07Viol { return &c07Viol{key, fmt.Sprintf(format, a...)} }

// c07Observe collects the observations and reports anything observed that belongs to no expected
// phantom at all.
func c07Observe(e *c07Env, c c07Case, exp c07Expect, perr error) (c07Obs, *c07Viol) {
	o := c07Obs{Ports: [2]int{-1, -1}}
	if perr != nil {
		o.ParseErr = perr.Error()
	}
	match := func(ip net.IP) int {
		for i := range exp.Fam {
			ph := exp.Fam[i].Phantom
			switch {
			case ph == nil:
			case ph.To16() != nil && ip.To16() != nil:
				if ph.Equal(ip) {
					return i
				}
			case ph.To16() == nil && bytes.Equal(ph, ip):
				return i // registrar-assigned "address" of the wrong length (quirk domain): raw bytes
			}
		}
		return -1
	}
	// usable through the lookup connection handling uses
	for i := range exp.Fam {
		ph := exp.Fam[i].Phantom
		if ph == nil {
			continue
		}
		for _, r := range e.rm.GetRegistrations(ph) {
			d := r.(*DecoyRegistration)
			if bytes.Equal(d.Keys.SharedSecret, c.Msg.Secret) && int(d.Transport) == c.Msg.Transport {
				o.Usable[i] = true
				o.Ports[i] = int(d.PhantomPort)
			}
		}
	}
	// ... and nothing else is
	for _, d := range e.validRegs() {
		i := match(d.PhantomIp)
		if i < 0 {
			// no phantom is expected at all for that family (e.g. the generation is unknown): the
			// root cause is the condition that fails, not the address
			slot := 1
			if d.PhantomIp.To4() != nil {
				slot = 0
			}
			if f := exp.Fam[slot]; f.Phantom == nil && f.FirstFail != "" && f.FirstFail != "no-phantom" {
				return o, c07V("admit:"+f.FirstFail, "a registration is usable on phantom %v in spite of %s", d.PhantomIp, c07CondString(f))
			}
			return o, c07V("admit:unexpected-phantom", "a registration is usable on phantom %v, which is neither the selected nor the registrar-assigned phantom of the message", d.PhantomIp)
		}
		if !o.Usable[i] {
			return o, c07V("admit:lookup-mismatch", "registry holds a valid registration on %v that GetRegistrations does not return", d.PhantomIp)
		}
	}
	for _, a := range e.Anns() {
		i := match(a.Reg.PhantomIp)
		if i < 0 {
			return o, c07V("admit:unexpected-phantom", "announced %s for phantom %v, which is neither the selected nor the registrar-assigned phantom of the message", a.Op, a.Phantom)
		}
		if a.Op != "New" {
			return o, c07V("announce:wrong-operation", "announced %s for %v during ingest", a.Op, a.Phantom)
		}
		o.NewAnns[i]++
	}
	e.live.mu.Lock()
	calls := append([]string(nil), e.live.Calls...)
	e.live.mu.Unlock()
	o.ProbeLog = calls
	for _, call := range calls {
		// the recorder writes "<addr>:<port>" without brackets
		host, port := call, ""
		if k := strings.LastIndexByte(call, ':'); k >= 0 {
			host, port = call[:k], call[k+1:]
		}
		i := match(net.ParseIP(host))
		if i < 0 {
			return o, c07V("probe:unexpected-address", "liveness probe sent to %s, which is not a phantom of this message", call)
		}
		o.Probes[i]++
		if po := exp.Fam[i].PortOvr; po > 0 && po <= 65535 && port != fmt.Sprint(po) {
			return o, c07V("probe:wrong-port", "liveness probe sent to %s but the registrar assigned destination port %d", call, po)
		}
	}
	o.Shares = e.Shares()
	return o, nil
}

func c07CondString(f c07Fam) string {
	var s []string
	for _, cd := range f.Conds {
		if !cd.OK {
			s = append(s, cd.Name)
		}
	}
	if len(s) == 0 {
		return "all conditions hold"
	}
	return "failed conditions: " + strings.Join(s, ", ")
}

// c07Oracle compares observations with the reference predicate.
func c07Oracle(c c07Case, exp c07Expect, o c07Obs) *c07Viol {
	m := c.Msg
	for i, f := range exp.Fam {
		what := fmt.Sprintf("%s slot (phantom %v)", f.Slot, f.Phantom)
		if (o.Usable[i] || o.NewAnns[i] > 0) && !f.Admit {
			return c07V("admit:"+f.FirstFail, "%s: usable=%v announced=%d in spite of %s", what, o.Usable[i], o.NewAnns[i], c07CondString(f))
		}
		if exp.WF && f.Admit && !o.Usable[i] {
			return c07V("reject:all-conditions-hold", "%s: every admission condition holds (well-formed message) but no usable registration results; parse error=%q", what, o.ParseErr)
		}
		if o.Usable[i] && o.NewAnns[i] == 0 {
			return c07V("announce:missing", "%s: usable but never announced to the detector", what)
		}
		if o.NewAnns[i] > 1 {
			return c07V("announce:more-than-once", "%s: announced %d times", what, o.NewAnns[i])
		}
		if !o.Usable[i] && o.NewAnns[i] > 0 {
			return c07V("announce:not-usable", "%s: announced but not usable", what)
		}
		// liveness probe only when one is required
		if o.Probes[i] > 0 && f.ProbeNeed == 0 {
			why := f.FirstFail
			switch {
			case !f.PreProbe:
			case !f.PhantomV4:
				why = "ipv6-phantom"
			case m.prescanned():
				why = "prescanned"
			}
			return c07V("probe:unneeded:"+why, "%s: %d liveness probe(s) %v sent although none is required (%s; %s)", what, o.Probes[i], o.ProbeLog, why, c07CondString(f))
		}
		if o.Probes[i] > 1 {
			return c07V("probe:repeated", "%s: probed %d times for one registration", what, o.Probes[i])
		}
		if exp.WF && f.ProbeNeed == 1 && o.Probes[i] == 0 {
			return c07V("probe:missing", "%s: IPv4 phantom, not pre-scanned, all earlier conditions hold, but no liveness probe was sent (usable=%v)", what, o.Usable[i])
		}
	}
	return c07ShareOracle(c, exp, o)
}

func c07ShareOracle(c c07Case, exp c07Expect, o c07Obs) *c07Viol {
	m := c.Msg
	n := len(o.Shares)
	if n == 0 {
		return nil
	}
	if n > 1 {
		if exp.Fam[1].PhantomV4 {
			// quirk domain: the registrar response carries an IPv4 address in its IPv6 field, so the
			// "IPv6" registration is a second IPv4 one; registrations from the detector (the only
			// ones passed on) never carry a registrar response. Not defined by the statement.
			return nil
		}
		return c07V("share:double", "%d requests to the peer API for one client registration", n)
	}
	if !c.Conf.Share {
		return c07V("share:disabled", "request to the peer API although enable_share_over_api is off")
	}
	if m.Source != int(pb.RegistrationSource_Detector) {
		return c07V("share:not-detector-source", "registration with source %d was passed on to the peer API", m.Source)
	}
	if !exp.Fam[0].SharePass && !exp.Fam[1].SharePass {
		for _, f := range exp.Fam {
			if f.PreProbe && f.ProbeNeed != 0 {
				return c07V("share:before-probe", "passed on to the peer API although the %s phantom %v answered the liveness probe (verdict %s)", f.Slot, f.Phantom, c.Live)
			}
		}
		return c07V("share:rejected-registration", "passed on to the peer API although no family passed the checks (v4: %s; v6: %s)", c07CondString(exp.Fam[0]), c07CondString(exp.Fam[1]))
	}
	got := &pb.C2SWrapper{}
	if err := proto.Unmarshal(o.Shares[0], got); err != nil {
		return c07V("share:content:unparsable", "peer API request body is not a C2SWrapper: %v", err)
	}
	if got.GetRegistrationSource() != pb.RegistrationSource_DetectorPrescan {
		return c07V("share:content:source", "shared registration has source %v, want DetectorPrescan", got.GetRegistrationSource())
	}
	if !got.GetRegistrationPayload().GetFlags().GetPrescanned() {
		return c07V("share:content:prescanned", "shared registration is not flagged pre-scanned")
	}
	if !bytes.Equal(got.GetSharedSecret(), m.Secret) {
		return c07V("share:content:secret", "shared secret differs: %x", got.GetSharedSecret())
	}
	wantAddr := []byte(m.RegAddr)
	if !m.HasRegAddr {
		wantAddr = make([]byte, 16) // the station's own stand-in for "not provided"
	}
	if !bytes.Equal(got.GetRegistrationAddress(), wantAddr) {
		return c07V("share:content:registrant", "shared registrant address %x, original %x", got.GetRegistrationAddress(), wantAddr)
	}
	if m.RR == nil {
		want := c07Payload(m)
		if want.Flags == nil {
			want.Flags = &pb.RegistrationFlags{}
		}
		want.Flags.Prescanned = proto.Bool(true)
		g := proto.Clone(got.GetRegistrationPayload()).(*pb.ClientToStation)
		// the station fills in / normalises the type URL of the parameters it parsed
		if want.TransportParams != nil && g.TransportParams != nil {
			want.TransportParams.TypeUrl, g.TransportParams.TypeUrl = "", ""
		}
		if !proto.Equal(want, g) {
			return c07V("share:content:payload", "shared payload differs from the original beyond the pre-scanned flag:\n got %v\nwant %v", g, want)
		}
	}
	return nil
}

// ------------------------------------------------------------------------------------------------
// Twins: exactly one condition falsified

type c07Twin struct {
	Name string // condition that is falsified
	Fam  int    // family slot that must become unusable
	Case c07Case
}

func c07HostCIDR(ip net.IP) string {
	if v4 := ip.To4(); v4 != nil {
		return v4.String() + "/32"
	}
	return ip.String() + "/128"
}

// c07NarrowWide returns two networks with the same base address: wide holds ip, narrow does not.
func c07NarrowWide(ip net.IP) (narrow, wide string, ok bool) {
	wbits, nbits, total := 24, 30, 32
	b := ip.To4()
	if b == nil {
		b, wbits, nbits, total = ip.To16(), 64, 126, 128
	}
	base := b.Mask(net.CIDRMask(wbits, total))
	n := &net.IPNet{IP: base, Mask: net.CIDRMask(nbits, total)}
	if n.Contains(ip) {
		return "", "", false
	}
	return n.String(), (&net.IPNet{IP: base, Mask: net.CIDRMask(wbits, total)}).String(), true
}

func c07Twins(c c07Case, exp c07Expect) []c07Twin {
	var out []c07Twin
	add := func(name string, fam int, mut func(d *c07Case)) {
		d := c07Clone(c)
		d.Repeat = false
		mut(&d)
		out = append(out, c07Twin{name, fam, d})
	}
	covertIP := func() net.IP {
		host, _, _ := net.SplitHostPort(c.Msg.Covert)
		return net.ParseIP(host)
	}
	for i, f := range exp.Fam {
		if !f.Admit {
			continue
		}
		i, f := i, f
		add("secret-absent", i, func(d *c07Case) { d.Msg.HasSecret, d.Msg.Secret = false, nil })
		add("secret-empty", i, func(d *c07Case) { d.Msg.HasSecret, d.Msg.Secret = true, vh.Hex{} })
		add("secret-7-bytes", i, func(d *c07Case) { d.Msg.Secret = append(vh.Hex{}, c.Msg.Secret[:c07MinSecret-1]...) })
		add("secret-4-bytes", i, func(d *c07Case) { d.Msg.Secret = append(vh.Hex{}, c.Msg.Secret[:4]...) })
		add("payload-absent", i, func(d *c07Case) { d.Msg.HasPayload = false })
		add("transport-disabled-on-station", i, func(d *c07Case) {
			var keep []int
			for _, t := range d.Conf.Transports {
				if t != d.Msg.Transport {
					keep = append(keep, t)
				}
			}
			d.Conf.Transports = keep
		})
		add("transport-never-enabled", i, func(d *c07Case) { d.Msg.Transport = int(pb.TransportType_uTLS) })
		add("transport-not-in-enum", i, func(d *c07Case) { d.Msg.Transport = 77 })
		add("transport-absent", i, func(d *c07Case) { d.Msg.Transport = -1 })
		add("generation-unknown", i, func(d *c07Case) { d.Msg.Gen = 958 })
		add("generation-absent", i, func(d *c07Case) { d.Msg.Gen = -1 })
		add("family-disabled-on-station", i, func(d *c07Case) {
			if f.Slot == "v4" {
				d.Conf.EnableV4 = false
			} else {
				d.Conf.EnableV6 = false
			}
		})
		add("family-not-supported-by-client", i, func(d *c07Case) {
			if f.Slot == "v4" {
				d.Msg.V4 = 0
			} else {
				d.Msg.V6 = 0
			}
		})
		add("family-flag-absent", i, func(d *c07Case) {
			if f.Slot == "v4" {
				d.Msg.V4 = -1
			} else {
				d.Msg.V6 = -1
			}
		})
		if f.PhantomV4 {
			add("registrant-ipv6", i, func(d *c07Case) { d.Msg.HasRegAddr, d.Msg.RegAddr = true, c07IP("2001:db8:1::7") })
			add("registrant-absent", i, func(d *c07Case) { d.Msg.HasRegAddr, d.Msg.RegAddr = false, nil })
		}
		blk := "phantom-blocklisted"
		if c.Msg.Source == int(pb.RegistrationSource_Detector) {
			blk = "phantom-blocklisted-detector-source"
		}
		if f.Phantom.To16() != nil { // (a registrar-assigned "address" of the wrong length cannot be put on a blocklist)
			add(blk, i, func(d *c07Case) { d.Conf.PhantomBlocklist = append(d.Conf.PhantomBlocklist, c07HostCIDR(f.Phantom)) })
			// the list is a list: a wider network that holds the phantom, listed after / before a
			// narrower one with the same base address that does not
			if narrow, wide, ok := c07NarrowWide(f.Phantom); ok {
				add("phantom-blocklisted-narrow-then-wide", i, func(d *c07Case) { d.Conf.PhantomBlocklist = append(d.Conf.PhantomBlocklist, narrow, wide) })
				add("phantom-blocklisted-wide-then-narrow", i, func(d *c07Case) { d.Conf.PhantomBlocklist = append([]string{wide, narrow}, d.Conf.PhantomBlocklist...) })
			}
		}
		if len(c.Conf.CovertAllowlist) == 0 {
			add("covert-blocklisted", i, func(d *c07Case) { d.Conf.CovertBlocklist = append(d.Conf.CovertBlocklist, c07HostCIDR(covertIP())) })
		}
		add("covert-not-allowlisted", i, func(d *c07Case) { d.Conf.CovertAllowlist = []string{"233.252.0.0/24"} })
		add("covert-malformed", i, func(d *c07Case) { d.Msg.Covert = covertIP().String() })
		add("covert-absent", i, func(d *c07Case) { d.Msg.HasCovert, d.Msg.Covert = false, "" })
		if f.PhantomV4 && !c.Msg.prescanned() {
			add("phantom-live", i, func(d *c07Case) { d.Live = "live" })
			add("phantom-live-cached", i, func(d *c07Case) { d.Live = "cached-live" })
		}
	}
	return out
}

var c07TwinNames = []string{"secret-absent", "secret-empty", "secret-7-bytes", "secret-4-bytes", "phantom-blocklisted-narrow-then-wide", "phantom-blocklisted-wide-then-narrow", "payload-absent", "transport-disabled-on-station", "transport-never-enabled",
	"transport-not-in-enum", "transport-absent", "generation-unknown", "generation-absent", "family-disabled-on-station",
	"family-not-supported-by-client", "family-flag-absent", "registrant-ipv6", "registrant-absent", "phantom-blocklisted",
	"phantom-blocklisted-detector-source", "covert-blocklisted", "covert-not-allowlisted", "covert-malformed", "covert-absent",
	"phantom-live", "phantom-live-cached"}

// ------------------------------------------------------------------------------------------------
// Running one case

// c07Eval delivers the case's message on a fresh registry and applies the oracle. It returns the
// expectation and observation (for class labels and twins) and the first violation.
func c07Eval(e *c07Env, c c07Case) (c07Expect, c07Obs, *c07Viol, error) {
	e.apply(c.Conf, c.Live)
	exp, err := c07Model(e, c)
	if err != nil {
		return exp, c07Obs{}, nil, err
	}
	if a, b := exp.Fam[0].Phantom, exp.Fam[1].Phantom; a != nil && b != nil && a.To16() != nil && a.Equal(b) {
		// quirk domain only: the registrar response carries an IPv4 address in its IPv6 field and
		// it happens to be the IPv4 phantom as well, so both slots are one and the same
		// registration. Nothing to attribute per family.
		return exp, c07Obs{}, nil, errC07Collision
	}
	msg := c07Build(c.Msg)
	e.viaWorker = c.Worker
	defer func() { e.viaWorker = false }()
	_, perr := e.deliver(msg)
	if errors.Is(perr, errC07Harness) {
		return exp, c07Obs{}, nil, perr
	}
	o, v := c07Observe(e, c, exp, perr)
	if v == nil {
		v = c07Oracle(c, exp, o)
	}
	if v != nil || !c.Repeat {
		return exp, o, v, nil
	}
	// the same message once more: nothing may be announced, probed (for what is already usable) or
	// passed on a second time, and what was usable stays usable
	_, perr = e.deliver(msg)
	if errors.Is(perr, errC07Harness) {
		return exp, o, nil, perr
	}
	o2, v := c07Observe(e, c, exp, perr)
	if v != nil {
		return exp, o, v, nil
	}
	for i, f := range exp.Fam {
		if o2.Usable[i] != o.Usable[i] {
			return exp, o, c07V("repeat:usability-changed", "%s slot: usable %v after the first delivery, %v after the same message again", f.Slot, o.Usable[i], o2.Usable[i]), nil
		}
		if o2.NewAnns[i] != o.NewAnns[i] {
			return exp, o, c07V("announce:more-than-once", "%s slot: announced %d times after the same message was delivered twice", f.Slot, o2.NewAnns[i]), nil
		}
		if o.Usable[i] && o2.Probes[i] != o.Probes[i] {
			return exp, o, c07V("probe:unneeded:already-usable", "%s slot: probed again (%d -> %d) for a registration that is already usable", f.Slot, o.Probes[i], o2.Probes[i]), nil
		}
	}
	if len(o2.Shares) > 1 && !exp.Fam[1].PhantomV4 {
		return exp, o, c07V("share:double", "%d requests to the peer API after the same message was delivered twice", len(o2.Shares)), nil
	}
	if len(o2.Shares) > len(o.Shares) {
		// first delivery was not passed on, the duplicate was: the usual share rules apply
		if v := c07ShareOracle(c, exp, o2); v != nil {
			return exp, o, v, nil
		}
	}
	return exp, o, nil, nil
}

func c07Classes(c c07Case, exp c07Expect, o c07Obs) []string {
	cl := map[string]bool{}
	if exp.WF {
		cl["domain:well-formed"] = true
	} else {
		cl["domain:quirk"] = true
		cl["quirk:"+exp.Quirk] = true
	}
	for i, f := range exp.Fam {
		if f.Admit {
			cl["admitted:"+f.Slot] = true
		} else if f.FirstFail != "" {
			cl["rejected:"+f.FirstFail] = true
		}
		if o.Probes[i] > 0 {
			cl["probe-sent"] = true
		}
		if f.PreProbe && f.PhantomV4 && c.Msg.prescanned() {
			cl["probe-skipped:prescanned"] = true
		}
		if f.PreProbe && !f.PhantomV4 {
			cl["probe-skipped:ipv6"] = true
		}
		if f.Admit && f.Overridden {
			cl["admitted:registrar-phantom"] = true
		}
	}
	if exp.Fam[0].Admit && exp.Fam[1].Admit {
		cl["admitted:dual-stack"] = true
	}
	if len(o.Shares) > 0 && c.Conf.Peer != "" && c.Conf.Peer != "200" {
		cl["shared:peer-misbehaves:"+c.Conf.Peer] = true
	}
	if len(o.Shares) == 1 {
		cl["shared"] = true
		if exp.Fam[0].SharePass && exp.Fam[1].SharePass {
			cl["shared:dual-stack-twin-suppressed"] = true
		}
	}
	if c.Msg.Source == int(pb.RegistrationSource_Detector) && c.Conf.Share && len(o.Shares) == 0 {
		cl["detector-source-not-shared"] = true
	}
	if c.Repeat {
		cl["delivered-twice"] = true
	}
	if c.Worker {
		cl["via-worker"] = true
		for i := range exp.Fam {
			a, b := exp.Fam[i], exp.Fam[1-i]
			if a.Admit && !b.Admit && (b.FirstFail == "phantom-live" || b.FirstFail == "phantom-blocklisted" || b.FirstFail == "covert-policy") {
				cl["via-worker:one-half-admitted-other-refused"] = true
			}
		}
	}
	if c.Msg.RR != nil {
		cl["registrar-response"] = true
	}
	cl[fmt.Sprintf("source:%d", c.Msg.Source)] = true
	var out []string
	for k := range cl {
		out = append(out, k)
	}
	sort.Strings(out)
	return out
}

// c07Check evaluates a case and, if a family is admitted, every single-condition-falsified twin.
func c07Check(t vh.Fataler, rec *vh.Rec, e *c07Env, c c07Case, twins bool) {
	exp, o, v, err := c07Eval(e, c)
	if errors.Is(err, errC07Collision) {
		rec.Case(false, vh.Digest(c), nil, "skipped:both-slots-same-phantom")
		return
	}
	if err != nil {
		t.Fatalf("harness problem: %v", err)
	}
	classes := c07Classes(c, exp, o)
	admitted := exp.Fam[0].Admit && o.Usable[0] || exp.Fam[1].Admit && o.Usable[1]
	rec.Case(admitted, vh.Digest(c), c, classes...)
	if v != nil {
		if rec.Violation(t, v.Key, c, "%s", v.Msg) {
			return
		}
	}
	if !twins {
		return
	}
	for _, tw := range c07Twins(c, exp) {
		if !o.Usable[tw.Fam] {
			continue // base not admitted in reality (quirk domain): nothing to falsify
		}
		texp, to, tv, err := c07Eval(e, tw.Case)
		if errors.Is(err, errC07Collision) {
			continue
		}
		if err != nil {
			t.Fatalf("harness problem (twin %s): %v", tw.Name, err)
		}
		rec.Class("necessity:" + tw.Name)
		if to.Usable[tw.Fam] || to.NewAnns[tw.Fam] > 0 {
			// same root cause, same key as the model-based comparison would give
			key := "admit:" + texp.Fam[tw.Fam].FirstFail
			if texp.Fam[tw.Fam].FirstFail == "" {
				key = "admit:twin-" + tw.Name
			}
			rec.Violation(t, key, tw.Case, "necessity of %q: the %s registration of an admitted message stays usable (usable=%v announced=%d) after exactly that condition was falsified",
				tw.Name, texp.Fam[tw.Fam].Slot, to.Usable[tw.Fam], to.NewAnns[tw.Fam])
			continue
		}
		if tv != nil {
			rec.Violation(t, tv.Key, tw.Case, "(twin %s) %s", tw.Name, tv.Msg)
		}
	}
}

const c07Rule = "C2SWrapper messages drawn field by field (each field present / absent / invalid) x station configuration (enable_v4/v6, enabled transports, phantom blocklist, covert block-/allowlist, share-over-API) x scripted liveness verdict, marshalled and pushed through parseRegMessage+ingestRegistration on an empty registry (in half of the random cases through a real ingest worker, startIngestThread, instead); compared with the reference admission predicate (usable, announced exactly once, probe only when required, share rules). Non-trivial: an admitted case, for which every single-condition-falsified twin is run as well and must be rejected. Distinct = distinct case description."

func c07Require(rec *vh.Rec, grid bool) {
	rec.Require("admitted:v4", "admitted:v6", "admitted:dual-stack", "domain:well-formed",
		"rejected:incomplete-secret", "rejected:transport-not-enabled", "rejected:generation-unknown",
		"rejected:family-v4-not-enabled", "rejected:family-v6-not-enabled", "rejected:registrant-family", "rejected:phantom-blocklisted",
		"rejected:covert-policy", "rejected:phantom-live", "probe-sent", "probe-skipped:prescanned", "probe-skipped:ipv6",
		"shared", "detector-source-not-shared")
	if !grid {
		rec.Require("via-worker", "via-worker:one-half-admitted-other-refused")
	}
	if grid {
		rec.Require("secret-length:below-minimum", "secret-length:at-or-above-minimum")
	}
	if !grid {
		rec.Require("shared:peer-misbehaves:500", "shared:peer-misbehaves:read-then-close", "shared:peer-misbehaves:garbage")
		rec.Require("domain:quirk", "rejected:incomplete-payload", "delivered-twice", "admitted:registrar-phantom", "shared:dual-stack-twin-suppressed")
		for _, n := range c07TwinNames {
			rec.Require("necessity:" + n)
		}
	}
}

// TestVerif_C07_random: the whole grammar, with twins.
func TestVerif_C07_random(t *testing.T) {
	rec := vh.NewRec("C07", "random", c07Rule)
	defer rec.Flush()
	c07Require(rec, false)
	e := c07NewEnv(t, false)
	if p := vh.ReplayFile(); p != "" {
		var c c07Case
		if _, _, err := vh.LoadReplay(p, &c); err != nil {
			t.Fatal(err)
		}
		c07Check(t, rec, e, c, true)
		return
	}
	rapid.Check(t, func(rt *rapid.T) {
		c := c07Gen(rt, c07Wild)
		c07Check(rt, rec, e, c, true)
	})
}

// TestVerif_C07_grid: the complete decision table over the admission conditions for a fixed,
// otherwise impeccable message: every combination of {secret present, transport enabled, generation
// known, station v4, station v6, client families, registrant family, phantom blocklist, covert
// verdict, pre-scanned, liveness verdict, source, share-over-API}.
func TestVerif_C07_grid(t *testing.T) {
	rec := vh.NewRec("C07", "grid", "exhaustive product of the admission conditions (secret present/absent x transport enabled/disabled x generation known/unknown x station v4 x station v6 x client families {both,v4,v6} x registrant {v4,v6,absent} x phantom blocklist {none, the v4 phantom, the v6 phantom} x covert {allowed, blocklisted, malformed} x pre-scanned x liveness {not live, live} x source {API, Detector[, DetectorPrescan, DNS]} x share on[/off]) around an otherwise well-formed message per transport; same oracle as the random sub-check. Non-trivial: an admitted combination. Distinct = combination.")
	defer rec.Flush()
	c07Require(rec, true)
	rec.SetExhaustive(true)
	e := c07NewEnv(t, false)
	if p := vh.ReplayFile(); p != "" {
		var c c07Case
		if _, _, err := vh.LoadReplay(p, &c); err != nil {
			t.Fatal(err)
		}
		c07Check(t, rec, e, c, false)
		return
	}
	sources := []int{2, 1}
	shares := []bool{true}
	transportsUnderTest := []int{int(pb.TransportType_Min)}
	if vh.Thorough() {
		sources = []int{2, 1, 3, 5}
		shares = []bool{true, false}
		transportsUnderTest = []int{int(pb.TransportType_Min), int(pb.TransportType_Prefix), int(pb.TransportType_DTLS), int(pb.TransportType_Obfs4)}
	}
	idx := 0
	for _, tp := range transportsUnderTest {
		base := c07Case{Live: "notlive"}
		base.Msg = c07Msg{HasSecret: true, Secret: vh.Hex(vSecret(4242 + tp)), HasPayload: true, Source: 2, HasRegAddr: true, RegAddr: c07IP("198.51.100.7"),
			LibVer: 4, Gen: 957, Transport: tp, HasCovert: true, Covert: "192.0.2.10:443", V4: 1, V6: 1, Flags: 0}
		switch pb.TransportType(tp) {
		case pb.TransportType_Prefix:
			base.Msg.Params = c07Params{Kind: "prefix", PrefixID: 1}
		case pb.TransportType_DTLS:
			base.Msg.Params = c07Params{Kind: "dtls"}
		default:
			base.Msg.Params = c07Params{Kind: "generic", Randomize: true}
		}
		base.Conf = c07Conf{EnableV4: true, EnableV6: true, Transports: append([]int(nil), c07TransportsAll...), Share: true}
		e.apply(base.Conf, base.Live)
		bexp, err := c07Model(e, base)
		if err != nil || bexp.Fam[0].Phantom == nil || bexp.Fam[1].Phantom == nil {
			t.Fatalf("harness problem: cannot derive the base phantoms: %v", err)
		}
		blocklists := [][]string{nil, {c07HostCIDR(bexp.Fam[0].Phantom)}, {c07HostCIDR(bexp.Fam[1].Phantom)}}
		for _, f := range bexp.Fam {
			if narrow, wide, ok := c07NarrowWide(f.Phantom); ok {
				blocklists = append(blocklists, []string{narrow, wide}, []string{wide, narrow})
			}
		}
		// the completeness boundary: every secret length 0..40, both orders of magnitude of source
		for n := 0; n <= 40; n++ {
			for _, src := range []int{2, 1} {
				for _, live := range []string{"notlive", "live"} {
					idx++
					if !vh.Mine(idx) {
						continue
					}
					c := c07Clone(base)
					sec := append(vSecret(4242+tp), vSecret(99)...)
					c.Msg.Secret = vh.Hex(append([]byte{}, sec[:n]...))
					c.Msg.Source, c.Live = src, live
					c07Check(t, rec, e, c, false)
					if n < c07MinSecret {
						rec.Class("secret-length:below-minimum")
					} else {
						rec.Class("secret-length:at-or-above-minimum")
					}
				}
			}
		}
		for _, secret := range []bool{true, false} {
			for _, tpOn := range []bool{true, false} {
				for _, gen := range []int64{957, 958} {
					for _, st := range [][2]bool{{true, true}, {true, false}, {false, true}, {false, false}} {
						for _, cl := range [][2]int{{1, 1}, {1, 0}, {0, 1}} {
							for _, ra := range []string{"198.51.100.7", "2001:db8:1::7", ""} {
								for _, bl := range blocklists {
									for _, cov := range []string{"192.0.2.10:443", "10.1.2.3:22", "192.0.2.10"} {
										for _, pre := range []int{0, 2} {
											for _, live := range []string{"notlive", "live"} {
												for _, src := range sources {
													for _, sh := range shares {
														idx++
														if !vh.Mine(idx) {
															continue
														}
														c := c07Clone(base)
														if !secret {
															c.Msg.HasSecret, c.Msg.Secret = false, nil
														}
														if !tpOn {
															c.Conf.Transports = nil // every transport but this one
															for _, o := range c07TransportsAll {
																if o != tp {
																	c.Conf.Transports = append(c.Conf.Transports, o)
																}
															}
														}
														c.Msg.Gen = gen
														c.Conf.EnableV4, c.Conf.EnableV6 = st[0], st[1]
														c.Msg.V4, c.Msg.V6 = cl[0], cl[1]
														if ra == "" {
															c.Msg.HasRegAddr, c.Msg.RegAddr = false, nil
														} else {
															c.Msg.RegAddr = c07IP(ra)
														}
														c.Conf.PhantomBlocklist = bl
														c.Conf.CovertBlocklist = []string{"10.0.0.0/8"}
														c.Msg.Covert = cov
														c.Msg.Flags = pre
														c.Live = live
														c.Msg.Source = src
														c.Conf.Share = sh
														c07Check(t, rec, e, c, false)
													}
												}
											}
										}
									}
								}
							}
						}
					}
				}
			}
		}
	}
}
