package lib

// C07, sequences — "usable only when every admission condition holds" for the values that are IN
// EFFECT, over histories of two or three messages for one registration key.
//
// The first message is drawn from the C07 grammar (biased towards admission); the repeats carry the
// same shared secret / transport / generation / client version (hence the same phantoms and
// transport identifier) but DIFFERENT payloads: another covert (allowed, forbidden by the covert
// policy, malformed, absent), other flags, another registrant address, other transport parameters,
// another source, another registrar-assigned port, another liveness verdict. All messages go through
// the station's own parseRegMessage + ingestRegistration, one after the other, on one registry.
//
// After every message every registration that connection handling can obtain (GetRegistrations) is
// read back and every field the connection handler / Proxy / detector announcement uses is compared:
//   - a registration that BECOMES connectable at step k: message k itself must satisfy every
//     admission condition (reference predicate), and the values in effect are message k's — the covert
//     is the literal that passed the policy, registrant, flags, source, secret, transport, versions
//     are message k's, the phantom is the predicate's phantom;
//   - a registration that WAS connectable: it still is, with every field unchanged — a repeat never
//     changes the covert / phantom / port / protocol / parameters / flags / registrant of the tracked
//     registration;
//   - well-formed, admissible message for a key that is not tracked yet: connectable afterwards;
//   - announced New at most once per key, and only for what is connectable.

import (
	"bytes"
	"errors"
	"fmt"
	"net"
	"sort"
	"strings"
	"testing"

	pb "github.com/refraction-networking/conjure/proto"
	"google.golang.org/protobuf/proto"
	"pgregory.net/rapid"
	"verif/harness/vh"
)

type c07Seq struct {
	Conf  c07Conf  `json:"conf"`
	Msgs  []c07Msg `json:"msgs"`
	Lives []string `json:"lives"`
	What  []string `json:"what"` // what each repeat changes (labels only)
}

// c07Snap is every field of a tracked registration that connection handling, Proxy or the
// announcement to the detector uses.
type c07Snap struct {
	Covert, Phantom, Proto, Transport, Params, Flags, Registrant, Secret, Source, Mask string
	Port                                                                               uint16
	LibVer, Gen                                                                        uint32
}

func c07SnapOf(d *DecoyRegistration) c07Snap {
	s := c07Snap{Covert: d.Covert, Phantom: d.PhantomIp.String(), Proto: d.PhantomProto.String(), Transport: d.Transport.String(),
		Registrant: fmt.Sprintf("%x", []byte(d.registrationAddr)), Port: d.PhantomPort, LibVer: d.clientLibVer, Gen: d.DecoyListVersion, Mask: d.Mask}
	if d.Keys != nil {
		s.Secret = fmt.Sprintf("%x", d.Keys.SharedSecret)
	}
	if pm, ok := d.transportParams.(proto.Message); ok && pm != nil {
		b, _ := proto.MarshalOptions{Deterministic: true}.Marshal(pm)
		s.Params = fmt.Sprintf("%T:%x", pm, b)
	} else {
		s.Params = fmt.Sprintf("%v", d.transportParams)
	}
	if d.Flags != nil {
		b, _ := proto.MarshalOptions{Deterministic: true}.Marshal(d.Flags)
		s.Flags = fmt.Sprintf("set:%x", b)
	}
	if d.RegistrationSource != nil {
		s.Source = d.RegistrationSource.String()
	}
	return s
}

// diff names the first field in which two snapshots differ.
func (a c07Snap) diff(b c07Snap) (string, string) {
	switch {
	case a.Covert != b.Covert:
		return "covert", fmt.Sprintf("%q -> %q", a.Covert, b.Covert)
	case a.Phantom != b.Phantom:
		return "phantom", a.Phantom + " -> " + b.Phantom
	case a.Port != b.Port:
		return "port", fmt.Sprintf("%d -> %d", a.Port, b.Port)
	case a.Proto != b.Proto:
		return "proto", a.Proto + " -> " + b.Proto
	case a.Transport != b.Transport:
		return "transport", a.Transport + " -> " + b.Transport
	case a.Params != b.Params:
		return "params", a.Params + " -> " + b.Params
	case a.Flags != b.Flags:
		return "flags", a.Flags + " -> " + b.Flags
	case a.Registrant != b.Registrant:
		return "registrant", a.Registrant + " -> " + b.Registrant
	case a.Secret != b.Secret:
		return "secret", "changed"
	case a.Source != b.Source:
		return "source", a.Source + " -> " + b.Source
	case a.LibVer != b.LibVer || a.Gen != b.Gen:
		return "versions", fmt.Sprintf("%d/%d -> %d/%d", a.LibVer, a.Gen, b.LibVer, b.Gen)
	case a.Mask != b.Mask:
		return "mask", a.Mask + " -> " + b.Mask
	}
	return "", ""
}

func c07SeqKey(d *DecoyRegistration) string {
	return fmt.Sprintf("%s|%d|%x", d.PhantomIp, d.Transport, d.Keys.SharedSecret)
}

// c07SameAddr compares addresses; a registrar-assigned "address" of the wrong length (quirk domain)
// is compared as raw bytes.
func c07SameAddr(a, b net.IP) bool {
	if a == nil || b == nil {
		return false
	}
	if a.To16() != nil && b.To16() != nil {
		return a.Equal(b)
	}
	return bytes.Equal(a, b)
}

// c07CanonCovert is the literal the station stores for a covert that passed the policy.
func c07CanonCovert(s string) string {
	host, port, err := net.SplitHostPort(s)
	if err != nil {
		return ""
	}
	ip := net.ParseIP(host)
	if ip == nil {
		return ""
	}
	return net.JoinHostPort(ip.String(), port)
}

// tracked reports whether the registry holds a record (valid or not) for this phantom / transport / secret.
func (e *c07Env) tracked(ph net.IP, transport int, secret []byte) bool {
	r := e.rm.registeredDecoys
	r.m.RLock()
	defer r.m.RUnlock()
	for _, d := range r.decoys[ph.String()] {
		if int(d.Transport) == transport && d.Keys != nil && bytes.Equal(d.Keys.SharedSecret, secret) {
			return true
		}
	}
	return false
}

// c07RunSeq applies the history and the oracle. It returns class labels and the first violation.
func c07RunSeq(e *c07Env, q c07Seq) (map[string]bool, *c07Viol, error) {
	cl := map[string]bool{}
	e.apply(q.Conf, q.Lives[0])
	known := map[string]c07Snap{} // connectable registrations seen so far
	for k, m := range q.Msgs {
		verdict, verr := c07LiveVerdict(q.Lives[k])
		e.live.mu.Lock()
		e.live.Verdict = func(string, uint16) (bool, error) { return verdict, verr }
		e.live.mu.Unlock()
		c := c07Case{Msg: m, Conf: q.Conf, Live: q.Lives[k]}
		exp, err := c07Model(e, c)
		if err != nil {
			return cl, nil, err
		}
		if a, b := exp.Fam[0].Phantom, exp.Fam[1].Phantom; a != nil && b != nil && a.To16() != nil && a.Equal(b) {
			cl["skipped:both-slots-same-phantom"] = true
			return cl, nil, nil
		}
		trackedBefore := [2]bool{}
		for i, f := range exp.Fam {
			if f.Phantom != nil {
				trackedBefore[i] = e.tracked(f.Phantom, m.Transport, m.Secret)
			}
		}
		if _, perr := e.deliver(c07Build(m)); errors.Is(perr, errC07Harness) {
			return cl, nil, perr
		}
		now := map[string]c07Snap{}
		valid := e.validRegs()
		sort.Slice(valid, func(i, j int) bool { return c07SeqKey(valid[i]) < c07SeqKey(valid[j]) })
		for _, d := range valid {
			// what connection handling gets is what the lookup returns
			seen := false
			for _, r := range e.rm.GetRegistrations(d.PhantomIp) {
				if r.(*DecoyRegistration) == d {
					seen = true
				}
			}
			if !seen {
				return cl, c07V("admit:lookup-mismatch", "step %d: registry holds a valid registration on %v that GetRegistrations does not return", k, d.PhantomIp), nil
			}
			key, snap := c07SeqKey(d), c07SnapOf(d)
			now[key] = snap
			if old, was := known[key]; was {
				if field, how := old.diff(snap); field != "" {
					return cl, c07V("repeat:changed:"+field,
						"message %d of the history (a repeat that changes %v) altered the %s of the registration that is already connectable on phantom %s: %s. The admission conditions were checked for the old value only; the covert policy / probe never ran on what connection handling now receives",
						k+1, q.What, field, snap.Phantom, how), nil
				}
				continue
			}
			// newly connectable: message k must be admissible and its values are the ones in effect
			var f *c07Fam
			for i := range exp.Fam {
				if c07SameAddr(exp.Fam[i].Phantom, d.PhantomIp) {
					f = &exp.Fam[i]
				}
			}
			if f == nil || int(d.Transport) != m.Transport || !bytes.Equal(d.Keys.SharedSecret, m.Secret) {
				return cl, c07V("admit:unexpected-phantom", "step %d: a registration became connectable on phantom %v that message %d does not name", k, d.PhantomIp, k+1), nil
			}
			if !f.Admit {
				return cl, c07V("admit:"+f.FirstFail, "message %d of the history made a registration connectable on phantom %v in spite of %s (history: %v)", k+1, d.PhantomIp, c07CondString(*f), q.What), nil
			}
			want := c07CanonCovert(m.Covert)
			if snap.Covert != want || !c07CovertOK(q.Conf, true, snap.Covert) {
				return cl, c07V("in-effect:covert", "message %d made phantom %v connectable with covert %q; the covert that passed the policy is %q", k+1, d.PhantomIp, snap.Covert, want), nil
			}
			wantReg := []byte(m.RegAddr)
			if !m.HasRegAddr {
				wantReg = make([]byte, 16)
			}
			if snap.Registrant != fmt.Sprintf("%x", wantReg) {
				return cl, c07V("in-effect:registrant", "message %d made phantom %v connectable with registrant %s, the message says %x", k+1, d.PhantomIp, snap.Registrant, wantReg), nil
			}
			if d.PreScanned() != m.prescanned() || d.Flags.GetProxyHeader() != (m.Flags >= 0 && m.Flags&4 != 0) {
				return cl, c07V("in-effect:flags", "message %d made phantom %v connectable with flags %v, the message says %d", k+1, d.PhantomIp, d.Flags, m.Flags), nil
			}
			if m.Source >= 0 && m.Source <= 6 && int(*d.RegistrationSource) != m.Source {
				return cl, c07V("in-effect:source", "message %d made phantom %v connectable with source %v, the message says %d", k+1, d.PhantomIp, d.RegistrationSource, m.Source), nil
			}
			if f.PortOvr > 0 && f.PortOvr <= 65535 && int(d.PhantomPort) != f.PortOvr {
				return cl, c07V("in-effect:port", "message %d made phantom %v connectable on port %d, the registrar assigned %d", k+1, d.PhantomIp, d.PhantomPort, f.PortOvr), nil
			}
			if k > 0 {
				cl["seq:admitted-by-a-later-message"] = true
			}
		}
		for key, old := range known {
			if _, still := now[key]; !still {
				return cl, c07V("repeat:usability-lost", "message %d of the history (%v) made the connectable registration on phantom %s unusable", k+1, q.What, old.Phantom), nil
			}
		}
		// lower bound: a well-formed admissible message for a key that is not tracked yet
		for i, f := range exp.Fam {
			if exp.WF && f.Admit && !trackedBefore[i] {
				found := false
				for _, d := range valid {
					if c07SameAddr(f.Phantom, d.PhantomIp) && int(d.Transport) == m.Transport && bytes.Equal(d.Keys.SharedSecret, m.Secret) {
						found = true
					}
				}
				if !found {
					return cl, c07V("reject:all-conditions-hold", "message %d (%s slot, phantom %v): every admission condition holds and the key was not tracked before, but no connectable registration results", k+1, f.Slot, f.Phantom), nil
				}
			}
			if k > 0 && trackedBefore[i] {
				cl["seq:repeat-for-tracked-key"] = true
				if f.Admit {
					if _, was := known[fmt.Sprintf("%s|%d|%x", f.Phantom, m.Transport, []byte(m.Secret))]; !was {
						cl["seq:first-refused-then-acceptable"] = true
					}
				} else if f.FirstFail == "covert-policy" {
					cl["seq:repeat-covert-refused-by-policy"] = true
				}
			}
		}
		known = now
		// announcements: New only, at most once per key, only for what is connectable
		count := map[string]int{}
		for _, a := range e.Anns() {
			if a.Op != "New" {
				return cl, c07V("announce:wrong-operation", "announced %s during ingest", a.Op), nil
			}
			count[c07SeqKey(a.Reg)]++
		}
		for key, n := range count {
			if _, ok := now[key]; !ok {
				return cl, c07V("announce:not-usable", "step %d: announced %s, which is not connectable", k, key[:strings.Index(key, "|")]), nil
			}
			if n > 1 {
				return cl, c07V("announce:more-than-once", "step %d: %s announced %d times over the history", k, key[:strings.Index(key, "|")], n), nil
			}
		}
		for key := range now {
			if count[key] == 0 {
				return cl, c07V("announce:missing", "step %d: %s is connectable but was never announced", k, key[:strings.Index(key, "|")]), nil
			}
		}
	}
	if len(known) > 0 {
		cl["seq:connectable-after-history"] = true
	}
	if len(q.Msgs) == 3 {
		cl["seq:three-messages"] = true
	}
	for _, w := range q.What {
		for _, part := range strings.Split(w, "+") {
			if part != "" && len(known) > 0 {
				cl["seq:repeat-changes-"+part] = true
			}
		}
	}
	return cl, nil, nil
}

// c07GenSeq: a first message (tidy) and one or two repeats with different payloads.
func c07GenSeq(rt *rapid.T) c07Seq {
	base := c07Gen(rt, c07Tidy)
	q := c07Seq{Conf: base.Conf, Msgs: []c07Msg{base.Msg}, Lives: []string{base.Live}}
	if rapid.IntRange(0, 9).Draw(rt, "policy") < 7 {
		// a covert policy that some of the alternative coverts fall foul of
		q.Conf.CovertAllowlist = nil
		q.Conf.CovertBlocklist = []string{"10.0.0.0/8", "127.0.0.0/8", "::1/128"}
	}
	n := rapid.IntRange(1, 2).Draw(rt, "repeats")
	for r := 0; r < n; r++ {
		m := c07Clone(c07Case{Msg: q.Msgs[rapid.IntRange(0, len(q.Msgs)-1).Draw(rt, "from")]}).Msg
		var what []string
		pick := func(label string, p int) bool { return rapid.IntRange(0, 99).Draw(rt, label+"?") < p }
		if pick("covert", 60) {
			switch rapid.IntRange(0, 9).Draw(rt, "covertKind") {
			case 0:
				m.HasCovert, m.Covert = false, ""
				what = append(what, "covert-absent")
			case 1:
				m.HasCovert, m.Covert = true, rapid.SampledFrom(c07BadCoverts).Draw(rt, "covertBad")
				what = append(what, "covert-malformed")
			default:
				m.HasCovert, m.Covert = true, rapid.SampledFrom([]string{"127.0.0.1:22", "10.1.2.3:22", "[::1]:80", "192.0.2.10:443", "198.51.100.7:80",
					"[2001:db8::10]:443", "203.0.113.5:65535", "127.0.0.1:8080", "[::ffff:10.1.2.3]:443"}).Draw(rt, "covertNew")
				what = append(what, "covert")
			}
		}
		if pick("flags", 25) {
			m.Flags = rapid.SampledFrom([]int{0, 2, 4, 6, -1, 1}).Draw(rt, "flagsNew")
			what = append(what, "flags")
		}
		if pick("registrant", 25) {
			switch rapid.IntRange(0, 3).Draw(rt, "regKind") {
			case 0:
				m.HasRegAddr, m.RegAddr = false, nil
			case 1:
				m.HasRegAddr, m.RegAddr = true, c07IP(rapid.SampledFrom(c07RegV6).Draw(rt, "regv6"))
			default:
				m.HasRegAddr, m.RegAddr = true, c07IP(rapid.SampledFrom(c07RegV4).Draw(rt, "regv4"))
			}
			what = append(what, "registrant")
		}
		if pick("params", 25) {
			m.Params.Randomize = !m.Params.Randomize
			if m.Params.Kind == "prefix" {
				m.Params.PrefixID = rapid.Int32Range(0, 9).Draw(rt, "pid")
			}
			what = append(what, "params")
		}
		if pick("source", 25) {
			m.Source = rapid.SampledFrom([]int{1, 2, 3, 4, 5, 6}).Draw(rt, "sourceNew")
			what = append(what, "source")
		}
		if pick("port", 15) {
			if m.RR == nil {
				m.RR = &c07RR{}
			}
			m.RR.HasPort, m.RR.Port = true, rapid.SampledFrom([]uint32{443, 80, 8443, 1024}).Draw(rt, "portNew")
			what = append(what, "port")
		}
		if pick("families", 15) {
			m.V4, m.V6 = 1, 1
			what = append(what, "families")
		}
		if len(what) == 0 {
			what = append(what, "nothing")
		}
		q.Msgs = append(q.Msgs, m)
		q.Lives = append(q.Lives, c07Pick(rt, "live", 80, []string{"notlive", "nil-notlive"}, []string{"live", "cached-live"}))
		q.What = append(q.What, strings.Join(what, "+"))
	}
	return q
}

func c07SeqCheck(t vh.Fataler, rec *vh.Rec, e *c07Env, q c07Seq) {
	cl, v, err := c07RunSeq(e, q)
	if err != nil {
		t.Fatalf("harness problem: %v", err)
	}
	var classes []string
	for k := range cl {
		classes = append(classes, k)
	}
	sort.Strings(classes)
	rec.Case(cl["seq:connectable-after-history"] && cl["seq:repeat-for-tracked-key"], vh.Digest(q), q, classes...)
	if v != nil {
		rec.Violation(t, v.Key, q, "%s", v.Msg)
	}
}

// c07FixedSeqs: the two-message histories every run must contain, per transport: an admitted
// registration followed by a repeat that changes exactly one thing.
func c07FixedSeqs() []c07Seq {
	var out []c07Seq
	for _, tp := range c07TransportsAll {
		base := c07Msg{HasSecret: true, Secret: vh.Hex(vSecret(6100 + tp)), HasPayload: true, Source: 2, HasRegAddr: true, RegAddr: c07IP("198.51.100.7"),
			LibVer: 4, Gen: 957, Transport: tp, HasCovert: true, Covert: "192.0.2.10:443", V4: 1, V6: 1, Flags: 0}
		switch pb.TransportType(tp) {
		case pb.TransportType_Prefix:
			base.Params = c07Params{Kind: "prefix", PrefixID: 1}
		case pb.TransportType_DTLS:
			base.Params = c07Params{Kind: "dtls"}
		default:
			base.Params = c07Params{Kind: "generic"}
		}
		conf := c07Conf{EnableV4: true, EnableV6: true, Transports: append([]int(nil), c07TransportsAll...), CovertBlocklist: []string{"10.0.0.0/8", "127.0.0.0/8", "::1/128"}}
		muts := []struct {
			what string
			f    func(m *c07Msg)
		}{
			{"covert", func(m *c07Msg) { m.Covert = "127.0.0.1:22" }},
			{"covert", func(m *c07Msg) { m.Covert = "198.51.100.7:80" }},
			{"covert-malformed", func(m *c07Msg) { m.Covert = "192.0.2.10" }},
			{"covert-absent", func(m *c07Msg) { m.HasCovert, m.Covert = false, "" }},
			{"flags", func(m *c07Msg) { m.Flags = 6 }},
			{"registrant", func(m *c07Msg) { m.RegAddr = c07IP("203.0.113.200") }},
			{"params", func(m *c07Msg) { m.Params.Randomize = true }},
			{"source", func(m *c07Msg) { m.Source = 1 }},
			{"port", func(m *c07Msg) { m.RR = &c07RR{HasPort: true, Port: 8443} }},
		}
		// a later message that adds a family: a new key, admitted on its own merits
		v4only := c07Clone(c07Case{Msg: base}).Msg
		v4only.V6 = 0
		out = append(out, c07Seq{Conf: conf, Msgs: []c07Msg{v4only, base}, Lives: []string{"notlive", "notlive"}, What: []string{"families"}})
		for _, mu := range muts {
			m2 := c07Clone(c07Case{Msg: base}).Msg
			mu.f(&m2)
			out = append(out, c07Seq{Conf: conf, Msgs: []c07Msg{base, m2}, Lives: []string{"notlive", "notlive"}, What: []string{mu.what}})
			// and the other way round: the first message is the one with the other payload
			out = append(out, c07Seq{Conf: conf, Msgs: []c07Msg{m2, base, m2}, Lives: []string{"notlive", "notlive", "notlive"}, What: []string{"back:" + mu.what, mu.what}})
		}
	}
	return out
}

func TestVerif_C07_sequences(t *testing.T) {
	rec := vh.NewRec("C07", "sequences", "histories of 2-3 messages for one registration key on one registry: a first message from the C07 grammar (biased towards admission) and repeats with the same secret / transport / generation / client version but different covert (allowed, refused by the covert policy, malformed, absent), flags, registrant, transport parameters, source, registrar-assigned port, family flags and liveness verdict; plus, per transport, fixed two- and three-message histories that change exactly one of these. After every message every connectable registration is read back through GetRegistrations and every field connection handling / Proxy / the announcement uses is compared: what becomes connectable at step k is admissible by message k's own values and carries them (the covert is the literal that passed the policy); what was connectable stays connectable and unchanged; New is announced once per key. Non-trivial: a repeat arrives for a key that is tracked and something is connectable at the end. Distinct = distinct history.")
	defer rec.Flush()
	rec.Require("seq:connectable-after-history", "seq:repeat-for-tracked-key", "seq:repeat-covert-refused-by-policy", "seq:first-refused-then-acceptable",
		"seq:three-messages", "seq:repeat-changes-covert", "seq:repeat-changes-flags", "seq:repeat-changes-registrant", "seq:repeat-changes-params",
		"seq:repeat-changes-source", "seq:repeat-changes-port", "seq:admitted-by-a-later-message")
	e := c07NewEnv(t, false)
	if p := vh.ReplayFile(); p != "" {
		var q c07Seq
		if _, _, err := vh.LoadReplay(p, &q); err != nil {
			t.Fatal(err)
		}
		c07SeqCheck(t, rec, e, q)
		return
	}
	for i, q := range c07FixedSeqs() {
		if vh.Mine(i) {
			c07SeqCheck(t, rec, e, q)
		}
	}
	rapid.Check(t, func(rt *rapid.T) {
		c07SeqCheck(rt, rec, e, c07GenSeq(rt))
	})
}
