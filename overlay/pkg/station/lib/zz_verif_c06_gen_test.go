package lib

// C06 — generators: station configurations, addresses chosen relative to the configured subnets,
// every textual form of an address, port texts, host names, garbage, resolver scripts.

import (
	"encoding/binary"
	"fmt"
	"net/netip"
	"strings"

	"pgregory.net/rapid"
)

// the blocklist shipped in cmd/application/app_config.toml (the entry "fc00::/7 " is written there
// with a trailing blank, which ParseBlocklists drops; that is C19's finding — here it is clean).
var c06Shipped = c06Cfg{
	Block:   []string{"127.0.0.1/32", "10.0.0.0/8", "172.16.0.0/12", "192.168.0.0/16", "fc00::/7", "fe80::0/16", "::1/128"},
	Domains: []string{"localhost"},
}

var c06PrefixPool = []string{
	"127.0.0.1/32", "127.0.0.0/8", "10.0.0.0/8", "172.16.0.0/12", "192.168.0.0/16", "192.0.0.1/16", "169.254.0.0/16",
	"0.0.0.0/0", "0.0.0.0/8", "128.138.0.1/16", "8.8.8.0/24", "8.8.8.8/32", "100.64.0.0/10", "224.0.0.0/3",
	"fc00::/7", "fe80::0/16", "fe80::/10", "::1/128", "::/0", "::/128", "2001:db8::1/64", "2001:db8::/32", "2000::/3",
	"::ffff:127.0.0.0/104", "::ffff:0:0/96", "::ffff:10.1.2.3/128", "64:ff9b::/96",
}

var c06DomainPool = []string{
	"localhost", `.*blocked\.com$`, `blocked1\.com`, `^.*\.example\.test$`, "example", "(?i)BLOCKED", "^$", ".*",
	`\.$`, `^[0-9.]+$`, ":", "%", `^rebind\.`, `^[^.]+$`, "ffff",
}

func c06RandAddr(rt *rapid.T, v6 bool) netip.Addr {
	if !v6 {
		var b [4]byte
		binary.BigEndian.PutUint32(b[:], rapid.Uint32().Draw(rt, "v4"))
		return netip.AddrFrom4(b)
	}
	var b [16]byte
	binary.BigEndian.PutUint64(b[:8], rapid.Uint64().Draw(rt, "v6hi"))
	binary.BigEndian.PutUint64(b[8:], rapid.Uint64().Draw(rt, "v6lo"))
	a := netip.AddrFrom16(b)
	if a.Is4In6() {
		return a.Unmap()
	}
	return a
}

func c06GenPrefix(rt *rapid.T) string {
	switch rapid.IntRange(0, 9).Draw(rt, "pfxkind") {
	case 0, 1:
		a := c06RandAddr(rt, false)
		return netip.PrefixFrom(a, rapid.IntRange(0, 32).Draw(rt, "bits4")).String() // host bits kept: "10.1.2.3/8" style
	case 2:
		a := c06RandAddr(rt, true)
		return netip.PrefixFrom(a, rapid.IntRange(0, a.BitLen()).Draw(rt, "bits6")).String()
	default:
		return rapid.SampledFrom(c06PrefixPool).Draw(rt, "pfx")
	}
}

// c06SubPrefix returns a longer prefix inside p (overlapping lists).
func c06SubPrefix(rt *rapid.T, s string) string {
	p, err := c06NormPrefix(s)
	if err != nil {
		return s
	}
	a := c06Inside(rt, p)
	maxb := a.BitLen()
	return netip.PrefixFrom(a, rapid.IntRange(p.Bits(), maxb).Draw(rt, "subbits")).Masked().String()
}

func c06GenCfg(rt *rapid.T) c06Cfg {
	var c c06Cfg
	switch rapid.IntRange(0, 9).Draw(rt, "cfgkind") {
	case 0:
		c = c06Cfg{Block: append([]string(nil), c06Shipped.Block...), Domains: append([]string(nil), c06Shipped.Domains...)}
	case 1:
		// nothing configured
	default:
		nb := rapid.IntRange(0, 4).Draw(rt, "nblock")
		for i := 0; i < nb; i++ {
			if i > 0 && rapid.IntRange(0, 3).Draw(rt, "overlap") == 0 {
				c.Block = append(c.Block, c06SubPrefix(rt, c.Block[rapid.IntRange(0, i-1).Draw(rt, "ovof")]))
			} else {
				c.Block = append(c.Block, c06GenPrefix(rt))
			}
		}
	}
	if rapid.IntRange(0, 9).Draw(rt, "allowp") < 4 {
		na := rapid.IntRange(1, 3).Draw(rt, "nallow")
		for i := 0; i < na; i++ {
			if len(c.Block) > 0 && rapid.IntRange(0, 2).Draw(rt, "allow-in-block") == 0 {
				// an allowlisted hole inside a blocklisted net (allow 127.0.0.1/32, block 127.0.0.0/8)
				c.Allow = append(c.Allow, c06SubPrefix(rt, c.Block[rapid.IntRange(0, len(c.Block)-1).Draw(rt, "aib")]))
			} else {
				c.Allow = append(c.Allow, c06GenPrefix(rt))
			}
		}
	}
	if len(c.Domains) == 0 && rapid.IntRange(0, 9).Draw(rt, "domp") < 4 {
		nd := rapid.IntRange(1, 3).Draw(rt, "ndom")
		for i := 0; i < nd; i++ {
			c.Domains = append(c.Domains, rapid.SampledFrom(c06DomainPool).Draw(rt, "dom"))
		}
	}
	c.Public = rapid.IntRange(0, 14).Draw(rt, "public") == 0
	return c
}

// c06Inside draws an address inside p (first, last or random host bits).
func c06Inside(rt *rapid.T, p netip.Prefix) netip.Addr {
	base := p.Masked().Addr()
	b := base.AsSlice()
	mode := rapid.IntRange(0, 3).Draw(rt, "inmode")
	bits := p.Bits()
	for i := range b {
		var fill byte
		switch mode {
		case 0:
			fill = 0
		case 1:
			fill = 0xff
		default:
			fill = rapid.Byte().Draw(rt, "hb")
		}
		lo, hi := i*8, i*8+8
		switch {
		case bits >= hi:
		case bits <= lo:
			b[i] = fill
		default:
			m := byte(0xff) >> uint(bits-lo)
			b[i] = b[i]&^m | fill&m
		}
	}
	a, _ := netip.AddrFromSlice(b)
	return a
}

// c06Edge draws the address just below or just above p (may wrap; that is fine, it is just an address).
func c06Edge(rt *rapid.T, p netip.Prefix) netip.Addr {
	p = p.Masked()
	if rapid.Bool().Draw(rt, "below") {
		return p.Addr().Prev()
	}
	b := p.Addr().AsSlice()
	bits := p.Bits()
	for i := range b {
		lo, hi := i*8, i*8+8
		switch {
		case bits >= hi:
		case bits <= lo:
			b[i] = 0xff
		default:
			b[i] |= byte(0xff) >> uint(bits-lo)
		}
	}
	a, _ := netip.AddrFromSlice(b)
	return a.Next()
}

var c06AddrPool = []string{
	"127.0.0.1", "127.0.0.2", "127.255.255.254", "126.255.255.255", "128.0.0.0", "10.0.0.1", "10.255.255.255", "11.0.0.0",
	"9.255.255.255", "172.16.0.1", "172.31.255.255", "172.32.0.0", "172.15.255.255", "192.168.1.1", "192.169.0.0", "192.0.2.1",
	"192.0.2.2", "8.8.8.8", "1.2.3.4", "0.0.0.0", "255.255.255.255", "169.254.169.254", "100.64.0.1", "128.138.2.1", "93.184.216.34",
	"::1", "::", "::2", "fe80::1", "fe80:1::1", "fe81::1", "febf::1", "fec0::1", "fc00::1", "fd00::2", "fdff:ffff::1", "fe00::1", "fbff::1",
	"2001:db8::1", "2001:db8:0:1::1", "2606:4700:4700::1111", "::7f00:1", "64:ff9b::7f00:1", "2002:7f00:1::1", "ff02::1",
}

// c06GenAddr draws an address, biased to the edges of the configured subnets.
func c06GenAddr(rt *rapid.T, cfg c06Cfg) netip.Addr {
	all := append(append([]string(nil), cfg.Block...), cfg.Allow...)
	k := rapid.IntRange(0, 19).Draw(rt, "addrkind")
	if k < 8 && len(all) > 0 {
		if p, err := c06NormPrefix(all[rapid.IntRange(0, len(all)-1).Draw(rt, "rel")]); err == nil {
			if k < 6 {
				return c06Inside(rt, p)
			}
			if a := c06Edge(rt, p); a.IsValid() {
				return a
			}
		}
	}
	if k < 16 {
		return netip.MustParseAddr(rapid.SampledFrom(c06AddrPool).Draw(rt, "pool"))
	}
	return c06RandAddr(rt, k >= 18)
}

var c06Zones = []string{"lo", "eth0", "1", "25lo", "a%b", "a:b", "x y", "../x", "", "0", "lo0"}

type c06HostForm struct {
	Text    string
	Label   string
	Bracket bool // the form is put between [ ]
}

// c06Forms lists the textual forms of one address.
func c06V4Forms(a netip.Addr) []c06HostForm {
	b := a.As4()
	u := binary.BigEndian.Uint32(b[:])
	d := a.String()
	short := fmt.Sprintf("%d.%d.%d", b[0], b[1], uint32(b[2])<<8|uint32(b[3]))
	if b[1] == 0 && b[2] == 0 {
		short = fmt.Sprintf("%d.%d", b[0], b[3])
	}
	fw := strings.NewReplacer("0", "０", "1", "１", "2", "２", "3", "３", "4", "４", "5", "５", "6", "６", "7", "７", "8", "８", "9", "９").Replace(d)
	return []c06HostForm{
		{d, "v4-dotted", false},
		{d, "v4-dotted", false},
		{d, "v4-dotted", false},
		{"::ffff:" + d, "v4-mapped-dotted", true},
		{fmt.Sprintf("::ffff:%x:%x", u>>16, u&0xffff), "v4-mapped-hex", true},
		{"0:0:0:0:0:ffff:" + d, "v4-mapped-expanded", true},
		{fmt.Sprintf("0000:0000:0000:0000:0000:FFFF:%04X:%04X", u>>16, u&0xffff), "v4-mapped-expanded", true},
		{"::FFFF:" + d, "v4-mapped-upper", true},
		{"::ffff:" + d, "v4-mapped-unbracketed", false},
		{"::ffff:" + d + "%eth0", "v4-mapped-zoned", true},
		{"::ffff:" + d + "%lo", "v4-mapped-zoned", true},
		{"::" + d, "v4-compatible", true},
		{"::ffff:0:" + d, "v4-translated", true},
		{"64:ff9b::" + d, "nat64", true},
		{fmt.Sprintf("%03d.%03d.%03d.%03d", b[0], b[1], b[2], b[3]), "v4-leading-zeros", false},
		{fmt.Sprintf("%d.%d.%d.0%d", b[0], b[1], b[2], b[3]), "v4-leading-zeros", false},
		{fmt.Sprintf("0%o.%d.%d.%d", b[0], b[1], b[2], b[3]), "v4-octal", false},
		{fmt.Sprintf("0x%x.%d.%d.%d", b[0], b[1], b[2], b[3]), "v4-hex-octet", false},
		{fmt.Sprintf("0x%x.0x%x.0x%x.0x%x", b[0], b[1], b[2], b[3]), "v4-hex-octet", false},
		{fmt.Sprintf("0x%08x", u), "v4-hex-dword", false},
		{fmt.Sprintf("%d", u), "v4-dword", false},
		{short, "v4-short", false},
		{d, "v4-bracketed", true},
		{d + ".", "v4-trailing-dot", false},
		{d + "%eth0", "v4-zoned", false},
		{d + "%eth0", "v4-zoned", true},
		{" " + d, "v4-space", false},
		{d + " ", "v4-space", false},
		{fw, "v4-fullwidth", false},
		{d + "\x00", "v4-nul", false},
		{d + "/32", "v4-cidr", false},
	}
}

func c06V6Forms(a netip.Addr, z string) []c06HostForm {
	b := a.As16()
	g := make([]uint16, 8)
	for i := range g {
		g[i] = binary.BigEndian.Uint16(b[2*i:])
	}
	d := a.String()
	noComp := fmt.Sprintf("%x:%x:%x:%x:%x:%x:%x:%x", g[0], g[1], g[2], g[3], g[4], g[5], g[6], g[7])
	emb := fmt.Sprintf("%x:%x:%x:%x:%x:%x:%d.%d.%d.%d", g[0], g[1], g[2], g[3], g[4], g[5], b[12], b[13], b[14], b[15])
	return []c06HostForm{
		{d, "v6-canonical", true},
		{d, "v6-canonical", true},
		{d, "v6-canonical", true},
		{d, "v6-unbracketed", false},
		{strings.ToUpper(d), "v6-upper", true},
		{a.StringExpanded(), "v6-expanded", true},
		{noComp, "v6-uncompressed", true},
		{emb, "v6-embedded-v4", true},
		{d + "%" + z, "v6-zoned", true},
		{d + "%" + z, "v6-zoned", true},
		{d + "%" + z, "v6-zoned-unbracketed", false},
		{"[" + d + "]", "v6-double-bracket", true},
		{d + "]", "v6-stray-bracket", true},
		{" " + d, "v6-space", true},
		{d + "/128", "v6-cidr", true},
	}
}

type c06PortForm struct{ Text, Label string }

var c06Ports = []c06PortForm{
	{"80", "port-ok"}, {"443", "port-ok"}, {"22", "port-ok"}, {"8080", "port-ok"}, {"1", "port-ok"},
	{"0", "port-0"}, {"65535", "port-65535"}, {"65536", "port-65536"}, {"99999999999999999999", "port-huge"}, {"4294967376", "port-wraps-32"},
	{"", "port-empty"}, {"\x00absent", "port-absent"}, {"http", "port-name"}, {"domain", "port-name"}, {"+80", "port-signed"}, {"-1", "port-signed"}, {"-0", "port-signed"},
	{"080", "port-padded"}, {"0000000000000000000080", "port-padded"}, {"00", "port-padded"}, {" 80", "port-space"}, {"80 ", "port-space"}, {"8 0", "port-space"}, {"\t80", "port-space"}, {"80\n", "port-space"},
	{"0x50", "port-hex"}, {"８０", "port-fullwidth"}, {"80:80", "port-colon"}, {"1e2", "port-float"}, {"80.0", "port-float"}, {"8_0", "port-underscore"}, {"80\x00", "port-nul"}, {"80/tcp", "port-proto"},
}

var c06Names = []string{
	"example.test", "a.b.example.test", "rebind.example.test", "blocked.com", "abc.blocked.com", "Blocked.COM", "blocked.com.", "blocked1.com",
	"notblocked2.com", "localhost", "LOCALHOST", "localhost.", "localhost.example.test", "xn--bcher-kva.example", "example.test.", "EXAMPLE.TEST",
	"a", "-", "a..b", "a_b.test", ".", "..", ".com", "*.example.test", "a b.test", "http://example.test", "example.test/path", "user@example.test",
	"example.test%eth0", "1.2.3.4.example.test", "127.0.0.1.nip.test", "7f000001.test", "0x7f.0.0.1", "127.1", "0177.0.0.1", "2130706433", "127.0.0.1.",
	"ip6-localhost", "vm", "runsc", "foo.onion", "foo.local", "foo.invalid",
	strings.Repeat("a", 63) + ".test", strings.Repeat("a", 64) + ".test", strings.Repeat("abcdefg.", 32) + "test",
}

const c06Alphabet = "0123456789abcdefx.:[]%/ -+@_\x00\n*ffff127"

// c06GenCovert draws a covert string; labels name the textual form and the port form.
func c06GenCovert(rt *rapid.T, cfg c06Cfg) (covert string, labels []string) {
	k := rapid.IntRange(0, 99).Draw(rt, "covertkind")
	var h c06HostForm
	switch {
	case k < 62:
		a := c06GenAddr(rt, cfg)
		var forms []c06HostForm
		if a.Is4() {
			forms = c06V4Forms(a)
		} else {
			forms = c06V6Forms(a, rapid.SampledFrom(c06Zones).Draw(rt, "zone"))
		}
		h = forms[rapid.IntRange(0, len(forms)-1).Draw(rt, "form")]
	case k < 70:
		h = c06HostForm{"", "empty-host", rapid.Bool().Draw(rt, "brk")}
	case k < 90:
		h = c06HostForm{rapid.SampledFrom(c06Names).Draw(rt, "name"), "hostname", rapid.IntRange(0, 9).Draw(rt, "brk") == 0}
	default:
		n := rapid.IntRange(0, 14).Draw(rt, "glen")
		var sb strings.Builder
		for i := 0; i < n; i++ {
			sb.WriteByte(c06Alphabet[rapid.IntRange(0, len(c06Alphabet)-1).Draw(rt, "gc")])
		}
		return sb.String(), []string{"form:garbage"}
	}
	p := c06Ports[rapid.IntRange(0, len(c06Ports)-1).Draw(rt, "port")]
	if rapid.IntRange(0, 9).Draw(rt, "goodport") < 6 {
		p = c06Ports[rapid.IntRange(0, 4).Draw(rt, "okport")]
	}
	host := h.Text
	if h.Bracket {
		host = "[" + host + "]"
	}
	labels = []string{"form:" + h.Label, "form:" + p.Label}
	if p.Label == "port-absent" {
		return host, labels
	}
	return host + ":" + p.Text, labels
}

// ---- resolver scripts -------------------------------------------------------------------------

func c06GenAnswers(rt *rapid.T, cfg c06Cfg, v6 bool, label string) []string {
	n := rapid.IntRange(0, 3).Draw(rt, label+"-n")
	var out []string
	for i := 0; i < n; i++ {
		var a netip.Addr
		for tries := 0; tries < 8; tries++ {
			a = c06GenAddr(rt, cfg)
			if a.Is4() != v6 {
				break
			}
		}
		if a.Is4() == v6 {
			a = c06RandAddr(rt, v6)
		}
		if v6 && rapid.IntRange(0, 7).Draw(rt, label+"-mapped") == 0 {
			// a hostile AAAA record holding a v4-mapped address
			v4 := c06GenAddr(rt, cfg)
			if v4.Is4() {
				a = netip.AddrFrom16(v4.As16())
			}
		}
		out = append(out, a.String())
	}
	return out
}

func c06GenScript(rt *rapid.T, cfg c06Cfg, allowFailures bool) c06Script {
	ne := rapid.IntRange(0, 3).Draw(rt, "nepochs")
	var s c06Script
	modes := []string{"answer", "answer", "answer", "answer", "answer", "nxdomain"}
	if allowFailures {
		modes = append(modes, "servfail", "timeout", "drop")
	}
	for i := 0; i < ne; i++ {
		e := c06Epoch{
			AMode:    rapid.SampledFrom(modes).Draw(rt, "amode"),
			AAAAMode: rapid.SampledFrom(modes).Draw(rt, "aaaamode"),
		}
		if e.AMode == "answer" {
			e.A = c06GenAnswers(rt, cfg, false, "a")
		}
		if e.AAAAMode == "answer" {
			e.AAAA = c06GenAnswers(rt, cfg, true, "aaaa")
		}
		if rapid.IntRange(0, 5).Draw(rt, "cname") == 0 {
			e.CNAME = rapid.SampledFrom([]string{"target.example.test", "blocked.com", "localhost", "cdn.example.net"}).Draw(rt, "cn")
		}
		s.Epochs = append(s.Epochs, e)
	}
	return s
}
