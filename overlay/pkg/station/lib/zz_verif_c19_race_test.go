package lib

// C19 — "periodic statistics reporting never panics" with the ticks running CONCURRENTLY with the
// activity they report on (race-detector build).
//
// For a generated accepted configuration the station is brought up as main.go does (real
// HandleRegUpdates with the configured worker count). Then, at the same time:
//   - one goroutine plays the 5 s statistics tick in a tight loop: the real Stats.PrintStats(false)
//     over the modules main.go registers (ZMQ ingester, liveness tester, proxy stats, registration
//     manager), plus PrintStats of the liveness module;
//   - senders push marshalled registrations (varying transport, library version, source, generation,
//     family, fresh secrets) through the real channel -> distributor -> ingest workers ->
//     parseRegMessage -> ingestRegistration -> AddRegStats / AddDupReg / AddErrReg ...;
//   - two goroutines call parseRegMessage + ingestRegistration directly (what a worker does);
//   - one goroutine plays tunnels: the proxy session / byte / completion counters;
//   - one goroutine plays the 3 min expiry tick: ages the registry and calls RemoveOldRegistrations.
// Oracle: no goroutine of the harness panics (recovered -> violation); a data race report or a
// runtime fatal error (concurrent map iteration and map write) in any goroutine fails the binary and
// is reported by vcheck as a crash violation. Work is bounded by operation counts, never by time.

import (
	"fmt"
	"io"
	golog "log"
	"net"
	"os"
	"sort"
	"sync"
	"sync/atomic"
	"testing"
	"time"

	"github.com/refraction-networking/conjure/pkg/station/log"
	"google.golang.org/protobuf/proto"
	"pgregory.net/rapid"
	"verif/harness/vh"
)

type c19RaceCase struct {
	Conf   c19Conf      `json:"conf"`
	Kinds  []c19RegSpec `json:"kinds"`  // the mix of registrations (secrets are made fresh per message)
	PerSnd int          `json:"per_snd"` // messages per sender
}

func c19GenRace(rt *rapid.T) c19RaceCase {
	c := c19GenConf(rt, false, false, true)
	// both families on, a worker pool: otherwise nothing is accounted concurrently
	for i := range c.Scalars {
		switch c.Scalars[i].Key {
		case "enable_v4", "enable_v6":
			c.Scalars[i] = c19KV{Key: c.Scalars[i].Key, Mode: "set", Raw: "true"}
		case "ingest_worker_count":
			a := rapid.SampledFrom([]c19Alt{{"unset", ""}, {"set", "4"}, {"set", "25"}, {"set", "100"}}).Draw(rt, "workers")
			c.Scalars[i] = c19KV{Key: "ingest_worker_count", Mode: a.Mode, Raw: a.Raw}
		case "enable_share_over_api":
			c.Scalars[i] = c19KV{Key: "enable_share_over_api", Mode: "zero", Raw: "false"}
		}
	}
	c.Note = "concurrent housekeeping"
	rc := c19RaceCase{Conf: c, PerSnd: rapid.IntRange(vh.Pick(120, 300), vh.Pick(250, 800)).Draw(rt, "persnd")}
	n := rapid.IntRange(4, 12).Draw(rt, "nkinds")
	for i := 0; i < n; i++ {
		rc.Kinds = append(rc.Kinds, c19RegSpec{
			TT:     rapid.IntRange(0, 2).Draw(rt, "tt"),
			V6:     rapid.Bool().Draw(rt, "v6"),
			Gen:    rapid.SampledFrom([]uint32{957, 957, 1, 4242}).Draw(rt, "gen"),
			Src:    rapid.IntRange(0, 2).Draw(rt, "src"),
			LibVer: rapid.SampledFrom([]uint32{4, 4, 3, 2, 5, 9}).Draw(rt, "libver"),
		})
	}
	return rc
}

// c19AllowedCovert picks a covert literal the configuration's policy lets through.
func c19AllowedCovert(x *c19Ctx, pol *c19Policy) string {
	for _, s := range []string{"203.0.113.200", "198.18.77.1", "8.8.8.8", "203.0.113.70", "192.0.2.200", "2001:db8:ffff::9", "127.0.0.1", "10.9.9.9"} {
		ip := c19Norm(net.ParseIP(s))
		if ref, det := pol.covertRefused(ip, x.local); det && !ref {
			return c19HostPort(ip)
		}
	}
	return "203.0.113.200:443"
}

func c19RunRace(x *c19Ctx, c c19RaceCase, res *c19Result) {
	text, err := c.Conf.Render()
	if err != nil {
		res.harness = err.Error()
		return
	}
	if err := os.WriteFile(x.confPath, []byte(text), 0o644); err != nil {
		res.harness = err.Error()
		return
	}
	if err := os.WriteFile(x.subnetPath, []byte(vDefaultSubnets), 0o644); err != nil {
		res.harness = err.Error()
		return
	}
	parsed, perr, pp := c19Load()
	if pp != nil || perr != nil {
		res.harness = fmt.Sprintf("the clean configuration is not accepted: err=%v panic=%v", perr, pp)
		return
	}
	discard := log.New(io.Discard, "[STATS] ", golog.Ldate|golog.Lmicroseconds)
	discard.SetLevel(log.TraceLevel)
	// quiet logger (the loops below would otherwise fill memory with log text) and no packets: both
	// put in place before the ingest workers exist. The real tester stays registered as stats module.
	c19PreStart = func(st *c19Station) {
		st.rm.Logger = log.New(io.Discard, "[REG] ", golog.Ldate|golog.Lmicroseconds)
		st.rm.Logger.SetLevel(log.TraceLevel)
		st.rm.LivenessTester = &vTester{}
	}
	st, rejected, key, msg := c19BringUp(x, parsed, true)
	c19PreStart = nil
	if key == "harness" {
		res.harness = msg
		return
	}
	if key != "" {
		res.report(key, msg)
		return
	}
	if rejected != "" {
		res.harness = "the clean configuration does not start: " + rejected
		return
	}
	defer func() {
		if m := st.shutdown(); m != "" && res.harness == "" {
			res.harness = m
		}
	}()
	res.class(c19LiveClass(parsed.RegConfig))

	covert := c19AllowedCovert(x, c19BuildPolicy(c.Conf))
	regAddr := net.ParseIP("198.51.100.7").To4()
	var counter int64
	mkMsg := func() []byte {
		i := int(atomic.AddInt64(&counter, 1))
		k := c.Kinds[i%len(c.Kinds)]
		src := c19Sources[k.Src%3]
		w := vWrapper(vSecret(5000+i), c19TT[k.TT%3], 0, covert, !k.V6, k.V6, k.LibVer, k.Gen, src, regAddr)
		b, err := proto.Marshal(w)
		if err != nil {
			return nil
		}
		return b
	}

	// the modules main.go registers with Stat(), on a private Stats object
	s := &Stats{logger: discard, generations: make(map[uint32]int64), genMutex: &sync.Mutex{}}
	if st.zmq != nil {
		s.AddStatsModule(st.zmq, false)
	}
	s.AddStatsModule(st.realLive, false)
	s.AddStatsModule(GetProxyStats(), false)
	s.AddStatsModule(st.rm, false)

	type failure struct{ who, what string }
	var fmu sync.Mutex
	var failures []failure
	guard := func(who string, f func()) {
		if p := c19Recover(f); p != nil {
			fmu.Lock()
			failures = append(failures, failure{who, fmt.Sprintf("%s [%s]", p.Val, c19ShortStack(p))})
			fmu.Unlock()
		}
	}
	var stop int32
	var ticks int64
	var workers, printer sync.WaitGroup

	printer.Add(1)
	go func() {
		defer printer.Done()
		guard("stats-tick", func() {
			for atomic.LoadInt32(&stop) == 0 {
				s.PrintStats(false)
				st.realLive.PrintStats(discard)
				atomic.AddInt64(&ticks, 1)
			}
			s.PrintStats(false)
		})
	}()
	for g := 0; g < 3; g++ { // senders: the ZMQ receive loop's side of the channel
		workers.Add(1)
		go func() {
			defer workers.Done()
			guard("sender", func() {
				for i := 0; i < c.PerSnd; i++ {
					if b := mkMsg(); b != nil {
						st.regChan <- b
					}
				}
			})
		}()
	}
	for g := 0; g < 2; g++ { // what an ingest worker does, on the caller's goroutine
		workers.Add(1)
		go func() {
			defer workers.Done()
			guard("ingest", func() {
				for i := 0; i < c.PerSnd; i++ {
					b := mkMsg()
					if b == nil {
						continue
					}
					regs, err := st.rm.parseRegMessage(b)
					if err != nil {
						continue
					}
					for _, reg := range regs {
						if reg != nil {
							st.rm.ingestRegistration(reg)
						}
					}
				}
			})
		}()
	}
	workers.Add(1)
	go func() { // tunnels
		defer workers.Done()
		guard("proxy-counters", func() {
			ps := getProxyStats()
			for i := 0; i < 4*c.PerSnd; i++ {
				ps.addSession()
				ps.addBytes(int64(i%1500), i%2 == 0)
				ps.addCompleted(int64(i%3)*100, i%2 == 0)
				ps.removeSession()
			}
		})
	}()
	workers.Add(1)
	go func() { // the expiry tick
		defer workers.Done()
		guard("expiry-tick", func() {
			for i := 0; i < c.PerSnd/10+2; i++ {
				st.age(4 * time.Minute)
				st.rm.RemoveOldRegistrations()
			}
		})
	}()
	workers.Wait()
	atomic.StoreInt32(&stop, 1)
	printer.Wait()

	if atomic.LoadInt64(&ticks) > 1 {
		res.class("ticks-ran-during-activity")
	}
	if atomic.LoadInt64(&st.rm.totalIngestMessages) > 0 {
		res.class("registrations-through-the-pipeline")
	}
	if st.rm.registeredDecoys.TotalRegistrations() > 0 || atomic.LoadInt64(&st.rm.activeRegistrations) != 0 {
		res.class("registrations-accounted")
	}
	sort.Slice(failures, func(i, j int) bool { return failures[i].who < failures[j].who })
	for _, f := range failures {
		res.report("panic:concurrent:"+f.who, fmt.Sprintf("the %s goroutine panicked while statistics were printed concurrently: %s", f.who, f.what))
	}
}

func c19CheckRace(t vh.Fataler, rec *vh.Rec, x *c19Ctx, c c19RaceCase) {
	res := &c19Result{classes: map[string]bool{}}
	recorded := false
	record := func() {
		if recorded {
			return
		}
		recorded = true
		var classes []string
		for k := range res.classes {
			classes = append(classes, k)
		}
		sort.Strings(classes)
		rec.Case(true, vh.Digest(c), c, classes...)
	}
	defer record()
	res.report = func(key, msg string) {
		if _, known := vh.IsKnown(rec.Prop, key); !known {
			record()
		}
		rec.Violation(t, key, c, "%s", msg)
	}
	c19RunRace(x, c, res)
	if res.harness != "" {
		record()
		t.Fatalf("harness problem: %s", res.harness)
	}
}

// TestVerif_C19_statsrace (built with -race).
func TestVerif_C19_statsrace(t *testing.T) {
	rec := vh.NewRec("C19", "statsrace", "race-detector build: for rapid-generated accepted configurations (clean lists, both families on, worker pool unset/4/25/100, all liveness cache kinds) the station is brought up as main.go does; one goroutine plays the statistics tick in a tight loop (real Stats.PrintStats over the ZMQ, liveness, proxy and registration-manager modules) while 3 senders push registrations through the real channel/distributor/worker pipeline, 2 goroutines ingest directly, one drives the proxy counters and one plays the expiry tick; registrations vary in transport, library version, source, generation, family and carry fresh secrets. Oracle: no recovered panic; a race report or runtime fatal error fails the binary (reported by vcheck as a crash). Work bounded by operation counts. Non-trivial = every case (configuration differs from the shipped one); distinct by case")
	defer rec.Flush()
	rec.Require("ticks-ran-during-activity", "registrations-through-the-pipeline", "registrations-accounted")
	x := c19NewCtx(t)
	if p := vh.ReplayFile(); p != "" {
		var c c19RaceCase
		if _, _, err := vh.LoadReplay(p, &c); err != nil {
			t.Fatal(err)
		}
		c19CheckRace(t, rec, x, c)
		return
	}
	rapid.Check(t, func(rt *rapid.T) {
		c := c19GenRace(rt)
		c19CheckRace(rt, rec, x, c)
	})
}
