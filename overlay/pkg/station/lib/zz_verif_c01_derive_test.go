package lib

// C01 — client and station derive the same phantom address, destination port and transport
// identification secrets, and that derivation is the published one.
//
// Three-way differential per generated registration:
//
//	station   : RegistrationManager.NewRegistrationC2SWrapper on the C2SWrapper the client would send
//	            (phantom subnets loaded through the real TOML loader from a generated file)
//	            -> Keys.ConjureSeed, PhantomIp, PhantomPort, transport.GetIdentifier(reg)
//	client    : the client library entry points: phantoms.SelectPhantom (libver >= 2), the frozen
//	            historical clients internal/compatability/v0|v1 (libver 0/1), gotapdance's port rule
//	            "subnet supports random port ? ClientTransport.GetDstPort(seed) : 443", and the bytes
//	            ClientTransport.PrepareKeys + WrapConn put on the wire (min tag, prefix bytes +
//	            obfuscated tag, obfs4 handshake mark); core.GenerateClientSharedKeys for the cases
//	            whose secret it produced itself
//	reference : verif/harness/c01ref — an independent implementation of the published derivation
//	            (standard library only)
//
// plus golden vectors (/verif/golden/C01/derive.json) replayed first: records written from the tree
// at the time the check was built, so a change that moves client and station *together* for
// library versions 0/1 (where the reference is only the in-repo frozen client) is still caught.
//
// Not asserted (counted as excluded:*): results whose address has a leading zero byte (selection
// there is C14's business: the code returns a short slice), configurations with zero total weight
// (never generated), prefix with a client library < 3 (no such client exists), unknown prefix ids.

import (
	"bytes"
	"context"
	"crypto/sha256"
	"encoding/hex"
	"encoding/json"
	"errors"
	"fmt"
	"io"
	"net"
	"net/netip"
	"os"
	"path/filepath"
	"sort"
	"strings"
	"sync"
	"testing"
	"time"

	"github.com/pion/stun"
	compatv0 "github.com/refraction-networking/conjure/internal/compatability/v0"
	compatv1 "github.com/refraction-networking/conjure/internal/compatability/v1"
	"github.com/refraction-networking/conjure/pkg/core"
	"github.com/refraction-networking/conjure/pkg/phantoms"
	dtlst "github.com/refraction-networking/conjure/pkg/transports/connecting/dtls"
	"github.com/refraction-networking/conjure/pkg/transports/wrapping/min"
	"github.com/refraction-networking/conjure/pkg/transports/wrapping/obfs4"
	"github.com/refraction-networking/conjure/pkg/transports/wrapping/prefix"
	pb "github.com/refraction-networking/conjure/proto"
	"google.golang.org/protobuf/proto"
	"google.golang.org/protobuf/types/known/anypb"
	"pgregory.net/rapid"
	"verif/harness/c01ref"
	"verif/harness/vh"
)

// ------------------------------------------------------------------------------------------------
// Case

type c01GenConf struct {
	Gen           uint32         `json:"gen"`
	Groups        []c01ref.Group `json:"groups"`
	ExplicitFalse bool           `json:"explicit_false,omitempty"` // write "RandomizeDstPort = false" instead of omitting it
	// how a group WITHOUT subnets is written in the station's file: "" = no Subnets key, "array" = "Subnets = []"
	EmptyStyle string `json:"empty_style,omitempty"`
}

type c01Case struct {
	Secret vh.Hex `json:"secret"`
	// Keygen cases: the secret was produced by core.GenerateClientSharedKeys (crypto/rand); what the
	// client derived from it is recorded here so that the run is a pure function of the case.
	Keygen       bool   `json:"keygen,omitempty"`
	ClientSeed   vh.Hex `json:"client_seed,omitempty"`
	ClientStream vh.Hex `json:"client_stream,omitempty"` // first 64 bytes of SharedKeys.Reader

	LibVer    uint32       `json:"libver"`
	Gen       uint32       `json:"gen"`  // generation announced by the client
	Conf      []c01GenConf `json:"conf"` // station's phantom_subnets.toml; the client's ClientConf holds Conf[i] with Gen == Gen
	V6        bool         `json:"v6"`
	Transport string       `json:"transport"`  // min | obfs4 | prefix | dtls
	ParamMode string       `json:"param_mode"` // set | default | unset | omitted
	Randomize bool         `json:"randomize"`
	PrefixID  int32        `json:"prefix_id"`
	Flush     int32        `json:"flush"`
	URLMode   string       `json:"url_mode"` // "" (gotapdance strips the type url) | full | tapdance
	Source    int32        `json:"source"`
	// bidirectional registration: the registrar's response (see zz_verif_c01_bidi_test.go); nil = the
	// message carries no response
	Bidi *c01Bidi `json:"bidi,omitempty"`
}

func (c *c01Case) applicable() *c01GenConf {
	for i := range c.Conf {
		if c.Conf[i].Gen == c.Gen {
			return &c.Conf[i]
		}
	}
	return nil
}

// c01Side is what one of the three parties derived.
type c01Side struct {
	OK    bool   `json:"ok"`
	Err   string `json:"err,omitempty"`
	Seed  vh.Hex `json:"seed,omitempty"`
	IP    vh.Hex `json:"ip,omitempty"`
	Port  int    `json:"port"` // -1: not derived by this party
	Ident vh.Hex `json:"ident,omitempty"`
	Rand  bool   `json:"rand,omitempty"` // selected subnet group supports port randomisation
	Panic string `json:"panic,omitempty"`
}

type c01Out struct {
	Station c01Side
	Client  c01Side
	Ref     c01Side
	RefPh   *c01ref.Phantom
	// first 64 bytes of the reference transport key stream
	RefStream []byte
	// client wire observations
	Flight       []byte
	ClientParams string // what the client put in the registration
	Skip         string // non-empty: excluded class, nothing asserted beyond "no panic"
	Refused      string // non-empty: the client library rejected the registrar's override (the client gives up)
	NoLibPort    bool   // unchecked prefix override: the client library has no port of its own (GetDstPort gives 0)
	Again        string // non-empty: the station derived something else from the same message the second time
}

// ------------------------------------------------------------------------------------------------
// Environment (one per process)

type c01Env struct {
	e    *vEnv
	dir  string
	priv [32]byte
	pub  [32]byte
}

func c01NewEnv(t *testing.T) *c01Env {
	e := vNewEnv(t, nil, "")
	if err := e.rm.AddTransport(pb.TransportType_DTLS, &dtlst.Transport{}); err != nil {
		t.Fatalf("harness problem: add dtls transport: %v", err)
	}
	return &c01Env{e: e, dir: t.TempDir(), priv: e.priv, pub: e.pub}
}

func c01TOML(conf []c01GenConf) string {
	var sb strings.Builder
	sb.WriteString("[Networks]\n")
	for _, g := range conf {
		fmt.Fprintf(&sb, "    [Networks.%d]\n        Generation = %d\n", g.Gen, g.Gen)
		for _, grp := range g.Groups {
			fmt.Fprintf(&sb, "        [[Networks.%d.WeightedSubnets]]\n            Weight = %d\n", g.Gen, grp.Weight)
			if grp.Randomize {
				sb.WriteString("            RandomizeDstPort = true\n")
			} else if g.ExplicitFalse {
				sb.WriteString("            RandomizeDstPort = false\n")
			}
			if len(grp.Subnets) == 0 {
				if g.EmptyStyle == "array" {
					sb.WriteString("            Subnets = []\n")
				}
				continue
			}
			qs := make([]string, len(grp.Subnets))
			for i, s := range grp.Subnets {
				qs[i] = fmt.Sprintf("%q", s)
			}
			fmt.Fprintf(&sb, "            Subnets = [%s]\n", strings.Join(qs, ", "))
		}
	}
	return sb.String()
}

func c01ClientList(g *c01GenConf) *pb.PhantomSubnetsList {
	l := &pb.PhantomSubnetsList{}
	for _, grp := range g.Groups {
		ps := &pb.PhantomSubnets{Weight: proto.Uint32(grp.Weight), Subnets: append([]string(nil), grp.Subnets...)}
		if grp.Randomize || g.ExplicitFalse {
			ps.RandomizeDstPort = proto.Bool(grp.Randomize)
		}
		l.WeightedSubnets = append(l.WeightedSubnets, ps)
	}
	// the client gets the list inside a ClientConf protobuf: take it through the wire form
	b, err := proto.Marshal(l)
	if err != nil {
		panic(err)
	}
	out := &pb.PhantomSubnetsList{}
	if err := proto.Unmarshal(b, out); err != nil {
		panic(err)
	}
	return out
}

// emptyWeighted reports whether the generation holds a group without subnets but with weight.
func (g *c01GenConf) emptyWeighted() bool {
	for _, grp := range g.Groups {
		if len(grp.Subnets) == 0 && grp.Weight > 0 {
			return true
		}
	}
	return false
}

// c01CaptureConn records what a client transport writes; reads fail at once (so obfs4's Dial
// returns right after sending its handshake).
type c01CaptureConn struct{ buf bytes.Buffer }

func (c *c01CaptureConn) Read([]byte) (int, error)    { return 0, io.EOF }
func (c *c01CaptureConn) Write(p []byte) (int, error) { return c.buf.Write(p) }
func (c *c01CaptureConn) Close() error                { return nil }
func (c *c01CaptureConn) LocalAddr() net.Addr {
	return &net.TCPAddr{IP: net.IPv4(10, 0, 0, 1), Port: 40000}
}
func (c *c01CaptureConn) RemoteAddr() net.Addr {
	return &net.TCPAddr{IP: net.IPv4(10, 0, 0, 2), Port: 443}
}
func (c *c01CaptureConn) SetDeadline(time.Time) error      { return nil }
func (c *c01CaptureConn) SetReadDeadline(time.Time) error  { return nil }
func (c *c01CaptureConn) SetWriteDeadline(time.Time) error { return nil }

var c01TT = map[string]pb.TransportType{
	c01ref.Min: pb.TransportType_Min, c01ref.Obfs4: pb.TransportType_Obfs4,
	c01ref.Prefix: pb.TransportType_Prefix, c01ref.DTLS: pb.TransportType_DTLS,
}

type c01ClientTransport interface {
	SetParams(any) error
	Prepare(ctx context.Context, dialer func(ctx context.Context, network, laddr, raddr string) (net.Conn, error)) error
	GetParams() (proto.Message, error)
	GetDstPort(seed []byte) (uint16, error)
	PrepareKeys(pubkey [32]byte, sharedSecret []byte, dRand io.Reader) error
}

type c01Wrapper interface {
	WrapConn(conn net.Conn) (net.Conn, error)
}

// c01StunConn is an in-memory STUN responder: the DTLS client's Prepare learns its "public" address
// from it, so the real Prepare / GetParams path runs without any socket.
type c01StunConn struct {
	pub    *net.UDPAddr
	resp   chan []byte
	closed chan struct{}
	once   sync.Once
}

func c01NewStunConn(network string) *c01StunConn {
	pub := &net.UDPAddr{IP: net.IPv4(203, 0, 113, 5).To4(), Port: 50123}
	if network == "udp6" {
		pub = &net.UDPAddr{IP: net.ParseIP("2001:db8::5"), Port: 50124}
	}
	return &c01StunConn{pub: pub, resp: make(chan []byte, 4), closed: make(chan struct{})}
}

func (c *c01StunConn) Write(p []byte) (int, error) {
	var req stun.Message
	if err := stun.Decode(p, &req); err != nil {
		return len(p), nil
	}
	res, err := stun.Build(stun.NewTransactionIDSetter(req.TransactionID), stun.BindingSuccess,
		&stun.XORMappedAddress{IP: c.pub.IP, Port: c.pub.Port}, stun.Fingerprint)
	if err == nil {
		select {
		case c.resp <- append([]byte(nil), res.Raw...):
		default:
		}
	}
	return len(p), nil
}

func (c *c01StunConn) Read(p []byte) (int, error) {
	select {
	case b := <-c.resp:
		return copy(p, b), nil
	case <-c.closed:
		return 0, net.ErrClosed
	}
}
func (c *c01StunConn) Close() error { c.once.Do(func() { close(c.closed) }); return nil }
func (c *c01StunConn) LocalAddr() net.Addr {
	return &net.UDPAddr{IP: net.IPv4(10, 0, 0, 1), Port: 40000}
}
func (c *c01StunConn) RemoteAddr() net.Addr {
	return &net.UDPAddr{IP: net.IPv4(192, 0, 2, 53), Port: 3478}
}
func (c *c01StunConn) SetDeadline(time.Time) error      { return nil }
func (c *c01StunConn) SetReadDeadline(time.Time) error  { return nil }
func (c *c01StunConn) SetWriteDeadline(time.Time) error { return nil }

func c01StunDialer(ctx context.Context, network, laddr, raddr string) (net.Conn, error) {
	return c01NewStunConn(network), nil
}

// c01Client builds the client transport the way gotapdance does (SetParams, Prepare, GetParams) and
// returns it with the TransportParams it would put in the registration.
func c01Client(c *c01Case) (ct c01ClientTransport, params *anypb.Any, err error) {
	switch c.Transport {
	case c01ref.Min:
		ct = &min.ClientTransport{}
	case c01ref.Obfs4:
		ct = &obfs4.ClientTransport{}
	case c01ref.Prefix:
		ct = &prefix.ClientTransport{}
	case c01ref.DTLS:
		ct = &dtlst.ClientTransport{}
		_ = ct.SetParams(&dtlst.ClientConfig{STUNServer: "stun.invalid:3478"})
	default:
		return nil, nil, fmt.Errorf("unknown transport %q", c.Transport)
	}
	var dialer func(ctx context.Context, network, laddr, raddr string) (net.Conn, error)
	switch c.ParamMode {
	case "set":
		switch c.Transport {
		case c01ref.Prefix:
			err = ct.SetParams(&prefix.ClientParams{PrefixID: c.PrefixID, RandomizeDstPort: c.Randomize, FlushPolicy: c.Flush})
		case c01ref.DTLS:
			err = ct.SetParams(&pb.DTLSTransportParams{RandomizeDstPort: proto.Bool(c.Randomize), Unordered: proto.Bool(c.Flush == 1)})
		default:
			err = ct.SetParams(&pb.GenericTransportParams{RandomizeDstPort: proto.Bool(c.Randomize)})
		}
	case "default":
		if c.Transport == c01ref.DTLS {
			// dtls has no nil default; its second documented way to set the flag is the generic message
			err = ct.SetParams(&pb.GenericTransportParams{RandomizeDstPort: proto.Bool(c.Randomize)})
		} else {
			err = ct.SetParams(nil) // library default (min/obfs4: randomise; prefix: Min prefix, fixed port)
		}
	}
	if err != nil {
		return nil, nil, err
	}
	if c.Transport == c01ref.DTLS {
		dialer = c01StunDialer
	}
	if err = ct.Prepare(context.Background(), dialer); err != nil {
		return nil, nil, err
	}
	m, err := ct.GetParams()
	if err != nil {
		return nil, nil, err
	}
	if c.ParamMode == "omitted" || m == nil {
		return ct, nil, nil
	}
	a, err := anypb.New(m)
	if err != nil {
		return nil, nil, err
	}
	switch c.URLMode {
	case "":
		a.TypeUrl = ""
	case "tapdance":
		a.TypeUrl = strings.Replace(a.TypeUrl, "proto.", "tapdance.", 1)
	}
	return ct, a, nil
}

// asked reports whether, by the case, the client asked for a randomised port.
func (c *c01Case) asked() bool {
	switch c.ParamMode {
	case "set":
		return c.Randomize
	case "default":
		if c.Transport == c01ref.DTLS {
			return c.Randomize
		}
		return c.Transport != c01ref.Prefix // min/obfs4 SetParams(nil) randomise; prefix default does not
	}
	return false
}

// effective prefix id of the case (defaults to Min when the client never set one)
func (c *c01Case) prefixID() int32 {
	if c.Transport == c01ref.Prefix && c.ParamMode == "set" {
		return c.PrefixID
	}
	return 0
}

func c01Recover(side *c01Side) {
	if r := recover(); r != nil {
		side.OK = false
		side.Panic = fmt.Sprint(r)
	}
}

// c01BuildWrapper builds the C2SWrapper a registrar forwards for the client's registration (the fields
// gotapdance's generateClientToStation fills in).
func c01BuildWrapper(c *c01Case, params *anypb.Any, v4, v6 bool) *pb.C2SWrapper {
	tt := c01TT[c.Transport]
	c2s := &pb.ClientToStation{
		ClientLibVersion:          proto.Uint32(c.LibVer),
		DecoyListGeneration:       proto.Uint32(c.Gen),
		CovertAddress:             proto.String("192.0.2.10:443"),
		V4Support:                 proto.Bool(v4),
		V6Support:                 proto.Bool(v6),
		Transport:                 tt.Enum(),
		TransportParams:           params,
		Flags:                     &pb.RegistrationFlags{UploadOnly: proto.Bool(false), ProxyHeader: proto.Bool(false), Use_TIL: proto.Bool(true)},
		DisableRegistrarOverrides: proto.Bool(false),
	}
	src := pb.RegistrationSource(c.Source)
	return &pb.C2SWrapper{
		SharedSecret:        append([]byte(nil), c.Secret...),
		RegistrationPayload: c2s,
		RegistrationSource:  src.Enum(),
		RegistrationAddress: []byte{198, 51, 100, 7},
	}
}

// c01Eval runs station, client and reference on the case.
func c01Eval(env *c01Env, c *c01Case) (out c01Out, harnessErr error) {
	out.Station.Port, out.Client.Port, out.Ref.Port = -1, -1, -1
	app := c.applicable()

	// ---- client: transport params first (they go into the registration) -------------------------
	var ct c01ClientTransport
	var params *anypb.Any
	{
		var err error
		ct, params, err = c01Client(c)
		if err != nil {
			if c.Transport == c01ref.Prefix && errors.Is(err, prefix.ErrUnknownPrefix) {
				out.Skip = "excluded:unknown-prefix-id"
				return out, nil
			}
			return out, fmt.Errorf("client transport set-up failed: %v", err)
		}
	}
	if params != nil {
		out.ClientParams = fmt.Sprintf("%s|%x", params.TypeUrl, params.Value)
	}
	if c.Transport == c01ref.Prefix && c.LibVer < 3 {
		out.Skip = "excluded:prefix-needs-libver3" // no such client ever existed; the station refuses
	} else if c.Transport == c01ref.Prefix && c.ParamMode == "omitted" {
		out.Skip = "excluded:prefix-without-params" // the client library always sends prefix params
	}
	if c.Bidi != nil {
		if s := c01BidiSkip(c); s != "" && out.Skip == "" {
			out.Skip = s
		}
		func() {
			defer c01Recover(&out.Client)
			refused, err := c01BidiApplyClient(c, ct)
			if err != nil {
				harnessErr = err
			}
			out.Refused = refused
		}()
		if harnessErr != nil {
			return out, harnessErr
		}
	}

	// ---- reference ---------------------------------------------------------------------------------
	refSeed, refStream, err := c01ref.Keys(c.LibVer, c.Secret)
	if err != nil {
		return out, fmt.Errorf("reference keys: %v", err)
	}
	refStreamBytes := make([]byte, 64)
	if _, err := io.ReadFull(refStream, refStreamBytes); err != nil {
		return out, fmt.Errorf("reference stream: %v", err)
	}
	out.Ref.Seed = refSeed
	out.RefStream = refStreamBytes
	out.Ref.OK = true
	if app == nil {
		out.Ref.OK = false
		out.Ref.Err = "unknown generation"
	} else if c.LibVer >= 2 {
		ph, err := c01ref.SelectPhantom(refSeed, app.Groups, c.V6)
		if err != nil {
			if !errors.Is(err, c01ref.ErrNoAddress) {
				return out, fmt.Errorf("reference selection: %v", err)
			}
			out.Ref.OK = false
			out.Ref.Err = err.Error()
		} else {
			out.RefPh = ph
			out.Ref.IP = ph.IP
			out.Ref.Rand = ph.Randomize
		}
	}
	switch c.Transport {
	case c01ref.Obfs4:
		k, err := c01ref.Obfs4Draw(bytes.NewReader(refStreamBytes))
		if err != nil {
			return out, fmt.Errorf("reference obfs4: %v", err)
		}
		out.Ref.Ident = append(append([]byte(nil), k.Public...), k.NodeID...)
	default:
		out.Ref.Ident = c01ref.Tag(c.Transport, c.Secret)
	}

	// ---- station -----------------------------------------------------------------------------------
	path := filepath.Join(env.dir, "phantom_subnets.toml")
	if err := os.WriteFile(path, []byte(c01TOML(c.Conf)), 0o644); err != nil {
		return out, err
	}
	sel, err := phantoms.SubnetsFromTomlFile(path)
	if err != nil {
		return out, fmt.Errorf("station could not load generated subnet file: %v\n%s", err, c01TOML(c.Conf))
	}
	if len(sel.Networks) != len(c.Conf) {
		return out, fmt.Errorf("station loaded %d generations from a file with %d", len(sel.Networks), len(c.Conf))
	}
	env.e.rm.PhantomSelector = sel
	tt := c01TT[c.Transport]
	w := c01BuildWrapper(c, params, !c.V6, c.V6)
	ovAddr := c01BidiAddr(c, &out)
	if c.Bidi != nil {
		if err := c01BidiWrapper(c, w, ovAddr); err != nil {
			return out, fmt.Errorf("building the registration response: %v", err)
		}
	}
	w2 := proto.Clone(w).(*pb.C2SWrapper) // (the station rewrites the params' type url in place)
	func() {
		defer c01Recover(&out.Station)
		reg, err := env.e.rm.NewRegistrationC2SWrapper(w, c.V6)
		if err != nil {
			out.Station.Err = err.Error()
			return
		}
		out.Station.OK = true
		out.Station.Seed = append([]byte(nil), reg.Keys.ConjureSeed...)
		out.Station.IP = append([]byte(nil), reg.PhantomIp...)
		out.Station.Port = int(reg.PhantomPort)
		tr := env.e.rm.registeredDecoys.transports[tt]
		out.Station.Ident = []byte(tr.GetIdentifier(reg))
		// "a fixed function of those inputs": the same message again gives the same registration
		reg2, err := env.e.rm.NewRegistrationC2SWrapper(w2, c.V6)
		if err != nil {
			out.Again = "second identical registration failed: " + err.Error()
			return
		}
		if !bytes.Equal(reg2.PhantomIp, reg.PhantomIp) || reg2.PhantomPort != reg.PhantomPort || !bytes.Equal(reg2.Keys.ConjureSeed, reg.Keys.ConjureSeed) || tr.GetIdentifier(reg2) != string(out.Station.Ident) {
			out.Again = fmt.Sprintf("first %s:%d seed %x, second %s:%d seed %x (or identifiers differ)", reg.PhantomIp, reg.PhantomPort, reg.Keys.ConjureSeed, reg2.PhantomIp, reg2.PhantomPort, reg2.Keys.ConjureSeed)
		}
	}()

	// ---- client: seed, phantom, port, wire bytes -----------------------------------------------------
	clientSeed := []byte(refSeed) // no client entry point takes a chosen secret; see Keygen cases
	clientStream := refStreamBytes
	if c.Keygen {
		clientSeed = c.ClientSeed
		clientStream = c.ClientStream
	}
	out.Client.Seed = clientSeed
	if app != nil {
		list := c01ClientList(app)
		func() {
			defer c01Recover(&out.Client)
			switch {
			case c.LibVer >= 2:
				f := phantoms.V4Only
				if c.V6 {
					f = phantoms.V6Only
				}
				ph, err := phantoms.SelectPhantom(clientSeed, list, f, true)
				if err != nil {
					out.Client.Err = err.Error()
					return
				}
				out.Client.OK = true
				out.Client.IP = append([]byte(nil), (*ph.IP())...)
				out.Client.Rand = ph.SupportRandomPort()
			case c.LibVer == 1:
				f := compatv1.V4Only
				if c.V6 {
					f = compatv1.V6Only
				}
				ip, err := compatv1.SelectPhantom(clientSeed, list, f, true)
				if err != nil {
					out.Client.Err = err.Error()
					return
				}
				out.Client.OK = true
				out.Client.IP = append([]byte(nil), (*ip)...)
			default:
				f := compatv0.V4Only
				if c.V6 {
					f = compatv0.V6Only
				}
				ip, err := compatv0.SelectPhantom(clientSeed, list, f, true)
				if err != nil {
					out.Client.Err = err.Error()
					return
				}
				out.Client.OK = true
				out.Client.IP = append([]byte(nil), (*ip)...)
			}
		}()
	} else {
		out.Client.Err = "n/a (station does not know the client's generation)"
	}

	// a phantom address in the registrar's response replaces the derived one on both sides
	if ovAddr != nil {
		if out.Ref.OK {
			out.Ref.IP = append([]byte(nil), ovAddr...)
		}
		if out.Client.OK {
			out.Client.IP = append([]byte(nil), ovAddr...)
		}
	}

	// reference port needs the subnet's randomisation flag; for libver < 2 it is irrelevant (443)
	if out.Ref.OK && out.Skip == "" {
		p, err := c01ref.Port(c.LibVer, c.Transport, c.effPrefixID(), c.effAsked(), out.Ref.Rand, refSeed)
		if err != nil {
			return out, fmt.Errorf("reference port: %v", err)
		}
		out.Ref.Port = int(p)
		if c.Bidi != nil && c.Bidi.DstPort != 0 {
			out.Ref.Port = int(uint16(c.Bidi.DstPort))
		}
	}
	if out.Client.OK && ct != nil && out.Client.Panic == "" && out.Refused == "" {
		func() {
			defer c01Recover(&out.Client)
			switch {
			case c.Bidi != nil && c.Bidi.DstPort != 0:
				out.Client.Port = int(uint16(c.Bidi.DstPort)) // the dialer takes the port the registrar names
			case c.LibVer < 3:
				out.Client.Port = 443 // clients before port randomisation always dialled 443
			case !out.Client.Rand:
				out.Client.Port = 443 // gotapdance: subnet without random-port support -> 443
			default:
				p, err := ct.GetDstPort(clientSeed)
				if err != nil {
					out.Client.OK = false
					out.Client.Err = "GetDstPort: " + err.Error()
					return
				}
				out.Client.Port = int(p)
				if p == 0 && c.overrideApplies() && !c.Bidi.Checked && c.Transport == c01ref.Prefix {
					// an unchecked prefix override leaves the library without a fixed port of its own (the
					// dialer relies on dst_port): "not derived by this party"
					out.Client.Port = -1
					out.NoLibPort = true
				}
			}
		}()
	}
	if ct != nil {
		func() {
			defer c01Recover(&out.Client)
			if err := ct.PrepareKeys(env.pub, c.Secret, bytes.NewReader(clientStream)); err != nil {
				harnessErr = fmt.Errorf("client PrepareKeys: %v", err)
				return
			}
			wr, ok := ct.(c01Wrapper)
			if !ok {
				return // connecting transport (dtls): nothing is written before the DTLS handshake
			}
			cc := &c01CaptureConn{}
			_, werr := wr.WrapConn(cc)
			if c.Transport != c01ref.Obfs4 && werr != nil {
				harnessErr = fmt.Errorf("client WrapConn: %v", werr)
				return
			}
			out.Flight = append([]byte(nil), cc.buf.Bytes()...)
		}()
	}
	return out, harnessErr
}

// c01Viol is one oracle failure.
type c01Viol struct{ Key, Msg string }

func c01IPStr(b []byte) string {
	if a, ok := netip.AddrFromSlice(b); ok {
		return a.String()
	}
	return "0x" + hex.EncodeToString(b)
}

// c01Judge applies the oracle. It returns the classes of the case, whether it is non-trivial and the
// violations (at most one per field, in causal order).
func c01Judge(env *c01Env, c *c01Case, o *c01Out) (classes []string, nontrivial bool, viols []c01Viol) {
	classes, nontrivial, viols = c01JudgeRaw(env, c, o)
	app := c.applicable()
	if app == nil || !app.emptyWeighted() {
		return
	}
	// The generation holds a retired group (weight, no subnets). Deployed clients read the list from a
	// protobuf, see nil and leave the group and its weight out. Selection / port disagreements of such
	// cases get their own root-cause keys: by selection era and by how the station's file spells the
	// empty group.
	cause := "emptygroup:hkdf"
	if c.LibVer < 2 {
		cause = "emptygroup:legacy"
	}
	classes = append(classes, cause)
	if app.EmptyStyle == "array" && c.LibVer >= 2 {
		// (the legacy station path does not look at the subnets at all: one cause whatever the spelling)
		cause += ":toml-empty-array"
		classes = append(classes, cause)
	}
	for i := range viols {
		k := viols[i].Key
		if strings.Contains(k, ":bidi-override-") {
			continue // decided by whose transport parameters are in force, not by the selection
		}
		if strings.HasPrefix(k, "select:") || strings.HasPrefix(k, "ip:") || strings.HasPrefix(k, "randflag:") || strings.HasPrefix(k, "port:") {
			viols[i].Key = cause
			viols[i].Msg = "generation with a weighted group that lists no subnets (clients ignore it and its weight): " + viols[i].Msg
		}
	}
	return
}

func c01JudgeRaw(env *c01Env, c *c01Case, o *c01Out) (classes []string, nontrivial bool, viols []c01Viol) {
	add := func(k, f string, a ...any) { viols = append(viols, c01Viol{k, fmt.Sprintf(f, a...)}) }
	lv := fmt.Sprintf("libver%d", c.LibVer)
	if c.LibVer > 4 {
		lv = "libver>4"
	}
	fam := "v4"
	if c.V6 {
		fam = "v6"
	}
	classes = append(classes, lv, "transport:"+c.Transport, fam, "params:"+c.ParamMode)
	if c.Keygen {
		classes = append(classes, "client-keygen")
	}
	if len(c.Secret) != 32 {
		classes = append(classes, "secret-len-not-32")
	}
	era := "hkdf"
	if c.LibVer < 2 {
		era = "legacy"
	}

	for _, s := range []struct {
		n string
		s *c01Side
	}{{"station", &o.Station}, {"client", &o.Client}} {
		if s.s.Panic != "" {
			add("panic:"+s.n, "%s panicked: %s", s.n, s.s.Panic)
			return
		}
	}
	if o.Again != "" {
		add("station:not-a-function", "the same registration message twice: %s", o.Again)
		return
	}
	if o.Skip != "" {
		classes = append(classes, o.Skip)
		return
	}
	if o.Refused != "" {
		// nothing to rendezvous with: the client library rejected the registrar's parameters
		classes = append(classes, "excluded:client-refused-override")
		return
	}

	app := c.applicable()
	if app == nil {
		classes = append(classes, "unknown-generation")
		if o.Station.OK {
			add("generation:unknown-accepted", "station built a registration (phantom %s) for generation %d which its configuration does not contain", c01IPStr(o.Station.IP), c.Gen)
		}
		return
	}

	// seed ------------------------------------------------------------------------------------------
	if c.Keygen {
		if !bytes.Equal(c.ClientSeed, o.Ref.Seed) {
			add("seed:clientkeygen!=ref", "GenerateClientSharedKeys seed %x, published derivation gives %x", []byte(c.ClientSeed), []byte(o.Ref.Seed))
		}
		if !bytes.Equal(o.RefStream, c.ClientStream) {
			add("stream:clientkeygen!=ref", "GenerateClientSharedKeys reader yields %x, published transport stream is %x", []byte(c.ClientStream), o.RefStream)
		}
	}

	if o.Station.OK && !bytes.Equal(o.Station.Seed, o.Ref.Seed) {
		// root cause: everything below is derived from the seed
		add("seed:station!=ref", "station ConjureSeed %x, published derivation (libver %d) gives %x", []byte(o.Station.Seed), c.LibVer, []byte(o.Ref.Seed))
		return
	}
	if len(viols) > 0 {
		return
	}

	// selection success -----------------------------------------------------------------------------
	if era == "hkdf" {
		if o.Station.OK != o.Ref.OK || o.Client.OK != o.Ref.OK {
			// a station failure that is not about selection is reported on its own key
			sk := "select:" + era + ":outcome"
			if m := c.bidiMode(); m != "" {
				sk += ":" + m
			}
			add(sk, "selection outcome differs: station ok=%v (%s) client ok=%v (%s) reference ok=%v (%s)%s",
				o.Station.OK, o.Station.Err, o.Client.OK, o.Client.Err, o.Ref.OK, o.Ref.Err, c.bidiDesc())
			return
		}
		if !o.Ref.OK {
			classes = append(classes, "family-missing")
			return
		}
	} else {
		if !o.Client.OK {
			// the frozen client gives up (varint overflow of the seed, the v0 "selection bug", no
			// address of the family): nothing to rendezvous with, nothing asserted about the station
			if o.Station.OK {
				classes = append(classes, "excluded:legacy-client-gives-up-station-selects")
			} else {
				classes = append(classes, "legacy-both-fail")
			}
			return
		}
		if !o.Station.OK {
			add("select:legacy:station-fails", "libver %d client selected %s but the station failed: %s", c.LibVer, c01IPStr(o.Client.IP), o.Station.Err)
			return
		}
	}

	// address ---------------------------------------------------------------------------------------
	wantLen := 4
	if c.V6 {
		wantLen = 16
	}
	leadingZero := false
	if era == "hkdf" {
		leadingZero = o.Ref.IP[0] == 0
	} else {
		leadingZero = len(o.Client.IP) != wantLen || len(o.Station.IP) != wantLen || o.Client.IP[0] == 0
	}
	if leadingZero {
		classes = append(classes, "excluded:leading-zero-address")
	} else {
		as, ad := "", ""
		if c.Bidi != nil && c.Bidi.Addr != "" {
			// the response names the phantom: both sides take it instead of deriving one
			as = ":bidi-override-addr"
			ad = fmt.Sprintf(" [bidirectional: the registrar's response names the phantom address (%s)]", c.Bidi.Addr)
		}
		sc := bytes.Equal(o.Station.IP, o.Client.IP)
		if era == "hkdf" {
			sr := bytes.Equal(o.Station.IP, o.Ref.IP)
			cr := bytes.Equal(o.Client.IP, o.Ref.IP)
			switch {
			case sc && !sr:
				add("ip:hkdf:both!=ref"+as, "station and client agree on %s but the published algorithm selects %s%s", c01IPStr(o.Station.IP), c01IPStr(o.Ref.IP), ad)
			case !sc && sr:
				add("ip:hkdf:client!=station"+as, "client selects %s, station (and reference) %s%s", c01IPStr(o.Client.IP), c01IPStr(o.Station.IP), ad)
			case !sc && cr:
				add("ip:hkdf:station!=client"+as, "station selects %s, client (and reference) %s%s", c01IPStr(o.Station.IP), c01IPStr(o.Client.IP), ad)
			case !sc:
				add("ip:hkdf:all-differ"+as, "station %s client %s reference %s%s", c01IPStr(o.Station.IP), c01IPStr(o.Client.IP), c01IPStr(o.Ref.IP), ad)
			}
			if o.Client.Rand != o.Ref.Rand {
				add("randflag:client!=ref", "client phantom SupportRandomPort=%v, selected group says %v", o.Client.Rand, o.Ref.Rand)
			}
		} else if !sc {
			add("ip:legacy:station!=client"+as, "libver %d frozen client selects %s, station %s%s", c.LibVer, c01IPStr(o.Client.IP), c01IPStr(o.Station.IP), ad)
		}
	}

	// port ------------------------------------------------------------------------------------------
	pk := "port:" + c.Transport
	if m := c.bidiMode(); m != "" {
		pk += ":" + m
	}
	if o.Ref.Port >= 0 && o.Station.Port != o.Ref.Port {
		if o.Client.Port >= 0 && o.Client.Port == o.Station.Port {
			add(pk+":both!=ref", "station and client use port %d, published rule gives %d%s", o.Station.Port, o.Ref.Port, c.bidiDesc())
		} else {
			add(pk+":station!=ref", "station port %d, published rule gives %d (client %d)%s", o.Station.Port, o.Ref.Port, o.Client.Port, c.bidiDesc())
		}
	} else if o.Client.Port >= 0 && o.Client.Port != o.Station.Port {
		add(pk+":client!=station", "client dials port %d, station expects %d (reference %d)%s", o.Client.Port, o.Station.Port, o.Ref.Port, c.bidiDesc())
	}
	if c.Bidi != nil {
		classes = append(classes, c01BidiClasses(c, era == "hkdf" && o.Ref.Rand)...)
		if o.NoLibPort {
			classes = append(classes, "bidi:unchecked-prefix-no-library-port")
		}
	}
	if c.LibVer < 3 {
		classes = append(classes, "port:refused-by-libver")
	} else if !c.effAsked() {
		classes = append(classes, "port:not-asked")
	} else if era == "hkdf" && !o.Ref.Rand {
		classes = append(classes, "port:refused-by-subnet")
	} else {
		classes = append(classes, "port:random-granted")
	}

	// identifier ------------------------------------------------------------------------------------
	if !bytes.Equal(o.Station.Ident, o.Ref.Ident) {
		add("ident:"+c.Transport+":station!=ref", "station identifier %x, published derivation gives %x", []byte(o.Station.Ident), []byte(o.Ref.Ident))
	}
	if c.Transport != c01ref.DTLS {
		if k, m := c01CheckFlight(env, c, o); k != "" {
			add(k, "%s", m)
		}
	}

	// classes / non-trivial ---------------------------------------------------------------------------
	if o.RefPh != nil {
		g := app.Groups[o.RefPh.GroupIdx]
		if o.RefPh.Tie {
			classes = append(classes, "weight-tie")
		}
		has4, has6, one := false, false, false
		for _, s := range g.Subnets {
			p, err := netip.ParsePrefix(s)
			if err != nil {
				continue
			}
			if p.Addr().Is6() {
				has6 = true
			} else {
				has4 = true
			}
			if p.Addr().Is6() == c.V6 && p.Bits() == p.Addr().BitLen() {
				one = true
			}
		}
		if has4 && has6 {
			classes = append(classes, "mixed-families")
		}
		if one {
			classes = append(classes, "one-address-subnet")
		}
		if len(app.Groups) > 1 {
			classes = append(classes, "multi-group")
		}
	}
	nontrivial = !c01IsShipped(app)
	return
}

// c01CheckFlight checks the bytes the client transport put on the wire against the station's and
// the reference's identifier.
func c01CheckFlight(env *c01Env, c *c01Case, o *c01Out) (key, msg string) {
	switch c.Transport {
	case c01ref.Min:
		if !bytes.Equal(o.Flight, o.Station.Ident) {
			return "ident:min:client!=station", fmt.Sprintf("client sends tag %x, station expects %x", o.Flight, []byte(o.Station.Ident))
		}
	case c01ref.Prefix:
		sp := c01ref.Prefixes[c.effPrefixID()]
		if len(o.Flight) != len(sp.Bytes)+64 || !bytes.HasPrefix(o.Flight, sp.Bytes) {
			return "ident:prefix:client-flight-shape", fmt.Sprintf("client first flight %x is not prefix %q followed by a 64-byte obfuscated tag", o.Flight, sp.Bytes)
		}
		tag, err := c01ref.RevealCTR(env.priv[:], o.Flight[len(sp.Bytes):])
		if err != nil {
			return "ident:prefix:client-tag-unrevealable", fmt.Sprintf("published de-obfuscation of the client tag failed: %v", err)
		}
		if !bytes.Equal(tag, o.Station.Ident) {
			return "ident:prefix:client!=station", fmt.Sprintf("client tag (revealed with the station key by the published scheme) %x, station expects %x", tag, []byte(o.Station.Ident))
		}
	case c01ref.Obfs4:
		if len(o.Flight) < 32+16+16 || len(o.Station.Ident) != 52 {
			return "ident:obfs4:client-flight-shape", fmt.Sprintf("obfs4 client handshake of %d bytes / station identifier of %d bytes", len(o.Flight), len(o.Station.Ident))
		}
		mark := o.Flight[len(o.Flight)-32 : len(o.Flight)-16]
		want := c01ref.Obfs4Mark(&c01ref.Obfs4Keys{Public: o.Station.Ident[:32], NodeID: o.Station.Ident[32:]}, o.Flight[:32])
		if !bytes.Equal(mark, want) {
			return "ident:obfs4:client!=station", fmt.Sprintf("obfs4 client handshake mark %x is not the mark for the station's node keys (%x): client and station drew different obfs4 keys", mark, want)
		}
	}
	return "", ""
}

var c01Shipped = []c01ref.Group{
	{Weight: 9, Randomize: true, Subnets: []string{"192.122.190.0/24", "2001:48a8:687f:1::/64"}},
	{Weight: 1, Randomize: false, Subnets: []string{"141.219.0.0/16", "35.8.0.0/16"}},
}

func c01IsShipped(g *c01GenConf) bool {
	if len(g.Groups) != len(c01Shipped) {
		return false
	}
	for i := range g.Groups {
		if g.Groups[i].Weight != c01Shipped[i].Weight || strings.Join(g.Groups[i].Subnets, ",") != strings.Join(c01Shipped[i].Subnets, ",") {
			return false
		}
	}
	return true
}

// c01Check evaluates and judges one case, records evidence and reports the first violation.
func c01Check(t vh.Fataler, rec *vh.Rec, env *c01Env, c *c01Case) *c01Out {
	out, herr := c01Eval(env, c)
	if herr != nil {
		t.Fatalf("harness problem: %v (case %s)", herr, c01JSON(c))
	}
	classes, nontriv, viols := c01Judge(env, c, &out)
	rec.Case(nontriv, vh.Digest(c), c, classes...)
	for _, v := range viols {
		rec.Violation(t, v.Key, c, "%s", v.Msg)
	}
	return &out
}

func c01JSON(v any) string {
	b, _ := json.Marshal(v)
	return string(b)
}

// ------------------------------------------------------------------------------------------------
// Generator

var (
	c01V4Bits = []int{0, 1, 7, 8, 9, 16, 24, 28, 30, 31, 32}
	c01V6Bits = []int{0, 1, 8, 32, 48, 64, 96, 120, 127, 128}
)

func c01GenCIDR(rt *rapid.T, v6 bool) string {
	n, edge := 4, c01V4Bits
	if v6 {
		n, edge = 16, c01V6Bits
	}
	var bits int
	if rapid.IntRange(0, 2).Draw(rt, "bitsmode") == 0 {
		bits = rapid.IntRange(0, n*8).Draw(rt, "bits")
	} else {
		bits = rapid.SampledFrom(edge).Draw(rt, "bits")
	}
	b := rapid.SliceOfN(rapid.Byte(), n, n).Draw(rt, "addr")
	if rapid.IntRange(0, 15).Draw(rt, "lead0") != 0 {
		if b[0] == 0 {
			b[0] = 0x2a
		}
	} else {
		b[0] = 0
	}
	if v6 && b[0] == 0 && b[1] == 0 {
		b[1] = 1 // never the v4-mapped form
	}
	a, _ := netip.AddrFromSlice(b)
	p := netip.PrefixFrom(a, bits)
	if rapid.Bool().Draw(rt, "masked") {
		p = p.Masked()
	}
	return p.String()
}

func c01GenGroups(rt *rapid.T) []c01ref.Group {
	ng := rapid.IntRange(1, 5).Draw(rt, "ngroups")
	wmode := rapid.IntRange(0, 3).Draw(rt, "wmode") // 0 all equal, 1 small (ties likely), 2 arbitrary, 3 with extremes
	eq := uint32(rapid.IntRange(1, 10).Draw(rt, "eqw"))
	groups := make([]c01ref.Group, ng)
	total := uint64(0)
	for i := range groups {
		var w uint32
		switch wmode {
		case 0:
			w = eq
		case 1:
			w = uint32(rapid.IntRange(1, 3).Draw(rt, "w"))
		case 2:
			w = uint32(rapid.IntRange(1, 1000).Draw(rt, "w"))
		default:
			w = rapid.SampledFrom([]uint32{0, 1, 2, 255, 256, 65535, 1 << 31, 4294967295}).Draw(rt, "w")
		}
		total += uint64(w)
		kind := rapid.IntRange(0, 9).Draw(rt, "kind") // 0-3 mixed, 4-6 v4 only, 7-8 v6 only, 9 single host
		ns := rapid.IntRange(1, 4).Draw(rt, "nsub")
		var subs []string
		for j := 0; j < ns; j++ {
			var v6 bool
			switch {
			case kind <= 3:
				v6 = j%2 == 1
				if ns == 1 {
					v6 = rapid.Bool().Draw(rt, "v6")
				}
			case kind <= 6:
				v6 = false
			case kind <= 8:
				v6 = true
			default:
				v6 = rapid.Bool().Draw(rt, "v6")
			}
			s := c01GenCIDR(rt, v6)
			if kind == 9 {
				p, _ := netip.ParsePrefix(s)
				s = netip.PrefixFrom(p.Addr(), p.Addr().BitLen()).String()
			}
			subs = append(subs, s)
		}
		groups[i] = c01ref.Group{Weight: w, Randomize: rapid.Bool().Draw(rt, "rand"), Subnets: subs}
	}
	if total == 0 {
		groups[0].Weight = 1 // zero total weight is undefined (C14) — never generated
	}
	// retired groups: an entry (usually with weight) whose subnets are gone, at any position
	if rapid.IntRange(0, 3).Draw(rt, "withempty") == 0 {
		ne := rapid.IntRange(1, 2).Draw(rt, "nempty")
		for k := 0; k < ne; k++ {
			pos := rapid.IntRange(0, len(groups)).Draw(rt, "emptypos")
			e := c01ref.Group{Weight: rapid.SampledFrom([]uint32{5, 1, 9, 2, 1000, 0}).Draw(rt, "emptyw"), Randomize: rapid.Bool().Draw(rt, "emptyrand")}
			groups = append(groups[:pos], append([]c01ref.Group{e}, groups[pos:]...)...)
		}
	}
	return groups
}

func c01GenCase(rt *rapid.T) c01Case {
	var c c01Case
	// (rapid favours early elements: the list is ordered so that every version gets a solid share)
	c.LibVer = rapid.SampledFrom([]uint32{4, 2, 3, 1, 0, 4, 3, 2, 1, 0, 4, 5, 100, 4294967295}).Draw(rt, "libver")
	c.V6 = rapid.Bool().Draw(rt, "v6reg")

	// station configuration: 1-2 generations
	gens := rapid.SampledFrom([]uint32{0, 1, 2, 957, 1164, 65535, 4294967295}).Draw(rt, "gen0")
	conf := c01GenConf{Gen: gens, ExplicitFalse: rapid.Bool().Draw(rt, "explicitfalse"), EmptyStyle: rapid.SampledFrom([]string{"", "array"}).Draw(rt, "emptystyle")}
	if rapid.IntRange(0, 19).Draw(rt, "shipped") == 0 {
		conf.Groups = append([]c01ref.Group(nil), c01Shipped...)
	} else {
		conf.Groups = c01GenGroups(rt)
	}
	c.Conf = []c01GenConf{conf}
	if rapid.Bool().Draw(rt, "twogens") {
		other := c01GenConf{Gen: gens + 1, Groups: c01GenGroups(rt)}
		if rapid.Bool().Draw(rt, "otherfirst") {
			c.Conf = []c01GenConf{other, conf}
		} else {
			c.Conf = append(c.Conf, other)
		}
	}
	c.Gen = gens
	if rapid.IntRange(0, 11).Draw(rt, "unknowngen") == 0 {
		c.Gen = gens + 7
	}

	c.Transport = rapid.SampledFrom([]string{c01ref.Min, c01ref.Min, c01ref.Obfs4, c01ref.Prefix, c01ref.Prefix, c01ref.Prefix, c01ref.DTLS}).Draw(rt, "transport")
	if c.LibVer < 3 && c.Transport == c01ref.Prefix && rapid.IntRange(0, 3).Draw(rt, "oldprefix") != 0 {
		c.Transport = c01ref.Min // prefix never shipped in clients < 3: keep only a few (excluded class)
	}
	c.ParamMode = rapid.SampledFrom([]string{"set", "set", "set", "set", "default", "unset", "omitted"}).Draw(rt, "parammode")
	c.Randomize = rapid.IntRange(0, 2).Draw(rt, "randomize") != 0
	if c.Transport == c01ref.Prefix {
		if rapid.IntRange(0, 24).Draw(rt, "badprefix") == 0 {
			c.PrefixID = rapid.SampledFrom([]int32{10, 99, -2}).Draw(rt, "prefixid")
		} else {
			c.PrefixID = int32(rapid.IntRange(0, 9).Draw(rt, "prefixid"))
		}
		c.Flush = int32(rapid.IntRange(0, 2).Draw(rt, "flush"))
	}
	c.URLMode = rapid.SampledFrom([]string{"", "", "full", "tapdance"}).Draw(rt, "urlmode")
	c.Source = int32(rapid.SampledFrom([]pb.RegistrationSource{pb.RegistrationSource_API, pb.RegistrationSource_Detector, pb.RegistrationSource_DNS, pb.RegistrationSource_BidirectionalAPI}).Draw(rt, "source"))

	if c.LibVer == 4 && rapid.IntRange(0, 3).Draw(rt, "keygen") == 0 {
		// the client's own key generation (crypto/rand inside): record what it derived
		pub := vCurvePub(c01StationPriv())
		k, err := core.GenerateClientSharedKeys(pub)
		if err != nil {
			rt.Fatalf("harness problem: GenerateClientSharedKeys: %v", err)
		}
		c.Keygen = true
		c.Secret = append([]byte(nil), k.SharedSecret...)
		c.ClientSeed = append([]byte(nil), k.ConjureSeed...)
		s := make([]byte, 64)
		if _, err := io.ReadFull(k.Reader, s); err != nil {
			rt.Fatalf("harness problem: client reader: %v", err)
		}
		c.ClientStream = s
	} else if rapid.IntRange(0, 9).Draw(rt, "oddlen") == 0 {
		c.Secret = rapid.SliceOfN(rapid.Byte(), 0, 64).Draw(rt, "secret")
	} else {
		c.Secret = rapid.SliceOfN(rapid.Byte(), 32, 32).Draw(rt, "secret")
	}
	if c.Secret == nil {
		c.Secret = vh.Hex{}
	}
	return c
}

// c01StationPriv mirrors the fixed station key vNewEnv uses.
func c01StationPriv() [32]byte {
	var p [32]byte
	for i := range p {
		p[i] = byte(i*7 + 1)
	}
	p[0] &= 248
	p[31] &= 127
	p[31] |= 64
	return p
}

// ------------------------------------------------------------------------------------------------
// Sub-checks

const c01DeriveRule = "rapid-generated registrations: secret (32 bytes, sometimes 0-64, sometimes produced by the client's own GenerateClientSharedKeys) x libver {0,1,2,3,4,5,100,2^32-1} x station subnet file of 1-2 generations with 1-5 weighted groups of 1-4 v4/v6 CIDRs of any prefix length (equal/tied/unequal/extreme weights, per-group RandomizeDstPort) x family x transport {min, obfs4, prefix id 0-9, dtls} x params {set, library default, unset, omitted} x type-url form; station (NewRegistrationC2SWrapper) vs client library entry points vs independent reference. Non-trivial: the generation is known, selection succeeded on every side and the subnet configuration is not the shipped default. Distinct = distinct case."

var c01RequiredDerive = []string{
	"weight-tie", "one-address-subnet", "mixed-families", "unknown-generation", "family-missing",
	"libver0", "libver1", "libver2", "libver3", "libver4", "libver>4",
	"transport:min", "transport:obfs4", "transport:prefix", "transport:dtls",
	"port:random-granted", "port:refused-by-subnet", "port:refused-by-libver", "port:not-asked",
	"v4", "v6", "client-keygen", "multi-group",
	"emptygroup:hkdf", "emptygroup:hkdf:toml-empty-array", "emptygroup:legacy",
}

func TestVerif_C01_derive(t *testing.T) {
	rec := vh.NewRec("C01", "derive", c01DeriveRule)
	defer rec.Flush()
	env := c01NewEnv(t)
	if p := vh.ReplayFile(); p != "" {
		var c c01Case
		if _, _, err := vh.LoadReplay(p, &c); err != nil {
			t.Fatal(err)
		}
		o := c01Check(t, rec, env, &c)
		t.Logf("replay: station %s client %s reference %s", c01JSON(o.Station), c01JSON(o.Client), c01JSON(o.Ref))
		return
	}
	rec.Require(c01RequiredDerive...)
	rapid.Check(t, func(rt *rapid.T) {
		c := c01GenCase(rt)
		c01Check(rt, rec, env, &c)
	})
}

// ---- port range edges ------------------------------------------------------------------------------
//
// An off-by-one in a port range changes the result only for seeds whose first 16-bit candidate of the
// HKDF port stream sits at the end of the range (1 seed in 65536), which random secrets practically
// never hit. This sub-check enumerates hash-derived secrets, keeps those whose candidate (computed by
// the reference) is at / next to the end of either range, and runs the ordinary three-way check on them.

const c01PortEdgeRule = "enumeration of secrets sha256(\"C01 portedge <VERIF_SEED> <i>\"), i < N (quick 600k, thorough 24M), libver {4,3}; kept when the first 16-bit candidate of the HKDF port stream is the last valid / first rejected value of the 1024.. range (64510/64511) or of obfs4's 22.. range (65512/65513) or next to them, or 0 / 65535; each kept secret is checked three-way for min, obfs4, prefix and dtls with port randomisation asked and granted. Every case is non-trivial. Distinct = distinct case."

func TestVerif_C01_portedge(t *testing.T) {
	rec := vh.NewRec("C01", "portedge", c01PortEdgeRule)
	defer rec.Flush()
	env := c01NewEnv(t)
	if p := vh.ReplayFile(); p != "" {
		var c c01Case
		if _, _, err := vh.LoadReplay(p, &c); err != nil {
			t.Fatal(err)
		}
		o := c01Check(t, rec, env, &c)
		t.Logf("replay: station %s client %s reference %s", c01JSON(o.Station), c01JSON(o.Client), c01JSON(o.Ref))
		return
	}
	rec.Require("cand:last-valid:1024", "cand:first-rejected:1024", "cand:last-valid:22", "cand:first-rejected:22", "port:random-granted")
	n := vh.Pick(600_000, 24_000_000)
	conf := []c01GenConf{{Gen: 1164, Groups: []c01ref.Group{{Weight: 3, Randomize: true, Subnets: []string{"10.11.0.0/16", "2001:db8:1::/48"}}}}}
	for i := 0; i < n; i++ {
		if !vh.Mine(i) {
			continue
		}
		secret := sha256.Sum256([]byte(fmt.Sprintf("C01 portedge %d %d", vh.Seed(), i)))
		for _, lv := range []uint32{4, 3} {
			seed, _, err := c01ref.Keys(lv, secret[:])
			if err != nil {
				t.Fatalf("harness problem: %v", err)
			}
			var b [2]byte
			if _, err := io.ReadFull(c01ref.HKDF(seed, nil, []byte("phantom-select-dst-port")), b[:]); err != nil {
				t.Fatalf("harness problem: %v", err)
			}
			cand := int(b[0])<<8 | int(b[1])
			var class string
			switch {
			case cand == 64510:
				class = "cand:last-valid:1024"
			case cand == 64511:
				class = "cand:first-rejected:1024"
			case cand == 65512:
				class = "cand:last-valid:22"
			case cand == 65513:
				class = "cand:first-rejected:22"
			case cand == 0 || cand == 65535 || (cand >= 64507 && cand <= 64514) || (cand >= 65509 && cand <= 65516):
				class = "cand:near-edge"
			default:
				continue
			}
			rec.Class(class)
			for ti, tr := range []string{c01ref.Min, c01ref.Obfs4, c01ref.Prefix, c01ref.DTLS} {
				c := c01Case{Secret: append([]byte(nil), secret[:]...), LibVer: lv, Gen: 1164, Conf: conf, V6: (i+ti)%2 == 1,
					Transport: tr, ParamMode: "set", Randomize: true, PrefixID: int32(1 + i%9), Source: int32(pb.RegistrationSource_API)}
				c01Check(t, rec, env, &c)
			}
		}
	}
}

// ---- golden vectors ------------------------------------------------------------------------------

type c01Golden struct {
	Case    c01Case `json:"case"`
	Station c01Side `json:"station"`
	Client  c01Side `json:"client"`
}

type c01GoldenFile struct {
	Comment string      `json:"_comment"`
	Records []c01Golden `json:"records"`
}

func c01GoldenDir() string {
	d := os.Getenv("VERIF_DIR")
	if d == "" {
		d = "/verif"
	}
	return filepath.Join(d, "golden", "C01")
}

const c01GoldenRule = "replay of the committed golden vectors /verif/golden/C01/derive.json (inputs -> seed, phantom address, port, identifier as derived by station and client when the check was built; libver 0-4+, every transport, generated subnet configurations). Every record is re-derived by station, client and reference and must equal the recorded values. Non-trivial: record with a successful selection. Distinct = distinct record."

func TestVerif_C01_golden(t *testing.T) {
	rec := vh.NewRec("C01", "golden", c01GoldenRule)
	defer rec.Flush()
	rec.SetExhaustive(true)
	env := c01NewEnv(t)
	if p := vh.ReplayFile(); p != "" {
		var g c01Golden
		if _, _, err := vh.LoadReplay(p, &g); err != nil {
			t.Fatal(err)
		}
		c01CheckGolden(t, rec, env, &g)
		return
	}
	rec.Require("golden-record", "libver0", "libver1", "libver2", "libver3", "libver4")
	b, err := os.ReadFile(filepath.Join(c01GoldenDir(), "derive.json"))
	if err != nil {
		t.Fatalf("harness problem: golden vectors missing: %v", err)
	}
	var f c01GoldenFile
	if err := json.Unmarshal(b, &f); err != nil {
		t.Fatalf("harness problem: golden vectors unreadable: %v", err)
	}
	for i := range f.Records {
		if vh.Mine(i) {
			c01CheckGolden(t, rec, env, &f.Records[i])
		}
	}
}

func c01CheckGolden(t vh.Fataler, rec *vh.Rec, env *c01Env, g *c01Golden) {
	c := &g.Case
	out, herr := c01Eval(env, c)
	if herr != nil {
		t.Fatalf("harness problem: %v (golden case %s)", herr, c01JSON(c))
	}
	classes, _, viols := c01Judge(env, c, &out)
	classes = append(classes, "golden-record")
	rec.Case(g.Station.OK, vh.Digest(c), g, classes...)
	for _, v := range viols {
		rec.Violation(t, v.Key, g, "%s", v.Msg)
	}
	cmp := func(who string, want, got *c01Side) {
		era := "hkdf"
		if c.LibVer < 2 {
			era = "legacy"
		}
		if want.OK != got.OK {
			rec.Violation(t, "golden:"+era+":"+who+":outcome", g, "%s outcome changed: recorded ok=%v, now ok=%v (%s)", who, want.OK, got.OK, got.Err+got.Panic)
			return
		}
		if !want.OK {
			return
		}
		if !bytes.Equal(want.Seed, got.Seed) {
			rec.Violation(t, "golden:"+who+":seed", g, "%s seed changed: recorded %x, now %x", who, []byte(want.Seed), []byte(got.Seed))
		}
		if !bytes.Equal(want.IP, got.IP) {
			rec.Violation(t, "golden:"+era+":"+who+":ip", g, "%s phantom changed: recorded %s, now %s", who, c01IPStr(want.IP), c01IPStr(got.IP))
		}
		if want.Port != got.Port {
			rec.Violation(t, "golden:"+who+":port:"+c.Transport, g, "%s port changed: recorded %d, now %d", who, want.Port, got.Port)
		}
		if who == "station" && !bytes.Equal(want.Ident, got.Ident) {
			rec.Violation(t, "golden:"+who+":ident:"+c.Transport, g, "%s identifier changed: recorded %x, now %x", who, []byte(want.Ident), []byte(got.Ident))
		}
	}
	cmp("station", &g.Station, &out.Station)
	if c.applicable() != nil {
		cmp("client", &g.Client, &out.Client)
	}
}

// TestVerifGen_C01_golden (generator mode, not part of any tier): writes the golden vectors from the
// current tree. Run through /verif/golden/C01/regen.sh. Refuses to write a record on which station,
// client and reference disagree.
func TestVerifGen_C01_golden(t *testing.T) {
	dst := os.Getenv("VERIF_C01_GOLDEN_WRITE")
	if dst == "" {
		t.Skip("generator mode only (set VERIF_C01_GOLDEN_WRITE=<dir>)")
	}
	env := c01NewEnv(t)
	gen := rapid.Custom(c01GenCase)
	var f c01GoldenFile
	f.Comment = "C01 golden vectors: written by TestVerifGen_C01_golden (see regen.sh) from the tree at the time the check was built. Deterministic inputs (rapid examples 0..N-1 with crypto/rand-free cases only). Do not regenerate to make a failing check pass: a difference means deployed clients no longer rendezvous."
	n := 2600
	seen := map[[8]byte]bool{}
	for i := 0; len(f.Records) < n && i < 20*n; i++ {
		c := gen.Example(i)
		if c.Keygen { // crypto/rand inside: turn into a deterministic fixed-secret case
			h := sha256.Sum256([]byte(fmt.Sprintf("C01 golden secret %d", i)))
			c.Keygen, c.ClientSeed, c.ClientStream, c.Secret = false, nil, nil, h[:]
		}
		if i%2 == 1 && len(c.Secret) == 32 { // rapid's bytes are small-biased: half the records get hash-like secrets
			h := sha256.Sum256([]byte(fmt.Sprintf("C01 golden secret %d", i)))
			c.Secret = h[:]
		}
		// make sure the legacy paths are well represented
		if i%3 == 0 {
			c.LibVer = uint32(i/3) % 2
			if c.Transport == c01ref.Prefix {
				c.Transport = c01ref.Min
			}
		}
		d := vh.Digest(c)
		if seen[d] {
			continue
		}
		seen[d] = true
		out, herr := c01Eval(env, &c)
		if herr != nil {
			t.Fatalf("harness problem: %v", herr)
		}
		classes, _, viols := c01Judge(env, &c, &out)
		if len(viols) > 0 {
			t.Fatalf("refusing to write golden vectors: case %s violates the property: %+v", c01JSON(c), viols)
		}
		skip := false
		for _, cl := range classes {
			if strings.HasPrefix(cl, "excluded:") {
				skip = true
			}
		}
		if skip || (!out.Station.OK && i%4 != 0) { // keep only a quarter of the "both fail" records
			continue
		}
		f.Records = append(f.Records, c01Golden{Case: c, Station: out.Station, Client: out.Client})
	}
	sort.SliceStable(f.Records, func(i, j int) bool { return f.Records[i].Case.LibVer < f.Records[j].Case.LibVer })
	// one record per line keeps the file diff-able and small
	var sb bytes.Buffer
	cb, _ := json.Marshal(f.Comment)
	fmt.Fprintf(&sb, "{\"_comment\": %s,\n\"records\": [\n", cb)
	for i := range f.Records {
		b, err := json.Marshal(&f.Records[i])
		if err != nil {
			t.Fatal(err)
		}
		sb.Write(b)
		if i != len(f.Records)-1 {
			sb.WriteByte(',')
		}
		sb.WriteByte('\n')
	}
	sb.WriteString("]}\n")
	if err := os.MkdirAll(dst, 0o755); err != nil {
		t.Fatal(err)
	}
	if err := os.WriteFile(filepath.Join(dst, "derive.json"), sb.Bytes(), 0o644); err != nil {
		t.Fatal(err)
	}
	t.Logf("wrote %d records", len(f.Records))
}
