package lib

// C10, clear request: on its own and at the end of the station's real life cycle. This file sorts
// after the other C10 files on purpose: the life-cycle variants run HandleRegUpdates and cancel its
// context, and nothing else of C10 should run in the same process after that.

import (
	"context"
	"errors"
	"fmt"
	"strings"
	"sync"
	"testing"
	"time"

	"verif/harness/vh"
)

// TestVerif_C10_clear: the clear request on its own, with and without sessions in the detector.
func TestVerif_C10_clear(t *testing.T) {
	rec := vh.NewRec("C10", "clear", "Cleanup() on a station with 0..3 announced registrations; the published clear request must be one the modelled detector acts on (its session table ends up empty). Exhaustive over {no registration, one IPv4, one IPv6, dual-stack + UDP} with Cleanup() called directly, plus the real life cycle of the station (cmd/application/main.go): HandleRegUpdates running under a cancellable context {after three dual-stack registrations came in over the channel, idle}, context cancelled, workers awaited, THEN Cleanup(): a clear request the detector acts on must have reached the server by the time Cleanup() returns. Non-trivial: the detector holds at least one session when the request arrives.")
	defer rec.Flush()
	rec.Require("clear:with-sessions", "clear:empty-table", "clear:shutdown-with-sessions", "clear:shutdown-idle")
	rec.SetExhaustive(true)
	w := c10NewWorld(t, rec)
	base := c07Msg{HasSecret: true, Secret: vh.Hex(vSecret(777)), HasPayload: true, Source: 2, HasRegAddr: true, RegAddr: c07IP("198.51.100.7"),
		LibVer: 4, Gen: 957, Transport: 1, Params: c07Params{Kind: "generic"}, HasCovert: true, Covert: "192.0.2.10:443", V4: 1, V6: 1, Flags: 0}
	conf := c07Conf{EnableV4: true, EnableV6: true, Transports: append([]int(nil), c07TransportsAll...)}
	for i, variant := range []string{"dual+udp", "v4", "v6", "none", "shutdown:after-ingest", "shutdown:idle"} {
		if !vh.Mine(i) && vh.ReplayFile() == "" {
			continue
		}
		if strings.HasPrefix(variant, "shutdown:") {
			c10ShutdownClear(t, rec, w, c07Case{Msg: base, Conf: conf, Live: "notlive"}, variant)
			continue
		}
		c := c07Case{Msg: base, Conf: conf, Live: "notlive"}
		w.e.apply(c.Conf, c.Live)
		w.srv.Take()
		det := &c10Detector{Sessions: map[string]uint64{}}
		switch variant {
		case "none":
		case "v4":
			c.Msg.V6 = 0
		case "v6":
			c.Msg.V4 = 0
		case "dual+udp":
			c2 := c
			c2.Msg.Transport, c2.Msg.Params, c2.Msg.Secret = 3, c07Params{Kind: "dtls"}, vh.Hex(vSecret(778))
			if _, err := w.e.deliver(c07Build(c2.Msg)); err != nil {
				t.Fatalf("harness problem: %v", err)
			}
		}
		if variant != "none" {
			if _, err := w.e.deliver(c07Build(c.Msg)); err != nil {
				t.Fatalf("harness problem: %v", err)
			}
		}
		for _, p := range w.srv.Take() {
			m, v := w.decode(p)
			if v != nil {
				t.Fatalf("harness problem: %s", v.Msg)
			}
			det.Handle(m)
		}
		class := "clear:with-sessions"
		if variant == "none" {
			class = "clear:empty-table"
		} else if len(det.Sessions) == 0 {
			t.Fatalf("harness problem: no session in the detector model before the clear request (%s)", variant)
		}
		rec.Case(len(det.Sessions) > 0, vh.Digest(variant), map[string]any{"variant": variant, "sessions": len(det.Sessions)}, class)
		v, err := w.checkClear(det)
		if err != nil {
			t.Fatalf("harness problem: %v", err)
		}
		if v != nil {
			if herr := c10ClientHook.Err(); herr != nil {
				t.Fatalf("harness problem: %v", herr)
			}
			rec.Violation(t, v.Key, map[string]any{"variant": variant}, "%s", v.Msg)
		}
	}
}

// c10ShutdownClear runs the life cycle of cmd/application/main.go around the registration manager:
//
//	ctx, cancel := context.WithCancel(...); go regManager.HandleRegUpdates(ctx, regChan, wg)
//	... registrations arrive over regChan ...
//	cancel(); wg.Wait()            // main() on SIGINT / SIGTERM
//	regManager.Cleanup()           // deferred in main(), so it runs after all of the above
//
// and requires that a clear request the detector acts on has reached the server when Cleanup()
// returns. go-redis publishes synchronously: when Publish returns without an error the server has
// recorded the message (it records before it replies); when it returns a context error nothing was
// written (the context is checked before a connection is taken) - which is then the station's doing,
// the harness sets no deadline or cancellation on publishes; any other client error is a harness
// problem, never a verdict.
func c10ShutdownClear(t *testing.T, rec *vh.Rec, w *c10World, c c07Case, variant string) {
	e := w.e
	e.apply(c.Conf, c.Live)
	w.srv.Take()
	det := &c10Detector{Sessions: map[string]uint64{}}
	oldWorkers := e.rm.IngestWorkerCount
	e.rm.IngestWorkerCount = 40 // shallow buffer of 4
	defer func() { e.rm.IngestWorkerCount = oldWorkers }()

	ctx, cancel := context.WithCancel(context.Background())
	defer cancel()
	regChan := make(chan interface{}, 16)
	wg := new(sync.WaitGroup)
	wg.Add(1)
	go e.rm.HandleRegUpdates(ctx, regChan, wg)

	want := 0
	if variant == "shutdown:after-ingest" {
		for i := 0; i < 3; i++ {
			m := c.Msg
			m.Secret = vh.Hex(vSecret(8800 + i))
			regChan <- c07Build(m)
			want += 2 // IPv4 and IPv6 registration, one New each
			// one at a time, so that the shallow buffer never overflows (overflow = drop, by design)
			deadline := time.Now().Add(30 * time.Second)
			for w.srv.Count() < want && time.Now().Before(deadline) {
				time.Sleep(time.Millisecond)
			}
		}
	} else {
		time.Sleep(5 * time.Millisecond) // let the workers start; nothing depends on it
	}
	// shutdown, in main()'s order
	cancel()
	done := make(chan struct{})
	go func() { wg.Wait(); close(done) }()
	select {
	case <-done:
	case <-time.After(60 * time.Second):
		t.Fatalf("harness problem: HandleRegUpdates did not return within 60 s of cancellation")
	}
	if err := c07WaitBackground(); err != nil {
		t.Fatalf("harness problem: %v", err)
	}
	if errs := c10ClientHook.Since(0); len(errs) > 0 {
		t.Fatalf("harness problem: redis client errors while the station was running: %v", errs)
	}
	for _, p := range w.srv.Take() {
		m, v := w.decode(p)
		if v != nil {
			t.Fatalf("harness problem: %s", v.Msg)
		}
		det.Handle(m)
	}
	class := "clear:shutdown-idle"
	if variant == "shutdown:after-ingest" {
		class = "clear:shutdown-with-sessions"
		if len(det.Sessions) == 0 {
			t.Fatalf("harness problem: no announcement arrived while the station was running (%d expected)", want)
		}
	}
	sample := map[string]any{"variant": variant, "sessions": len(det.Sessions)}
	rec.Case(len(det.Sessions) > 0, vh.Digest(variant), sample, class)

	mark := c10ClientHook.Len()
	e.rm.Cleanup() // deferred in main(): runs after cancel() and wg.Wait()
	errs := c10ClientHook.Since(mark)
	aborted := len(errs) > 0
	for _, err := range errs {
		if !errors.Is(err, context.Canceled) && !errors.Is(err, context.DeadlineExceeded) {
			t.Fatalf("harness problem: redis client error during Cleanup(): %v", errs)
		}
	}
	if aborted {
		// Publish gave up on its context. Nothing should have been written; make sure with round
		// trips on the pooled connections (a PING is answered after anything queued before it on
		// that connection) and a short grace period.
		for i := 0; i < 8; i++ {
			if err := client.Ping(context.Background()).Err(); err != nil {
				t.Fatalf("harness problem: marker PING failed: %v", err)
			}
		}
		deadline := time.Now().Add(2 * time.Second)
		for w.srv.Count() == 0 && time.Now().Before(deadline) {
			time.Sleep(5 * time.Millisecond)
		}
		c10ClientHook.Forget(mark)
	}
	pubs := w.srv.Take()
	if len(pubs) == 0 {
		why := "Cleanup() returned without publishing anything"
		if aborted {
			why = fmt.Sprintf("the publish was abandoned by the station itself (%v): it was made under a context that is already done when the deferred Cleanup() runs, and go-redis checks the context before it writes", errs[0])
		}
		rec.Violation(t, "clear:not-published", sample, "shutdown in the order of cmd/application/main.go (cancel the station context, wait for HandleRegUpdates, then the deferred Cleanup()): no clear request reached the detector channel; %s. The detector keeps all %d sessions of this run.", why, len(det.Sessions))
		return
	}
	v, err := w.judgeClear(det, pubs)
	if err != nil {
		t.Fatalf("harness problem: %v", err)
	}
	if v != nil {
		rec.Violation(t, v.Key, sample, "(%s) %s", variant, v.Msg)
	}
}
