package lib

// Shared by C07 (admission decision table) and C10 (detector announcements).
//
//   * c07Case      – one C2SWrapper message described field by field (every field present / absent /
//                    invalid), one station configuration, one scripted liveness verdict
//   * c07Gen       – the rapid generator over that grammar
//   * c07Build     – turns the message description into the marshalled bytes a registrar would send
//   * c07Env       – a RegistrationManager (real min / obfs4 / prefix transports plus the real DTLS
//                    transport with a stubbed Connect), scripted liveness tester, announcement
//                    recorder and an httptest stand-in for the peer-station API
//   * c07Model     – the reference admission predicate, transcribed from the statement of C07
//
// This file is injected with `go test -overlay`; it never exists in /repo. Everything is prefixed
// c07 so it cannot collide with other checks' files.

import (
	"bytes"
	"context"
	"errors"
	"fmt"
	"io"
	golog "log"
	"net"
	"net/http"
	"net/http/httptest"
	"os"
	"path/filepath"
	"runtime"
	"strconv"
	"sync"
	"testing"
	"time"

	"github.com/refraction-networking/conjure/pkg/core"
	"github.com/refraction-networking/conjure/pkg/phantoms"
	"github.com/refraction-networking/conjure/pkg/station/liveness"
	"github.com/refraction-networking/conjure/pkg/station/log"
	"github.com/refraction-networking/conjure/pkg/transports"
	"github.com/refraction-networking/conjure/pkg/transports/connecting/dtls"
	"github.com/refraction-networking/conjure/pkg/transports/wrapping/min"
	"github.com/refraction-networking/conjure/pkg/transports/wrapping/obfs4"
	"github.com/refraction-networking/conjure/pkg/transports/wrapping/prefix"
	pb "github.com/refraction-networking/conjure/proto"
	"google.golang.org/protobuf/proto"
	"google.golang.org/protobuf/types/known/anypb"
	"pgregory.net/rapid"
	"verif/harness/vh"
)

// Every weighted group holds both families, so that phantom selection succeeds for every seed,
// client library version and family (a group without IPv6 networks makes IPv6 selection fail for
// the seeds that land in it, which is C14's business, not an admission condition).
const c07Subnets = `
[Networks]
    [Networks.1]
        Generation = 1
        [[Networks.1.WeightedSubnets]]
            Weight = 9
            Subnets = ["192.122.190.0/24", "2001:48a8:687f:1::/64"]
    [Networks.957]
        Generation = 957
        [[Networks.957.WeightedSubnets]]
            Weight = 9
            RandomizeDstPort = true
            Subnets = ["192.122.190.0/24", "2001:48a8:687f:1::/64"]
        [[Networks.957.WeightedSubnets]]
            Weight = 3
            RandomizeDstPort = false
            Subnets = ["141.219.0.0/16", "35.8.0.0/16", "2001:48a8:687f:2::/64"]
`

var c07KnownGens = map[int64]bool{1: true, 957: true}

// c07MinSecret is the shortest shared secret that makes a registration complete (8 bytes: the
// registrars' RegIDLen/2).
const c07MinSecret = 8

// ------------------------------------------------------------------------------------------------
// Case description

type c07Params struct {
	Kind      string `json:"kind"` // absent | generic | prefix | dtls | garbage
	PrefixID  int32  `json:"prefix_id,omitempty"`
	Randomize bool   `json:"randomize,omitempty"`
	Unordered bool   `json:"unordered,omitempty"`
	NoURL     bool   `json:"no_url,omitempty"` // type URL stripped, as clients of the DNS registrar do
}

type c07RR struct {
	HasV4   bool       `json:"has_v4,omitempty"`
	V4      uint32     `json:"v4,omitempty"`
	HasV6   bool       `json:"has_v6,omitempty"`
	V6      vh.Hex     `json:"v6,omitempty"`
	HasPort bool       `json:"has_port,omitempty"`
	Port    uint32     `json:"port,omitempty"`
	Params  *c07Params `json:"params,omitempty"`
}

type c07Msg struct {
	HasSecret    bool   `json:"has_secret"`
	Secret       vh.Hex `json:"secret"`
	HasPayload   bool   `json:"has_payload"`
	Source       int    `json:"source"` // -1 absent, otherwise the enum number (99 = not in the enum)
	HasRegAddr   bool   `json:"has_reg_addr"`
	RegAddr      vh.Hex `json:"reg_addr"`
	HasDecoyAddr bool   `json:"has_decoy_addr,omitempty"`
	DecoyAddr    vh.Hex `json:"decoy_addr,omitempty"`

	// registration payload (ClientToStation)
	LibVer           int       `json:"libver"`    // -1 absent
	Gen              int64     `json:"gen"`       // -1 absent
	Transport        int       `json:"transport"` // -1 absent, otherwise the enum number (77 = not in the enum)
	Params           c07Params `json:"params"`
	HasCovert        bool      `json:"has_covert"`
	Covert           string    `json:"covert"`
	V4               int       `json:"v4"`    // -1 absent, 0 false, 1 true
	V6               int       `json:"v6"`    // -1 absent, 0 false, 1 true
	Flags            int       `json:"flags"` // -1 absent, 0 present and empty, 1 prescanned=false, 2 prescanned=true; +4: another flag set too
	DisableOverrides bool      `json:"disable_overrides,omitempty"`
	Mask             string    `json:"mask,omitempty"`
	Padding          int       `json:"padding,omitempty"`

	RR *c07RR `json:"rr,omitempty"`
}

type c07Conf struct {
	EnableV4         bool     `json:"enable_v4"`
	EnableV6         bool     `json:"enable_v6"`
	Transports       []int    `json:"transports"` // transports enabled on the station (enum numbers)
	PhantomBlocklist []string `json:"phantom_blocklist,omitempty"`
	CovertBlocklist  []string `json:"covert_blocklist,omitempty"`
	CovertAllowlist  []string `json:"covert_allowlist,omitempty"`
	Share            bool     `json:"share"`
	// how the peer-station API stand-in treats a request: "" / "200", "500", "read-then-close"
	// (takes the request, then drops the connection), "close-at-once" (drops the connection without
	// reading the body), "garbage" (takes the request, answers something that is not HTTP)
	Peer string `json:"peer,omitempty"`
}

type c07Case struct {
	Msg    c07Msg  `json:"msg"`
	Conf   c07Conf `json:"conf"`
	Live   string  `json:"live"`   // notlive | nil-notlive | cached-notlive | live | cached-live | live-othererr
	Repeat bool    `json:"repeat"` // deliver the same message a second time
	// Worker: the message goes through a real ingest worker (startIngestThread) instead of the
	// harness calling parseRegMessage + ingestRegistration itself (added after a round-8 seed: the
	// per-message loop over the registrations of a message belongs to the worker)
	Worker bool `json:"worker,omitempty"`
}

func (m c07Msg) prescanned() bool { return m.Flags >= 0 && m.Flags&3 == 2 }

func c07Clone(c c07Case) c07Case {
	d := c
	d.Msg.Secret = append(vh.Hex(nil), c.Msg.Secret...)
	d.Msg.RegAddr = append(vh.Hex(nil), c.Msg.RegAddr...)
	d.Msg.DecoyAddr = append(vh.Hex(nil), c.Msg.DecoyAddr...)
	if c.Msg.RR != nil {
		rr := *c.Msg.RR
		rr.V6 = append(vh.Hex(nil), c.Msg.RR.V6...)
		if rr.Params != nil {
			p := *rr.Params
			rr.Params = &p
		}
		d.Msg.RR = &rr
	}
	d.Conf.Transports = append([]int(nil), c.Conf.Transports...)
	d.Conf.PhantomBlocklist = append([]string(nil), c.Conf.PhantomBlocklist...)
	d.Conf.CovertBlocklist = append([]string(nil), c.Conf.CovertBlocklist...)
	d.Conf.CovertAllowlist = append([]string(nil), c.Conf.CovertAllowlist...)
	return d
}

// ------------------------------------------------------------------------------------------------
// Generator

// c07Mode biases the generator: c07Wild spreads over the whole grammar, c07Tidy makes every field
// probably fine (so that a good share of the cases is admitted and can be used as the base of a
// single-condition-falsified twin), c07Admit is what C10 uses (nearly everything fine).
type c07Mode int

const (
	c07Wild c07Mode = iota
	c07Tidy
	c07Admit
)

func (m c07Mode) pGood() int {
	switch m {
	case c07Admit:
		return 97
	case c07Tidy:
		return 93
	}
	return 62
}

func c07Pick[T any](rt *rapid.T, label string, p int, good []T, bad []T) T {
	if len(bad) == 0 || rapid.IntRange(0, 99).Draw(rt, label+"?") < p {
		return rapid.SampledFrom(good).Draw(rt, label)
	}
	return rapid.SampledFrom(bad).Draw(rt, label+"!")
}

func c07IP(s string) vh.Hex {
	ip := net.ParseIP(s)
	if ip == nil {
		panic("c07IP: " + s)
	}
	if v4 := ip.To4(); v4 != nil {
		return vh.Hex(v4)
	}
	return vh.Hex(ip)
}

func c07Mapped(s string) vh.Hex { return vh.Hex(net.ParseIP(s).To16()) }

var (
	c07TransportsAll = []int{int(pb.TransportType_Min), int(pb.TransportType_Obfs4), int(pb.TransportType_DTLS), int(pb.TransportType_Prefix)}

	c07GoodCoverts = []string{"192.0.2.10:443", "198.51.100.7:80", "[2001:db8::10]:443", "10.1.2.3:22", "127.0.0.1:8080",
		"[::1]:80", "[::ffff:10.1.2.3]:443", "203.0.113.5:0", "203.0.113.5:65535", "[192.0.2.10]:8443"}
	// malformed covert strings that can never reach name resolution (no host that is not an IP
	// literal is ever followed by a valid port)
	c07BadCoverts = []string{"", "192.0.2.10", "2001:db8::10", "192.0.2.10:65536", "192.0.2.10:", "192.0.2.10:http",
		"192.0.2.10:80:90", "[192.0.2.10:80", "192.0.2.10:-1", "[2001:db8::10]"}

	c07CovertBlocklists = [][]string{{"10.0.0.0/8", "127.0.0.0/8", "::1/128"}, {"192.0.2.0/24"}, {"2001:db8::/32", "203.0.113.0/24"}}
	c07CovertAllowlists = [][]string{{"192.0.2.0/24"}, {"198.51.100.0/24", "2001:db8::/32"}, {"10.0.0.0/8", "192.0.2.0/24"}}

	c07OvrV4 = []uint32{0xC07ABE05, 0xC07ABEC8, 0x8DDB0304, 0x2308090A, 0xCB00714D} // 192.122.190.5, .200, 141.219.3.4, 35.8.9.10, 203.0.113.77
	c07OvrV6 = []string{"2001:48a8:687f:1::5", "2001:48a8:687f:1:8000::9", "2001:48a8:687f:2::7", "2001:db8:ffff::1"}

	c07RegV4 = []string{"198.51.100.7", "10.9.8.7", "203.0.113.200"}
	c07RegV6 = []string{"2001:db8:1::7", "2601::123:abcd", "fe80::1"}
)

func c07GenParams(rt *rapid.T, label string, transport int, p int) c07Params {
	right := "generic"
	switch pb.TransportType(transport) {
	case pb.TransportType_Prefix:
		right = "prefix"
	case pb.TransportType_DTLS:
		right = "dtls"
	}
	kind := c07Pick(rt, label+"kind", p, []string{right}, []string{"absent", "generic", "prefix", "dtls", "garbage"})
	out := c07Params{Kind: kind}
	if kind == "absent" {
		return out
	}
	out.Randomize = rapid.Bool().Draw(rt, label+"rand")
	out.NoURL = rapid.IntRange(0, 3).Draw(rt, label+"nourl") == 0
	switch kind {
	case "prefix":
		out.PrefixID = c07Pick(rt, label+"pid", p, []int32{0, 1, 2, 3, 4, 5, 6, 7, 8, 9}, []int32{-1, 10, 99})
	case "dtls":
		out.Unordered = rapid.Bool().Draw(rt, label+"unord")
	}
	return out
}

// chains of nested networks over the phantom subnets: same base address with different prefix
// lengths, and sub-ranges; a blocklist is a LIST and its verdict may not depend on the order or on
// overlaps between its entries.
var c07BlockChains = [][]string{
	{"192.122.190.0/24", "192.122.190.0/25", "192.122.190.0/26", "192.122.190.0/28", "192.122.190.0/30"},
	{"192.122.0.0/16", "192.122.190.0/24", "192.122.190.128/25", "192.122.190.192/26"},
	{"141.219.0.0/16", "141.219.0.0/20", "141.219.0.0/28", "141.219.128.0/17"},
	{"35.8.0.0/16", "35.8.0.0/24", "35.0.0.0/8"},
	{"2001:48a8:687f:1::/64", "2001:48a8:687f:1::/65", "2001:48a8:687f:1::/96", "2001:48a8:687f:1::/126"},
	{"2001:48a8:687f::/48", "2001:48a8:687f:1::/64", "2001:48a8:687f:1:8000::/65", "2001:48a8:687f:1:c000::/66"},
	{"2001:48a8:687f:2::/64", "2001:48a8:687f:2::/80", "2001:48a8:687f:2::/112"},
}

// c07GenPhantomBlocklist draws 1-4 entries: usually 2-3 members of one chain in a drawn order (so
// narrower-before-wider and wider-before-narrower both occur), optionally followed or preceded by
// entries of other chains / unrelated networks.
func c07GenPhantomBlocklist(rt *rapid.T) []string {
	var out []string
	if rapid.IntRange(0, 3).Draw(rt, "pbl.chain?") != 0 {
		chain := rapid.SampledFrom(c07BlockChains).Draw(rt, "pbl.chain")
		perm := rapid.Permutation(chain).Draw(rt, "pbl.order")
		out = append(out, perm[:rapid.IntRange(1, 3).Draw(rt, "pbl.n")]...)
	}
	var pool []string
	for _, ch := range c07BlockChains {
		pool = append(pool, ch...)
	}
	pool = append(pool, "203.0.113.0/24", "2001:db8:ffff::/48")
	for len(out) < 4 && (len(out) == 0 || rapid.IntRange(0, 2).Draw(rt, "pbl.more?") == 0) {
		e := rapid.SampledFrom(pool).Draw(rt, "pbl.extra")
		if rapid.Bool().Draw(rt, "pbl.front") {
			out = append([]string{e}, out...)
		} else {
			out = append(out, e)
		}
	}
	return out
}

func c07Gen(rt *rapid.T, mode c07Mode) c07Case {
	if mode == c07Wild && rapid.IntRange(0, 9).Draw(rt, "tidy") < 6 {
		mode = c07Tidy
	}
	p := mode.pGood()
	var c c07Case
	m := &c.Msg

	// --- wrapper
	// shared secret: mostly the 32 bytes every real registrar sends, otherwise absent or any length
	// in 0..40 with weight on the boundary regions 0..9 (the completeness threshold is 8 bytes)
	// and 31..33
	switch c07Pick(rt, "secret", p, []string{"32"}, []string{"absent", "len", "len", "len"}) {
	case "absent":
	case "32":
		m.HasSecret, m.Secret = true, vh.Hex(vSecret(rapid.IntRange(0, 1<<20).Draw(rt, "secretN")))
	default:
		var n int
		switch rapid.SampledFrom([]string{"low", "low", "low", "high", "any"}).Draw(rt, "secretRegion") {
		case "low":
			n = rapid.SampledFrom([]int{7, 8, 4, 5, 6, 0, 1, 2, 3, 9}).Draw(rt, "secretLen")
		case "high":
			n = rapid.SampledFrom([]int{31, 33, 32}).Draw(rt, "secretLen")
		default:
			n = rapid.IntRange(0, 40).Draw(rt, "secretLen")
		}
		sec := vSecret(rapid.IntRange(0, 1<<20).Draw(rt, "secretN"))
		sec = append(sec, sec...)
		m.HasSecret, m.Secret = true, vh.Hex(append([]byte{}, sec[:n]...))
	}
	m.HasPayload = c07Pick(rt, "payload", p+4, []bool{true}, []bool{false})
	m.Source = c07Pick(rt, "source", p, []int{2, 1, 1, 3, 4, 5, 6}, []int{-1, 0, 99})
	switch c07Pick(rt, "regaddr", p, []string{"v4", "v4", "mapped", "v6", "absent"}, []string{"len0", "len3", "len5", "len17"}) {
	case "v4":
		m.HasRegAddr, m.RegAddr = true, c07IP(rapid.SampledFrom(c07RegV4).Draw(rt, "regv4"))
	case "mapped":
		m.HasRegAddr, m.RegAddr = true, c07Mapped(rapid.SampledFrom(c07RegV4).Draw(rt, "regv4m"))
	case "v6":
		m.HasRegAddr, m.RegAddr = true, c07IP(rapid.SampledFrom(c07RegV6).Draw(rt, "regv6"))
	case "absent":
	case "len0":
		m.HasRegAddr, m.RegAddr = true, vh.Hex{}
	case "len3":
		m.HasRegAddr, m.RegAddr = true, vh.Hex{10, 9, 8}
	case "len5":
		m.HasRegAddr, m.RegAddr = true, vh.Hex{10, 9, 8, 7, 6}
	case "len17":
		m.HasRegAddr, m.RegAddr = true, append(c07IP("2001:db8:1::7"), 1)
	}
	switch rapid.IntRange(0, 5).Draw(rt, "decoyaddr") {
	case 0:
		m.HasDecoyAddr, m.DecoyAddr = true, c07IP("192.0.2.99")
	case 1:
		m.HasDecoyAddr, m.DecoyAddr = true, c07IP("2001:db8:dec0::1")
	case 2:
		m.HasDecoyAddr, m.DecoyAddr = true, vh.Hex{1, 2, 3}
	}

	// --- payload
	m.LibVer = c07Pick(rt, "libver", p, []int{4, 3}, []int{-1, 0, 1, 2, 5, 9})
	m.Gen = c07Pick(rt, "gen", p, []int64{957, 1}, []int64{-1, 0, 2, 958, 4294967295})
	m.Transport = c07Pick(rt, "transport", p, []int{1, 4, 2, 3}, []int{-1, 0, 5, 6, 99, 77})
	m.Params = c07GenParams(rt, "params.", m.Transport, p)
	switch {
	case rapid.IntRange(0, 99).Draw(rt, "covert?") < p:
		m.HasCovert, m.Covert = true, rapid.SampledFrom(c07GoodCoverts).Draw(rt, "covert")
	case rapid.IntRange(0, 5).Draw(rt, "covertabsent") == 0:
	default:
		m.HasCovert, m.Covert = true, rapid.SampledFrom(c07BadCoverts).Draw(rt, "covert!")
	}
	switch c07Pick(rt, "families", p, []string{"both", "v4", "v6"}, []string{"none", "absent", "v4-absent", "absent-v6"}) {
	case "both":
		m.V4, m.V6 = 1, 1
	case "v4":
		m.V4, m.V6 = 1, 0
	case "v6":
		m.V4, m.V6 = 0, 1
	case "none":
		m.V4, m.V6 = 0, 0
	case "absent":
		m.V4, m.V6 = -1, -1
	case "v4-absent":
		m.V4, m.V6 = 1, -1
	case "absent-v6":
		m.V4, m.V6 = -1, 1
	}
	m.Flags = rapid.SampledFrom([]int{0, 0, 1, 2, -1, 4, 5, 6}).Draw(rt, "flags")
	if m.Source == int(pb.RegistrationSource_DetectorPrescan) && rapid.IntRange(0, 9).Draw(rt, "prescanflag") < 8 {
		m.Flags = 2 // what a sharing station sends
	}
	m.DisableOverrides = rapid.IntRange(0, 4).Draw(rt, "disovr") == 0
	if rapid.IntRange(0, 4).Draw(rt, "mask?") == 0 {
		m.Mask = "decoy.example.test"
	}
	if rapid.IntRange(0, 4).Draw(rt, "pad?") == 0 {
		m.Padding = rapid.IntRange(1, 40).Draw(rt, "pad")
	}

	// --- registrar response
	if rapid.IntRange(0, 99).Draw(rt, "rr?") < 35 {
		rr := &c07RR{}
		if rapid.Bool().Draw(rt, "rr.v4?") {
			rr.HasV4 = true
			rr.V4 = c07Pick(rt, "rr.v4", p, c07OvrV4, []uint32{0})
		}
		if rapid.Bool().Draw(rt, "rr.v6?") {
			rr.HasV6 = true
			switch c07Pick(rt, "rr.v6kind", p, []string{"v6"}, []string{"len4", "len5", "empty", "mapped"}) {
			case "v6":
				rr.V6 = c07IP(rapid.SampledFrom(c07OvrV6).Draw(rt, "rr.v6"))
			case "len4":
				rr.V6 = vh.Hex{192, 122, 190, 77}
			case "len5":
				rr.V6 = vh.Hex{1, 2, 3, 4, 5}
			case "empty":
				rr.V6 = vh.Hex{}
			case "mapped":
				rr.V6 = c07Mapped("192.122.190.78")
			}
		}
		if rapid.Bool().Draw(rt, "rr.port?") {
			rr.HasPort = true
			rr.Port = c07Pick(rt, "rr.port", p, []uint32{443, 80, 1024, 65535, 53, 8443}, []uint32{0, 65536, 70000})
		}
		if rapid.IntRange(0, 3).Draw(rt, "rr.params?") == 0 {
			pp := c07GenParams(rt, "rr.params.", m.Transport, p)
			if pp.Kind != "absent" {
				rr.Params = &pp
			}
		}
		m.RR = rr
	}

	// --- station configuration
	cf := &c.Conf
	switch c07Pick(rt, "enable", p, []string{"both"}, []string{"v4", "v6", "none"}) {
	case "both":
		cf.EnableV4, cf.EnableV6 = true, true
	case "v4":
		cf.EnableV4 = true
	case "v6":
		cf.EnableV6 = true
	}
	for _, t := range c07TransportsAll {
		if rapid.IntRange(0, 99).Draw(rt, "tp"+strconv.Itoa(t)) < p+3 {
			cf.Transports = append(cf.Transports, t)
		}
	}
	if rapid.IntRange(0, 99).Draw(rt, "pbl?") >= p-10 {
		cf.PhantomBlocklist = c07GenPhantomBlocklist(rt)
	}
	if rapid.IntRange(0, 99).Draw(rt, "cbl?") >= p-10 {
		cf.CovertBlocklist = rapid.SampledFrom(c07CovertBlocklists).Draw(rt, "cbl")
	}
	if rapid.IntRange(0, 99).Draw(rt, "cal?") >= p-5 {
		cf.CovertAllowlist = rapid.SampledFrom(c07CovertAllowlists).Draw(rt, "cal")
	}
	cf.Share = rapid.IntRange(0, 2).Draw(rt, "share") != 0
	if cf.Share {
		cf.Peer = rapid.SampledFrom([]string{"", "", "500", "read-then-close", "close-at-once", "garbage"}).Draw(rt, "peer")
	}

	c.Live = c07Pick(rt, "live", p, []string{"notlive", "nil-notlive", "cached-notlive"}, []string{"live", "cached-live", "live-othererr"})
	c.Repeat = rapid.IntRange(0, 3).Draw(rt, "repeat") == 0
	c.Worker = rapid.IntRange(0, 1).Draw(rt, "worker") == 1
	return c
}

// ------------------------------------------------------------------------------------------------
// Message builder

func c07AnyOf(p c07Params) *anypb.Any {
	var m proto.Message
	switch p.Kind {
	case "absent":
		return nil
	case "generic":
		m = &pb.GenericTransportParams{RandomizeDstPort: proto.Bool(p.Randomize)}
	case "prefix":
		m = &pb.PrefixTransportParams{PrefixId: proto.Int32(p.PrefixID), RandomizeDstPort: proto.Bool(p.Randomize), CustomFlushPolicy: proto.Int32(0)}
	case "dtls":
		m = &pb.DTLSTransportParams{
			SrcAddr4:         &pb.Addr{IP: []byte{198, 51, 100, 7}, Port: proto.Uint32(40001)},
			SrcAddr6:         &pb.Addr{IP: net.ParseIP("2001:db8:1::7"), Port: proto.Uint32(40002)},
			RandomizeDstPort: proto.Bool(p.Randomize),
			Unordered:        proto.Bool(p.Unordered),
		}
	case "garbage":
		a := &anypb.Any{TypeUrl: "type.googleapis.com/proto.GenericTransportParams", Value: []byte{0xff, 0xff, 0xff, 0x07, 0x80}}
		if p.NoURL {
			a.TypeUrl = ""
		}
		return a
	default:
		panic("c07AnyOf: kind " + p.Kind)
	}
	a, err := anypb.New(m)
	if err != nil {
		panic(err)
	}
	if p.NoURL {
		a.TypeUrl = ""
	}
	return a
}

func c07TriBool(v int) *bool {
	switch v {
	case 0:
		return proto.Bool(false)
	case 1:
		return proto.Bool(true)
	}
	return nil
}

// c07Payload builds the ClientToStation part of the message (nil when absent).
func c07Payload(m c07Msg) *pb.ClientToStation {
	if !m.HasPayload {
		return nil
	}
	c2s := &pb.ClientToStation{}
	if m.LibVer >= 0 {
		c2s.ClientLibVersion = proto.Uint32(uint32(m.LibVer))
	}
	if m.Gen >= 0 {
		c2s.DecoyListGeneration = proto.Uint32(uint32(m.Gen))
	}
	if m.Transport >= 0 {
		c2s.Transport = pb.TransportType(m.Transport).Enum()
	}
	c2s.TransportParams = c07AnyOf(m.Params)
	if m.HasCovert {
		c2s.CovertAddress = proto.String(m.Covert)
	}
	c2s.V4Support = c07TriBool(m.V4)
	c2s.V6Support = c07TriBool(m.V6)
	if m.Flags >= 0 {
		f := &pb.RegistrationFlags{}
		switch m.Flags & 3 {
		case 1:
			f.Prescanned = proto.Bool(false)
		case 2:
			f.Prescanned = proto.Bool(true)
		}
		if m.Flags&4 != 0 {
			f.ProxyHeader = proto.Bool(true)
			f.UploadOnly = proto.Bool(false)
		}
		c2s.Flags = f
	}
	if m.DisableOverrides {
		c2s.DisableRegistrarOverrides = proto.Bool(true)
	}
	if m.Mask != "" {
		c2s.MaskedDecoyServerName = proto.String(m.Mask)
	}
	if m.Padding > 0 {
		c2s.Padding = bytes.Repeat([]byte{0xA5}, m.Padding)
	}
	return c2s
}

// c07Wrapper builds the C2SWrapper a registrar would publish for this description.
func c07Wrapper(m c07Msg) *pb.C2SWrapper {
	w := &pb.C2SWrapper{RegistrationPayload: c07Payload(m)}
	if m.HasSecret {
		w.SharedSecret = append([]byte{}, m.Secret...)
	}
	if m.Source >= 0 {
		w.RegistrationSource = pb.RegistrationSource(m.Source).Enum()
	}
	if m.HasRegAddr {
		w.RegistrationAddress = append([]byte{}, m.RegAddr...)
	}
	if m.HasDecoyAddr {
		w.DecoyAddress = append([]byte{}, m.DecoyAddr...)
	}
	if m.RR != nil {
		rr := &pb.RegistrationResponse{}
		if m.RR.HasV4 {
			rr.Ipv4Addr = proto.Uint32(m.RR.V4)
		}
		if m.RR.HasV6 {
			rr.Ipv6Addr = append([]byte{}, m.RR.V6...)
		}
		if m.RR.HasPort {
			rr.DstPort = proto.Uint32(m.RR.Port)
		}
		if m.RR.Params != nil {
			rr.TransportParams = c07AnyOf(*m.RR.Params)
		}
		w.RegistrationResponse = rr
	}
	return w
}

func c07Build(m c07Msg) []byte {
	b, err := proto.Marshal(c07Wrapper(m))
	if err != nil {
		panic(err)
	}
	return b
}

// ------------------------------------------------------------------------------------------------
// Environment

// c07UDP is the real DTLS transport (identifier, port selection, parameter parsing, UDP proto) with
// the connecting step stubbed out: the real constructor binds the fixed UDP port 41245 and needs a
// tun device; Connect here fails at once, which the station treats as a failed dial-out.
type c07UDP struct{ dtls.Transport }

func (c07UDP) Connect(context.Context, transports.Registration) (net.Conn, error) {
	return nil, errors.New("c07: no dial-out in the harness")
}

type c07NopStats struct{}

func (c07NopStats) AddCreatedConnecting(uint, string, string)               {}
func (c07NopStats) AddCreatedToSuccessfulConnecting(uint, string, string)   {}
func (c07NopStats) AddCreatedToTimeoutConnecting(uint, string, string)      {}
func (c07NopStats) AddSuccessfulToDiscardedConnecting(uint, string, string) {}
func (c07NopStats) AddOtherFailConnecting(uint, string, string)             {}

type c07Env struct {
	*vEnv
	all    map[pb.TransportType]Transport
	srv    *httptest.Server
	shMu   sync.Mutex
	shares [][]byte
	peer   string
	// realDetector leaves the registry's own sendToDetector hooks in place (C10)
	realDetector bool
	// known, if set, replaces c07KnownGens: the generations of the subnet file that was loaded last
	// (reload histories); modelSelector, if set, is the harness's own selector for that file, so
	// that the expected phantom does not depend on what the station made of a reload
	known         map[int64]bool
	modelSelector *phantoms.PhantomIPSelector
	// prodRegistry is the registry NewRegistrationManager built (c07NewEnvProd)
	prodRegistry *RegisteredDecoys
	// viaWorker makes deliver hand the message to a real ingest worker (started on first use)
	viaWorker bool
	wch       chan interface{}
	tb        testing.TB
}

func c07NewEnv(tb testing.TB, realDetector bool) *c07Env {
	tb.Helper()
	e := &c07Env{vEnv: vNewEnv(tb, &RegConfig{EnableIPv4: true, EnableIPv6: true}, c07Subnets), realDetector: realDetector, tb: tb}
	e.all = map[pb.TransportType]Transport{}
	for k, v := range e.rm.registeredDecoys.transports {
		e.all[k] = v
	}
	e.all[pb.TransportType_DTLS] = c07UDP{}
	e.rm.connectingStats = c07NopStats{}
	e.srv = httptest.NewServer(http.HandlerFunc(e.peerHandler))
	tb.Cleanup(e.srv.Close)
	return e
}

// c07NewEnvProd builds the manager the way the station binary does: the station configuration is
// written as TOML (it may carry keys the tree under test does not know), parsed with ParseConfig and
// handed to NewRegistrationManager. The registry that NewRegistrationManager built is kept aside:
// apply() takes the lifetimes the sweeper uses and (for realDetector) the announcement closures
// from it, so whatever the production path configured stays in force for every case.
func c07NewEnvProd(tb testing.TB, stationToml string, realDetector bool) *c07Env {
	tb.Helper()
	dir := tb.TempDir()
	cfgPath := filepath.Join(dir, "station_config.toml")
	if err := os.WriteFile(cfgPath, []byte(stationToml), 0o644); err != nil {
		tb.Fatalf("harness problem: %v", err)
	}
	vSubnetMu.Lock()
	vWriteSubnets(dir, c07Subnets)
	os.Setenv("CJ_STATION_CONFIG", cfgPath)
	conf, err := ParseConfig()
	var rm *RegistrationManager
	if err == nil {
		rm = NewRegistrationManager(conf.RegConfig)
	}
	vSubnetMu.Unlock()
	if err != nil || rm == nil {
		tb.Fatalf("harness problem: production path did not yield a manager (ParseConfig: %v) for configuration:\n%s", err, stationToml)
	}
	ve := &vEnv{rm: rm, live: &vTester{}, logs: &vSyncBuf{}}
	rm.LivenessTester = ve.live
	rm.Logger = log.New(ve.logs, "[REG] ", golog.Ldate|golog.Lmicroseconds)
	for i := range ve.priv {
		ve.priv[i] = byte(i*7 + 1)
	}
	ve.priv[0] &= 248
	ve.priv[31] &= 127
	ve.priv[31] |= 64
	ve.pub = vCurvePub(ve.priv)
	pt, err := prefix.Default([][32]byte{ve.priv})
	if err != nil {
		tb.Fatalf("harness problem: prefix.Default: %v", err)
	}
	e := &c07Env{vEnv: ve, realDetector: realDetector, prodRegistry: rm.registeredDecoys, tb: tb}
	e.all = map[pb.TransportType]Transport{pb.TransportType_Min: min.Transport{}, pb.TransportType_Obfs4: obfs4.Transport{}, pb.TransportType_Prefix: pt, pb.TransportType_DTLS: c07UDP{}}
	rm.connectingStats = c07NopStats{}
	e.srv = httptest.NewServer(http.HandlerFunc(e.peerHandler))
	tb.Cleanup(e.srv.Close)
	return e
}

// peerHandler is the peer-station API stand-in. It records every request body it has read in full
// (= a registration the peer has been handed) and then behaves as the case says.
func (e *c07Env) peerHandler(w http.ResponseWriter, r *http.Request) {
	e.shMu.Lock()
	mode := e.peer
	e.shMu.Unlock()
	drop := func() {
		if hj, ok := w.(http.Hijacker); ok {
			if c, _, err := hj.Hijack(); err == nil {
				c.Close()
			}
		}
	}
	if mode == "close-at-once" {
		drop()
		return
	}
	b, err := io.ReadAll(r.Body)
	if err == nil {
		e.shMu.Lock()
		e.shares = append(e.shares, b)
		e.shMu.Unlock()
	}
	switch mode {
	case "500":
		w.WriteHeader(http.StatusInternalServerError)
	case "read-then-close":
		drop()
	case "garbage":
		if hj, ok := w.(http.Hijacker); ok {
			if c, _, err := hj.Hijack(); err == nil {
				_, _ = c.Write([]byte("this is not HTTP\r\n\r\n"))
				c.Close()
			}
		}
	default:
		w.WriteHeader(http.StatusOK)
	}
}

func (e *c07Env) Shares() [][]byte {
	e.shMu.Lock()
	defer e.shMu.Unlock()
	return append([][]byte(nil), e.shares...)
}

func c07LiveVerdict(live string) (bool, error) {
	switch live {
	case "notlive":
		return false, liveness.NotLive
	case "nil-notlive":
		return false, nil
	case "cached-notlive":
		return false, liveness.ErrCachedPhantom
	case "live":
		return true, liveness.ErrLiveHost
	case "cached-live":
		return true, liveness.ErrCachedPhantom
	case "live-othererr":
		return true, errors.New("read: connection reset by peer")
	}
	panic("c07LiveVerdict: " + live)
}

func c07IsLive(live string) bool { l, _ := c07LiveVerdict(live); return l }

// apply installs the configuration and liveness verdict of a case on an empty registry and clears
// every recorder.
func (e *c07Env) apply(cf c07Conf, live string) {
	nr := NewRegisteredDecoys()
	for _, t := range cf.Transports {
		if tr, ok := e.all[pb.TransportType(t)]; ok {
			nr.transports[pb.TransportType(t)] = tr
		}
	}
	if p := e.prodRegistry; p != nil {
		// what the production path put into the registry it built stays in force
		nr.timeoutActive, nr.timeoutUnused = p.timeoutActive, p.timeoutUnused
		nr.registerForDetector, nr.updateInDetector = p.registerForDetector, p.updateInDetector
	}
	if !e.realDetector {
		nr.registerForDetector = func(d *DecoyRegistration) { e.announce("New", d) }
		nr.updateInDetector = func(d *DecoyRegistration) { e.announce("Update", d) }
	}
	e.rm.registeredDecoys = nr

	rc := e.rm.RegConfig
	rc.EnableIPv4, rc.EnableIPv6 = cf.EnableV4, cf.EnableV6
	rc.PhantomBlocklist = append([]string(nil), cf.PhantomBlocklist...)
	rc.CovertBlocklistSubnets = append([]string(nil), cf.CovertBlocklist...)
	rc.CovertAllowlistSubnets = append([]string(nil), cf.CovertAllowlist...)
	rc.CovertBlocklistDomains = nil
	rc.CovertBlocklistPublicAddrs = false
	rc.enableCovertAllowlist = false
	rc.EnableShareOverAPI = cf.Share
	rc.PreshareEndpoint = e.srv.URL + "/api/register"
	rc.ParseBlocklists()

	verdict, verr := c07LiveVerdict(live)
	e.live.mu.Lock()
	e.live.Calls = nil
	e.live.Verdict = func(string, uint16) (bool, error) { return verdict, verr }
	e.live.mu.Unlock()
	e.mu.Lock()
	e.anns = nil
	e.mu.Unlock()
	e.shMu.Lock()
	e.shares = nil
	e.peer = cf.Peer
	e.shMu.Unlock()
	e.logs.mu.Lock()
	e.logs.b.Reset()
	e.logs.mu.Unlock()
}

// deliver feeds the marshalled message through the station's own parse + ingest steps, exactly as
// an ingest worker does (startIngestThread), and waits for the goroutines the pipeline started
// (share-over-API, connecting-transport dial-out). It returns the parse error, if any, and the
// registration objects that were built.
func (e *c07Env) deliver(msg []byte) ([]*DecoyRegistration, error) {
	if e.viaWorker {
		return nil, e.deliverViaWorker(msg)
	}
	regs, err := e.rm.parseRegMessage(msg)
	if err == nil {
		for _, r := range regs {
			if r != nil {
				e.rm.ingestRegistration(r)
			}
		}
	}
	if werr := c07WaitBackground(); werr != nil {
		return regs, werr
	}
	return regs, err
}

// deliverViaWorker hands the message to a real ingest worker (the station's startIngestThread on
// an unbuffered channel) and waits until the worker is back at its receive: a second, unparsable
// message is accepted by the worker only after it has finished with the first one.
func (e *c07Env) deliverViaWorker(msg []byte) error {
	if e.wch == nil {
		e.wch = make(chan interface{})
		ctx, cancel := context.WithCancel(context.Background())
		wg := &sync.WaitGroup{}
		wg.Add(1)
		go e.rm.startIngestThread(ctx, e.wch, wg)
		if e.tb != nil {
			e.tb.Cleanup(cancel)
		}
	}
	for i, m := range [][]byte{msg, {0xff, 0xff, 0xff}} {
		select {
		case e.wch <- m:
		case <-time.After(60 * time.Second):
			buf := make([]byte, 1<<20)
			return fmt.Errorf("%w: ingest worker did not take message %d within 60s:\n%s", errC07Harness, i, buf[:runtime.Stack(buf, true)])
		}
	}
	return c07WaitBackground()
}

var errC07Harness = errors.New("harness")

// c07WaitBackground waits until no goroutine started by the ingest pipeline is left. The pipeline
// offers no handle on them, so the goroutine dump is polled for their entry functions (a goroutine
// that has been created but has not run yet is listed too).
var c07StackBuf = make([]byte, 1<<20)

func c07WaitBackground() error {
	buf := c07StackBuf
	deadline := time.Now().Add(20 * time.Second)
	for i := 0; ; i++ {
		n := runtime.Stack(buf, true)
		// (a goroutine that has not run yet shows only a compiler-made wrapper as its entry, so
		// the "created by <function>" line is what identifies it; nobody is inside these two
		// functions while this poll runs)
		if !bytes.Contains(buf[:n], []byte("lib.(*RegistrationManager).ingestRegistration")) && !bytes.Contains(buf[:n], []byte("lib.handleConnectingTpReg")) &&
			!bytes.Contains(buf[:n], []byte("lib.tryShareRegistrationOverAPI")) {
			return nil
		}
		if time.Now().After(deadline) {
			return fmt.Errorf("%w: pipeline goroutines still running after 20s:\n%s", errC07Harness, buf[:n])
		}
		if i < 50 {
			runtime.Gosched()
		} else {
			time.Sleep(200 * time.Microsecond)
		}
	}
}

// validRegs lists every registration connection handling could be given, whatever its phantom.
func (e *c07Env) validRegs() []*DecoyRegistration {
	r := e.rm.registeredDecoys
	r.m.RLock()
	defer r.m.RUnlock()
	var out []*DecoyRegistration
	for _, m := range r.decoys {
		for _, d := range m {
			if d.Valid {
				out = append(out, d)
			}
		}
	}
	return out
}

// ------------------------------------------------------------------------------------------------
// Reference admission predicate (transcribed from the statement of C07)

type c07Cond struct {
	Name string
	OK   bool
}

// c07Fam is the model's view of one address-family slot of a message.
type c07Fam struct {
	Slot       string // "v4" | "v6": which client flag / station switch governs it
	Phantom    net.IP // phantom the station will use (nil if it cannot be derived)
	PhantomV4  bool
	Conds      []c07Cond
	Admit      bool   // every condition holds
	FirstFail  string // name of the first condition that does not hold
	PreProbe   bool   // every condition that is checked before the probe holds
	ProbeNeed  int    // 1: a probe is required; 0: none may be sent; -1: either (see c07Model)
	SharePass  bool   // passed everything up to and including the liveness probe
	PortOvr    int    // registrar-overridden destination port, -1 if none
	Overridden bool   // phantom comes from the registrar response
}

type c07Expect struct {
	WF    bool   // well-formed domain: the statement defines the outcome in both directions
	Quirk string // why not
	Fam   [2]c07Fam
}

func c07ParamsOK(p c07Params, transport int) bool {
	switch pb.TransportType(transport) {
	case pb.TransportType_Min, pb.TransportType_Obfs4:
		return p.Kind == "generic"
	case pb.TransportType_Prefix:
		return p.Kind == "prefix" && p.PrefixID >= 0 && p.PrefixID <= 9
	case pb.TransportType_DTLS:
		return p.Kind == "dtls"
	}
	return true // transport cannot be enabled: parameters do not matter
}

func c07Contains(cidrs []string, ip net.IP) bool {
	for _, c := range cidrs {
		_, n, err := net.ParseCIDR(c)
		if err != nil {
			panic("c07: bad CIDR in generated configuration: " + c)
		}
		if n.Contains(ip) {
			return true
		}
	}
	return false
}

// c07CovertOK: the covert address is a literal "IP:port" that the covert policy admits (if an
// allowlist is configured it decides alone, otherwise the blocklist does).
func c07CovertOK(cf c07Conf, has bool, s string) bool {
	if !has {
		return false
	}
	host, port, err := net.SplitHostPort(s)
	if err != nil {
		return false
	}
	ip := net.ParseIP(host)
	if ip == nil {
		panic("c07: generator produced a covert that is not an IP literal: " + s)
	}
	if _, err := strconv.ParseUint(port, 10, 16); err != nil {
		return false
	}
	if len(cf.CovertAllowlist) > 0 {
		return c07Contains(cf.CovertAllowlist, ip)
	}
	return !c07Contains(cf.CovertBlocklist, ip)
}

func c07RegAddrIsV4(m c07Msg) bool {
	if !m.HasRegAddr {
		return false
	}
	return net.IP(m.RegAddr).To4() != nil
}

// c07Model evaluates the admission predicate for both family slots of a case. The phantom is taken
// from the registrar response when it overrides it, otherwise from the station's phantom selector
// (selection itself is C01/C14's subject, not an admission condition).
func c07Model(e *c07Env, c c07Case) (c07Expect, error) {
	m, cf := c.Msg, c.Conf
	v := c07Expect{WF: true}
	quirk := func(s string) {
		if v.WF {
			v.WF, v.Quirk = false, s
		}
	}
	enabled := false
	for _, t := range cf.Transports {
		if t == m.Transport && m.Transport > 0 {
			enabled = true
		}
	}
	// domain classification
	if m.Source < 0 || m.Source > 6 {
		quirk("source-undefined")
	}
	if m.HasPayload {
		if m.LibVer != 3 && m.LibVer != 4 {
			quirk("libver")
		}
		if enabled && !c07ParamsOK(m.Params, m.Transport) {
			quirk("params")
		}
	}
	if m.HasRegAddr && len(m.RegAddr) != 4 && len(m.RegAddr) != 16 {
		quirk("registrant-length")
	}
	if rr := m.RR; rr != nil {
		if rr.HasV6 && (len(rr.V6) != 16 || net.IP(rr.V6).To4() != nil) {
			quirk("rr-v6-not-ipv6")
		}
		if rr.HasPort && (rr.Port == 0 || rr.Port > 65535) {
			quirk("rr-port-range")
		}
		if rr.Params != nil && !m.DisableOverrides && enabled && !c07ParamsOK(*rr.Params, m.Transport) {
			quirk("rr-params")
		}
	}

	for i, slot := range []string{"v4", "v6"} {
		f := c07Fam{Slot: slot, PortOvr: -1}
		v6 := slot == "v6"
		// complete: the message has a payload and a shared secret. What counts as a shared secret
		// is what the registrars (regprocessor.ErrSharedSecret: "undefined or insufficient length")
		// and the station's own ValidateRegistration enforce: at least c07MinSecret bytes. Key
		// derivation takes any length, so every longer secret is complete (the unchanged station
		// admits 8..40 bytes alike).
		complete := m.HasPayload && m.HasSecret && len(m.Secret) >= c07MinSecret
		knownGens, selector := c07KnownGens, e.rm.PhantomSelector
		if e.known != nil {
			knownGens = e.known
		}
		if e.modelSelector != nil {
			selector = e.modelSelector
		}
		genKnown := m.HasPayload && knownGens[m.Gen]
		// the phantom
		if rr := m.RR; rr != nil {
			if !v6 && rr.HasV4 && rr.V4 != 0 {
				f.Phantom = net.IPv4(byte(rr.V4>>24), byte(rr.V4>>16), byte(rr.V4>>8), byte(rr.V4)).To4()
				f.Overridden = true
			}
			if v6 && rr.HasV6 {
				f.Phantom = net.IP(append([]byte{}, rr.V6...))
				f.Overridden = true
			}
			if rr.HasPort {
				f.PortOvr = int(rr.Port)
			}
		}
		if f.Phantom == nil && m.HasPayload && genKnown {
			lv := uint(0)
			if m.LibVer > 0 {
				lv = uint(m.LibVer)
			}
			keys, err := core.GenSharedKeys(lv, m.Secret, pb.TransportType(0))
			if err != nil {
				return v, fmt.Errorf("%w: GenSharedKeys: %v", errC07Harness, err)
			}
			ph, err := selector.Select(keys.ConjureSeed, uint(m.Gen), lv, v6)
			if err != nil {
				if lv >= 2 {
					return v, fmt.Errorf("%w: phantom selection failed for a known generation (gen %d libver %d v6 %v): %v", errC07Harness, m.Gen, lv, v6, err)
				}
				quirk("legacy-selection-failed")
			} else {
				f.Phantom = *ph.IP()
			}
		}
		f.PhantomV4 = f.Phantom != nil && f.Phantom.To4() != nil

		famOK := false
		if v6 {
			famOK = m.HasPayload && m.V6 == 1 && cf.EnableV6
		} else {
			famOK = m.HasPayload && m.V4 == 1 && cf.EnableV4
		}
		regOK := true
		if !v6 || f.PhantomV4 {
			regOK = c07RegAddrIsV4(m)
		}
		blocked := f.Phantom != nil && c07Contains(cf.PhantomBlocklist, f.Phantom)
		covertOK := m.HasPayload && c07CovertOK(cf, m.HasCovert, m.Covert)
		needProbe := f.PhantomV4 && !m.prescanned()
		liveOK := !needProbe || !c07IsLive(c.Live)

		incomplete := "incomplete-payload"
		if m.HasPayload {
			incomplete = "incomplete-secret"
		}
		f.Conds = []c07Cond{
			{incomplete, complete},
			{"transport-not-enabled", enabled},
			{"generation-unknown", genKnown},
			{"family-" + slot + "-not-enabled", famOK},
			{"registrant-family", regOK},
			{"phantom-blocklisted", !blocked},
			{"covert-policy", covertOK},
			{"phantom-live", liveOK},
		}
		f.Admit = f.Phantom != nil
		for _, cd := range f.Conds {
			if !cd.OK {
				f.Admit = false
				if f.FirstFail == "" {
					f.FirstFail = cd.Name
				}
			}
		}
		if f.Phantom == nil && f.FirstFail == "" {
			f.FirstFail = "no-phantom"
		}
		// "all earlier conditions passed": everything the station can know before probing. For
		// registrations learned from the local detector the phantom blocklist is not among them:
		// the registration is to be passed on to peers even if this station will not serve it,
		// and it may be passed on only after the probe.
		detector := m.Source == int(pb.RegistrationSource_Detector)
		f.PreProbe = f.Phantom != nil && complete && enabled && genKnown && famOK && regOK && covertOK && (detector || !blocked)
		switch {
		case !f.PreProbe || !needProbe:
			f.ProbeNeed = 0
		case detector && blocked && !cf.Share:
			f.ProbeNeed = -1 // will be neither served nor passed on: probing is allowed, not required
		default:
			f.ProbeNeed = 1
		}
		f.SharePass = f.PreProbe && liveOK
		v.Fam[i] = f
	}
	return v, nil
}
