package lib

// C09 (preemption-bounded schedules) — scenarios whose violations need an actor to be overtaken at
// one or two precise points (a sweep that runs while a registration is between "tracked" and
// "validated", a duplicate that arrives after the sweep) have far too many interleavings for the
// exhaustive enumeration in the quick tier. Here every schedule with at most B preemptions is
// enumerated: the running actor keeps running until it finishes unless the schedule switches away
// from it, and at most B such switches are spent.

import (
	"testing"

	"verif/harness/vh"
)

func c09Preemptions(choices []int, options [][]int) int {
	n := 0
	for i := 1; i < len(choices) && i < len(options); i++ {
		prev := choices[i-1]
		if choices[i] == prev {
			continue
		}
		for _, o := range options[i] {
			if o == prev {
				n++
			}
		}
	}
	return n
}

// c09ExploreBounded enumerates every schedule of the scenario with at most bound preemptions.
func c09ExploreBounded(t vh.Fataler, rec *vh.Rec, e *vEnv, scn c09Scenario, bound, max int) (count int, complete bool) {
	type frame struct {
		opts []int // opts[0] is the choice that was taken first at this depth
		next int
	}
	var prefix []int
	var stack []frame
	for {
		run := c09Check(t, rec, e, c09Case{Scn: scn, Schedule: prefix, Sticky: true})
		count++
		if run == nil || run.Stall != "" {
			return count, false
		}
		for i := len(stack); i < len(run.Options); i++ {
			opts := []int{run.Choices[i]}
			for _, o := range run.Options[i] {
				if o != run.Choices[i] {
					opts = append(opts, o)
				}
			}
			stack = append(stack, frame{opts: opts, next: 1})
		}
		found := false
		for !found {
			for len(stack) > 0 && stack[len(stack)-1].next >= len(stack[len(stack)-1].opts) {
				stack = stack[:len(stack)-1]
			}
			if len(stack) == 0 {
				return count, true
			}
			d := len(stack) - 1
			top := &stack[d]
			cand := top.opts[top.next]
			top.next++
			trial := append(append([]int(nil), run.Choices[:d]...), cand)
			if c09Preemptions(trial, run.Options[:d+1]) <= bound {
				prefix = trial
				found = true
			}
		}
		if count >= max {
			return count, false
		}
	}
}

func c09BoundedScenarios() []c09Scenario {
	tracked := []c09Pre{{Secret: 1, TT: 0, AgeS: 0, Valid: false}}
	return []c09Scenario{
		// the sweep runs 11 minutes later than the first delivery was tracked, a duplicate follows
		{Actors: []c09Actor{{Kind: "ingest", Secret: 1, Covert: "ok1"}, {Kind: "ingest", Secret: 1, Covert: "ok1"}, {Kind: "sweep", AgeS: 11 * 60}}},
		{Actors: []c09Actor{{Kind: "ingest", Secret: 1, Covert: "ok1"}, {Kind: "ingest", Secret: 1, Covert: "ok2"}, {Kind: "sweep", AgeS: 11 * 60}, {Kind: "lookup", Secret: 1}}},
		{Actors: []c09Actor{{Kind: "ingest", Secret: 1, Covert: "ok1"}, {Kind: "lookup", Secret: 1}, {Kind: "sweep", AgeS: 11 * 60}}},
		// a delivery whose worker is still probing (tracked, not validated) when everything else happens
		{Pre: tracked, Actors: []c09Actor{{Kind: "ingest", Secret: 1, Covert: "ok1"}, {Kind: "sweep", AgeS: 11 * 60}, {Kind: "ingest", Secret: 1, Covert: "ok1"}}},
		{Pre: tracked, Actors: []c09Actor{{Kind: "ingest", Secret: 1, Covert: "ok1"}, {Kind: "lookup", Secret: 1}, {Kind: "ingest", Secret: 1, Covert: "bad"}}},
		// used registration, 6 h later
		{Pre: []c09Pre{{Secret: 1, TT: 0, AgeS: 60, Used: true, Valid: true}}, Actors: []c09Actor{{Kind: "sweep", AgeS: 6 * 3600}, {Kind: "ingest", Secret: 1, Covert: "ok1"}, {Kind: "lookup", Secret: 1}}},
		// four workers, two keys, one sweep
		{Actors: []c09Actor{{Kind: "ingest", Secret: 1, Covert: "ok1"}, {Kind: "ingest", Secret: 1, Covert: "ok1", Live: true}, {Kind: "ingest", Secret: 2, Covert: "ok1"}, {Kind: "sweep", AgeS: 11 * 60}}},
	}
}

func TestVerif_C09_bounded(t *testing.T) {
	rec := vh.NewRec("C09", "bounded", "every schedule with at most 2 (quick) / 3 (thorough) preemptions of 3-4 actor scenarios in which the sweep runs 11 minutes (or 6 hours) after a delivery was tracked and duplicates, conflicting deliveries and connection handlers run around it; oracle: the invariants of 'schedules' (announced as New at most once per lifetime of a key - lifetimes observed at the step boundaries -, a handler sees a registration only after validation, registry and time-out maps in bijection, nothing forbidden becomes valid, no panic, no stall), plus serial-replay equivalence for the scenarios in which no time passes while a delivery is in flight; non-trivial = two actors inside the pipeline at the same time; distinct by (scenario, schedule)")
	defer rec.Flush()
	rec.Require("overlap", "point:sweep:collected", "point:liveness-probe")
	e := vNewEnv(t, nil, "")
	if p := vh.ReplayFile(); p != "" {
		var c c09Case
		if _, _, err := vh.LoadReplay(p, &c); err != nil {
			t.Fatal(err)
		}
		c09Check(t, rec, e, c)
		return
	}
	bound := vh.Pick(2, 3)
	limit := vh.Pick(4000, 200000)
	allComplete := true
	for i, scn := range c09BoundedScenarios() {
		if !vh.Mine(i) {
			continue
		}
		n, complete := c09ExploreBounded(t, rec, e, scn, bound, limit)
		rec.Note("scenario %d (%s): %d schedules with <= %d preemptions, complete=%v", i, c09Signature(scn), n, bound, complete)
		if !complete {
			allComplete = false
		}
	}
	rec.SetExhaustive(allComplete)
}
