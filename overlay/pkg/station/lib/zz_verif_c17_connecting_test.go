package lib

// C17 (connecting transports) — the station dials OUT to the client for connecting transports
// (DTLS): a failed dial or a failing relay on that connection must not put the client address into
// the logs either. The real ingest path runs with a scripted connecting transport whose Connect
// fails with errors in the shapes the DTLS transport produces (it flattens the dial error into text:
// "error connecting to dtls client: dial udp 0.0.0.0:41245-><client>: connect: ...") or succeeds
// with a fault-injecting connection that is then relayed by Proxy.

import (
	"bytes"
	"context"
	"errors"
	"fmt"
	golog "log"
	"net"
	"os"
	"strings"
	"sync"
	"syscall"
	"testing"
	"time"

	"github.com/refraction-networking/conjure/pkg/core"
	"github.com/refraction-networking/conjure/pkg/station/log"
	"github.com/refraction-networking/conjure/pkg/transports"
	pb "github.com/refraction-networking/conjure/proto"
	"google.golang.org/protobuf/proto"
	"google.golang.org/protobuf/types/known/anypb"
	"verif/harness/vconn"
	"verif/harness/vh"
)

type c17cCase struct {
	Addr    string `json:"addr"`    // v4 | v6
	Outcome string `json:"outcome"` // connect-error-flat | connect-error-raw | connect-error-wrapped | connect-timeout | relay-read-error | relay-write-error | relay-close-error
	Err     string `json:"err"`     // error kind
	Shape   string `json:"shape,omitempty"` // form in which the transport's connection (or its Connect) reports the failed operation (see c17sShapes); "" = bare
}

type c17cTransport struct {
	connect func(ctx context.Context, reg transports.Registration) (net.Conn, error)
}

func (c17cTransport) Name() string      { return "dtls" }
func (c17cTransport) LogPrefix() string { return "DTLS" }
func (c17cTransport) GetIdentifier(r transports.Registration) string {
	return string(core.ConjureHMAC(r.SharedSecret(), "verif-connecting"))
}
func (c17cTransport) GetProto() pb.IPProto                        { return pb.IPProto_Udp }
func (c17cTransport) GetDstPort(uint, []byte, any) (uint16, error) { return 443, nil }
func (c17cTransport) ParseParams(uint, *anypb.Any) (any, error)    { return nil, nil }
func (c17cTransport) ParamStrings(any) []string                    { return nil }
func (t c17cTransport) Connect(ctx context.Context, reg transports.Registration) (net.Conn, error) {
	return t.connect(ctx, reg)
}

type c17cStats struct {
	done chan string
}

func (s *c17cStats) AddCreatedConnecting(uint, string, string)             {}
func (s *c17cStats) AddCreatedToSuccessfulConnecting(uint, string, string) {}
func (s *c17cStats) AddCreatedToTimeoutConnecting(uint, string, string)    { s.done <- "timeout" }
func (s *c17cStats) AddSuccessfulToDiscardedConnecting(uint, string, string) {
	s.done <- "discarded"
}
func (s *c17cStats) AddOtherFailConnecting(uint, string, string) { s.done <- "otherfail" }

func c17cErrno(kind string) syscall.Errno {
	switch kind {
	case "enetunreach":
		return syscall.ENETUNREACH
	case "ehostunreach":
		return syscall.EHOSTUNREACH
	case "refused":
		return syscall.ECONNREFUSED
	case "eperm":
		return syscall.EPERM
	case "enobufs":
		return syscall.ENOBUFS
	case "eaddrnotavail":
		return syscall.EADDRNOTAVAIL
	}
	return syscall.EINVAL
}

func TestVerif_C17_connecting(t *testing.T) {
	rec := vh.NewRec("C17", "connecting", "exhaustive: {IPv4, IPv6 registrant} x outcomes of a connecting-transport registration (Connect fails with the dial error flattened into text as the DTLS transport does / as a raw OpError / wrapped / with a context deadline; Connect succeeds and the relay on that connection hits a read, write or close fault) x error kinds, and the relay / raw-dial-error outcomes again with the transport reporting the failed operation in each of the forms a connection wrapper uses (wrapped; with a second cause via two %w, errors.Join, an error type with Unwrap() []error; nested), through the real ingestRegistration -> handleConnectingTpReg -> Proxy; oracle: nothing the station logged contains the registrant (client) address; non-trivial = the injected error text carries the client address; distinct by case")
	defer rec.Flush()
	rec.Require("error-text-carries-client-address", "outcome:connect-error-flat", "outcome:relay-read-error", "relay:several-causes+unanticipated+carries-address", "shape:join:op-last", "shape:two-w:op-last", "shape:multi-type")
	if vh.ReplayFile() != "" && !strings.Contains(vh.ReplayFile(), "connecting") {
		t.Skip("replay file belongs to another sub-check")
	}
	capture := &vSyncBuf{}
	oldLog := golog.Writer()
	golog.SetOutput(capture)
	log.SetOutput(capture)
	log.SetLevel(log.ErrorLevel)
	oldOut, oldErr := os.Stdout, os.Stderr
	defer func() { golog.SetOutput(oldLog); log.SetOutput(oldLog); os.Stdout, os.Stderr = oldOut, oldErr }()
	ln, err := net.Listen("tcp", "127.0.0.1:0")
	if err != nil {
		t.Fatalf("harness problem: %v", err)
	}
	defer ln.Close()
	go func() {
		for {
			c, err := ln.Accept()
			if err != nil {
				return
			}
			go func(c net.Conn) {
				defer c.Close()
				_, _ = c.Write(bytes.Repeat([]byte("r"), 200))
				buf := make([]byte, 4096)
				_ = c.SetDeadline(time.Now().Add(20 * time.Second))
				for {
					if _, err := c.Read(buf); err != nil {
						return
					}
				}
			}(c)
		}
	}()
	run := func(c c17cCase) {
		regAddr := net.ParseIP("203.0.113.77").To4()
		remote := "203.0.113.77:5555"
		needles := []string{"203.0.113.77"}
		if c.Addr == "v6" {
			regAddr = net.ParseIP("2001:db8::c1e7:beef")
			remote = "[2001:db8::c1e7:beef]:5555"
			needles = []string{"c1e7:beef", "C1E7:BEEF"}
		}
		e := vNewEnv(t, nil, "")
		st := &c17cStats{done: make(chan string, 4)}
		e.rm.connectingStats = st
		e.rm.Logger = log.New(capture, "[REG] ", golog.Ldate|golog.Lmicroseconds)
		local := &net.UDPAddr{IP: net.IPv4zero, Port: 41245}
		raddr, _ := net.ResolveUDPAddr("udp", remote)
		dialErr := &net.OpError{Op: "dial", Net: "udp", Source: local, Addr: raddr, Err: os.NewSyscallError("connect", c17cErrno(c.Err))}
		carries := false
		var conn *vconn.Conn
		tr := c17cTransport{connect: func(ctx context.Context, reg transports.Registration) (net.Conn, error) {
			switch c.Outcome {
			case "connect-error-flat":
				return nil, fmt.Errorf("error connecting to dtls client: %v", dialErr)
			case "connect-error-flat-both":
				return nil, fmt.Errorf("%v, %v", fmt.Errorf("error connecting to dtls client: %v", dialErr), errors.New("error accepting dtls connection from secret: context canceled"))
			case "connect-error-raw":
				return nil, c17sShapeErr(c.Shape, dialErr)
			case "connect-error-wrapped":
				return nil, fmt.Errorf("error connecting to dtls client: %w", dialErr)
			case "connect-timeout":
				return nil, context.DeadlineExceeded
			}
			s := vconn.Script{Remote: remote, End: "hold"}
			switch c.Outcome {
			case "relay-read-error":
				s.Reads = []vconn.Step{{Data: vh.Hex("hello")}, {Err: c.Err}}
			case "relay-read-data+error":
				s.Reads = []vconn.Step{{Data: vh.Hex("hello"), Err: c.Err}}
			case "relay-write-error":
				s.Reads = []vconn.Step{{Data: vh.Hex("hello")}, {WaitWritten: 1}}
				s.End = "eof"
				s.WriteFaults = map[int]vconn.Fault{0: {Accept: 1, Err: c.Err}}
			case "relay-close-error":
				s.Reads = []vconn.Step{{Data: vh.Hex("hello")}}
				s.End = "eof"
				s.CloseErr = c.Err
			}
			conn = vconn.New(s)
			conn.WaitLimit = 5 * time.Second
			if c.Shape != "" {
				return c17sConn{Conn: conn, shape: c.Shape}, nil
			}
			return conn, nil
		}}
		_ = e.rm.AddTransport(pb.TransportType_DTLS, tr)
		w := vWrapper(vSecret(77), pb.TransportType_DTLS, 0, ln.Addr().String(), true, false, 4, 957, pb.RegistrationSource_API, regAddr)
		if c.Addr == "v6" {
			w.RegistrationPayload.V4Support, w.RegistrationPayload.V6Support = proto.Bool(false), proto.Bool(true)
		}
		w.RegistrationPayload.TransportParams = nil
		b, _ := proto.Marshal(w)
		regs, err := e.rm.parseRegMessage(b)
		if err != nil || len(regs) != 1 {
			t.Fatalf("harness problem: parseRegMessage: %v (%d registrations)", err, len(regs))
		}
		// does the injected error text carry the client address?
		var probe error = dialErr
		if strings.HasPrefix(c.Outcome, "relay-") {
			probe = vconn.MkErr(c.Err, "read", &net.TCPAddr{IP: net.IPv4(10, 9, 9, 9), Port: 41245}, raddr)
		}
		probe = c17sShapeErr(c.Shape, probe)
		if c.Outcome != "connect-timeout" && probe != nil {
			for _, n := range needles {
				if strings.Contains(probe.Error(), n) {
					carries = true
				}
			}
		}
		start := len(capture.String())
		e.rm.ingestRegistration(regs[0])
		var result string
		select {
		case result = <-st.done:
		case <-time.After(30 * time.Second):
			t.Fatalf("harness problem: connecting transport goroutine did not finish (case %+v)", c)
		}
		time.Sleep(2 * time.Millisecond)
		if conn != nil {
			conn.WaitClosed(3 * time.Second)
		}
		logs := capture.String()[start:]
		classes := []string{"outcome:" + c.Outcome, "addr:" + c.Addr, "result:" + result}
		if carries {
			classes = append(classes, "error-text-carries-client-address")
		}
		if logs != "" {
			classes = append(classes, "something-was-logged")
		}
		if c.Shape != "" {
			classes = append(classes, "shape:"+c.Shape)
			if carries && c17sShapeMulti(c.Shape) && strings.HasPrefix(c.Outcome, "relay-") && c.Err != "reset" && c.Err != "timeout" && c.Err != "epipe" {
				classes = append(classes, "relay:several-causes+unanticipated+carries-address")
			}
		}
		rec.Case(carries, vh.Digest(c), c, classes...)
		for _, n := range needles {
			if i := strings.Index(logs, n); i >= 0 {
				lo := strings.LastIndex(logs[:i], "\n") + 1
				line := logs[lo:]
				if hi := strings.Index(line, "\n"); hi >= 0 {
					line = line[:hi]
				}
				site := "connect-failure"
				if strings.HasPrefix(c.Outcome, "relay-") {
					site = "relay"
				}
				if c17sShapeMulti(c.Shape) {
					site += ":error-with-several-causes"
				} else if c.Shape != "" {
					site += ":wrapped-error"
				}
				rec.Violation(t, "leak:connecting:"+site, c, "client (registrant) address appears in the station's output at the default log level: %q [outcome %s, error kind %s, error form %q, %s]", strings.TrimSpace(line), c.Outcome, c.Err, c.Shape, c.Addr)
				return
			}
		}
	}
	if p := vh.ReplayFile(); p != "" {
		var c c17cCase
		if _, _, err := vh.LoadReplay(p, &c); err != nil {
			t.Fatal(err)
		}
		run(c)
		return
	}
	rec.SetExhaustive(true)
	i := 0
	for _, addr := range []string{"v4", "v6"} {
		for _, oc := range []string{"connect-error-flat", "connect-error-flat-both", "connect-error-raw", "connect-error-wrapped", "connect-timeout"} {
			for _, k := range []string{"enetunreach", "ehostunreach", "refused", "eperm", "enobufs", "eaddrnotavail"} {
				i++
				if vh.Mine(i) {
					run(c17cCase{Addr: addr, Outcome: oc, Err: k})
				}
			}
		}
		for _, oc := range []string{"relay-read-error", "relay-read-data+error", "relay-write-error", "relay-close-error"} {
			for _, k := range []string{"reset", "enetunreach", "enobufs", "eio", "timeout", "wrapped-enetunreach", "epipe", "enetdown"} {
				i++
				if vh.Mine(i) {
					run(c17cCase{Addr: addr, Outcome: oc, Err: k})
				}
			}
		}
		// the same outcomes with the transport reporting the failed operation in its own form
		for _, sh := range c17sShapes {
			for _, oc := range []string{"relay-read-error", "relay-read-data+error", "relay-write-error", "relay-close-error", "connect-error-raw"} {
				kinds := []string{"enobufs", "eio", "enetdown", "reset", "timeout"}
				if oc == "connect-error-raw" {
					kinds = []string{"enetunreach", "eperm"}
				}
				for _, k := range kinds {
					i++
					if vh.Mine(i) {
						run(c17cCase{Addr: addr, Outcome: oc, Err: k, Shape: sh.name})
					}
				}
			}
		}
	}
	var _ sync.Mutex
}
