package lib

// C08 "realclock": the lifetime of a registration counts from the moment it was registered.
//
// The model-based checks advance time by shifting the recorded registration times, which says
// nothing about WHAT instant the code records in the first place. Here real time passes (tens of
// milliseconds) between sweeps, registrations and connections, the harness notes the real instants
// around every registration call, and a final shift puts one registration a few milliseconds before
// or after the end of its lifetime. A registration whose true age is provably below its lifetime must
// survive the sweep, one provably above must be gone; anything the real-time uncertainty does not
// decide is counted as ambiguous and not asserted.

import (
	"fmt"
	"net"
	"testing"
	"time"

	pb "github.com/refraction-networking/conjure/proto"
	"pgregory.net/rapid"

	"verif/harness/vh"
)

type c08ClockOp struct {
	Kind string `json:"kind"` // reg | dup | use | sweep | wait
	I    int    `json:"i"`    // registration index
	Ms   int    `json:"ms"`   // wait
}

type c08ClockCase struct {
	Ops      []c08ClockOp `json:"ops"`       // free prefix
	WaitMs   int          `json:"wait_ms"`   // real time between the last sweep of the history and the target registration
	UseT     bool         `json:"use_target"` // the target registration carries a connection
	Late     bool         `json:"late"`      // put the target just past (instead of just before) the end of its lifetime
	MarginMs int          `json:"margin_ms"`
}

type c08ClockEntry struct {
	reg          *DecoyRegistration
	before, after time.Time // real instants around the call that first tracked it
	used         bool
	tracked      bool
}

func c08ClockRun(e *vEnv, c c08ClockCase) (key, msg string, classes []string) {
	e.resetRegistry()
	e.live.Verdict = nil
	r := e.rm.registeredDecoys
	ents := map[int]*c08ClockEntry{}
	mk := func(i int) (*DecoyRegistration, error) {
		w := vWrapper(vSecret(700+i), pb.TransportType_Min, 0, "192.0.2.10:443", true, false, 4, 957, pb.RegistrationSource_API, net.ParseIP("198.51.100.7").To4())
		return e.rm.NewRegistrationC2SWrapper(w, false)
	}
	doReg := func(i int) error {
		reg, err := mk(i)
		if err != nil {
			return err
		}
		t0 := time.Now()
		e.rm.ingestRegistration(reg)
		t1 := time.Now()
		if en := ents[i]; en == nil || !en.tracked {
			ents[i] = &c08ClockEntry{reg: reg, before: t0, after: t1, tracked: true}
		}
		return nil
	}
	doUse := func(i int) {
		if en := ents[i]; en != nil && en.tracked {
			if found, ok := e.rm.GetRegistrations(en.reg.PhantomIp)[r.transports[en.reg.Transport].GetIdentifier(en.reg)]; ok {
				e.rm.MarkActive(found.(*DecoyRegistration))
				en.used = true
			}
		}
	}
	isTracked := func(en *c08ClockEntry) bool {
		return e.rm.RegistrationExists(en.reg)
	}
	// judge compares the registry with what the real instants allow after a sweep that ran in [s0, s1]
	// with all records shifted back by shift in total (entries remember their own share)
	shiftOf := map[*c08ClockEntry]time.Duration{}
	judge := func(s0, s1 time.Time, where string) (string, string) {
		for i, en := range ents {
			if !en.tracked {
				continue
			}
			life := c08Unused
			if en.used {
				life = c08Active
			}
			lo := s0.Sub(en.after) + shiftOf[en]
			hi := s1.Sub(en.before) + shiftOf[en]
			got := isTracked(en)
			switch {
			case hi < life:
				classes = append(classes, "decided:young")
				if life-hi < 200*time.Millisecond {
					classes = append(classes, "decided:kept-near-boundary")
				}
				if !got {
					return "realclock:expired-early", fmt.Sprintf("%s: registration %d (used=%v) was at most %v old (lifetime %v) when the sweep ran, and is gone", where, i, en.used, hi, life)
				}
			case lo > life:
				classes = append(classes, "decided:old")
				if lo-life < 200*time.Millisecond {
					classes = append(classes, "decided:gone-near-boundary")
				}
				if got {
					return "realclock:kept-past-lifetime", fmt.Sprintf("%s: registration %d (used=%v) was at least %v old (lifetime %v) when the sweep ran, and is still tracked", where, i, en.used, lo, life)
				}
				en.tracked = false
			default:
				classes = append(classes, "ambiguous")
				en.tracked = got
			}
		}
		return "", ""
	}
	sweep := func(where string) (string, string) {
		s0 := time.Now()
		e.rm.RemoveOldRegistrations()
		s1 := time.Now()
		return judge(s0, s1, where)
	}
	for n, o := range c.Ops {
		switch o.Kind {
		case "reg", "dup":
			if err := doReg(o.I); err != nil {
				return "harness", err.Error(), classes
			}
		case "use":
			doUse(o.I)
		case "wait":
			time.Sleep(time.Duration(o.Ms) * time.Millisecond)
		case "sweep":
			if k, m := sweep(fmt.Sprintf("op %d", n)); k != "" {
				return k, m, classes
			}
		}
	}
	// the part every case has: a sweep, real time passes, the target registers (and connects)
	if k, m := sweep("pre-target sweep"); k != "" {
		return k, m, classes
	}
	time.Sleep(time.Duration(c.WaitMs) * time.Millisecond)
	const target = 99
	if err := doReg(target); err != nil {
		return "harness", err.Error(), classes
	}
	if c.UseT {
		doUse(target)
	}
	tg := ents[target]
	life := c08Unused
	if tg.used {
		life = c08Active
	}
	margin := time.Duration(c.MarginMs) * time.Millisecond
	shift := life - time.Since(tg.before) - margin
	if c.Late {
		shift = life - time.Since(tg.after) + margin
	}
	e.vShiftAll(shift)
	for _, en := range ents {
		if en.tracked {
			shiftOf[en] += shift
		}
	}
	if k, m := sweep("final sweep"); k != "" {
		return k, m, classes
	}
	// bijection of the two maps
	r.m.RLock()
	nt, nr := len(r.decoysTimeouts), r.totalRegistrations()
	r.m.RUnlock()
	if nt != nr {
		return "realclock:timeout-records", fmt.Sprintf("%d time-out records for %d tracked registrations", nt, nr), classes
	}
	return "", "", classes
}

func c08ClockGen(rt *rapid.T) c08ClockCase {
	var c c08ClockCase
	n := rapid.IntRange(0, 5).Draw(rt, "nops")
	for i := 0; i < n; i++ {
		k := rapid.SampledFrom([]string{"reg", "reg", "dup", "use", "sweep", "wait"}).Draw(rt, "kind")
		o := c08ClockOp{Kind: k, I: rapid.IntRange(0, 2).Draw(rt, "i")}
		if k == "wait" {
			o.Ms = rapid.IntRange(1, 30).Draw(rt, "ms")
		}
		c.Ops = append(c.Ops, o)
	}
	c.WaitMs = rapid.IntRange(40, 120).Draw(rt, "wait_ms")
	c.MarginMs = c.WaitMs / 2
	c.UseT = rapid.Bool().Draw(rt, "use_target")
	c.Late = rapid.IntRange(0, 3).Draw(rt, "late") == 0
	return c
}

func TestVerif_C08_realclock(t *testing.T) {
	rec := vh.NewRec("C08", "realclock", "histories in which REAL time (tens of ms) passes between sweeps, registrations, duplicates and connections; a final shift puts the last registration a few ms before / after the end of its lifetime; oracle = bounds on each registration's true age from the real instants noted around its registration call (younger than its lifetime => tracked, older => gone, undecidable => not asserted); non-trivial = a registration within 200 ms of its lifetime's end was decided; distinct by case")
	defer rec.Flush()
	rec.Require("decided:kept-near-boundary", "decided:gone-near-boundary")
	e := vNewEnv(t, nil, "")
	check := func(t vh.Fataler, c c08ClockCase) {
		key, msg, classes := c08ClockRun(e, c)
		nontriv := false
		for _, cl := range classes {
			if cl == "decided:kept-near-boundary" || cl == "decided:gone-near-boundary" {
				nontriv = true
			}
		}
		rec.Case(nontriv, vh.Digest(c), c, classes...)
		if key == "harness" {
			t.Fatalf("harness problem: %s", msg)
		}
		if key != "" {
			rec.Violation(t, key, c, "%s", msg)
		}
	}
	if p := vh.ReplayFile(); p != "" {
		var c c08ClockCase
		if _, _, err := vh.LoadReplay(p, &c); err != nil {
			t.Fatal(err)
		}
		check(t, c)
		return
	}
	rapid.Check(t, func(rt *rapid.T) { check(rt, c08ClockGen(rt)) })
}
