package lib

// C06 — reference covert policy, written from the property text with net/netip and independent of
// registration_config.go, plus the oracle that judges one (input, configuration, result) triple.
//
// Decisions taken where the property text leaves room (all stated in checks.d/C06.json):
//   * "literal IP:port" = netip.ParseAddrPort accepts the string. A zoned IPv6 literal is a literal
//     (net.Dial needs no name lookup for it); policy is evaluated on the address without its zone.
//     An IPv4 address with a zone ("1.2.3.4%eth0") is NOT a literal: net.Dial hands it to the resolver.
//   * v4-mapped addresses, and v4-mapped blocklist prefixes of length >= 96, are compared as IPv4.
//   * allowlist configured => permitted iff inside the allowlist (the anchor "allowlist takes
//     precedence over blocklist"); otherwise permitted iff outside every blocklist subnet.
//   * decimal port = ASCII digits only, value 0..65535; leading zeros are tolerated in the result
//     (net.Dial reads "080" as 80) but a port with leading zeros is not "well-formed" for the
//     must-accept direction.
//   * must-accept direction: an input that netip.ParseAddrPort accepts, with a canonical port, whose
//     host text matches no domain pattern and whose address is permitted must be accepted and denote
//     the same address and port; if the input is already in canonical form (what
//     netip.AddrPort.String prints, not v4-mapped) it must come back byte-identical. v4-mapped
//     literals carrying a zone are left undecided in this direction.

import (
	"fmt"
	"net"
	"net/netip"
	"os"
	"regexp"
	"strings"
	"sync"
)

// c06Cfg is the covert policy part of a station configuration.
type c06Cfg struct {
	Block   []string `json:"block,omitempty"`
	Allow   []string `json:"allow,omitempty"`
	Domains []string `json:"domains,omitempty"`
	Public  bool     `json:"public_addrs,omitempty"`
}

func (c c06Cfg) regConfig() *RegConfig {
	conf := &RegConfig{
		EnableIPv4:                 true,
		EnableIPv6:                 true,
		CovertBlocklistSubnets:     append([]string(nil), c.Block...),
		CovertAllowlistSubnets:     append([]string(nil), c.Allow...),
		CovertBlocklistDomains:     append([]string(nil), c.Domains...),
		CovertBlocklistPublicAddrs: c.Public,
	}
	conf.ParseBlocklists()
	return conf
}

type c06Policy struct {
	block []netip.Prefix
	allow []netip.Prefix
	dom   []*regexp.Regexp
}

// c06NormPrefix reads a CIDR string; host bits are dropped, v4-mapped prefixes become IPv4.
func c06NormPrefix(s string) (netip.Prefix, error) {
	p, err := netip.ParsePrefix(s)
	if err != nil {
		return netip.Prefix{}, err
	}
	a, bits := p.Addr(), p.Bits()
	if a.Is4In6() {
		if bits < 96 {
			return netip.Prefix{}, fmt.Errorf("v4-mapped prefix shorter than /96 is outside the generated domain: %s", s)
		}
		a, bits = a.Unmap(), bits-96
	}
	return netip.PrefixFrom(a, bits).Masked(), nil
}

var (
	c06IfOnce sync.Once
	c06IfNets []netip.Prefix
	c06IfErr  error
)

// c06InterfaceNets lists the subnets of the local interfaces (covert_blocklist_public_addrs).
func c06InterfaceNets() ([]netip.Prefix, error) {
	c06IfOnce.Do(func() {
		as, err := net.InterfaceAddrs()
		if err != nil {
			c06IfErr = err
			return
		}
		for _, a := range as {
			n, ok := a.(*net.IPNet)
			if !ok {
				continue
			}
			ip, ok := netip.AddrFromSlice(n.IP)
			if !ok {
				continue
			}
			ip = ip.Unmap()
			ones, bits := n.Mask.Size()
			if bits == 128 && ip.Is4() {
				ones -= 96
			}
			if ones < 0 || bits == 0 {
				continue
			}
			c06IfNets = append(c06IfNets, netip.PrefixFrom(ip, ones).Masked())
		}
	})
	return c06IfNets, c06IfErr
}

func c06NewPolicy(c c06Cfg) (*c06Policy, error) {
	p := &c06Policy{}
	for _, s := range c.Block {
		x, err := c06NormPrefix(s)
		if err != nil {
			return nil, err
		}
		p.block = append(p.block, x)
	}
	for _, s := range c.Allow {
		x, err := c06NormPrefix(s)
		if err != nil {
			return nil, err
		}
		p.allow = append(p.allow, x)
	}
	for _, s := range c.Domains {
		r, err := regexp.Compile(s)
		if err != nil {
			return nil, err
		}
		p.dom = append(p.dom, r)
	}
	if c.Public {
		nets, err := c06InterfaceNets()
		if err != nil {
			return nil, err
		}
		p.block = append(p.block, nets...)
	}
	return p, nil
}

// c06Plain strips the zone and unmaps a v4-mapped address.
func c06Plain(a netip.Addr) netip.Addr { return a.WithZone("").Unmap() }

func c06In(ps []netip.Prefix, a netip.Addr) bool {
	for _, p := range ps {
		if p.Contains(a) {
			return true
		}
	}
	return false
}

// permitted says whether the station may dial a.
func (p *c06Policy) permitted(a netip.Addr) (ok, inAllow, inBlock bool) {
	a = c06Plain(a)
	inAllow, inBlock = c06In(p.allow, a), c06In(p.block, a)
	if len(p.allow) > 0 {
		return inAllow, inAllow, inBlock
	}
	return !inBlock, inAllow, inBlock
}

func (p *c06Policy) domainMatch(host string) bool {
	for _, r := range p.dom {
		if r.MatchString(host) {
			return true
		}
	}
	return false
}

// c06Split is an independent reading of "host:port" / "[host]:port".
func c06Split(s string) (host, port string, ok bool) {
	if strings.HasPrefix(s, "[") {
		i := strings.IndexByte(s, ']')
		if i < 0 || i+1 >= len(s) || s[i+1] != ':' {
			return "", "", false
		}
		return s[1:i], s[i+2:], true
	}
	i := strings.LastIndexByte(s, ':')
	if i < 0 {
		return "", "", false
	}
	return s[:i], s[i+1:], true
}

// c06DecimalPort: ASCII digits only, value 0..65535. canonical = no superfluous leading zero.
func c06DecimalPort(s string) (v uint16, ok, canonical bool) {
	if s == "" {
		return 0, false, false
	}
	n := 0
	for i := 0; i < len(s); i++ {
		if s[i] < '0' || s[i] > '9' {
			return 0, false, false
		}
		n = n*10 + int(s[i]-'0')
		if n > 65535 {
			return 0, false, false
		}
	}
	return uint16(n), true, len(s) == 1 || s[0] != '0'
}

var (
	c06HostsOnce sync.Once
	c06Hosts     map[string]bool
)

// c06InHostsFile: names the pure-Go resolver answers from /etc/hosts without asking DNS; their
// addresses are not scripted, so the "one of the answers" clause is not asserted for them.
func c06InHostsFile(name string) bool {
	c06HostsOnce.Do(func() {
		c06Hosts = map[string]bool{}
		b, err := os.ReadFile("/etc/hosts")
		if err != nil {
			return
		}
		for _, ln := range strings.Split(string(b), "\n") {
			if i := strings.IndexByte(ln, '#'); i >= 0 {
				ln = ln[:i]
			}
			f := strings.Fields(ln)
			for _, n := range f[min(1, len(f)):] {
				c06Hosts[strings.ToLower(strings.TrimSuffix(n, "."))] = true
			}
		}
	})
	return c06Hosts[strings.ToLower(strings.TrimSuffix(name, "."))]
}

// c06Verdict is what the oracle says about one admission decision.
type c06Verdict struct {
	Key     string // "" = conforms
	Msg     string
	Classes []string
	Nontriv bool
}

func c06Failing(q []c06Query) bool {
	for _, x := range q {
		if x.Mode != "answer" && x.Mode != "nxdomain" {
			return true
		}
	}
	return false
}

// c06Judge checks result (what the station stored / will dial for input covert under cfg) against
// the property. served = the DNS queries answered while the station decided. prior = queries answered
// during earlier admissions on the same long-lived station (histories): the property does not forbid
// a station from remembering an earlier answer for the same name, so such an answer also counts as
// "answered" — the policy clauses are still judged against the configuration in force now.
func c06Judge(covert string, cfg c06Cfg, result string, served []c06Query, prior ...c06Query) (v c06Verdict) {
	add := func(c string) { v.Classes = append(v.Classes, c) }
	pol, err := c06NewPolicy(cfg)
	if err != nil {
		v.Key, v.Msg = "harness", "reference cannot read the configuration: "+err.Error()
		return
	}
	if len(pol.allow) > 0 {
		add("cfg:allowlist")
	} else if len(pol.block) > 0 {
		add("cfg:blocklist")
	} else {
		add("cfg:no-subnets")
	}
	if len(pol.dom) > 0 {
		add("cfg:domains")
	}
	host, port, splitOK := c06Split(covert)
	pv, pOK, pCanon := c06DecimalPort(port)
	lit, litErr := netip.ParseAddr(host)
	isLit := splitOK && litErr == nil
	dm := splitOK && pol.domainMatch(host)
	if dm {
		add("in:domain-match")
	}
	if isLit {
		ok, ia, ib := pol.permitted(lit)
		if ia && ib {
			add("in:literal-in-allow-and-block")
		}
		if ok {
			add("in:literal-permitted")
		} else {
			add("in:literal-forbidden")
			v.Nontriv = true
		}
		if lit.Is4In6() {
			add("in:v4-mapped-literal")
		}
		if lit.Zone() != "" {
			add("in:zoned-literal")
		}
	}
	if len(served) > 0 {
		add("dns:queried")
		v.Nontriv = true
	}

	if result == "" {
		add("out:rejected")
		// must-accept direction
		ap, err := netip.ParseAddrPort(covert)
		if err != nil || !pCanon || !splitOK {
			return
		}
		a := ap.Addr()
		if a.Is4In6() && a.Zone() != "" {
			return
		}
		if dm {
			v.Nontriv = true
			return
		}
		if ok, _, _ := pol.permitted(a); !ok {
			return
		}
		canonical := !a.Is4In6() && ap.String() == covert
		if canonical {
			v.Key = "covert:canonical-rejected"
			v.Msg = fmt.Sprintf("well-formed, permitted, canonical %q was rejected", covert)
		} else {
			v.Key = "covert:wellformed-rejected"
			v.Msg = fmt.Sprintf("well-formed, permitted %q (= %s) was rejected", covert, ap)
		}
		return
	}

	add("out:accepted")
	if result != covert {
		add("out:rewritten")
		v.Nontriv = true
	}
	// (1) a literal IP and a decimal port
	rap, err := netip.ParseAddrPort(result)
	if err != nil {
		rh, rp, ok := c06Split(result)
		_, dec, _ := c06DecimalPort(rp)
		switch {
		case ok && rh == "":
			v.Key = "covert:empty-host"
			v.Msg = fmt.Sprintf("input %q accepted as %q: no host, net.Dial connects to the local host", covert, result)
		case ok && !dec:
			v.Key = "covert:bad-port"
			v.Msg = fmt.Sprintf("input %q accepted as %q: port %q is not a decimal number 0..65535", covert, result, rp)
		default:
			v.Key = "covert:not-literal"
			v.Msg = fmt.Sprintf("input %q accepted as %q, which is not a literal IP:port (%v): net.Dial would hand the host to the resolver", covert, result, err)
		}
		return
	}
	if !splitOK {
		v.Key = "covert:unsplittable-accepted"
		v.Msg = fmt.Sprintf("input %q has no host:port structure but was accepted as %q", covert, result)
		return
	}
	ra := rap.Addr()

	// names: which lookup produced the literal?
	var first, later []netip.Addr
	perKey := map[string]int{}
	if !isLit {
		add("in:name")
		for _, q := range served {
			perKey[q.Name+"|"+q.Type]++
			for _, s := range q.Served {
				if a, err := netip.ParseAddr(s); err == nil {
					as := []netip.Addr{c06Plain(a)}
					if a == netip.IPv6Unspecified() {
						// package net turns a lone "::" answer into "::, else 0.0.0.0" (golang.org/issue/18806):
						// both are the unspecified address, so 0.0.0.0 counts as answered too.
						as = append(as, netip.IPv4Unspecified())
					}
					if q.Index == 0 {
						first = append(first, as...)
					} else {
						later = append(later, as...)
					}
				}
			}
		}
		if !c06Failing(served) {
			for k, n := range perKey {
				if n > 1 {
					in1, in2 := false, false
					for _, a := range first {
						in1 = in1 || a == c06Plain(ra)
					}
					for _, a := range later {
						in2 = in2 || a == c06Plain(ra)
					}
					if !in1 && in2 {
						v.Key = "covert:rebinding"
						v.Msg = fmt.Sprintf("name in %q was looked up %d times (%s) and the accepted literal %q comes from a later lookup than the first", covert, n, k, result)
					} else {
						v.Key = "covert:multiple-lookups"
						v.Msg = fmt.Sprintf("name in %q was looked up %d times (%s) for one admission decision; result %q", covert, n, k, result)
					}
					return
				}
			}
		}
	}

	// (3) domain pattern
	if dm {
		v.Key = "covert:blocked-domain-accepted"
		v.Msg = fmt.Sprintf("host %q of input %q matches a blocklisted domain pattern %q but was accepted as %q", host, covert, cfg.Domains, result)
		return
	}
	// (2) subnet policy
	if ok, _, _ := pol.permitted(ra); !ok {
		if len(pol.allow) > 0 {
			v.Key = "covert:not-allowlisted-accepted"
			v.Msg = fmt.Sprintf("input %q accepted as %q although %s is outside the allowlist %q", covert, result, c06Plain(ra), cfg.Allow)
		} else {
			v.Key = "covert:blocklisted-accepted"
			v.Msg = fmt.Sprintf("input %q accepted as %q although %s is inside the blocklist %q (public_addrs=%v)", covert, result, c06Plain(ra), cfg.Block, cfg.Public)
		}
		return
	}
	// the port that was given is the port that is dialled
	if !pOK || pv != rap.Port() {
		v.Key = "covert:port-changed"
		v.Msg = fmt.Sprintf("input %q (port text %q) accepted as %q", covert, port, result)
		return
	}
	if isLit {
		// the literal that was given is the literal that is dialled
		if c06Plain(lit) != c06Plain(ra) || (!lit.Is4In6() && lit.Zone() != ra.Zone()) {
			v.Key = "covert:literal-changed"
			v.Msg = fmt.Sprintf("literal input %q accepted as a different address %q", covert, result)
			return
		}
		// (4) canonical input comes back unchanged
		if ap, err := netip.ParseAddrPort(covert); err == nil && pCanon && !ap.Addr().Is4In6() && ap.String() == covert {
			add("in:canonical")
			if result != covert {
				v.Key = "covert:canonical-changed"
				v.Msg = fmt.Sprintf("canonical permitted input %q came back as %q", covert, result)
				return
			}
		}
		return
	}
	// (5) names: the literal is one of the answers of the lookup made
	if c06InHostsFile(host) {
		add("in:hosts-file-name")
		return
	}
	add("out:name-accepted")
	if len(perKey) > 0 && len(later) > 0 {
		add("dns:retried")
	}
	for _, a := range append(first, later...) {
		if a == c06Plain(ra) {
			return
		}
	}
	hn := strings.ToLower(strings.TrimSuffix(host, "."))
	for _, q := range prior {
		if q.Name != hn {
			continue
		}
		for _, s := range q.Served {
			if a, err := netip.ParseAddr(s); err == nil && (c06Plain(a) == c06Plain(ra) || (a == netip.IPv6Unspecified() && ra == netip.IPv4Unspecified())) {
				add("out:name-answer-from-earlier-admission")
				return
			}
		}
	}
	v.Key = "covert:unanswered-address"
	v.Msg = fmt.Sprintf("name input %q accepted as %q, which is none of the addresses the resolver answered (%v)", covert, result, served)
	return
}
