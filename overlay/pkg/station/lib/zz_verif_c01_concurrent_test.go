package lib

// C01 under concurrency — station == client for the same inputs also when the station derives many
// registrations at the same moment on a selector that has just been (re)loaded.
//
// The station's ingest workers call NewRegistrationC2SWrapper concurrently on ONE shared
// PhantomIPSelector; the client derives alone. Anything the station's derivation keeps or rearranges
// in shared state (a group list put in order in place, lazily built tables) only shows in the first
// burst after a start / SIGHUP reload and only when several workers run at once. Every round therefore
//
//	1. computes, single-threaded, what the client library and the reference derive for G registrations
//	   (and what the station derives for each of them alone) — the ordinary c01Eval of derive;
//	2. builds a brand-new station selector the way the station does (phantom_subnets.toml through the
//	   loader; installed either by assignment or by RegistrationManager.OnReload) whose weighted groups
//	   are NOT listed in ascending weight order;
//	3. releases G goroutines from a barrier, each building its registration with
//	   NewRegistrationC2SWrapper (library versions 2-4 mixed with 0/1, every transport, both families);
//	4. judges every concurrent station result with the derive oracle against client and reference and
//	   against the station's own sequential result.
//
// Schedules are stress-sampled. The unit is built with -race (checks.d/C01.json): overlapping
// unsynchronised access inside the derivation is reported by the race detector even in rounds whose
// results happen to agree.

import (
	"bytes"
	"crypto/sha256"
	"encoding/binary"
	"fmt"
	"os"
	"path/filepath"
	"runtime"
	"sync"
	"sync/atomic"
	"testing"

	"github.com/refraction-networking/conjure/pkg/phantoms"
	pb "github.com/refraction-networking/conjure/proto"
	"pgregory.net/rapid"
	"verif/harness/c01ref"
	"verif/harness/vh"
)

type c01ConcCase struct {
	NGroups  int    `json:"ngroups"`
	Order    string `json:"order"` // descending | shuffled | nine-one | ascending (control)
	Perm     uint64 `json:"perm"`  // shuffled: drives the permutation of the weights 1..NGroups
	G        int    `json:"goroutines"`
	Rounds   int    `json:"rounds"`
	Gen      uint32 `json:"gen"`
	SeedBase vh.Hex `json:"seed_base"`
}

func (c *c01ConcCase) groups() []c01ref.Group {
	w := make([]uint32, c.NGroups)
	switch c.Order {
	case "descending":
		for i := range w {
			w[i] = uint32(c.NGroups - i)
		}
	case "ascending":
		for i := range w {
			w[i] = uint32(i + 1)
		}
	case "nine-one":
		for i := range w {
			w[i] = []uint32{9, 1}[i%2]
		}
	default:
		for i := range w {
			w[i] = uint32(i + 1)
		}
		var st [8]byte
		binary.BigEndian.PutUint64(st[:], c.Perm)
		h := sha256.Sum256(st[:])
		for i := len(w) - 1; i > 0; i-- {
			h = sha256.Sum256(h[:])
			j := int(binary.BigEndian.Uint64(h[:8]) % uint64(i+1))
			w[i], w[j] = w[j], w[i]
		}
	}
	gs := make([]c01ref.Group, c.NGroups)
	for i := range gs {
		gs[i] = c01ref.Group{Weight: w[i], Randomize: i%3 != 1,
			Subnets: []string{fmt.Sprintf("10.%d.%d.0/24", 1+i/256, i%256), fmt.Sprintf("2001:db8:%x::/64", i+1)}}
	}
	return gs
}

var (
	c01ConcLibVers    = []uint32{2, 4, 3, 4, 2, 3, 4, 2}
	c01ConcLibVersMix = []uint32{2, 4, 1, 3, 0, 4, 2, 1}
	c01ConcTransports = []string{c01ref.Min, c01ref.Obfs4, c01ref.Prefix, c01ref.Min, c01ref.DTLS, c01ref.Prefix, c01ref.Min, c01ref.Obfs4}
)

// Every case covers both ways of installing a selector and both crews: rounds alternate between
// assignment and OnReload, and pairs of rounds alternate between an all-HKDF crew (libver 2-4) and
// one mixed with the legacy versions 0/1.
func c01ConcInstall(round int) string { return []string{"assign", "reload"}[round%2] }
func c01ConcCrew(round int) string    { return []string{"hkdf", "mixed"}[(round/2)%2] }

func (c *c01ConcCase) regCase(conf []c01GenConf, round, g int) c01Case {
	var ctr [8]byte
	binary.BigEndian.PutUint32(ctr[:4], uint32(round))
	binary.BigEndian.PutUint32(ctr[4:], uint32(g))
	h := sha256.New()
	h.Write(c.SeedBase)
	h.Write(ctr[:])
	lv := c01ConcLibVers[(g+round)%len(c01ConcLibVers)]
	if c01ConcCrew(round) == "mixed" {
		lv = c01ConcLibVersMix[(g+round)%len(c01ConcLibVersMix)]
	}
	tr := c01ConcTransports[(g+2*round)%len(c01ConcTransports)]
	if lv < 3 && tr == c01ref.Prefix {
		tr = c01ref.Min
	}
	return c01Case{Secret: h.Sum(nil), LibVer: lv, Gen: c.Gen, Conf: conf, V6: (g+round)%3 == 0, Transport: tr,
		ParamMode: "set", Randomize: g%4 != 3, PrefixID: int32(1 + (g+round)%9), Flush: int32(g % 3), Source: int32(pb.RegistrationSource_API)}
}

func c01ConcCheck(t vh.Fataler, rec *vh.Rec, env *c01Env, c *c01ConcCase) {
	if c.NGroups < 1 || c.G < 1 || c.Rounds < 1 {
		t.Fatalf("harness problem: malformed concurrent case")
	}
	conf := []c01GenConf{{Gen: c.Gen, Groups: c.groups(), ExplicitFalse: true}}
	classes := []string{"order:" + c.Order, fmt.Sprintf("groups:%d", c.NGroups)}
	if c.G >= 16 {
		classes = append(classes, "G>=16")
	}
	rm := env.e.rm
	path := filepath.Join(env.dir, "phantom_subnets_cold.toml")
	toml := []byte(c01TOML(conf))
	type res struct {
		side c01Side
	}
	var viols []c01Viol
	compared := int64(0)
	for round := 0; round < c.Rounds && len(viols) == 0; round++ {
		// 1. expectations, single-threaded
		cases := make([]c01Case, c.G)
		outs := make([]c01Out, c.G)
		wrappers := make([]*pb.C2SWrapper, c.G)
		for g := 0; g < c.G; g++ {
			cases[g] = c.regCase(conf, round, g)
			o, herr := c01Eval(env, &cases[g])
			if herr != nil {
				t.Fatalf("harness problem: %v (case %s)", herr, c01JSON(cases[g]))
			}
			outs[g] = o
			_, params, err := c01Client(&cases[g])
			if err != nil {
				t.Fatalf("harness problem: client set-up: %v", err)
			}
			wrappers[g] = c01BuildWrapper(&cases[g], params, !cases[g].V6, cases[g].V6)
		}
		// 2. a selector nothing has used yet, installed the way the station installs one
		if err := os.WriteFile(path, toml, 0o644); err != nil {
			t.Fatalf("harness problem: %v", err)
		}
		install := c01ConcInstall(round)
		rec.Class("rounds:install:" + install)
		rec.Class("rounds:crew:" + c01ConcCrew(round))
		if install == "reload" {
			vSubnetMu.Lock()
			os.Setenv("PHANTOM_SUBNET_LOCATION", path)
			old := rm.PhantomSelector
			rm.OnReload(rm.RegConfig)
			vSubnetMu.Unlock()
			if rm.PhantomSelector == old {
				t.Fatalf("harness problem: OnReload did not install a new selector")
			}
		} else {
			sel, err := phantoms.SubnetsFromTomlFile(path)
			if err != nil {
				t.Fatalf("harness problem: %v", err)
			}
			rm.PhantomSelector = sel
		}
		// 3. the burst
		results := make([]res, c.G)
		var ready, start int32
		var wg sync.WaitGroup
		for g := 0; g < c.G; g++ {
			wg.Add(1)
			go func(g int) {
				defer wg.Done()
				results[g].side.Port = -1
				defer c01Recover(&results[g].side)
				atomic.AddInt32(&ready, 1)
				for atomic.LoadInt32(&start) == 0 {
					runtime.Gosched()
				}
				reg, err := rm.NewRegistrationC2SWrapper(wrappers[g], cases[g].V6)
				if err != nil {
					results[g].side.Err = err.Error()
					return
				}
				s := &results[g].side
				s.OK = true
				s.Seed = append([]byte(nil), reg.Keys.ConjureSeed...)
				s.IP = append([]byte(nil), reg.PhantomIp...)
				s.Port = int(reg.PhantomPort)
				s.Ident = []byte(rm.registeredDecoys.transports[reg.Transport].GetIdentifier(reg))
			}(g)
		}
		for atomic.LoadInt32(&ready) != int32(c.G) {
			runtime.Gosched()
		}
		atomic.StoreInt32(&start, 1)
		wg.Wait()
		// 4. judge
		for g := 0; g < c.G && len(viols) == 0; g++ {
			o := outs[g]
			seq := o.Station
			o.Station = results[g].side
			o.Again = ""
			_, _, vs := c01Judge(env, &cases[g], &o)
			compared++
			who := fmt.Sprintf("[round %d, goroutine %d of %d released together on a freshly %s selector, libver %d, %s] ", round, g, c.G, map[string]string{"reload": "reloaded", "assign": "loaded"}[install], cases[g].LibVer, cases[g].Transport)
			for _, v := range vs {
				viols = append(viols, c01Viol{"concurrent:" + v.Key, who + v.Msg})
			}
			if len(vs) == 0 && (seq.OK != o.Station.OK || !bytes.Equal(seq.IP, o.Station.IP) || seq.Port != o.Station.Port || !bytes.Equal(seq.Ident, o.Station.Ident)) {
				viols = append(viols, c01Viol{"concurrent:station!=station-alone", who + fmt.Sprintf("station alone derives %s:%d (ok=%v), in the burst %s:%d (ok=%v %s)", c01IPStr(seq.IP), seq.Port, seq.OK, c01IPStr(o.Station.IP), o.Station.Port, o.Station.OK, o.Station.Err)})
			}
		}
	}
	rec.ClassN("registrations-compared", compared)
	rec.Case(c.Order != "ascending", vh.Digest(c), c, classes...)
	for _, v := range viols {
		rec.Violation(t, v.Key, c, "%s", v.Msg)
	}
}

const c01ConcRule = "rapid-generated bursts: a generation of 2-64 weighted groups listed in descending / shuffled / 9,1 (rarely ascending: control) weight order, written as phantom_subnets.toml and loaded into a brand-new station selector every round (rounds alternate between assignment and RegistrationManager.OnReload); 8-32 goroutines released from a barrier each build one registration with NewRegistrationC2SWrapper (pairs of rounds alternate between libver 2-4 and a crew mixed with 0/1; min/obfs4/prefix/dtls; v4/v6; hash-derived secrets); every concurrent station result is judged with the derive oracle against the client entry points, the reference and the station's own sequential result (all computed single-threaded beforehand). Built with -race. Non-trivial: weights not in ascending order. Distinct = distinct case; registrations-compared counts the concurrent derivations judged."

func TestVerif_C01_concurrent(t *testing.T) {
	rec := vh.NewRec("C01", "concurrent", c01ConcRule)
	defer rec.Flush()
	env := c01NewEnv(t)
	if p := vh.ReplayFile(); p != "" {
		var c c01ConcCase
		if _, _, err := vh.LoadReplay(p, &c); err != nil {
			t.Fatal(err)
		}
		c01ConcCheck(t, rec, env, &c)
		return
	}
	rec.Require("rounds:install:assign", "rounds:install:reload", "rounds:crew:hkdf", "rounds:crew:mixed", "G>=16", "registrations-compared")
	rapid.Check(t, func(rt *rapid.T) {
		c := c01ConcCase{
			NGroups:  rapid.SampledFrom([]int{16, 64, 5, 2, 32}).Draw(rt, "ngroups"),
			Order:    rapid.SampledFrom([]string{"descending", "shuffled", "descending", "nine-one"}).Draw(rt, "order"),
			G:        rapid.SampledFrom([]int{16, 8, 32, 16}).Draw(rt, "G"),
			Rounds:   rapid.IntRange(vh.Pick(4, 10), vh.Pick(8, 40)).Draw(rt, "rounds"),
			Gen:      rapid.SampledFrom([]uint32{1164, 957, 1}).Draw(rt, "gen"),
			SeedBase: rapid.SliceOfN(rapid.Byte(), 8, 8).Draw(rt, "seedbase"),
		}
		if c.Order == "nine-one" && c.NGroups > 5 {
			c.NGroups = 5 // equal weights: keep to the list sizes whose tie order is defined
		}
		if c.Order == "shuffled" {
			c.Perm = rapid.Uint64().Draw(rt, "perm")
		}
		if rapid.IntRange(0, 9).Draw(rt, "control") == 0 {
			c.Order = "ascending"
		}
		c01ConcCheck(rt, rec, env, &c)
	})
}
