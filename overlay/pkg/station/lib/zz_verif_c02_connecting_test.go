package lib

// C02 (connecting transports) — for a connecting transport (DTLS) the tunnel is not opened by an
// incoming first flight but by the station itself, which dials the client when the registration is
// ingested. "Only a validated registration opens a tunnel" then reads: the station dials (and
// relays to the covert) only for a registration that this very delivery made valid, with the covert
// address that passed the policy - never for a delivery that was refused (forbidden covert, live
// phantom), and never again for a repeated delivery of a registration that is already tracked,
// validated or not.

import (
	"fmt"
	"net"
	"runtime"
	"testing"
	"time"

	pb "github.com/refraction-networking/conjure/proto"
	"google.golang.org/protobuf/proto"
	"pgregory.net/rapid"
	"verif/harness/vh"
)

type c02cMsg struct {
	Kind   string `json:"kind"`   // deliver | expire
	Secret int    `json:"secret"` // 0..2
	Covert string `json:"covert"` // ok | ok2 | bad | malformed
	Live   bool   `json:"live"`   // verdict of the liveness probe for this delivery (IPv4 phantoms only)
	V6     bool   `json:"v6"`
	Dial   string `json:"dial"` // outcome of the station's dial, if it dials
	Source int    `json:"source"`
}

type c02cCase struct {
	Msgs []c02cMsg `json:"msgs"`
}

var c02cCoverts = map[string]string{"ok": "198.51.100.10:443", "ok2": "198.51.100.20:8443", "bad": "127.0.0.1:22", "malformed": "no-port"}
var c02cSources = []pb.RegistrationSource{pb.RegistrationSource_API, pb.RegistrationSource_Detector, pb.RegistrationSource_BidirectionalAPI, pb.RegistrationSource_DNS}

func TestVerif_C02_connecting(t *testing.T) {
	rec := vh.NewRec("C02", "connecting", "rapid-generated delivery histories for connecting-transport (DTLS) registrations through the real parseRegMessage + ingestRegistration with a scripted transport: 1-8 deliveries over 3 secrets x covert {permitted, permitted-2, blocklisted, malformed} x liveness verdict x family x source, repeated deliveries, expiry sweeps in between; oracle: the station dials the client (= opens the tunnel) exactly when a delivery makes a registration valid, once, for the tracked registration object, with the covert that passed the policy; a refused or repeated delivery never causes a dial; non-trivial = a history with a refused delivery followed by another delivery for the same secret; distinct by case")
	defer rec.Flush()
	rec.Require("dial-expected", "refused-then-redelivered", "duplicate-of-valid")
	tr := newVConnTransport()
	st := newVConnStats()
	e := vNewEnv(t, &RegConfig{EnableIPv4: true, EnableIPv6: true, CovertBlocklistSubnets: []string{"127.0.0.0/8", "10.0.0.0/8"}}, "")
	e.rm.connectingStats = st
	if err := e.rm.AddTransport(pb.TransportType_DTLS, tr); err != nil {
		t.Fatalf("harness problem: %v", err)
	}
	deliver := func(secret []byte, covert string, v6 bool, src pb.RegistrationSource) (int, error) {
		w := vWrapper(secret, pb.TransportType_DTLS, 0, covert, !v6, v6, 4, 957, src, net.ParseIP("198.51.100.7").To4())
		w.RegistrationPayload.TransportParams = nil
		b, err := proto.Marshal(w)
		if err != nil {
			return 0, err
		}
		regs, err := e.rm.parseRegMessage(b)
		if err != nil {
			return 0, nil // the station refuses the message as a whole
		}
		n := 0
		for _, reg := range regs {
			if reg != nil {
				e.rm.ingestRegistration(reg)
				n++
			}
		}
		return n, nil
	}
	sentinel := 0
	// settle: every dial the station started for earlier deliveries has been made by the time the
	// dial for a fresh, certainly valid registration has completed
	settle := func(tf vh.Fataler) {
		sentinel++
		sec := vSecret(9000 + sentinel)
		tr.Script(sec, "fail")
		e.live.Verdict = nil
		if n, err := deliver(sec, c02cCoverts["ok"], false, pb.RegistrationSource_API); err != nil || n != 1 {
			tf.Fatalf("harness problem: sentinel delivery: %d registrations, %v", n, err)
		}
		want := fmt.Sprintf("%x", sec)
		deadline := time.Now().Add(30 * time.Second)
		for {
			for _, d := range tr.Dials() {
				if d.Secret == want {
					for i := 0; i < 20; i++ {
						runtime.Gosched()
					}
					return
				}
			}
			if time.Now().After(deadline) {
				tf.Fatalf("harness problem: the station never dialled for a fresh valid connecting-transport registration; station log: %s", e.logs.String())
			}
			time.Sleep(100 * time.Microsecond)
		}
	}
	run := func(tf vh.Fataler, c c02cCase) {
		e.resetRegistry()
		tr.ClearDials()
		type ent struct{ valid bool }
		model := map[string]*ent{} // secret|family
		refused := map[int]bool{}
		classes := map[string]bool{}
		for step, m := range c.Msgs {
			if m.Kind == "expire" {
				e.vShiftAll(11 * time.Minute)
				e.rm.RemoveOldRegistrations()
				// connecting-transport registrations that carried a connection stay (6 h); the model
				// only needs to know what is certainly gone: everything that never connected
				for k, en := range model {
					_ = en
					delete(model, k)
				}
				// forget everything in the registry as well, so that model and registry agree
				// whatever the dial outcomes were
				e.resetRegistry()
				continue
			}
			sec := vSecret(7100 + m.Secret)
			key := fmt.Sprintf("%d|%v", m.Secret, m.V6)
			tr.Script(sec, m.Dial)
			live := m.Live
			e.live.Verdict = func(string, uint16) (bool, error) { return live, nil }
			before := len(tr.Dials())
			built, err := deliver(sec, c02cCoverts[m.Covert], m.V6, c02cSources[m.Source%len(c02cSources)])
			if err != nil {
				tf.Fatalf("harness problem: %v", err)
			}
			en, tracked := model[key]
			dialsOf := func() []vDial {
				var mine []vDial
				for _, d := range tr.Dials()[before:] {
					if d.Secret == fmt.Sprintf("%x", sec) {
						mine = append(mine, d)
					}
				}
				return mine
			}
			if built > 0 && !tracked && (m.Covert == "ok" || m.Covert == "ok2") && (m.V6 || !m.Live) {
				// a dial is expected: it is made by a goroutine the ingest step started, wait for it
				// (only its absence after a long wait is a finding)
				for deadline := time.Now().Add(30 * time.Second); time.Now().Before(deadline) && len(dialsOf()) == 0; time.Sleep(100 * time.Microsecond) {
				}
			}
			// fence for the dials that must NOT happen (best effort: a dial that is made even later
			// than the sentinel's is missed, never invented)
			settle(tf)
			mine := dialsOf()
			passes := (m.Covert == "ok" || m.Covert == "ok2") && (m.V6 || !m.Live)
			wantDial := false
			switch {
			case built == 0:
				// e.g. an IPv6 registration whose seed selects a subnet group without IPv6 subnets:
				// the station refuses the message, nothing is tracked
				classes["message-refused"] = true
			case tracked && en.valid:
				classes["duplicate-of-valid"] = true
			case tracked:
				classes["refused-then-redelivered"] = true
			case m.Covert == "malformed" || m.Covert == "bad" || !passes:
				model[key] = &ent{}
				refused[m.Secret] = true
			default:
				model[key] = &ent{valid: true}
				wantDial = true
				classes["dial-expected"] = true
			}
			if !wantDial && len(mine) > 0 {
				why := "the delivery was refused"
				if tracked {
					why = fmt.Sprintf("the registration was already tracked (validated=%v) and this is a repeated delivery", en.valid)
				}
				rec.Case(true, vh.Digest(c), c, "violating")
				rec.Violation(tf, "dialled-without-validation", c, "step %d: the station dialled the client and opened a tunnel to covert %q although %s (covert class %s, liveness verdict live=%v, family v6=%v)", step, mine[0].Covert, why, m.Covert, m.Live, m.V6)
				return
			}
			if wantDial {
				if len(mine) != 1 {
					rec.Case(true, vh.Digest(c), c, "violating")
					rec.Violation(tf, "dial-count", c, "step %d: a delivery that makes the registration valid caused %d dials to the client, expected exactly 1; station log: %q", step, len(mine), c02cTail(e.logs.String()))
					return
				}
				if mine[0].Covert != c02cCoverts[m.Covert] {
					rec.Case(true, vh.Digest(c), c, "violating")
					rec.Violation(tf, "dial-covert", c, "step %d: the tunnel was opened for covert %q, the delivery that was validated named %q", step, mine[0].Covert, c02cCoverts[m.Covert])
					return
				}
				if mine[0].Reg == nil || !mine[0].Reg.Valid {
					rec.Case(true, vh.Digest(c), c, "violating")
					rec.Violation(tf, "dial-unvalidated-object", c, "step %d: the registration object the station dialled for is not marked valid", step)
					return
				}
			}
		}
		var cl []string
		for k := range classes {
			cl = append(cl, k)
		}
		rec.Case(classes["refused-then-redelivered"], vh.Digest(c), c, cl...)
	}
	if p := vh.ReplayFile(); p != "" {
		var c c02cCase
		if _, _, err := vh.LoadReplay(p, &c); err != nil {
			t.Fatal(err)
		}
		run(t, c)
		return
	}
	rapid.Check(t, func(rt *rapid.T) {
		var c c02cCase
		n := rapid.IntRange(1, 8).Draw(rt, "n")
		for i := 0; i < n; i++ {
			if rapid.IntRange(0, 7).Draw(rt, "expire") == 0 {
				c.Msgs = append(c.Msgs, c02cMsg{Kind: "expire"})
				continue
			}
			c.Msgs = append(c.Msgs, c02cMsg{
				Kind:   "deliver",
				Secret: rapid.IntRange(0, 2).Draw(rt, "secret"),
				Covert: rapid.SampledFrom([]string{"ok", "ok", "ok2", "bad", "bad", "malformed"}).Draw(rt, "covert"),
				Live:   rapid.IntRange(0, 2).Draw(rt, "live") == 0,
				V6:     rapid.IntRange(0, 3).Draw(rt, "v6") == 0,
				Dial:   rapid.SampledFrom([]string{"fail", "timeout", "ok"}).Draw(rt, "dial"),
				Source: rapid.IntRange(0, 3).Draw(rt, "source"),
			})
		}
		run(rt, c)
	})
}

func c02cTail(s string) string {
	if len(s) > 600 {
		return s[len(s)-600:]
	}
	return s
}
