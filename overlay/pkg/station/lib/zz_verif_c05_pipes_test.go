package lib

// C05 — the proxy relays byte streams faithfully and always tears both sides down.
//
// Level 1 (this file): the two halfPipes wired exactly as Proxy wires them (client->covert tagged
// "Up ...", covert->client tagged "Down ...", one WaitGroup, one tunnelStats on the global
// ProxyStats) over two scripted connections. Cases are explicit scripts (read chunkings, injected
// read / write / SetDeadline / Close results) plus the schedule string; they come from (a) an
// exhaustive enumeration of every single fault over a fixed 6-chunk script per direction, (b) pairs
// of those faults, (c) rapid-drawn scripts.
//
// Oracle (from the recorded calls, so it holds for whatever interleaving really happened):
//   per direction: the bytes offered to dst.Write are, in order and each once, the bytes src.Read
//   returned - up to the first failed write; what the destination accepted is a prefix of that
//   stream; every byte a Read returned (also together with EOF / an error) before the first write
//   failure was offered, unless the other direction had already started closing or a SetDeadline
//   failure ended the direction; accepted bytes == tunnelStats == deltas of the global counters;
//   a direction ends only because one side failed (error from Read / Write / SetDeadline, short
//   write, close by the peer direction) - a zero-length read (0, nil) is not an end of stream;
//   after the end: every direction closed both connections (unless the peer had closed that
//   connection before), its own synchronous Close of the destination was entered and returned
//   while the WaitGroup counter was still positive (only the source is closed by a detached
//   goroutine), the WaitGroup is released exactly, no goroutine is left;
//   the end of a direction is what tears the tunnel down: once a Read / Write / SetDeadline has
//   handed a failure (EOF included) to a direction, the relay must never again come to rest with the
//   tunnel still up - the harness never has to let virtual time pass (a deadline expire, a paused
//   chunk arrive) after that moment. Either connection can be scripted half-closable (it then has
//   CloseWrite / CloseRead like the *net.TCPConn Proxy dials): what the property demands is the same.

import (
	"fmt"
	"io"
	"net"
	"reflect"
	"runtime"
	"sort"
	"strings"
	"sync"
	"sync/atomic"
	"testing"
	"time"

	"github.com/refraction-networking/conjure/pkg/station/log"
	"pgregory.net/rapid"
	"verif/harness/vh"
)

type c05Case struct {
	Client c05Script `json:"client"`
	Covert c05Script `json:"covert"`
	Sched  string    `json:"sched"` // "free" or a string of 0/1 (direction that goes next when both can), then alternating
	Label  string    `json:"label,omitempty"`
}

type c05Out struct {
	key, msg string    // harness trouble or a violation that makes further judging pointless
	viols    []c05Viol // every violated rule (several can be reported; an open known finding does not hide the others)
	classes  []string
	nontriv  bool
}

type c05Counters struct {
	psUp, psDown, psCompUp, psCompDown, psZeroUp, psZeroDown, psCompleted, sessions int64
	stUp, stDown                                                                    int64
}

func c05Snap() c05Counters {
	ps := getProxyStats()
	s := Stat()
	return c05Counters{
		psUp:        atomic.LoadInt64(&ps.newBytesUp),
		psDown:      atomic.LoadInt64(&ps.newBytesDown),
		psCompUp:    atomic.LoadInt64(&ps.completeBytesUp),
		psCompDown:  atomic.LoadInt64(&ps.completeBytesDown),
		psZeroUp:    atomic.LoadInt64(&ps.zeroByteTunnelsUp),
		psZeroDown:  atomic.LoadInt64(&ps.zeroByteTunnelsDown),
		psCompleted: atomic.LoadInt64(&ps.completedSessions),
		sessions:    atomic.LoadInt64(&ps.sessionsProxying),
		stUp:        atomic.LoadInt64(&s.newBytesUp),
		stDown:      atomic.LoadInt64(&s.newBytesDown),
	}
}

// c05QuietStats makes the Stat() singleton come up without its 5 s print-and-reset ticker, which
// would zero the epoch byte counters in the middle of a case. Nothing else of Stats is changed.
var c05StatsOwned bool

func c05QuietStats(t *testing.T) {
	statsOnce.Do(func() {
		statInstance = Stats{
			logger:      log.New(io.Discard, "[STATS] ", 0),
			generations: make(map[uint32]int64),
			genMutex:    &sync.Mutex{},
		}
		c05StatsOwned = true
	})
	if !c05StatsOwned {
		t.Fatalf("harness problem: the Stat() singleton was initialised (with its reset ticker) before the C05 check could pre-empt it")
	}
	getProxyStats()
	c05Pool()
	log.SetOutput(io.Discard) // the relay logs every over-long read on the package logger
}

// c05Baseline is the goroutine count before a case. The minimum of a few samples, because the
// runtime's finalizer goroutine is counted while (and only while) it runs a finalizer.
func c05Baseline() int {
	base := runtime.NumGoroutine()
	for i := 0; i < 3; i++ {
		runtime.Gosched()
		if n := runtime.NumGoroutine(); n < base {
			base = n
		}
	}
	return base
}

// c05WaitGoroutines polls until the goroutine count is back at the baseline.
func c05WaitGoroutines(base int, limit time.Duration) bool {
	t0 := time.Now()
	for i := 0; ; i++ {
		if runtime.NumGoroutine() <= base {
			return true
		}
		if time.Since(t0) > limit {
			return false
		}
		if i < 200 {
			runtime.Gosched()
		} else {
			time.Sleep(200 * time.Microsecond)
		}
	}
}

// c05RelayGoroutines returns the (abridged) stacks of goroutines that are inside the relay code, and
// whether one of them is inside halfPipe / is Proxy blocked in WaitGroup.Wait.
func c05RelayGoroutines() (stacks []string, inPipe, proxyWaits bool) {
	buf := make([]byte, 1<<20)
	buf = buf[:runtime.Stack(buf, true)]
	for _, g := range strings.Split(string(buf), "\n\n") {
		if strings.Contains(g, "c05RelayGoroutines") {
			continue
		}
		pipe := strings.Contains(g, "station/lib.halfPipe")
		prox := strings.Contains(g, "station/lib.Proxy(")
		if !pipe && !prox {
			continue
		}
		if pipe {
			inPipe = true
		}
		if prox && !pipe && strings.Contains(g, "WaitGroup).Wait") {
			proxyWaits = true
		}
		lines := strings.Split(g, "\n")
		if len(lines) > 24 {
			lines = lines[:24]
		}
		stacks = append(stacks, strings.Join(lines, " | "))
	}
	return
}

// c05RelayCensus counts, in one consistent snapshot of all goroutines, the halfPipe goroutines proper
// (the function itself is on the stack), the detached closers (only a closure of halfPipe is), and
// tells whether Proxy is blocked in WaitGroup.Wait.
func c05RelayCensus() (pipes, closers int, proxyWaits bool) {
	buf := make([]byte, 1<<20)
	buf = buf[:runtime.Stack(buf, true)]
	for _, g := range strings.Split(string(buf), "\n\n") {
		if strings.Contains(g, "c05RelayCensus") {
			continue
		}
		switch {
		case strings.Contains(g, "station/lib.halfPipe("):
			pipes++
		case strings.Contains(g, "station/lib.halfPipe.func"):
			closers++
		case strings.Contains(g, "station/lib.Proxy(") && strings.Contains(g, "WaitGroup).Wait"):
			proxyWaits = true
		}
	}
	return
}

func c05Has(evs []c05Ev, f func(c05Ev) bool) bool {
	for _, e := range evs {
		if f(e) {
			return true
		}
	}
	return false
}

// c05Classes labels what really happened in a run; nontrivial = some injected fault other than a
// plain end-of-stream (EOF alone) was hit.
func c05Classes(c c05Case, evs []c05Ev) (classes []string, nontriv bool) {
	set := map[string]bool{}
	for _, s := range [][]c05Step{c.Client.Reads, c.Covert.Reads} {
		for _, st := range s {
			switch {
			case st.N == 1:
				set["chunk:1B"] = true
			case st.N == 32768:
				set["chunk:=32KiB"] = true
			case st.N > 32768:
				set["chunk:>32KiB(split)"] = true
			case st.N > 0:
				set["chunk:<32KiB"] = true
			}
		}
	}
	if c.Sched == "free" {
		set["sched:free"] = true
	} else {
		set["sched:controlled"] = true
	}
	for _, e := range evs {
		if e.Op == "close-ret" {
			continue
		}
		if e.DLDriven && e.Op == "read" {
			set["timeout:deadline-expired(virtual clock)"] = true
		}
		if e.DLDriven && e.Op == "write" {
			set["timeout:write-deadline-expired(virtual clock)"] = true
		}
		if e.Op == "write" && e.N > 0 && e.Off == 0 && e.VT >= 30*time.Second {
			set["stream:first-reply-after-30s-delivered"] = true
		}
		if e.Op == "read" && e.N > 0 && e.VT >= 30*time.Second {
			set["stream:still-relaying-after-30s"] = true
		}
		if e.Op == "read" && e.N > 0 && e.VT >= 2*time.Minute {
			set["stream:still-relaying-after-2min"] = true
		}
		if e.Err == "closed" && e.Op != "close" {
			set["stopped-by-close:at-"+e.Op] = true
			continue
		}
		if !e.Fault {
			continue
		}
		switch e.Op {
		case "read":
			if e.Over != 0 {
				nontriv = true
				if e.Err == "" {
					set["read:reports-more-than-buffer"] = true
				} else {
					set["read:reports-more-than-buffer+err"] = true
				}
			} else if e.N == 0 && e.Err == "" {
				set["read:zero-length"] = true
				nontriv = true
			} else if e.N > 0 {
				set["read:data+"+e.Err] = true
				nontriv = true
			} else {
				set["read:"+e.Err] = true
				if e.Err != "eof" {
					nontriv = true
				}
			}
		case "write":
			nontriv = true
			switch {
			case e.Err == "":
				set["write:short"] = true
				if e.N == 0 && e.Len > 0 {
					set["write:(0,nil)"] = true
				}
			case e.N > 0:
				set["write:err+partial"] = true
				set["write:"+e.Err] = true
			default:
				set["write:err"] = true
				set["write:"+e.Err] = true
			}
		case "setdl":
			nontriv = true
			if e.Call == 0 {
				set["setdl:first"] = true
			} else {
				set["setdl:nth"] = true
			}
		case "close":
			nontriv = true
			if e.Err != "" {
				set["close:err"] = true
			} else {
				set["close:slow"] = true
			}
		}
	}
	for k := range set {
		classes = append(classes, k)
	}
	sort.Strings(classes)
	return
}

func c05Describe(e c05Ev) string {
	switch e.Op {
	case "read":
		return fmt.Sprintf("%s.Read#seq%d -> (%d bytes at offset %d, err=%q)", c05ConnName[e.Conn], e.Seq, e.N, e.Off, e.Err)
	case "write":
		return fmt.Sprintf("%s.Write#%d(seq%d) of %d bytes at offset %d -> (%d, err=%q)", c05ConnName[e.Conn], e.Call, e.Seq, e.Len, e.Off, e.N, e.Err)
	}
	return fmt.Sprintf("%s.%s#%d(seq%d) err=%q", c05ConnName[e.Conn], e.Op, e.Call, e.Seq, e.Err)
}

type c05Viol struct{ key, msg string }

// c05WGCounter reads the counter of a sync.WaitGroup (go1.23 layout: atomic.Uint64 "state", counter
// in the high 32 bits). c05WGReadable is established by a self-test; without it the
// WaitGroup-vs-Close ordering is not asserted.
func c05WGCounter(wg *sync.WaitGroup) (n int, ok bool) {
	defer func() {
		if recover() != nil {
			ok = false
		}
	}()
	st := reflect.ValueOf(wg).Elem().FieldByName("state")
	if !st.IsValid() {
		return 0, false
	}
	v := st.FieldByName("v")
	if !v.IsValid() || v.Kind() != reflect.Uint64 {
		return 0, false
	}
	return int(int32(v.Uint() >> 32)), true
}

var c05WGReadable = func() bool {
	var wg sync.WaitGroup
	read := func(want int) bool { n, ok := c05WGCounter(&wg); return ok && n == want }
	if !read(0) {
		return false
	}
	wg.Add(2)
	if !read(2) {
		return false
	}
	wg.Done()
	if !read(1) {
		return false
	}
	wg.Done()
	return read(0)
}()

// c05JudgeStreams checks fidelity, completeness, the reason of every end and teardown (attribution,
// ordering against the WaitGroup) for both directions from the recorded events. It returns every
// violated rule (at most one per rule and direction).
func c05JudgeStreams(evs []c05Ev, done [2]int) (viols []c05Viol, accepted [2]int64) {
	add := func(key, format string, a ...any) { viols = append(viols, c05Viol{key, fmt.Sprintf(format, a...)}) }
	for d := 0; d < 2; d++ {
		src, dst := d, 1-d
		var reads, writes []c05Ev
		var ownClose [2]int  // seq of the first Close this direction issued on conn
		var peerClose [2]int // seq of the first Close anybody else issued on conn
		giveUp := done[d]
		var dlErrSeq []int
		var lastIO *c05Ev // last Read / Write / SetDeadline result handed to this direction
		for i := range evs {
			e := evs[i]
			mine := false
			switch {
			case e.Op == "read" && e.Conn == src:
				reads = append(reads, e)
				mine = true
			case e.Op == "write" && e.Conn == dst:
				writes = append(writes, e)
				mine = true
			case e.Op == "setdl" && e.Dir == d:
				mine = true
				if e.Err != "" {
					dlErrSeq = append(dlErrSeq, e.Seq)
				}
			case e.Op == "close":
				if e.Dir == d {
					if ownClose[e.Conn] == 0 {
						ownClose[e.Conn] = e.Seq
					}
					if e.Seq < giveUp || giveUp == 0 {
						giveUp = e.Seq
					}
				} else if peerClose[e.Conn] == 0 {
					peerClose[e.Conn] = e.Seq
				}
			}
			if mine {
				lastIO = &evs[i]
			}
		}
		readBefore := func(seq int) int {
			n := 0
			for _, r := range reads {
				if r.Seq < seq {
					n += r.N
				}
			}
			return n
		}
		failAt := -1
		got := 0
		streamBad := false
		for j, wr := range writes {
			accepted[d] += int64(wr.N)
			if failAt < 0 && !streamBad {
				if wr.Bad >= 0 {
					add("stream:offered-differs-from-read", "%s: %s offers bytes that are not the next bytes returned by %s.Read: first difference at stream offset %d (loss, duplication, reordering or corruption)",
						c05DirName[d], c05Describe(wr), c05ConnName[src], wr.Off+wr.Bad)
					streamBad = true
				} else if rb := readBefore(wr.Seq); wr.Off+wr.Len > rb {
					add("stream:offered-more-than-read", "%s: %s offers bytes up to offset %d but only %d bytes had been read", c05DirName[d], c05Describe(wr), wr.Off+wr.Len, rb)
					streamBad = true
				} else {
					got = wr.Off + wr.Len
				}
			}
			if wr.BadDl >= 0 && !streamBad {
				add("stream:delivered-not-a-prefix", "%s: after an earlier write was only partly accepted, %s makes the destination accept bytes that do not continue what it already has (hole or repeat at delivered offset %d)",
					c05DirName[d], c05Describe(wr), wr.BadDl)
				streamBad = true
			}
			if failAt < 0 && (wr.Err != "" || wr.N < wr.Len) {
				failAt = j
			}
		}
		failSeq := int(^uint(0) >> 1)
		if failAt >= 0 {
			failSeq = writes[failAt].Seq
		}
		need := readBefore(failSeq)
		if got < need && !streamBad {
			// which Read returned the first byte that was never offered?
			var r c05Ev
			for _, x := range reads {
				if x.N > 0 && x.Off+x.N > got {
					r = x
					break
				}
			}
			excused := false
			for cidx := 0; cidx < 2; cidx++ {
				if peerClose[cidx] != 0 && peerClose[cidx] < giveUp {
					excused = true // the other direction was already tearing down: this one may stop anywhere
				}
			}
			for _, s := range dlErrSeq {
				if s > r.Seq {
					excused = true // a connection failed (SetDeadline) before the bytes could be offered
				}
			}
			if !excused {
				k := "dropped:data-read-successfully"
				what := "returned by a successful Read"
				if r.Err != "" {
					k = "dropped:data-returned-with-error"
					what = fmt.Sprintf("returned together with %q", r.Err)
				}
				add(k, "%s: %d byte(s) %s were never offered to %s.Write although it was still open and no write had failed: %s; read %d bytes, offered %d",
					c05DirName[d], need-got, what, c05ConnName[dst], c05Describe(r), need, got)
			}
		}
		if done[d] == 0 {
			continue
		}
		// a direction may only end because one side failed: its last Read returned an error (EOF, reset,
		// time-out, closed by the peer direction ...; the bytes that came with it may still have been
		// written afterwards), or the last result it was handed before it started to tear down is a
		// failed / short Write or a failed SetDeadline. A zero-length read without error is not an end.
		lastReadFailed := len(reads) > 0 && (reads[len(reads)-1].Err != "" || reads[len(reads)-1].Over != 0) // (a Read that reports more than the buffer holds has broken its contract)
		if lastIO != nil && !lastReadFailed && lastIO.Err == "" && !(lastIO.Op == "write" && lastIO.N < lastIO.Len) {
			add("ended-without-failure", "%s stopped relaying and tore the tunnel down although neither side had failed: the last result it got was %s (no error, no short write); everything after it is lost",
				c05DirName[d], c05Describe(*lastIO))
		}
		// teardown: this direction ended; it has to close both connections itself unless the other
		// direction had closed that connection before.
		for cidx := 0; cidx < 2; cidx++ {
			if ownClose[cidx] != 0 {
				continue
			}
			if peerClose[cidx] != 0 && peerClose[cidx] < giveUp {
				continue
			}
			role := "source"
			if cidx == dst {
				role = "destination"
			}
			add("teardown:"+role+"-not-closed", "%s ended but never closed its %s connection (%s), and nobody had closed it before", c05DirName[d], role, c05ConnName[cidx])
		}
		// ordering: a direction closes its destination synchronously before it signals the WaitGroup
		// (only the source is closed asynchronously). So whenever a direction's own Close of its
		// destination is entered or returns, that direction's Done is still outstanding.
		for _, e := range evs {
			if (e.Op == "close" || e.Op == "close-ret") && e.Dir == d && e.Conn == dst && e.WG == 0 {
				when := "was entered"
				if e.Op == "close-ret" {
					when = "returned"
				}
				add("teardown:waitgroup-released-before-close", "%s: the WaitGroup counter was already 0 when its Close of the destination connection (%s) %s: Proxy's wg.Wait() can return (and the tunnel be reported closed) while that connection is still open / a goroutine is still inside Close",
					c05DirName[d], c05ConnName[dst], when)
				break
			}
		}
	}
	// stall time-outs (virtual clock): a Read may only run into a deadline that was set after the
	// last chunk the tunnel relayed - every relayed chunk, in either direction, has to push the read
	// deadline of BOTH connections forward, otherwise a live one-directional stream is torn down by
	// the idle direction although no side failed. The deadline must also lie a stall time-out ahead.
	minTimeout := proxyInitTimeout
	if proxyStallTimeout < minTimeout {
		minTimeout = proxyStallTimeout
	}
	var lastRelay *c05Ev
	for i := range evs {
		e := evs[i]
		if e.Op == "write" && e.Err == "" && e.N == e.Len && e.Len > 0 {
			lastRelay = &evs[i]
		}
		if !e.DLDriven {
			continue
		}
		if lastRelay != nil && e.DLSetSeq < lastRelay.Seq {
			what := "Read"
			if e.Op == "write" {
				what = "Write"
			}
			add("premature-timeout:deadline-not-refreshed", "%s.%s timed out at virtual time %v on a %s deadline that had been set at %v (call seq%d), before the tunnel relayed its last chunk at %v (%s): relayed traffic did not push this connection's %s deadline forward (every relayed chunk has to move both deadlines of both connections), so a tunnel that is alive is torn down although neither side failed or stalled",
				c05ConnName[e.Conn], what, e.VT, strings.ToLower(what), e.DLSetVT, e.DLSetSeq, lastRelay.VT, c05Describe(*lastRelay), strings.ToLower(what))
			break
		}
		if e.DLVal-e.DLSetVT < minTimeout-time.Second {
			add("premature-timeout:deadline-too-short", "%s timed out at virtual time %v on a deadline set at %v that lay only %v ahead (the relay's time-outs are %v / %v)",
				c05ConnName[e.Conn], e.VT, e.DLSetVT, e.DLVal-e.DLSetVT, proxyInitTimeout, proxyStallTimeout)
			break
		}
	}
	return
}

// c05FirstFailure returns the first call that handed the failure of a side to a direction: a Read
// that returned an error (EOF included), a Write or SetDeadline that returned an error - not results
// that are the consequence of a Close, and not a short write with a nil error or a Read that only
// broke its contract (a relay may, but need not, go on after those).
func c05FirstFailure(evs []c05Ev) *c05Ev {
	for i := range evs {
		e := &evs[i]
		if (e.Op == "read" || e.Op == "write" || e.Op == "setdl") && e.Err != "" && e.Err != "closed" && e.Err != "harness-wait-limit" {
			return e
		}
	}
	return nil
}

// c05JudgeIdle: "when either direction ends for any reason both connections are closed, the call
// returns" - the end of a direction is the cause of the teardown. The scripted world lets virtual
// time pass only when nothing else can happen (every direction is blocked in a Read of a connection
// that nobody closed, or has returned). So if that becomes necessary after a direction has been
// handed the failure of a side, the relay has come to rest with the tunnel still up: it is waiting
// for the other side (its next chunk, its stall time-out) instead of tearing down. Decided by the
// order of calls, not by any clock.
func c05JudgeIdle(evs []c05Ev, wakes []c05Wake) *c05Viol {
	f := c05FirstFailure(evs)
	if f == nil {
		return nil
	}
	for _, wk := range wakes {
		if wk.Seq < f.Seq {
			continue
		}
		who := "a direction"
		if f.Dir >= 0 {
			who = c05DirName[f.Dir]
		}
		how := fmt.Sprintf("virtual time had to pass (%v -> %v)", wk.From, wk.To)
		if wk.NoDL {
			how = "nothing at all could have released it (no read deadline in force)"
		}
		return &c05Viol{"no-teardown:tunnel-outlives-ended-direction", fmt.Sprintf("%s was handed %s at virtual time %v - that direction is over - yet afterwards the relay came to rest with the tunnel still up: every direction was blocked in a Read of a connection nobody had closed (or had returned), and %s before the parked Read of %s went on. The end of a direction did not tear the tunnel down; it only ends when the other side happens to send, fail or stall into its own time-out",
			who, c05Describe(*f), f.VT, how, c05DirName[wk.Dir])}
	}
	return nil
}

// c05EndClasses labels how the tunnel's first end came about with respect to the half-close
// capability of the connections: which direction was handed the first failure, whether it was a
// clean end of stream, whether the connection it relays to is half-closable, and whether the other
// side had nothing to say at that moment (its scripted bytes all read and the peer silent for good).
func c05EndClasses(c c05Case, evs []c05Ev) (cl []string) {
	if c.Client.HalfClose {
		cl = append(cl, "caps:client-half-closable")
	}
	if c.Covert.HalfClose {
		cl = append(cl, "caps:covert-half-closable")
	}
	if !c.Client.HalfClose && !c.Covert.HalfClose {
		cl = append(cl, "caps:plain")
	}
	f := c05FirstFailure(evs)
	if f == nil || f.Dir < 0 {
		return
	}
	d := f.Dir
	kind := "error"
	if f.Op == "read" && f.Err == "eof" {
		kind = "clean-eof"
	}
	if !c.script(1 - d).HalfClose { // a direction relays to the connection with the other index
		return
	}
	lbl := "first-end:" + c05DirName[d] + ":" + kind + ",dst-half-closable"
	cl = append(cl, lbl)
	other := c.script(1 - d) // ... which is also the source of the other direction
	if other.End == "hold" || other.End == "" {
		n := 0
		for _, e := range evs {
			if e.Seq < f.Seq && e.Op == "read" && e.Conn == 1-d {
				n += e.N
			}
		}
		if n == other.total() {
			cl = append(cl, lbl+",other-side-silent")
		}
	}
	return
}

// c05Epochs performs the statistics epoch roll-overs of one case and keeps the books: what the
// per-epoch counters showed right before each reset is accumulated, so that the sum over all epochs
// can be compared with what was delivered; the session gauge is not an epoch counter and has to read
// the same before and after a reset (`want` while the tunnel is open).
type c05Epochs struct {
	n        int
	acc      c05Counters
	gaugeBad string
}

func (ep *c05Epochs) roll(wantGauge int64) {
	ps := getProxyStats()
	cur := c05Snap()
	ep.acc.psUp += cur.psUp
	ep.acc.psDown += cur.psDown
	ep.acc.psCompUp += cur.psCompUp
	ep.acc.psCompDown += cur.psCompDown
	ep.acc.stUp += cur.stUp
	ep.acc.stDown += cur.stDown
	if ep.n%2 == 0 {
		ps.PrintAndReset(log.New(io.Discard, "", 0))
	} else {
		ps.Reset()
	}
	Stat().Reset()
	after := atomic.LoadInt64(&ps.sessionsProxying)
	if ep.gaugeBad == "" && (cur.sessions != wantGauge || after != wantGauge) {
		ep.gaugeBad = fmt.Sprintf("with this tunnel open sessionsProxying has to read %d: it read %d right before and %d right after statistics epoch roll-over #%d (PrintAndReset / Reset must not touch the gauge of open sessions)", wantGauge, cur.sessions, after, ep.n+1)
	}
	ep.n++
}

// adjust adds what the closed epochs had counted to a final snapshot.
func (ep *c05Epochs) adjust(post c05Counters) c05Counters {
	post.psUp += ep.acc.psUp
	post.psDown += ep.acc.psDown
	post.psCompUp += ep.acc.psCompUp
	post.psCompDown += ep.acc.psCompDown
	post.stUp += ep.acc.stUp
	post.stDown += ep.acc.stDown
	return post
}

func c05CheckCounts(accepted [2]int64, tsUp, tsDown int64, pre, post c05Counters) (string, string) {
	if tsUp != accepted[c05Up] || tsDown != accepted[c05Down] {
		return "stats:tunnel-bytes", fmt.Sprintf("tunnelStats reports BytesUp=%d BytesDown=%d but the destinations accepted up=%d down=%d bytes", tsUp, tsDown, accepted[c05Up], accepted[c05Down])
	}
	if d := post.stUp - pre.stUp; d != accepted[c05Up] {
		return "stats:global-bytes", fmt.Sprintf("Stat() bytes-up grew by %d, delivered %d", d, accepted[c05Up])
	}
	if d := post.stDown - pre.stDown; d != accepted[c05Down] {
		return "stats:global-bytes", fmt.Sprintf("Stat() bytes-down grew by %d, delivered %d", d, accepted[c05Down])
	}
	if d := post.psUp - pre.psUp; d != accepted[c05Up] {
		return "stats:global-bytes", fmt.Sprintf("ProxyStats newBytesUp grew by %d, delivered %d", d, accepted[c05Up])
	}
	if d := post.psDown - pre.psDown; d != accepted[c05Down] {
		return "stats:global-bytes", fmt.Sprintf("ProxyStats newBytesDown grew by %d, delivered %d", d, accepted[c05Down])
	}
	if d := post.psCompUp - pre.psCompUp; d != accepted[c05Up] {
		return "stats:completed-bytes", fmt.Sprintf("ProxyStats completeBytesUp grew by %d, delivered %d", d, accepted[c05Up])
	}
	if d := post.psCompDown - pre.psCompDown; d != accepted[c05Down] {
		return "stats:completed-bytes", fmt.Sprintf("ProxyStats completeBytesDown grew by %d, delivered %d", d, accepted[c05Down])
	}
	return "", ""
}

// c05RunPipes runs one case on the real halfPipe pair.
func c05RunPipes(c c05Case) (out c05Out) {
	cs, err := c05Stream(c05Client, c.Client.total())
	if err != nil {
		return c05Out{key: "harness", msg: err.Error()}
	}
	vs, err := c05Stream(c05Covert, c.Covert.total())
	if err != nil {
		return c05Out{key: "harness", msg: err.Error()}
	}
	for _, ch := range c.Sched {
		if c.Sched != "free" && ch != '0' && ch != '1' {
			return c05Out{key: "harness", msg: "bad schedule string"}
		}
	}
	base := c05Baseline()
	pre := c05Snap()
	w := c05NewWorld(c.Sched)
	defer w.stop()
	client := c05NewConn(w, c05Client, c.Client, cs, vs)
	covert := c05NewConn(w, c05Covert, c.Covert, vs, cs)
	stats := &tunnelStats{proxyStats: getProxyStats()}
	logger := log.New(io.Discard, "", 0)
	var wg sync.WaitGroup
	wg.Add(2)
	if c05WGReadable {
		w.wgN = func() int { n, _ := c05WGCounter(&wg); return n }
	}
	var ep c05Epochs
	w.onEpoch = func() { ep.roll(pre.sessions) } // (no Proxy here: the gauge just has to stay what it was)
	run := func(d int, src, dst net.Conn, tag string) {
		var pan any
		defer func() { w.finish(d, pan) }()
		defer func() { pan = recover() }()
		halfPipe(src, dst, &wg, logger, tag, stats)
	}
	// exactly the wiring of Proxy()
	go run(c05Up, client.view(c05Up), covert.view(c05Up), "Up C0DE000000000001")
	go run(c05Down, covert.view(c05Down), client.view(c05Down), "Down C0DE000000000001")

	returned := w.waitDone()
	w.mu.Lock()
	ab, zombies := w.abort, w.zombies
	w.mu.Unlock()
	if ab != nil {
		// a direction kept calling after a failure; the harness closed the connections (counted, not timed)
		if zombies == 0 {
			c05WaitGoroutines(base, 10*time.Second)
		}
		out.classes, out.nontriv = c05Classes(c, w.events())
		out.key, out.msg = ab.key, ab.msg
		if zombies > 0 {
			out.msg += fmt.Sprintf(" [%d goroutine(s) went on even with every call failing and were parked by the harness]", zombies)
		}
		return
	}
	if !returned {
		// WALL-CLOCK WATCHDOG (c05WaitLimit, generous: a case needs milliseconds). It has released every
		// wait of the harness; if the directions now finish, they were only held by the harness.
		for t0 := time.Now(); time.Since(t0) < 5*time.Second; time.Sleep(10 * time.Millisecond) {
			w.mu.Lock()
			fin := w.st[0] == c05StDone && w.st[1] == c05StDone
			w.mu.Unlock()
			if fin {
				break
			}
		}
		w.mu.Lock()
		fin := w.st[0] == c05StDone && w.st[1] == c05StDone
		w.mu.Unlock()
		gs, inPipe, _ := c05RelayGoroutines()
		out.classes, out.nontriv = c05Classes(c, w.events())
		if fin || !inPipe {
			return c05Out{key: "harness", msg: fmt.Sprintf("a wait of the scripted connections hit the %v limit; relay goroutines: %v", c05WaitLimit, gs), classes: out.classes}
		}
		w.mu.Lock()
		w.abortCase("noreturn:watchdog", "")
		w.mu.Unlock()
		out.key, out.msg = "noreturn:watchdog", fmt.Sprintf("wall-clock watchdog: %v after the start a halfPipe has still not returned although no wait of the scripted connections holds it any more (the case needs milliseconds); goroutines inside the relay: %v", c05WaitLimit, gs)
		return
	}
	// the source side is closed asynchronously (`go closeConn(src)`): poll up to 5 s for those calls
	var evs []c05Ev
	for t0, i := time.Now(), 0; ; i++ {
		evs = w.events()
		w.mu.Lock()
		done := w.done
		w.mu.Unlock()
		vs, _ := c05JudgeStreams(evs, done)
		pending := false
		for _, v := range vs {
			if strings.HasSuffix(v.key, "-not-closed") {
				pending = true
			}
		}
		if !pending || !returned || time.Since(t0) > 5*time.Second {
			break
		}
		// both directions have returned, so every detached closer has been started: if none is left,
		// no further Close call can come (a state, not a matter of timing)
		if _, closers, _ := c05RelayCensus(); closers == 0 {
			evs = w.events()
			break
		}
		if i < 100 {
			runtime.Gosched()
		} else {
			time.Sleep(200 * time.Microsecond)
		}
	}
	leakFree := c05WaitGoroutines(base, 10*time.Second)
	evs = w.events()
	out.classes, out.nontriv = c05Classes(c, evs)
	w.mu.Lock()
	stuck, noDL, done, pans := w.stuck, w.noDL, w.done, w.pan
	w.mu.Unlock()
	if stuck || !returned {
		gs, _, _ := c05RelayGoroutines()
		return c05Out{key: "harness", msg: fmt.Sprintf("a wait of the scripted connections hit the %v limit (returned=%v); relay goroutines: %v", c05WaitLimit, returned, gs), classes: out.classes}
	}
	for d := 0; d < 2; d++ {
		if pans[d] != nil {
			out.key, out.msg = "panic", fmt.Sprintf("halfPipe (%s) panicked: %v", c05DirName[d], pans[d])
			return
		}
	}
	if noDL {
		return c05Out{key: "harness", msg: "a Read on a silent connection had no deadline set; the stall cannot be resolved in virtual time", classes: out.classes}
	}
	// both halfPipes have returned, so the WaitGroup counter is final: it must be exactly zero.
	released := func() (zero bool) {
		defer func() {
			if recover() != nil {
				zero = true // "negative WaitGroup counter": it was 0
			}
		}()
		wg.Add(-1)
		return false
	}()
	if !released {
		out.key, out.msg = "waitgroup:not-released", "both halfPipes returned but the WaitGroup counter is still positive: Proxy's wg.Wait() would never return"
		return
	}
	if !leakFree {
		gs, _, _ := c05RelayGoroutines()
		if len(gs) == 0 {
			return c05Out{key: "harness", msg: fmt.Sprintf("goroutine count %d did not return to the baseline %d, but no goroutine is inside the relay code", runtime.NumGoroutine(), base), classes: out.classes}
		}
		out.key, out.msg = "goroutine-leak", fmt.Sprintf("goroutines still inside the relay 10 s after both directions returned: %v", gs)
		return
	}
	viols, accepted := c05JudgeStreams(evs, done)
	out.viols = viols
	w.mu.Lock()
	wakes := append([]c05Wake(nil), w.wakes...)
	w.mu.Unlock()
	if v := c05JudgeIdle(evs, wakes); v != nil {
		// reported first: it names the symptom (the tunnel stays up), the per-direction rules the mechanism
		out.viols = append([]c05Viol{*v}, out.viols...)
	}
	out.classes = append(out.classes, c05EndClasses(c, evs)...)
	for _, cn := range []*c05Conn{client, covert} {
		if !cn.isClosed() {
			out.viols = append(out.viols, c05Viol{"teardown:connection-left-open", fmt.Sprintf("the %s connection was never closed", c05ConnName[cn.idx])})
		}
	}
	post := ep.adjust(c05Snap())
	if ep.gaugeBad != "" {
		out.viols = append(out.viols, c05Viol{"gauge:changed-by-epoch-reset", ep.gaugeBad})
	}
	if ep.n > 0 {
		out.classes = append(out.classes, "stats:epoch-rolled-over-during-tunnel")
	}
	if k, m := c05CheckCounts(accepted, atomic.LoadInt64(&stats.BytesUp), atomic.LoadInt64(&stats.BytesDown), pre, post); k != "" {
		out.viols = append(out.viols, c05Viol{k, m})
	}
	return
}

func c05Check(t vh.Fataler, rec *vh.Rec, c c05Case) {
	o := c05RunPipes(c)
	rec.Case(o.nontriv, vh.Digest(c), c, o.classes...)
	if o.key == "harness" {
		t.Fatalf("harness problem: %s (case %s %+v)", o.msg, c.Label, c)
	}
	if o.key != "" {
		rec.Violation(t, o.key, c, "%s [%s; sched=%q]", o.msg, c.Label, c.Sched)
	}
	for _, v := range o.viols {
		rec.Violation(t, v.key, c, "%s [%s; sched=%q]", v.msg, c.Label, c.Sched)
	}
}

// Enumerated faults -------------------------------------------------------------------------------

var (
	c05BaseUp   = []int{1, 700, 32767, 32768, 32769, 65536} // 8 Reads with a 32 KiB buffer
	c05BaseDown = []int{32769, 3, 65536, 1500, 32768, 32767}
)

const c05BaseCalls = 8 // Reads / Writes per direction in the base script

type c05Fault struct {
	Dir    int    // direction whose call is hit (close: the connection index)
	Kind   string // read-alone | read-data | write | setdl-src | setdl-dst | close
	Pos    int
	Err    string
	Accept int
}

func (f c05Fault) String() string {
	switch f.Kind {
	case "close":
		return fmt.Sprintf("Close(%s) fails with %s", c05ConnName[f.Dir], f.Err)
	case "write":
		e := f.Err
		if e == "" {
			e = "nil (short write)"
		}
		return fmt.Sprintf("%s: Write#%d accepts %d, err %s", c05DirName[f.Dir], f.Pos, f.Accept, e)
	case "read-alone":
		return fmt.Sprintf("%s: %s alone after %d chunks", c05DirName[f.Dir], f.Err, f.Pos)
	case "read-zero":
		return fmt.Sprintf("%s: zero-length read (0, nil) before chunk %d", c05DirName[f.Dir], f.Pos)
	case "read-epoch":
		return fmt.Sprintf("%s: statistics epoch rolls over right before chunk %d", c05DirName[f.Dir], f.Pos)
	case "read-over":
		e := f.Err
		if e == "" {
			e = "nil"
		}
		return fmt.Sprintf("%s: chunk %d is a full buffer whose Read reports len+(%d) bytes (negative: MaxInt32), err %s", c05DirName[f.Dir], f.Pos, f.Accept, e)
	case "write-stuck":
		return fmt.Sprintf("%s: Write#%d accepts %d with nil error, every later Write returns (0, nil)", c05DirName[f.Dir], f.Pos, f.Accept)
	case "close-slow":
		return fmt.Sprintf("Close(%s) takes %d ms", c05ConnName[f.Dir], f.Accept)
	case "read-data":
		return fmt.Sprintf("%s: chunk %d returned together with %s", c05DirName[f.Dir], f.Pos, f.Err)
	}
	return fmt.Sprintf("%s: %s SetDeadline#%d fails with %s", c05DirName[f.Dir], strings.TrimPrefix(f.Kind, "setdl-"), f.Pos, f.Err)
}

func c05AllFaults() []c05Fault {
	var fs []c05Fault
	rk := []string{"eof", "reset", "epipe", "timeout", "eio"}
	for d := 0; d < 2; d++ {
		for pos := 0; pos <= 6; pos++ {
			for _, k := range rk {
				fs = append(fs, c05Fault{Dir: d, Kind: "read-alone", Pos: pos, Err: k})
			}
		}
		for pos := 0; pos < 6; pos++ {
			for _, k := range rk {
				fs = append(fs, c05Fault{Dir: d, Kind: "read-data", Pos: pos, Err: k})
			}
		}
		for pos := 0; pos <= 6; pos++ {
			fs = append(fs, c05Fault{Dir: d, Kind: "read-zero", Pos: pos})
		}
		for pos := 0; pos < 6; pos++ {
			fs = append(fs, c05Fault{Dir: d, Kind: "read-epoch", Pos: pos})
		}
		for _, pos := range []int{0, 3, 5} {
			for _, over := range []int{1, 32768, -1} {
				for _, k := range []string{"", "eof", "reset"} {
					fs = append(fs, c05Fault{Dir: d, Kind: "read-over", Pos: pos, Accept: over, Err: k})
				}
			}
		}
		for _, call := range []int{0, 3, 7} {
			for _, a := range []int{0, 1, -1} {
				fs = append(fs, c05Fault{Dir: d, Kind: "write-stuck", Pos: call, Accept: a})
			}
		}
		for call := 0; call < c05BaseCalls; call++ {
			fs = append(fs,
				c05Fault{Dir: d, Kind: "write", Pos: call, Accept: 0},
				c05Fault{Dir: d, Kind: "write", Pos: call, Accept: 1},
				c05Fault{Dir: d, Kind: "write", Pos: call, Accept: -1},
				c05Fault{Dir: d, Kind: "write", Pos: call, Accept: 0, Err: "reset"},
				c05Fault{Dir: d, Kind: "write", Pos: call, Accept: 300, Err: "reset"},
				c05Fault{Dir: d, Kind: "write", Pos: call, Accept: -1, Err: "epipe"},
				c05Fault{Dir: d, Kind: "write", Pos: call, Accept: 300, Err: "timeout"},
				c05Fault{Dir: d, Kind: "write", Pos: call, Accept: 0, Err: "eio"})
		}
		for _, k := range []string{"setdl-src", "setdl-dst"} {
			for call := 0; call <= c05BaseCalls+1; call++ {
				fs = append(fs, c05Fault{Dir: d, Kind: k, Pos: call, Err: "eio"})
			}
			fs = append(fs, c05Fault{Dir: d, Kind: k, Pos: 0, Err: "einval"})
		}
	}
	for cidx := 0; cidx < 2; cidx++ {
		for _, k := range []string{"reset", "timeout", "eio"} {
			fs = append(fs, c05Fault{Dir: cidx, Kind: "close", Err: k})
		}
		fs = append(fs, c05Fault{Dir: cidx, Kind: "close-slow", Accept: 2})
	}
	return fs
}

func c05BaseCase(end string, sched string) c05Case {
	mk := func(sz []int) c05Script {
		s := c05Script{End: end}
		for _, n := range sz {
			s.Reads = append(s.Reads, c05Step{N: n})
		}
		return s
	}
	return c05Case{Client: mk(c05BaseUp), Covert: mk(c05BaseDown), Sched: sched}
}

func (c *c05Case) script(cidx int) *c05Script {
	if cidx == c05Client {
		return &c.Client
	}
	return &c.Covert
}

// c05ChunkIdx returns the index in s.Reads of data chunk number pos (zero-length steps are not
// counted), len(s.Reads) for pos == number of chunks, -1 if there are fewer chunks.
func c05ChunkIdx(s *c05Script, pos int) int {
	n := 0
	for i, st := range s.Reads {
		if st.N > 0 {
			if n == pos {
				return i
			}
			n++
		}
	}
	if n == pos {
		return len(s.Reads)
	}
	return -1
}

// c05Apply injects a fault into the case. Read positions count data chunks. A read fault that lies
// behind an earlier read fault on the same connection is unreachable and left out.
func c05Apply(c *c05Case, f c05Fault) {
	switch f.Kind {
	case "read-alone":
		s := c.script(f.Dir) // a direction reads the connection with its own index
		if i := c05ChunkIdx(s, f.Pos); i >= 0 && !c05HasReadFault(s, i) {
			s.Reads = append([]c05Step(nil), s.Reads[:i]...)
			s.End = f.Err
		}
	case "read-data":
		s := c.script(f.Dir)
		if i := c05ChunkIdx(s, f.Pos); i >= 0 && i < len(s.Reads) && !c05HasReadFault(s, i+1) {
			s.Reads = append([]c05Step(nil), s.Reads[:i+1]...)
			s.Reads[i].Err = f.Err
			s.End = f.Err
		}
	case "read-zero":
		s := c.script(f.Dir)
		if i := c05ChunkIdx(s, f.Pos); i >= 0 && !c05HasReadFault(s, i) {
			r := append([]c05Step(nil), s.Reads[:i]...)
			r = append(r, c05Step{N: 0})
			s.Reads = append(r, s.Reads[i:]...)
		}
	case "read-epoch":
		s := c.script(f.Dir)
		if i := c05ChunkIdx(s, f.Pos); i >= 0 && i < len(s.Reads) {
			s.Reads = append([]c05Step(nil), s.Reads...)
			s.Reads[i].Epoch = true
		}
	case "read-over":
		s := c.script(f.Dir)
		if i := c05ChunkIdx(s, f.Pos); i >= 0 && i < len(s.Reads) && !c05HasReadFault(s, i+1) {
			s.Reads = append([]c05Step(nil), s.Reads...)
			s.Reads[i].N, s.Reads[i].Over = 32768, f.Accept
			if f.Err != "" {
				s.Reads = s.Reads[:i+1]
				s.Reads[i].Err = f.Err
				s.End = f.Err
			}
		}
	case "write":
		s := c.script(1 - f.Dir)
		s.WF = append(s.WF, c05WF{Call: f.Pos, Accept: f.Accept, Err: f.Err})
	case "write-stuck":
		s := c.script(1 - f.Dir)
		s.WF = append(s.WF, c05WF{Call: f.Pos, Accept: f.Accept, Then: "zero"})
	case "setdl-src":
		s := c.script(f.Dir)
		s.DF = append(s.DF, c05DF{Dir: f.Dir, Call: f.Pos, Err: f.Err})
	case "setdl-dst":
		s := c.script(1 - f.Dir)
		s.DF = append(s.DF, c05DF{Dir: f.Dir, Call: f.Pos, Err: f.Err})
	case "close":
		c.script(f.Dir).CloseErr = f.Err
	case "close-slow":
		c.script(f.Dir).CloseMs = f.Accept
	}
}

// c05HasReadFault reports whether one of the first n steps of s already carries an error.
func c05HasReadFault(s *c05Script, n int) bool {
	for i := 0; i < n && i < len(s.Reads); i++ {
		if s.Reads[i].Err != "" {
			return true
		}
	}
	return false
}

// schedules used by the enumerations: strict alternation with the down direction 0..3 calls ahead
// (every phase of the 4-call loop), and each direction running until it blocks or ends.
var c05Scheds = []string{"", "1", "11", "111", strings.Repeat("0", 64), strings.Repeat("1", 64)}

// c05CapsEnum: which of the two connections is half-closable (offers CloseWrite / CloseRead) in the
// enumerations: none, both (client and covert are TCP-like), only the covert (what Proxy always
// dials is a *net.TCPConn, while the client connection is whatever the transport wrapped).
var c05CapsEnum = []string{"", "both", "covert"}

func c05SetCaps(c *c05Case, caps string) {
	switch caps {
	case "both":
		c.Client.HalfClose, c.Covert.HalfClose = true, true
	case "covert":
		c.Covert.HalfClose = true
	case "client":
		c.Client.HalfClose = true
	default:
		return
	}
	c.Label += " [half-closable: " + caps + "]"
}

func c05Replay(t *testing.T, rec *vh.Rec) bool {
	p := vh.ReplayFile()
	if p == "" {
		return false
	}
	var c c05Case
	if _, _, err := vh.LoadReplay(p, &c); err != nil {
		t.Fatal(err)
	}
	c05Check(t, rec, c)
	return true
}

// Every single fault, at every position, under every enumeration schedule.
func TestVerif_C05_single(t *testing.T) {
	rec := vh.NewRec("C05", "single", "exhaustive: the two halfPipes wired as in Proxy over two scripted connections; base script of 6 chunks per direction (1 B, 700 B, 32767, 32768, 32769, 65536 / 32769, 3, 65536, 1500, 32768, 32767 = 8 Reads each with the 32 KiB buffer) x every single fault {EOF, ECONNRESET, EPIPE, timeout, EIO alone before chunk 0..6; the same five returned together with chunk 0..5; a zero-length read (0, nil) before chunk 0..6; a statistics epoch roll-over (ProxyStats.PrintAndReset / Reset + Stats.Reset) right before chunk 0..5, the per-epoch byte counters summed over the epochs must equal what was delivered; chunk 0 / 3 / 5 replaced by a full buffer whose Read reports len+1 / 2*len / MaxInt32 bytes with nil error, EOF or reset (a source that breaks the Read contract; the relay must not crash); Write 0 / 3 / 7 accepting 0 / 1 / len-1 bytes with nil error and every later Write returning (0, nil) (a destination that makes no progress without ever failing); on each of the 8 Writes: short write accepting 0 / 1 / len-1 with nil error, errors with 0 / 300 / len-1 bytes accepted; SetDeadline failing at call 0..9 on source or destination, as seen by either direction; Close failing, or taking 2 ms (lingering), on either connection} x base end {both peers silent (stall time-out), both EOF} x 6 schedules (alternating with 0-3 calls of phase shift, up runs first, down runs first) x connection capabilities {both plain net.Conns; client and covert half-closable (they also have CloseWrite / CloseRead, like the *net.TCPConn Proxy dials); only the covert half-closable} - whatever the connections offer, a direction that was handed a failure (a clean EOF included) must bring the whole tunnel down: after that call the harness must never have to let virtual time pass (a stall time-out expire, a paused chunk arrive) to get the relay moving again; plus 48 request / late-reply histories (request at t=0, the first chunk of the other direction after 31 s / 125 s of silence, the requesting direction idle or sending a chunk every 20 s) and 144 one-directional streams in virtual time: {down, up} relays 8 chunks, the first after {0, 20 s}, then every {20 s, 100 s, 130 s (a real stall)}, ends with EOF, while the other side is {silent from the start, sends one request at t=0 and waits} x the 6 schedules - the virtual clock advances only when every direction is blocked in a Read, to the next chunk arrival or read-deadline expiry (the streams and histories too under each of the three capability sets); non-trivial = an injected fault other than a plain EOF alone was hit; distinct by case")
	defer rec.Flush()
	rec.Require("read:data+eof", "read:data+reset", "read:data+timeout", "read:reset", "read:epipe", "read:timeout", "read:eof", "read:zero-length", "close:slow",
		"read:reports-more-than-buffer", "read:reports-more-than-buffer+err", "write:(0,nil)", "stats:epoch-rolled-over-during-tunnel",
		"write:short", "write:err+partial", "write:err", "write:epipe", "write:timeout", "setdl:first", "setdl:nth", "close:err",
		"stopped-by-close:at-read", "stopped-by-close:at-write", "stopped-by-close:at-setdl", "chunk:1B", "chunk:=32KiB", "chunk:>32KiB(split)",
		"timeout:deadline-expired(virtual clock)", "stream:still-relaying-after-30s", "stream:still-relaying-after-2min", "stream:first-reply-after-30s-delivered",
		"caps:plain", "caps:covert-half-closable", "caps:client-half-closable",
		"first-end:up:clean-eof,dst-half-closable", "first-end:up:clean-eof,dst-half-closable,other-side-silent", "first-end:up:error,dst-half-closable",
		"first-end:down:clean-eof,dst-half-closable", "first-end:down:clean-eof,dst-half-closable,other-side-silent", "first-end:down:error,dst-half-closable")
	c05QuietStats(t)
	if c05Replay(t, rec) {
		return
	}
	rec.SetExhaustive(true)
	idx := 0
	for _, caps := range c05CapsEnum {
		for _, end := range []string{"hold", "eof"} {
			for _, sc := range c05Scheds {
				// the fault-free base run
				idx++
				if vh.Mine(idx) {
					c := c05BaseCase(end, sc)
					c.Label = "no injected fault, both peers end with " + end
					c05SetCaps(&c, caps)
					c05Check(t, rec, c)
				}
				for _, f := range c05AllFaults() {
					idx++
					if !vh.Mine(idx) {
						continue
					}
					c := c05BaseCase(end, sc)
					c05Apply(&c, f)
					c.Label = f.String()
					c05SetCaps(&c, caps)
					c05Check(t, rec, c)
				}
			}
		}
		for _, c := range c05StreamCases() {
			idx++
			if vh.Mine(idx) {
				c05SetCaps(&c, caps)
				c05Check(t, rec, c)
			}
		}
	}
}

// c05StreamCases: long one-directional streams in virtual time. One direction relays 8 chunks with
// pauses between them and ends with EOF, the other side is silent from the start ("server speaks
// first" / upload to a quiet server) or sends one small request at t=0 and then waits (download).
func c05StreamCases() []c05Case {
	var out []c05Case
	for _, dir := range []int{c05Down, c05Up} {
		for _, opener := range []string{"silent", "request-first"} {
			for _, p0 := range []int64{0, 20000} {
				for _, p := range []int64{20000, 100000, 130000} {
					for _, sc := range c05Scheds {
						stream := c05Script{End: "eof"}
						for i := 0; i < 8; i++ {
							st := c05Step{N: 1448, PauseMs: p}
							if i == 0 {
								st.PauseMs = p0
							}
							if i == 5 {
								st.N = 40000
							}
							stream.Reads = append(stream.Reads, st)
						}
						idle := c05Script{End: "hold"}
						if opener == "request-first" {
							idle.Reads = []c05Step{{N: 300}}
						}
						c := c05Case{Sched: sc, Label: fmt.Sprintf("one-directional stream %s: first chunk after %d s, then every %d s; the other side: %s", c05DirName[dir], p0/1000, p/1000, opener)}
						*c.script(dir) = stream
						*c.script(1 - dir) = idle
						out = append(out, c)
					}
				}
			}
		}
	}
	// request at t=0, the reply only after 31 s / 125 s of silence in that direction, while the
	// requesting direction stays idle or busy (a chunk every 20 s)
	for _, reply := range []int{c05Down, c05Up} {
		for _, delay := range []int64{31000, 125000} {
			for _, other := range []string{"idle", "busy"} {
				for _, sc := range c05Scheds {
					req := c05Script{Reads: []c05Step{{N: 300}}, End: "hold"}
					if other == "busy" {
						for i := 0; i < 8; i++ {
							req.Reads = append(req.Reads, c05Step{N: 1448, PauseMs: 20000})
						}
					}
					rep := c05Script{End: "eof", Reads: []c05Step{{N: 5000, PauseMs: delay}, {N: 40000, PauseMs: 1000}, {N: 1, PauseMs: 1000}}}
					c := c05Case{Sched: sc, Label: fmt.Sprintf("request at t=0, first %s chunk after %d s of silence in that direction, the requesting direction stays %s", c05DirName[reply], delay/1000, other)}
					*c.script(reply) = rep
					*c.script(1 - reply) = req
					out = append(out, c)
				}
			}
		}
	}
	return out
}

// Pairs of faults: sampled in the quick tier, exhaustive in the thorough tier.
func TestVerif_C05_pairs(t *testing.T) {
	rec := vh.NewRec("C05", "pairs", "pairs of the single faults of sub-check 'single' injected into the same base script (both on one connection, on both connections, same or different directions); thorough tier: every unordered pair x the 6 schedules x the 2 base ends of 'single' (exhaustive), quick tier: rapid-sampled pairs x drawn schedule and base end x drawn half-close capability {none, both, covert only, client only} (thorough: rotating over the pairs); non-trivial and distinct as in 'single'")
	defer rec.Flush()
	rec.Require("read:data+eof", "write:short", "write:err+partial", "setdl:nth", "close:err", "stopped-by-close:at-write",
		"caps:plain", "caps:covert-half-closable", "caps:client-half-closable", "first-end:up:clean-eof,dst-half-closable", "first-end:down:clean-eof,dst-half-closable")
	c05QuietStats(t)
	if c05Replay(t, rec) {
		return
	}
	fs := c05AllFaults()
	mk := func(i, j int, sched, end, caps string) c05Case {
		c := c05BaseCase(end, sched)
		c05Apply(&c, fs[i])
		c05Apply(&c, fs[j])
		c.Label = fs[i].String() + "  AND  " + fs[j].String()
		c05SetCaps(&c, caps)
		return c
	}
	if vh.Thorough() {
		rec.SetExhaustive(true)
		idx := 0
		for _, end := range []string{"hold", "eof"} {
			for _, sc := range c05Scheds {
				for i := 0; i < len(fs); i++ {
					for j := i + 1; j < len(fs); j++ {
						idx++
						if vh.Mine(idx) {
							// (the half-close capability rotates over the pairs; its full product is in 'single')
							c05Check(t, rec, mk(i, j, sc, end, c05CapsEnum[idx%len(c05CapsEnum)]))
						}
					}
				}
			}
		}
		return
	}
	rapid.Check(t, func(rt *rapid.T) {
		i := rapid.IntRange(0, len(fs)-1).Draw(rt, "i")
		j := rapid.IntRange(0, len(fs)-1).Draw(rt, "j")
		sc := rapid.SampledFrom(c05Scheds).Draw(rt, "sched")
		end := rapid.SampledFrom([]string{"hold", "hold", "eof"}).Draw(rt, "end")
		caps := rapid.SampledFrom([]string{"", "both", "covert", "client"}).Draw(rt, "caps")
		c05Check(rt, rec, mk(i, j, sc, end, caps))
	})
}

// Random scripts ---------------------------------------------------------------------------------

var c05Sizes = []int{1, 1, 2, 3, 17, 100, 1000, 1448, 4096, 16384, 32767, 32768, 32769, 40000, 65535, 65536, 65537, 100000}
var c05ReadErrs = []string{"eof", "eof", "reset", "epipe", "timeout", "eio", "unexpected-eof", "etimedout", "aborted"}
var c05WriteErrs = []string{"", "", "reset", "epipe", "timeout", "eio", "enobufs"}

func c05GenScript(rt *rapid.T, name string, dirs []int) c05Script {
	var s c05Script
	n := rapid.IntRange(0, 8).Draw(rt, name+".steps")
	for i := 0; i < n; i++ {
		st := c05Step{}
		if rapid.IntRange(0, 3).Draw(rt, name+".sizekind") == 0 {
			st.N = rapid.IntRange(1, 70000).Draw(rt, name+".size")
		} else {
			st.N = rapid.SampledFrom(c05Sizes).Draw(rt, name+".size")
		}
		if rapid.IntRange(0, 7).Draw(rt, name+".haserr") == 0 {
			st.Err = rapid.SampledFrom(c05ReadErrs).Draw(rt, name+".err")
		} else if rapid.IntRange(0, 9).Draw(rt, name+".zero") == 0 {
			st.N = 0 // a zero-length read without error
		}
		if st.N > 0 && rapid.IntRange(0, 39).Draw(rt, name+".over") == 0 {
			st.N = 32768
			st.Over = rapid.SampledFrom([]int{1, 2, 32768, 100000, -1}).Draw(rt, name+".overby")
		}
		if rapid.IntRange(0, 9).Draw(rt, name+".epoch") == 0 {
			st.Epoch = true
		}
		if rapid.IntRange(0, 3).Draw(rt, name+".paused") == 0 {
			st.PauseMs = rapid.SampledFrom([]int64{1000, 10000, 29000, 31000, 60000, 119000, 121000, 300000}).Draw(rt, name+".pause")
		}
		s.Reads = append(s.Reads, st)
	}
	s.End = rapid.SampledFrom([]string{"hold", "hold", "eof", "eof", "reset", "timeout", "epipe", "eio"}).Draw(rt, name+".end")
	for i, k := 0, rapid.IntRange(0, 2).Draw(rt, name+".nwf"); i < k; i++ {
		s.WF = append(s.WF, c05WF{
			Call:   rapid.IntRange(0, 12).Draw(rt, name+".wf.call"),
			Accept: rapid.SampledFrom([]int{0, 0, 1, -1, -2, 100, 16384, 32767, 1 << 20}).Draw(rt, name+".wf.accept"),
			Err:    rapid.SampledFrom(c05WriteErrs).Draw(rt, name+".wf.err"),
		})
		if f := &s.WF[len(s.WF)-1]; f.Err == "" && rapid.IntRange(0, 2).Draw(rt, name+".wf.stuck") == 0 {
			f.Then = "zero"
		}
	}
	if rapid.IntRange(0, 4).Draw(rt, name+".hasdf") == 0 {
		s.DF = append(s.DF, c05DF{
			Dir:  rapid.SampledFrom(dirs).Draw(rt, name+".df.dir"),
			Call: rapid.IntRange(0, 10).Draw(rt, name+".df.call"),
			Err:  rapid.SampledFrom([]string{"eio", "einval", "enotconn"}).Draw(rt, name+".df.err"),
		})
	}
	if rapid.IntRange(0, 4).Draw(rt, name+".hasclose") == 0 {
		s.CloseErr = rapid.SampledFrom([]string{"reset", "timeout", "eio", "enotconn"}).Draw(rt, name+".closeerr")
	}
	if rapid.IntRange(0, 39).Draw(rt, name+".slowclose") == 0 {
		s.CloseMs = rapid.IntRange(1, 3).Draw(rt, name+".closems")
	}
	s.HalfClose = rapid.Bool().Draw(rt, name+".halfclose")
	return s
}

func c05Gen(rt *rapid.T) c05Case {
	c := c05Case{
		Client: c05GenScript(rt, "client", []int{0, 1}),
		Covert: c05GenScript(rt, "covert", []int{0, 1}),
	}
	if rapid.IntRange(0, 2).Draw(rt, "free") == 0 {
		c.Sched = "free"
	} else {
		bits := rapid.SliceOfN(rapid.IntRange(0, 1), 0, 48).Draw(rt, "sched")
		var sb strings.Builder
		for _, b := range bits {
			sb.WriteByte(byte('0' + b))
		}
		c.Sched = sb.String()
	}
	c.Label = "random script"
	return c
}

func TestVerif_C05_random(t *testing.T) {
	rec := vh.NewRec("C05", "random", "rapid-drawn scripts for both connections: 0-8 read steps (chunks of 1 B .. 100000 B, biased to the 32 KiB buffer boundary, or with probability ~1/11 a zero-length read without error), each step with probability 1/4 arriving only after a virtual pause of 1 s .. 5 min (around the relay's 30 s / 2 min time-outs), each chunk with probability 1/8 returned together with an error {EOF, reset, EPIPE, time-out, EIO, unexpected EOF, ETIMEDOUT, ECONNABORTED}, end {silent, EOF, reset, time-out, EPIPE, EIO}, 0-2 write faults (call 0-12, accepted count 0/1/len-1/len-2/100/16384/32767/all, nil error or reset/EPIPE/time-out/EIO/ENOBUFS; a nil-error fault with probability 1/3 followed by (0, nil) from every later Write), a chunk with probability 1/40 replaced by a full buffer whose Read reports more bytes than the buffer holds, optional SetDeadline fault (either direction, call 0-10), optional Close error, optional lingering Close (1-3 ms), each connection with probability 1/2 half-closable (CloseWrite / CloseRead offered); schedule: 1/3 real concurrency, 2/3 a drawn 0-48 step turn schedule then alternating; non-trivial = an injected fault other than a plain EOF alone was hit; distinct by case")
	defer rec.Flush()
	rec.Require("read:data+eof", "read:zero-length", "read:reports-more-than-buffer", "write:(0,nil)", "write:short", "write:err+partial", "setdl:first", "setdl:nth", "close:err", "close:slow", "sched:free", "sched:controlled", "stopped-by-close:at-write",
		"timeout:deadline-expired(virtual clock)", "stream:still-relaying-after-30s", "stream:still-relaying-after-2min",
		"caps:plain", "caps:covert-half-closable", "caps:client-half-closable",
		"first-end:up:clean-eof,dst-half-closable", "first-end:up:clean-eof,dst-half-closable,other-side-silent",
		"first-end:down:clean-eof,dst-half-closable", "first-end:down:clean-eof,dst-half-closable,other-side-silent")
	c05QuietStats(t)
	if c05Replay(t, rec) {
		return
	}
	rapid.Check(t, func(rt *rapid.T) {
		c05Check(rt, rec, c05Gen(rt))
	})
}
