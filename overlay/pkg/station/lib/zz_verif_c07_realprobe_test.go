package lib

// C07 (real probe part) — "the phantom did not answer the liveness probe".
//
// The other C07 sub-checks script the liveness verdict. Here the station keeps its REAL prober
// (liveness.New with no cache) and the registrar response aims the registration at loopback
// phantoms whose behaviour the harness controls: a listening port (answers SYN-ACK), a closed port
// (answers RST), and a black hole (a listener whose accept queue is full, so SYNs are dropped and
// the probe times out). A phantom that answers in any way must not become usable; a silent one must.

import (
	"fmt"
	"net"
	"sync"
	"syscall"
	"testing"
	"time"

	"github.com/refraction-networking/conjure/pkg/station/liveness"
	pb "github.com/refraction-networking/conjure/proto"
	"google.golang.org/protobuf/proto"
	"verif/harness/vh"
)

type c07ProbeCase struct {
	Behaviour  string `json:"behaviour"` // listening | refused | silent
	Prescanned bool   `json:"prescanned"`
	Transport  int    `json:"transport"`
	Secret     int    `json:"secret"`
}

// c07Blackhole returns a loopback port on which connection attempts time out.
func c07Blackhole() (port int, cleanup func(), err error) {
	fd, err := syscall.Socket(syscall.AF_INET, syscall.SOCK_STREAM, 0)
	if err != nil {
		return 0, nil, err
	}
	if err = syscall.Bind(fd, &syscall.SockaddrInet4{Addr: [4]byte{127, 0, 0, 1}}); err != nil {
		syscall.Close(fd)
		return 0, nil, err
	}
	if err = syscall.Listen(fd, 0); err != nil {
		syscall.Close(fd)
		return 0, nil, err
	}
	sa, err := syscall.Getsockname(fd)
	if err != nil {
		syscall.Close(fd)
		return 0, nil, err
	}
	port = sa.(*syscall.SockaddrInet4).Port
	var keep []net.Conn
	// fill the accept queue until a connection attempt times out
	silent := false
	for i := 0; i < 8 && !silent; i++ {
		c, derr := net.DialTimeout("tcp", fmt.Sprintf("127.0.0.1:%d", port), 300*time.Millisecond)
		if derr != nil {
			if ne, ok := derr.(net.Error); ok && ne.Timeout() {
				silent = true
			}
			continue
		}
		keep = append(keep, c)
	}
	cleanup = func() {
		for _, c := range keep {
			c.Close()
		}
		syscall.Close(fd)
	}
	if !silent {
		cleanup()
		return 0, nil, fmt.Errorf("could not build a black-hole port")
	}
	return port, cleanup, nil
}

func TestVerif_C07_realprobe(t *testing.T) {
	rec := vh.NewRec("C07", "realprobe", "registrations aimed (through the registrar response's address and port) at loopback phantoms with the station's real, uncached liveness prober: port listening / port closed (RST) / black hole (SYN dropped) x prescanned or not x min / prefix / obfs4; oracle: usable and announced iff prescanned or the phantom stayed silent; non-trivial = a probe was really sent to an answering or silent phantom; distinct by case")
	defer rec.Flush()
	rec.Require("behaviour:listening", "behaviour:refused", "behaviour:silent")
	if vh.ReplayFile() != "" {
		t.Skip("real-time sub-check; re-run the quick tier instead")
	}
	ln, err := net.Listen("tcp", "127.0.0.1:0")
	if err != nil {
		t.Fatalf("harness problem: %v", err)
	}
	defer ln.Close()
	go func() {
		for {
			c, err := ln.Accept()
			if err != nil {
				return
			}
			c.Close()
		}
	}()
	closed, err := net.Listen("tcp", "127.0.0.1:0")
	if err != nil {
		t.Fatalf("harness problem: %v", err)
	}
	closedPort := closed.Addr().(*net.TCPAddr).Port
	closed.Close() // nothing listens there any more: connection refused
	bhPort, bhCleanup, err := c07Blackhole()
	if err != nil {
		t.Fatalf("harness problem: %v", err)
	}
	defer bhCleanup()
	ports := map[string]int{"listening": ln.Addr().(*net.TCPAddr).Port, "refused": closedPort, "silent": bhPort}

	var cases []c07ProbeCase
	i := 0
	for _, b := range []string{"listening", "refused", "silent"} {
		for _, pre := range []bool{false, true} {
			for tt := 0; tt < 3; tt++ {
				i++
				if vh.Thorough() || pre == false || tt == 0 {
					if vh.Mine(i) {
						cases = append(cases, c07ProbeCase{Behaviour: b, Prescanned: pre, Transport: tt, Secret: 300 + i})
					}
				}
			}
		}
	}
	type outcome struct {
		usable    bool
		announced int
	}
	results := make([]outcome, len(cases))
	var wg sync.WaitGroup
	for idx, c := range cases {
		e := vNewEnv(t, nil, "")
		real, err := liveness.New(&liveness.Config{})
		if err != nil {
			t.Fatalf("harness problem: %v", err)
		}
		e.rm.LivenessTester = real
		tt := []pb.TransportType{pb.TransportType_Min, pb.TransportType_Prefix, pb.TransportType_Obfs4}[c.Transport]
		w := vWrapper(vSecret(c.Secret), tt, 0, "192.0.2.10:443", true, false, 4, 957, pb.RegistrationSource_API, net.ParseIP("198.51.100.7").To4())
		w.RegistrationResponse = &pb.RegistrationResponse{Ipv4Addr: proto.Uint32(0x7f000001), DstPort: proto.Uint32(uint32(ports[c.Behaviour]))}
		if c.Prescanned {
			w.RegistrationPayload.Flags.Prescanned = proto.Bool(true)
		}
		b, err := proto.Marshal(w)
		if err != nil {
			t.Fatalf("harness problem: %v", err)
		}
		wg.Add(1)
		go func(idx int, e *vEnv, b []byte) {
			defer wg.Done()
			regs, err := e.rm.parseRegMessage(b)
			if err != nil || len(regs) != 1 {
				results[idx] = outcome{announced: -1}
				return
			}
			e.rm.ingestRegistration(regs[0])
			results[idx] = outcome{usable: len(e.rm.GetRegistrations(net.ParseIP("127.0.0.1"))) == 1, announced: len(e.Anns())}
		}(idx, e, b)
	}
	wg.Wait()
	for idx, c := range cases {
		r := results[idx]
		if r.announced < 0 {
			t.Fatalf("harness problem: registration message of case %+v was not parsed into one registration", c)
		}
		want := c.Prescanned || c.Behaviour == "silent"
		rec.Case(!c.Prescanned, vh.Digest(c), c, "behaviour:"+c.Behaviour, fmt.Sprintf("prescanned:%v", c.Prescanned))
		if r.usable != want || (r.announced == 1) != want {
			key := "admit:phantom-answered-probe:" + c.Behaviour
			if want {
				key = "reject:silent-phantom"
				if c.Prescanned {
					key = "reject:prescanned"
				}
			}
			rec.Violation(t, key, c, "phantom 127.0.0.1:%d (%s, prescanned=%v): usable=%v announcements=%d, expected usable=%v", ports[c.Behaviour], c.Behaviour, c.Prescanned, r.usable, r.announced, want)
		}
	}
}
