package lib

// C01, bidirectional registrations — the registration message that reaches the station is not only
// the client's ClientToStation: a bidirectional registrar answers the client with a
// RegistrationResponse and forwards the same response to the station inside the C2SWrapper. The
// response may carry
//
//	transport_params   an override of the client's transport parameters (another prefix, another or an
//	                   unset randomize_dst_port, ...), honoured by both sides unless the client set
//	                   disable_registrar_overrides, in which case both sides keep the client's own,
//	dst_port           the port both sides use instead of deriving one,
//	ipv4_addr/ipv6_addr the phantom both sides use instead of deriving one.
//
// What the station derives (NewRegistrationC2SWrapper on the wrapper with the response) has to equal
// what that client derives: its transport configured with SetParams + Prepare, then - unless it
// disabled overrides - ClientTransport.SetSessionParams(response.transport_params [, true]), address
// and dst_port taken from the response when present, otherwise the ordinary rule (selection, subnet
// supports random port ? GetDstPort(seed) : 443), then PrepareKeys / WrapConn. The derive sub-check
// never attaches a response, so the whole "parameter combination" axis of a session whose parameters
// were replaced (or deliberately not replaced) after registration was never generated.
//
// The case is the ordinary c01Case with a Bidi part; evaluation and the three-way oracle are the ones
// of derive (c01Eval / c01Judge), with "transport parameters" meaning the parameters in force after
// the response: the override's when one is present and the client allowed it, else the client's own.

import (
	"encoding/binary"
	"fmt"
	"net/netip"
	"strings"
	"testing"

	pb "github.com/refraction-networking/conjure/proto"
	"google.golang.org/protobuf/proto"
	"google.golang.org/protobuf/types/known/anypb"
	"pgregory.net/rapid"
	"verif/harness/c01ref"
	"verif/harness/vh"
)

// c01Bidi is the registrar's part of a bidirectional registration.
type c01Bidi struct {
	Disable bool `json:"disable"` // client session has DisableRegistrarOverrides (sent as disable_registrar_overrides)
	Params  bool `json:"params"`  // response carries transport_params
	// the override (a message of the transport's own parameter type)
	OvRand         string `json:"ov_rand"`                    // randomize_dst_port: absent | false | true
	OvPrefix       int32  `json:"ov_prefix,omitempty"`        // prefix: prefix_id
	OvPrefixAbsent bool   `json:"ov_prefix_absent,omitempty"` // prefix: prefix_id not set (reads as 0 = Min)
	OvFlush        int32  `json:"ov_flush"`                   // prefix: custom_flush_policy, -1 absent
	OvURL          string `json:"ov_url"`                     // type-url form of the override: "" | full | tapdance
	Checked        bool   `json:"checked"`                    // client applies with SetSessionParams(p) instead of SetSessionParams(p, true)
	DstPort        uint32 `json:"dst_port"`                   // 0: response carries no dst_port
	Addr           string `json:"addr"`                       // "" none | "same" (what the registrar selects itself) | literal address of the family
}

type c01SessionSetter interface {
	SetSessionParams(incoming *anypb.Any, unchecked ...bool) error
}

// overrideApplies: the response carries parameters and the client allowed overrides.
func (c *c01Case) overrideApplies() bool {
	return c.Bidi != nil && c.Bidi.Params && !c.Bidi.Disable
}

// ovAsked / ovPrefixID: what the override says (an unset field reads as the field default).
func (b *c01Bidi) ovAsked() bool { return b.OvRand == "true" }
func (b *c01Bidi) ovPrefixID() int32 {
	if b.OvPrefixAbsent {
		return 0
	}
	return b.OvPrefix
}

// effAsked / effPrefixID: the parameters in force for the session.
func (c *c01Case) effAsked() bool {
	if c.overrideApplies() {
		return c.Bidi.ovAsked()
	}
	return c.asked()
}

func (c *c01Case) effPrefixID() int32 {
	if c.overrideApplies() && c.Transport == c01ref.Prefix {
		return c.Bidi.ovPrefixID()
	}
	return c.prefixID()
}

// c01BidiOverride builds the override message (nil when the response carries none). Every call
// returns a fresh Any: both parsers rewrite the type url in place.
func c01BidiOverride(c *c01Case) (*anypb.Any, error) {
	b := c.Bidi
	if b == nil || !b.Params {
		return nil, nil
	}
	var r *bool
	switch b.OvRand {
	case "true":
		r = proto.Bool(true)
	case "false":
		r = proto.Bool(false)
	}
	var m proto.Message
	switch c.Transport {
	case c01ref.Prefix:
		p := &pb.PrefixTransportParams{RandomizeDstPort: r}
		if !b.OvPrefixAbsent {
			p.PrefixId = proto.Int32(b.OvPrefix)
		}
		if b.OvFlush >= 0 {
			p.CustomFlushPolicy = proto.Int32(b.OvFlush)
		}
		// (the in-tree registrars send the bytes of the prefix along; an unchecked client uses them)
		if sp, ok := c01ref.Prefixes[b.ovPrefixID()]; ok {
			p.Prefix = append([]byte(nil), sp.Bytes...)
		}
		m = p
	case c01ref.DTLS:
		m = &pb.DTLSTransportParams{RandomizeDstPort: r}
	default:
		m = &pb.GenericTransportParams{RandomizeDstPort: r}
	}
	a, err := anypb.New(m)
	if err != nil {
		return nil, err
	}
	switch b.OvURL {
	case "":
		a.TypeUrl = ""
	case "tapdance":
		a.TypeUrl = strings.Replace(a.TypeUrl, "proto.", "tapdance.", 1)
	}
	return a, nil
}

// c01BidiSkip names the excluded class of a bidirectional case ("" = asserted).
func c01BidiSkip(c *c01Case) string {
	if !c.overrideApplies() {
		return ""
	}
	if c.Transport == c01ref.Prefix {
		if _, ok := c01ref.Prefixes[c.Bidi.ovPrefixID()]; !ok {
			return "excluded:unknown-prefix-id"
		}
	}
	// (dtls overrides without dst_port used to be excluded: the dtls ClientTransport.ParseParams
	// returned (nil, nil), so its SetSessionParams ignored every override while the station applied
	// it - port:dtls:bidi-override-applied:client!=station. Repaired in /repo by a fix: commit, see
	// known_findings.json; asserted like every other transport since.)
	return ""
}

// c01BidiAddr resolves the address the response carries for the family (nil: none).
func c01BidiAddr(c *c01Case, o *c01Out) []byte {
	if c.Bidi == nil || c.Bidi.Addr == "" {
		return nil
	}
	if c.Bidi.Addr == "same" {
		if o.RefPh == nil || len(o.Ref.IP) == 0 || o.Ref.IP[0] == 0 {
			return nil
		}
		return append([]byte(nil), o.Ref.IP...)
	}
	a, err := netip.ParseAddr(c.Bidi.Addr)
	if err != nil || a.Is6() != c.V6 {
		return nil
	}
	return a.AsSlice()
}

// c01BidiWrapper attaches the registrar's part to the wrapper the station gets.
func c01BidiWrapper(c *c01Case, w *pb.C2SWrapper, addr []byte) error {
	b := c.Bidi
	w.RegistrationPayload.DisableRegistrarOverrides = proto.Bool(b.Disable)
	rr := &pb.RegistrationResponse{}
	ov, err := c01BidiOverride(c)
	if err != nil {
		return err
	}
	rr.TransportParams = ov
	if b.DstPort != 0 {
		rr.DstPort = proto.Uint32(b.DstPort)
	}
	if addr != nil {
		if c.V6 {
			rr.Ipv6Addr = append([]byte(nil), addr...)
		} else {
			rr.Ipv4Addr = proto.Uint32(binary.BigEndian.Uint32(addr))
		}
	}
	w.RegistrationResponse = rr
	return nil
}

// c01BidiApplyClient is the client dialer's handling of the response's transport parameters.
// refused != "": the client library rejected the override (the client gives up).
func c01BidiApplyClient(c *c01Case, ct c01ClientTransport) (refused string, err error) {
	if !c.overrideApplies() {
		return "", nil // no override, or the client keeps its own parameters
	}
	ov, err := c01BidiOverride(c)
	if err != nil {
		return "", err
	}
	ss, ok := ct.(c01SessionSetter)
	if !ok {
		return "", fmt.Errorf("client transport %T has no SetSessionParams", ct)
	}
	if c.Bidi.Checked {
		err = ss.SetSessionParams(ov)
	} else {
		err = ss.SetSessionParams(ov, true)
	}
	if err != nil {
		return err.Error(), nil
	}
	return "", nil
}

// c01BidiMode names the way the session's parameters were decided (part of violation keys).
func (c *c01Case) bidiMode() string {
	switch {
	case c.Bidi == nil:
		return ""
	case !c.Bidi.Params:
		return "bidi-no-override"
	case c.Bidi.Disable:
		return "bidi-override-disabled"
	}
	return "bidi-override-applied"
}

func (c *c01Case) bidiDesc() string {
	b := c.Bidi
	if b == nil {
		return ""
	}
	ov := "no transport_params"
	if b.Params {
		ov = "transport_params{randomize_dst_port " + b.OvRand
		if c.Transport == c01ref.Prefix {
			if b.OvPrefixAbsent {
				ov += ", prefix_id absent"
			} else {
				ov += fmt.Sprintf(", prefix_id %d", b.OvPrefix)
			}
		}
		ov += "}"
	}
	dp := "no dst_port"
	if b.DstPort != 0 {
		dp = fmt.Sprintf("dst_port %d", b.DstPort)
	}
	own := fmt.Sprintf("client's own params: mode %s, randomize asked %v", c.ParamMode, c.asked())
	if c.Transport == c01ref.Prefix {
		own += fmt.Sprintf(", prefix %d", c.prefixID())
	}
	how := "unchecked"
	if b.Checked {
		how = "checked"
	}
	return fmt.Sprintf(" [bidirectional: response with %s, %s; disable_registrar_overrides=%v; client applies %s; %s]", ov, dp, b.Disable, how, own)
}

// c01BidiClasses: the classes of a bidirectional case that reached the port comparison.
// subnetRand: the selected subnet group supports port randomisation.
func c01BidiClasses(c *c01Case, subnetRand bool) (classes []string) {
	b := c.Bidi
	classes = append(classes, "bidi:"+strings.TrimPrefix(c.bidiMode(), "bidi-"))
	if b.DstPort != 0 {
		classes = append(classes, "bidi:dstport")
	} else {
		classes = append(classes, "bidi:no-dstport")
	}
	if b.Addr != "" {
		classes = append(classes, "bidi:addr-"+map[bool]string{true: "same", false: "other"}[b.Addr == "same"])
	}
	if c.overrideApplies() {
		classes = append(classes, "bidi:apply-"+map[bool]string{true: "checked", false: "unchecked"}[b.Checked])
	}
	if !b.Params || b.DstPort != 0 || c.LibVer < 3 || !subnetRand {
		return
	}
	// the port is derived from parameters, and the response carries some: does it matter whose?
	pOwn, e1 := c01ref.Port(c.LibVer, c.Transport, c.prefixID(), c.asked(), true, make([]byte, 16))
	pOv, e2 := c01ref.Port(c.LibVer, c.Transport, b.ovPrefixID(), b.ovAsked(), true, make([]byte, 16))
	differs := e1 == nil && e2 == nil && (pOwn != pOv || c.asked() != b.ovAsked())
	if differs {
		if b.Disable {
			classes = append(classes, "bidi:port-decided-by-own-params-despite-override")
		} else {
			classes = append(classes, "bidi:port-decided-by-override")
		}
	}
	if !b.Disable {
		switch {
		case c.asked() && b.OvRand == "absent":
			classes = append(classes, "bidi:own-randomize-vs-override-unset")
		case c.asked() && b.OvRand == "false":
			classes = append(classes, "bidi:own-randomize-vs-override-false")
		case !c.asked() && b.OvRand == "true":
			classes = append(classes, "bidi:override-randomizes")
		}
		if c.Transport == c01ref.Prefix && b.ovPrefixID() != c.prefixID() {
			classes = append(classes, "bidi:override-changes-prefix")
		}
	}
	return
}

// ---- generator -------------------------------------------------------------------------------------

func c01GenBidiCase(rt *rapid.T) c01Case {
	c := c01GenCase(rt)
	// bidirectional registrars arrived with port randomisation: mostly current clients
	if c.LibVer < 3 && rapid.IntRange(0, 3).Draw(rt, "keepold") != 0 {
		c.LibVer = rapid.SampledFrom([]uint32{4, 3}).Draw(rt, "newlibver")
	}
	c.Source = int32(rapid.SampledFrom([]pb.RegistrationSource{pb.RegistrationSource_BidirectionalAPI, pb.RegistrationSource_BidirectionalDNS, pb.RegistrationSource_API}).Draw(rt, "bidisource"))
	b := &c01Bidi{OvFlush: -1}
	b.Disable = rapid.IntRange(0, 2).Draw(rt, "disable") == 0
	b.Params = rapid.IntRange(0, 5).Draw(rt, "ovparams") != 0
	b.OvRand = rapid.SampledFrom([]string{"absent", "false", "true"}).Draw(rt, "ovrand")
	if c.Transport == c01ref.Prefix {
		switch k := rapid.IntRange(0, 24).Draw(rt, "ovprefixkind"); {
		case k == 0:
			b.OvPrefix = rapid.SampledFrom([]int32{10, 99, -1}).Draw(rt, "ovprefix")
		case k <= 2:
			b.OvPrefixAbsent = true
		case k <= 5:
			b.OvPrefix = c.prefixID() // the registrar keeps the client's prefix
		default:
			b.OvPrefix = int32(rapid.IntRange(0, 9).Draw(rt, "ovprefix"))
		}
		b.OvFlush = int32(rapid.IntRange(-1, 2).Draw(rt, "ovflush"))
	}
	b.OvURL = rapid.SampledFrom([]string{"full", "", "tapdance"}).Draw(rt, "ovurl")
	b.Checked = rapid.Bool().Draw(rt, "checked")
	if rapid.Bool().Draw(rt, "withdstport") {
		if rapid.Bool().Draw(rt, "commonport") {
			b.DstPort = rapid.SampledFrom([]uint32{443, 80, 53, 22, 1024, 65535, 1}).Draw(rt, "dstport")
		} else {
			b.DstPort = uint32(rapid.IntRange(1, 65535).Draw(rt, "dstport"))
		}
	}
	switch rapid.IntRange(0, 3).Draw(rt, "addrmode") {
	case 0:
		b.Addr = "same"
	case 1:
		n := 4
		if c.V6 {
			n = 16
		}
		raw := rapid.SliceOfN(rapid.Byte(), n, n).Draw(rt, "ovaddr")
		if raw[0] == 0 {
			raw[0] = 0x2a
		}
		a, _ := netip.AddrFromSlice(raw)
		b.Addr = a.String()
	}
	c.Bidi = b
	return c
}

// ---- sub-check ---------------------------------------------------------------------------------------

const c01BidiRule = "rapid-generated bidirectional registrations: the derive case (secret x libver x subnet file x family x transport x client params) x registrar response {transport_params override of the transport's own type: randomize_dst_port absent/false/true, prefix_id any known / absent / the client's / unknown, flush policy, three type-url forms; or none} x disable_registrar_overrides on/off x dst_port absent / common / arbitrary x phantom address absent / the registrar's own selection / another address x client applies the override unchecked (dialer) or checked. Station: NewRegistrationC2SWrapper on the wrapper with the response. Client: SetParams, Prepare, SetSessionParams(override) unless it disabled overrides, address and dst_port from the response when present, else SelectPhantom and GetDstPort, PrepareKeys, WrapConn. Reference: published derivation over the parameters in force (override if present and allowed, else the client's own). Non-trivial as in derive. Distinct = distinct case."

var c01RequiredBidi = []string{
	"bidi:override-applied", "bidi:override-disabled", "bidi:no-override",
	"bidi:dstport", "bidi:no-dstport", "bidi:addr-same", "bidi:addr-other",
	"bidi:apply-checked", "bidi:apply-unchecked",
	"bidi:port-decided-by-override", "bidi:port-decided-by-own-params-despite-override",
	"bidi:own-randomize-vs-override-unset", "bidi:own-randomize-vs-override-false", "bidi:override-randomizes",
	"bidi:override-changes-prefix",
	"transport:min", "transport:obfs4", "transport:prefix", "transport:dtls",
	"port:random-granted", "port:not-asked", "v4", "v6",
}

func TestVerif_C01_bidi(t *testing.T) {
	rec := vh.NewRec("C01", "bidi", c01BidiRule)
	defer rec.Flush()
	env := c01NewEnv(t)
	if p := vh.ReplayFile(); p != "" {
		var c c01Case
		if _, _, err := vh.LoadReplay(p, &c); err != nil {
			t.Fatal(err)
		}
		o := c01Check(t, rec, env, &c)
		t.Logf("replay: station %s client %s reference %s", c01JSON(o.Station), c01JSON(o.Client), c01JSON(o.Ref))
		return
	}
	rec.Require(c01RequiredBidi...)
	rapid.Check(t, func(rt *rapid.T) {
		c := c01GenBidiCase(rt)
		c01Check(rt, rec, env, &c)
	})
}
