package lib

// C06 — fault sub-check: the configuration is parsed while net.Interfaces() fails.
//
// covert_blocklist_public_addrs makes ParseBlocklists read the interface table, which needs a
// netlink socket. When the process is out of file descriptors at start-up or on SIGHUP that call
// fails. The property quantifies over every configuration, so whatever the station does then, the
// parts of the policy that do not depend on the interface table must be fully in force: either the
// load fails, or every covert the station admits is permitted by the same configuration with
// public-address blocking taken out (allowlist and static blocklist and domain patterns intact), and
// every canonical covert it refuses is forbidden by the full configuration.
//
// Anchor (unchanged tree): under this fault ParseBlocklists returns nil and only the interface
// networks are missing; that loss is exempt here (it is a configuration-loading matter), everything
// else is asserted.
//
// The fault is injected without a hook: the soft RLIMIT_NOFILE is lowered to 0 around
// ParseBlocklists. That is done in a RE-EXECUTED CHILD of the test binary so the limit can never
// hurt the harness; the child reports, per configuration, whether net.Interfaces really failed, the
// load error, and the station's answers for a probe set of literal coverts.

import (
	"context"
	"encoding/json"
	"fmt"
	"net"
	"net/netip"
	"os"
	"os/exec"
	"path/filepath"
	"strings"
	"syscall"
	"testing"
	"time"

	"verif/harness/vh"
)

type c06FaultCase struct {
	Cfg c06Cfg `json:"cfg"`
}

type c06FaultRes struct {
	InterfacesFailed bool              `json:"interfaces_failed"` // net.Interfaces() failed under the lowered limit
	InterfacesErr    string            `json:"interfaces_err,omitempty"`
	LimitErr         string            `json:"limit_err,omitempty"`
	LoadErr          string            `json:"load_err,omitempty"`
	Panic            string            `json:"panic,omitempty"`
	Results          map[string]string `json:"results"`
}

const c06FaultPort = "443"

// TestVerif_C06_faultchild is the helper process of TestVerif_C06_fault; it is never selected by the
// driver (the unit's -test.run names the sub-checks exactly).
func TestVerif_C06_faultchild(t *testing.T) {
	in, out := os.Getenv("C06_FAULT_IN"), os.Getenv("C06_FAULT_OUT")
	if in == "" || out == "" {
		t.Skip("helper process of TestVerif_C06_fault")
	}
	b, err := os.ReadFile(in)
	if err != nil {
		t.Fatal(err)
	}
	var cases []c06FaultCase
	if err := json.Unmarshal(b, &cases); err != nil {
		t.Fatal(err)
	}
	probes, err := c06Probes(c06FaultPort)
	if err != nil {
		t.Fatal(err)
	}
	// the output file is opened before any limit is lowered
	f, err := os.Create(out)
	if err != nil {
		t.Fatal(err)
	}
	defer f.Close()
	var results []c06FaultRes
	for _, c := range cases {
		var r c06FaultRes
		conf := &RegConfig{
			EnableIPv4: true, EnableIPv6: true,
			CovertBlocklistSubnets:     append([]string(nil), c.Cfg.Block...),
			CovertAllowlistSubnets:     append([]string(nil), c.Cfg.Allow...),
			CovertBlocklistDomains:     append([]string(nil), c.Cfg.Domains...),
			CovertBlocklistPublicAddrs: c.Cfg.Public,
		}
		var old syscall.Rlimit
		if err := syscall.Getrlimit(syscall.RLIMIT_NOFILE, &old); err != nil {
			r.LimitErr = err.Error()
		} else {
			low := old
			low.Cur = 0
			if err := syscall.Setrlimit(syscall.RLIMIT_NOFILE, &low); err != nil {
				r.LimitErr = err.Error()
			}
		}
		if _, ierr := net.Interfaces(); ierr != nil {
			r.InterfacesFailed, r.InterfacesErr = true, ierr.Error()
		}
		func() {
			defer func() {
				if p := recover(); p != nil {
					r.Panic = fmt.Sprint(p)
				}
			}()
			if err := c06ParseBlocklistsErr(conf); err != nil {
				r.LoadErr = err.Error()
			}
		}()
		if r.LimitErr == "" {
			if err := syscall.Setrlimit(syscall.RLIMIT_NOFILE, &old); err != nil {
				t.Fatalf("cannot restore RLIMIT_NOFILE: %v", err)
			}
		}
		r.Results = map[string]string{}
		if r.Panic == "" && r.LoadErr == "" {
			for _, p := range probes {
				func() {
					defer func() {
						if x := recover(); x != nil {
							r.Panic = fmt.Sprint(x)
						}
					}()
					r.Results[p], _ = conf.ParseOrResolveBlocklisted(p)
				}()
			}
		}
		results = append(results, r)
	}
	if err := json.NewEncoder(f).Encode(results); err != nil {
		t.Fatal(err)
	}
}

// c06ParseBlocklistsErr calls ParseBlocklists whether or not it returns an error in this tree.
func c06ParseBlocklistsErr(conf *RegConfig) error {
	var f any = conf.ParseBlocklists
	switch g := f.(type) {
	case func() error:
		return g()
	case func():
		g()
	}
	return nil
}

func c06RunFaultChild(dir string, cases []c06FaultCase) ([]c06FaultRes, error) {
	in, out := filepath.Join(dir, "fault_in.json"), filepath.Join(dir, "fault_out.json")
	b, _ := json.Marshal(cases)
	if err := os.WriteFile(in, b, 0o644); err != nil {
		return nil, err
	}
	_ = os.Remove(out)
	ctx, cancel := context.WithTimeout(context.Background(), 120*time.Second)
	defer cancel()
	cmd := exec.CommandContext(ctx, os.Args[0], "-test.run=^TestVerif_C06_faultchild$", "-test.count=1", "-test.timeout=100s")
	cmd.Env = append(os.Environ(), "C06_FAULT_IN="+in, "C06_FAULT_OUT="+out, "VERIF_REPLAY=")
	cmd.Dir = dir
	co, err := cmd.CombinedOutput()
	if err != nil {
		return nil, fmt.Errorf("child failed: %v: %s", err, strings.TrimSpace(string(co)))
	}
	rb, err := os.ReadFile(out)
	if err != nil {
		return nil, err
	}
	var res []c06FaultRes
	if err := json.Unmarshal(rb, &res); err != nil {
		return nil, err
	}
	if len(res) != len(cases) {
		return nil, fmt.Errorf("child answered %d of %d configurations", len(res), len(cases))
	}
	return res, nil
}

// c06JudgeFault judges one configuration's answers; returns the first violation.
func c06JudgeFault(c c06FaultCase, r c06FaultRes, probes []string) (key, msg string, classes []string, harness string) {
	if r.LimitErr != "" {
		return "", "", nil, "cannot lower RLIMIT_NOFILE in the child: " + r.LimitErr
	}
	if c.Cfg.Public {
		classes = append(classes, "fault:public-addrs-on")
	}
	if len(c.Cfg.Allow) > 0 {
		classes = append(classes, "fault:allowlist-on")
	}
	if r.InterfacesFailed {
		classes = append(classes, "fault:interfaces-failed")
		if c.Cfg.Public && len(c.Cfg.Allow) > 0 {
			classes = append(classes, "fault:allowlist+public-addrs+interfaces-failed")
		}
	} else {
		classes = append(classes, "fault:not-injected")
	}
	if r.Panic != "" {
		return "covert:panic-under-fault", fmt.Sprintf("configuration %+v parsed while net.Interfaces fails (%s): panic: %s", c.Cfg, r.InterfacesErr, r.Panic), classes, ""
	}
	if r.LoadErr != "" {
		// refusing the configuration is safe
		return "", "", append(classes, "fault:load-refused"), ""
	}
	classes = append(classes, "fault:load-accepted")
	noPub := c.Cfg
	noPub.Public = false
	full, err := c06NewPolicy(c.Cfg)
	if err != nil {
		return "", "", classes, err.Error()
	}
	for _, p := range probes {
		res, ok := r.Results[p]
		if !ok {
			return "", "", classes, "child did not answer probe " + p
		}
		var v c06Verdict
		if res != "" {
			// admitted: must be permitted by everything that does not depend on the interface table
			v = c06Judge(p, noPub, res, nil)
			if ap, err := netip.ParseAddrPort(res); err == nil {
				if ok, _, _ := full.permitted(ap.Addr()); !ok && v.Key == "" {
					classes = append(classes, "fault:admitted-only-because-interface-nets-are-missing")
				}
			}
		} else {
			// refused: a canonical covert the full configuration permits must not be refused
			v = c06Judge(p, c.Cfg, "", nil)
		}
		if v.Key == "harness" {
			return "", "", classes, v.Msg
		}
		if v.Key != "" {
			return v.Key + ":interfaces-fault", fmt.Sprintf("configuration %+v parsed while net.Interfaces fails (%s) was accepted, and then: %s", c.Cfg, r.InterfacesErr, v.Msg), classes, ""
		}
	}
	return "", "", classes, ""
}

func c06FaultCases() []c06FaultCase {
	var out []c06FaultCase
	allows := [][]string{nil, {"127.0.0.1/32"}, {"127.0.0.0/30", "::1/128"}, {"8.8.8.0/24", "2001:db8::/32"}}
	blocks := [][]string{nil, {"127.0.0.1/32"}, c06Shipped.Block, {"127.0.0.2/31", "10.0.0.0/8"}}
	doms := [][]string{nil, {`^127\.0\.0\.3$`, "localhost"}}
	for _, a := range allows {
		for _, pub := range []bool{false, true} {
			for _, b := range blocks {
				for _, d := range doms {
					out = append(out, c06FaultCase{Cfg: c06Cfg{Allow: a, Block: b, Domains: d, Public: pub}})
				}
			}
		}
	}
	return out
}

func TestVerif_C06_fault(t *testing.T) {
	rec := vh.NewRec("C06", "fault", "exhaustive over 64 configurations {allowlist none / loopback / loopback+::1 / public} x {public-address blocking off, on} x {blocklist none / 127.0.0.1/32 / shipped / other} x {domain patterns none, some}: ParseBlocklists runs in a re-executed child of the test binary with the soft RLIMIT_NOFILE lowered to 0, so net.Interfaces() fails (the child reports whether it really did); then the child asks the parsed configuration for a probe set of literal coverts (loopback and neighbours, one address inside every local interface network, private, public). Oracle: the load fails, or every admitted covert is permitted by the reference policy of the same configuration without public-address blocking (allowlist, static blocklist, domain patterns fully in force) and every refused canonical covert is forbidden by the full configuration. Non-trivial: net.Interfaces failed and public-address blocking was on. Distinct by configuration")
	defer rec.Flush()
	rec.Require("fault:interfaces-failed", "fault:allowlist+public-addrs+interfaces-failed", "fault:load-accepted")
	dir := t.TempDir()
	var one c06FaultCase
	var cases []c06FaultCase
	if c06Replay(t, &one) {
		cases = []c06FaultCase{one}
	} else {
		rec.SetExhaustive(true)
		for i, c := range c06FaultCases() {
			if vh.Mine(i) {
				cases = append(cases, c)
			}
		}
	}
	if len(cases) == 0 {
		return
	}
	probes, err := c06Probes(c06FaultPort)
	if err != nil {
		t.Fatalf("harness problem: %v", err)
	}
	res, err := c06RunFaultChild(dir, cases)
	if err != nil {
		t.Fatalf("harness problem: fault child: %v", err)
	}
	nf := &c06NoFatal{}
	seen := map[string]bool{}
	for i, c := range cases {
		key, msg, classes, hp := c06JudgeFault(c, res[i], probes)
		if hp != "" {
			t.Fatalf("harness problem: %s", hp)
		}
		rec.Case(res[i].InterfacesFailed && c.Cfg.Public, vh.Digest(c), c, classes...)
		if key != "" && !seen[key] {
			seen[key] = true
			rec.Violation(nf, key, c, "%s", msg)
		}
	}
	if len(nf.msgs) > 0 {
		t.Fatalf("%s", strings.Join(nf.msgs, "\n"))
	}
}
