package lib

// C05 harness, part 1: a pair of scripted fault-injecting connections that share one "world".
//
// Differences to verif/harness/vconn (which C05 cannot use as is): every Write records the bytes
// *offered* (not only the accepted ones) and compares them on the fly with the stream the other
// connection's Read returned; write faults are keyed by call index with a nil-error short write;
// SetDeadline faults are keyed per calling direction; every call gets a global sequence number; and
// the two relay directions can be run under a replayable turn-based schedule (one direction runs at
// a time, the schedule string says which one goes next whenever both could), so that a case is a
// pure function of its value. Error values come from vconn.MkErr (the shapes the net package
// produces).
//
// Time is virtual (level 1): a read step can carry a pause, and a read script that is exhausted with
// End "hold" models a peer that stays silent for good. A Read that has to wait blocks until the
// connection is closed, or - once every other direction is blocked in a Read or finished, i.e.
// nothing else can happen at the current virtual time - the clock jumps to the earliest next event:
// the arrival of a chunk, or the expiry of the read deadline the relay last set on a connection
// (SetDeadline / SetReadDeadline; their real-clock argument is translated at the moment of the
// call), which makes that Read return the time-out error. The 30 s / 2 min waits cost nothing, and
// which deadline is in force where is exactly what the relay established.

import (
	"fmt"
	"net"
	"runtime"
	"strings"
	"sync"
	"time"

	"verif/harness/vconn"
)

const (
	c05Up     = 0 // client -> covert
	c05Down   = 1 // covert -> client
	c05Client = 0
	c05Covert = 1
)

const (
	c05StStarting = iota
	c05StRunning
	c05StWaiting
	c05StParked
	c05StDone
)

// c05WaitLimit bounds every real-time wait of the harness; hitting it is harness trouble.
const c05WaitLimit = 30 * time.Second

// c05SpinLimit: a direction that issues this many further calls of one kind on a connection after a
// call of that kind on that connection has already returned a failure (Read error incl. EOF and
// time-out, failed / short Write, failed SetDeadline) neither stops nor tears down - it spins. This
// is a count, not a time: the unchanged relay issues 0 such calls (a repair that writes data
// returned together with an error issues none of the same kind either). When the limit is reached
// the harness records the violation, closes both scripted connections so that every later call
// fails with "closed", and the case ends. A goroutine that still goes on for another c05SpinLimit
// calls is parked for good (it cannot be stopped otherwise) and the case is given up.
const c05SpinLimit = 1000

var c05DirName = [2]string{"up", "down"}
var c05ConnName = [2]string{"client", "covert"}

// c05Step is one element of a read script: N bytes, the last of them returned together with Err
// (N == 0: the error alone; N == 0 without Err: a legal zero-length read (0, nil), as framing /
// TLS-like wrappers produce - it is not an end of stream).
type c05Step struct {
	N    int    `json:"n"`
	Err  string `json:"err,omitempty"`
	Wait int    `json:"wait,omitempty"` // Proxy level only: block until this many bytes were offered to this conn's Write
	// PauseMs (level 1): virtual time that passes between the delivery of the previous step of this
	// connection (or the start) and the arrival of this one. While a Read waits for it, the read
	// deadline in force on the connection can expire (virtual clock, see c05World.vnow).
	PauseMs int64 `json:"pause_ms,omitempty"`
	// Over != 0: a broken source (e.g. a message-oriented wrapper reporting the size of the whole
	// record): the Read that starts this step fills the caller's whole buffer with the step's bytes
	// (N must be >= the buffer size) but reports len(buffer)+Over bytes (Over < 0: MaxInt32). The
	// bytes really handed over are the buffer's; the connection has broken the Read contract, which
	// counts as a failure of that side.
	Over int `json:"over,omitempty"`
	// Epoch: right before this step is delivered the statistics epoch rolls over (the harness calls
	// ProxyStats.PrintAndReset / Reset and Stats.Reset, as the station does every 5 s) while the
	// tunnel is open. Honoured where no other direction can be adding to the counters at that
	// moment (controlled schedules, Proxy level).
	Epoch bool `json:"epoch,omitempty"`
}

// c05WF is an injected result of the Call-th Write on a connection. Accept >= 0: that many bytes are
// taken; Accept < 0: len(p)+Accept bytes; clipped to [0, len(p)]. Err "" is a short write with a nil error.
type c05WF struct {
	Call   int    `json:"call"`
	Accept int    `json:"accept"`
	Err    string `json:"err,omitempty"`
	// Then "zero": every later Write on the connection accepts nothing and returns (0, nil) - a
	// destination that makes no progress any more without ever reporting an error.
	Then string `json:"then,omitempty"`
}

// c05DF makes the Call-th SetDeadline issued by direction Dir (0 up, 1 down; -1: Call counts every
// SetDeadline on the connection regardless of the caller) fail.
type c05DF struct {
	Dir  int    `json:"dir"`
	Call int    `json:"call"`
	Err  string `json:"err"`
}

type c05Script struct {
	Reads    []c05Step `json:"reads"`
	End      string    `json:"end"` // "hold" | "eof" | error kind (sticky)
	WF       []c05WF   `json:"wf,omitempty"`
	DF       []c05DF   `json:"df,omitempty"`
	CloseErr string    `json:"close_err,omitempty"`
	// CloseMs: the first Close marks the connection closed at once (blocked calls wake up, as with a
	// real socket) but returns only after this many milliseconds (a lingering close); further Close
	// calls return "already closed" immediately.
	CloseMs int `json:"close_ms,omitempty"`
	// HalfClose: the connection also offers CloseWrite / CloseRead, as *net.TCPConn (what Proxy dials
	// for the covert), *net.UnixConn and - CloseWrite only - tls.Conn do; a relay finds them with a
	// type assertion on the net.Conn it was given. CloseWrite: the peer sees the end of the stream, the
	// connection stays open and readable, later Writes fail with EPIPE. CloseRead: pending and later
	// Reads return EOF. Neither closes the connection; deadlines can still be set.
	HalfClose bool `json:"half_close,omitempty"`
}

func (s c05Script) total() int {
	n := 0
	for _, st := range s.Reads {
		n += st.N
	}
	return n
}

// c05Ev is one call on one of the connections.
type c05Ev struct {
	Seq   int
	Dir   int // calling direction (-1 unknown)
	Conn  int
	Op    string        // read | write | setdl | close | close-ret (the Close call #Call returned)
	Call  int           // per (conn, op[, dir]) call index
	N     int           // bytes returned by Read / accepted by Write
	Len   int           // bytes offered to Write
	Off   int           // read: bytes returned before; write: bytes offered before
	Err   string        // error kind ("" none)
	Bad   int           // write: first offered byte that differs from the source stream at Off (-1 none)
	BadDl int           // write: first accepted byte that does not continue the delivered stream (-1 none)
	Fault bool          // the result was injected by the script (not a consequence of a close)
	WG    int           // close / close-ret: WaitGroup counter at that moment (-1 unknown)
	Sync  bool          // close: issued on a halfPipe's own goroutine (not by the detached `go closeConn(src)`)
	VT    time.Duration // virtual time of the call
	Over  int           // read: the call reported this many bytes although only N fit into the buffer
	// read time-outs produced by the virtual clock (the read deadline in force expired while the
	// connection was silent): when and by which call that deadline had been set, and its value
	DLDriven bool
	DLSetSeq int
	DLSetVT  time.Duration
	DLVal    time.Duration
}

// c05Wake: nobody could move at the current virtual time (every direction blocked in a Read or
// finished, nothing closed under a blocked Read), so the harness let time pass and released the
// parked Read of direction Dir: the clock went From -> To (the arrival of its next chunk or the
// expiry of the read deadline in force on its connection).
type c05Wake struct {
	Seq      int
	Dir      int
	From, To time.Duration
	NoDL     bool
}

type c05World struct {
	mu    sync.Mutex
	cond  *sync.Cond
	seq   int
	free  bool // no gating: the Go scheduler interleaves the directions
	solo  bool // Proxy level: only the client connection is scripted; hold = wait for Close
	sched string
	si    int
	last  int
	st    [2]int
	fire  [2]bool
	// virtual clock: advances only when every direction is blocked in a Read (or finished), to the
	// earliest moment at which one of them can go on (its next scripted chunk arrives, or the read
	// deadline in force on its connection expires)
	vnow    time.Duration
	parkArr [2]time.Duration // arrival time the parked Read waits for (<0: nothing will ever arrive)
	stuck   bool
	noDL    bool // a stalled Read had to be released although no deadline was set
	conns   [2]*c05Conn
	evs     []c05Ev
	done    [2]int // sequence number at which the direction's halfPipe returned (0 = not yet)
	wakes   []c05Wake
	pan     [2]any
	timer   *time.Timer
	wgN     func() int // current WaitGroup counter (nil: unknown)
	onEpoch func()     // statistics epoch roll-over (called with the world locked)
	// spin detection
	abort      *c05Viol // set when a direction kept calling after a failure (see c05SpinLimit)
	afterAbort int
	zombie     [2]bool // direction parked for good by the harness
	zombies    int
}

// abortCase records the spin violation and closes both scripted connections from the harness.
func (w *c05World) abortCase(key, msg string) {
	if w.abort != nil {
		return
	}
	w.abort = &c05Viol{key, msg}
	for _, c := range w.conns {
		if c != nil {
			c.closed = true
			c.closeRet = true
		}
	}
	w.pick()
	w.cond.Broadcast()
}

func (w *c05World) wgCount() int {
	if w.wgN == nil {
		return -1
	}
	return w.wgN()
}

func c05NewWorld(sched string) *c05World {
	w := &c05World{sched: sched, last: 1}
	if sched == "free" {
		w.free = true
		w.sched = ""
	}
	w.cond = sync.NewCond(&w.mu)
	w.timer = time.AfterFunc(c05WaitLimit, func() {
		w.mu.Lock()
		w.stuck = true
		w.cond.Broadcast()
		w.mu.Unlock()
	})
	return w
}

func (w *c05World) stop() { w.timer.Stop() }

func (w *c05World) nextSeq() int { w.seq++; return w.seq }

// gate is the yield point at the start of every Read / Write / SetDeadline of direction d.
func (w *c05World) gate(d int) {
	if d < 0 || w.solo {
		return
	}
	if w.free || w.stuck {
		w.st[d] = c05StRunning
		return
	}
	w.st[d] = c05StWaiting
	w.pick()
	for w.st[d] != c05StRunning && !w.stuck {
		w.cond.Wait()
	}
	w.st[d] = c05StRunning
}

// pick resumes one direction once none is moving.
func (w *c05World) pick() {
	if w.free || w.solo || w.stuck {
		return
	}
	for d := 0; d < 2; d++ {
		if w.st[d] == c05StStarting || w.st[d] == c05StRunning {
			return
		}
	}
	var cands []int
	for d := 0; d < 2; d++ {
		if w.st[d] == c05StWaiting || (w.st[d] == c05StParked && w.conns[d].gone()) {
			cands = append(cands, d)
		}
	}
	timeout := false
	if len(cands) == 0 {
		// nobody can move at the current virtual time: let time pass
		timeout = true
		cands = w.earliest()
	}
	if len(cands) == 0 {
		return
	}
	c := cands[0]
	if len(cands) == 2 {
		if w.si < len(w.sched) {
			c = int(w.sched[w.si]-'0') & 1
			w.si++
		} else {
			c = 1 - w.last
		}
	}
	w.last = c
	if timeout {
		w.wake(c)
	}
	w.st[c] = c05StRunning
	w.cond.Broadcast()
}

const c05Never = time.Duration(1<<62 - 1)

// wakeTime is the virtual time at which the parked Read of direction d can go on.
func (w *c05World) wakeTime(d int) time.Duration {
	c := w.conns[d]
	t := c05Never
	if w.parkArr[d] >= 0 {
		t = w.parkArr[d]
	}
	if c.dlSet && c.rdl < t {
		t = c.rdl
	}
	return t
}

// earliest returns the parked direction(s) that can go on first; two if their times are within
// 10 ms of virtual time (e.g. both deadlines set by the same refresh), then the schedule decides.
func (w *c05World) earliest() []int {
	var ps []int
	for d := 0; d < 2; d++ {
		if w.st[d] == c05StParked {
			ps = append(ps, d)
		}
	}
	if len(ps) == 2 {
		a, b := w.wakeTime(0), w.wakeTime(1)
		switch {
		case a+10*time.Millisecond < b:
			ps = []int{0}
		case b+10*time.Millisecond < a:
			ps = []int{1}
		}
	}
	return ps
}

// wake advances the virtual clock to the wake time of parked direction d and releases it.
func (w *c05World) wake(d int) {
	wk := c05Wake{Seq: w.nextSeq(), Dir: d, From: w.vnow, To: w.vnow}
	if t := w.wakeTime(d); t != c05Never {
		if t > w.vnow {
			w.vnow = t
		}
		wk.To = w.vnow
	} else {
		w.noDL = true // silent connection without a read deadline: a real relay would hang here
		wk.NoDL = true
	}
	if w.abort == nil {
		w.wakes = append(w.wakes, wk)
	}
	w.fire[d] = true
}

// why tells a released Read what happened: "data" (its chunk has arrived), "timeout" (the read
// deadline in force has expired), or "again".
func (w *c05World) why(d int, c *c05Conn) string {
	switch {
	case w.parkArr[d] >= 0 && w.parkArr[d] <= w.vnow:
		return "data"
	case w.noDL || (c.dlSet && c.rdl <= w.vnow):
		return "timeout"
	}
	return "again"
}

// advanceFree is pick's time step for the uncontrolled mode.
func (w *c05World) advanceFree() {
	for d := 0; d < 2; d++ {
		if w.st[d] != c05StParked && w.st[d] != c05StDone {
			return
		}
		if w.st[d] == c05StParked && (w.conns[d].gone() || w.fire[d]) {
			return
		}
	}
	if ps := w.earliest(); len(ps) > 0 {
		w.wake(ps[0])
		w.cond.Broadcast()
	}
}

// park blocks a Read of direction d on its source connection c until the connection is closed, the
// chunk expected at virtual time arr arrives (arr < 0: the peer stays silent for good), or the read
// deadline in force expires - whichever the virtual clock reaches first.
func (w *c05World) park(d int, c *c05Conn, arr time.Duration) string {
	if w.solo || d < 0 {
		for !c.gone() && !w.stuck {
			w.cond.Wait()
		}
		if c.gone() {
			return "closed"
		}
		return "stuck"
	}
	w.st[d] = c05StParked
	w.parkArr[d] = arr
	if w.free {
		w.cond.Broadcast()
		for {
			if c.gone() {
				w.st[d] = c05StRunning
				w.fire[d] = false
				return "closed"
			}
			if w.stuck {
				w.st[d] = c05StRunning
				return "stuck"
			}
			if w.fire[d] {
				w.fire[d] = false
				w.st[d] = c05StRunning
				return w.why(d, c)
			}
			w.advanceFree()
			if w.fire[d] {
				continue
			}
			w.cond.Wait()
		}
	}
	w.pick()
	for w.st[d] != c05StRunning && !w.stuck {
		w.cond.Wait()
	}
	w.st[d] = c05StRunning
	if c.gone() {
		w.fire[d] = false
		return "closed"
	}
	if w.fire[d] {
		w.fire[d] = false
		return w.why(d, c)
	}
	return "stuck"
}

func (w *c05World) finish(d int, pan any) {
	w.mu.Lock()
	w.st[d] = c05StDone
	w.done[d] = w.nextSeq()
	w.pan[d] = pan
	w.pick()
	if w.free && !w.solo {
		w.advanceFree()
	}
	w.cond.Broadcast()
	w.mu.Unlock()
}

// waitDone waits until both directions returned (or the harness limit was hit).
func (w *c05World) waitDone() bool {
	w.mu.Lock()
	defer w.mu.Unlock()
	for !(w.st[0] == c05StDone && w.st[1] == c05StDone) && !w.stuck {
		w.cond.Wait()
	}
	return w.st[0] == c05StDone && w.st[1] == c05StDone
}

func (w *c05World) events() []c05Ev {
	w.mu.Lock()
	defer w.mu.Unlock()
	return append([]c05Ev(nil), w.evs...)
}

// c05Conn ---------------------------------------------------------------------------------------

type c05Conn struct {
	w         *c05World
	idx       int
	s         c05Script
	stream    []byte // the bytes the read script hands out
	source    []byte // the stream whose bytes are expected at Write (what the other side's Read returns)
	ri, off   int
	pos       int // bytes returned by Read so far
	nWrite    int
	nDL       [3]int // SetDeadline calls by up, by down, all
	offered   int
	delivered int
	closed    bool
	closeRet  bool // the first Close call has returned
	wrShut    bool // CloseWrite was called (HalfClose connections)
	rdShut    bool // CloseRead was called
	syncOpen  int  // Close calls issued on a halfPipe's own goroutine that have not returned yet
	syncSeen  int  // such calls seen at all
	nClose    int
	dlSet     bool          // a read deadline is in force
	rdl       time.Duration // ... at this virtual time
	rdlSeq    int           // ... set by the call with this sequence number
	rdlVT     time.Duration // ... at this virtual time
	wdlSet    bool          // a write deadline is in force (moved by SetDeadline / SetWriteDeadline)
	wdl       time.Duration
	wdlSeq    int
	wdlVT     time.Duration
	stepBase  time.Duration // virtual time at which the previous read step was delivered completely
	epochAt   int           // index+1 of the last step whose epoch roll-over was performed
	arrived   bool          // the current step's pause is over
	endHit    bool
	failed    [5]string // per call kind (0 Read, 1 Write, 2-4 SetDeadline by up / down / unattributed): first failure handed out
	afterFail [5]int    // calls of that kind after that failure
	local     net.Addr
	remote    net.Addr
}

func c05NewConn(w *c05World, idx int, s c05Script, stream, source []byte) *c05Conn {
	c := &c05Conn{w: w, idx: idx, s: s, stream: stream, source: source}
	if idx == c05Client {
		c.local = &net.TCPAddr{IP: net.IPv4(192, 122, 190, 17), Port: 443}
		c.remote = &net.TCPAddr{IP: net.IPv4(203, 0, 113, 77), Port: 5555}
	} else {
		c.local = &net.TCPAddr{IP: net.IPv4(10, 9, 9, 9), Port: 41245}
		c.remote = &net.TCPAddr{IP: net.IPv4(192, 0, 2, 10), Port: 443}
	}
	w.conns[idx] = c
	return c
}

func (c *c05Conn) mkErr(kind, op string) error { return vconn.MkErr(kind, op, c.local, c.remote) }

func (c *c05Conn) ev(e c05Ev) {
	e.Seq = c.w.nextSeq()
	e.Conn = c.idx
	e.VT = c.w.vnow
	if c.w.abort != nil {
		return // the case is over; do not grow the log while a spinning direction winds down
	}
	c.w.evs = append(c.w.evs, e)
	// remember the first failure of each call kind
	k := -1
	switch e.Op {
	case "read":
		k = 0
	case "write":
		k = 1
	case "setdl":
		k = 2 + e.Dir
		if e.Dir < 0 {
			k = 4
		}
	}
	if k >= 0 && c.failed[k] == "" && (e.Err != "" || (e.Op == "write" && e.N < e.Len)) {
		c.failed[k] = fmt.Sprintf("%s.%s(seq%d) -> err=%q", c05ConnName[c.idx], e.Op, e.Seq, e.Err)
		if e.Err == "" {
			c.failed[k] = fmt.Sprintf("%s.write(seq%d) accepted %d of %d bytes", c05ConnName[c.idx], e.Seq, e.N, e.Len)
		}
	}
}

// tick is called (world locked) at the start of every Read (k 0) / Write (1) / SetDeadline (2) by
// direction d. It counts calls made after a failure of the same kind and ends a spinning case.
func (c *c05Conn) tick(d, k int) {
	w := c.w
	if k == 2 {
		k = 2 + d
		if d < 0 {
			k = 4
		}
	}
	if w.abort != nil {
		w.afterAbort++
		if w.afterAbort > c05SpinLimit {
			// still going although every call fails with "closed": park this goroutine for good
			if d >= 0 && !w.solo && w.st[d] != c05StDone {
				w.st[d] = c05StDone
				w.done[d] = w.nextSeq()
				w.zombie[d] = true
			}
			w.zombies++
			w.pick()
			w.cond.Broadcast()
			w.mu.Unlock()
			select {}
		}
		return
	}
	if c.failed[k] == "" {
		return
	}
	c.afterFail[k]++
	if c.afterFail[k] >= c05SpinLimit {
		kind := [5]string{"Read", "Write", "SetDeadline", "SetDeadline", "SetDeadline"}[k]
		who := ""
		if d >= 0 {
			who = c05DirName[d] + ": "
		}
		w.abortCase("no-teardown:keeps-calling-after-failure", fmt.Sprintf("%s%d further %s calls on the %s connection after %s: the direction neither stops nor closes anything, the tunnel is never torn down and Proxy would never return (counted calls, no clock involved; the harness then closed both connections to end the case)",
			who, c.afterFail[k], kind, c05ConnName[c.idx], c.failed[k]))
	}
}

func (c *c05Conn) read(d int, p []byte) (int, error) {
	w := c.w
	w.mu.Lock()
	defer w.mu.Unlock()
	w.gate(d)
	c.tick(d, 0)
	for {
		if c.closed {
			c.ev(c05Ev{Dir: d, Op: "read", Off: c.pos, Err: "closed"})
			return 0, c.mkErr("closed", "read")
		}
		if c.rdShut {
			// the relay itself shut the read side down: end of stream, as on a socket
			c.ev(c05Ev{Dir: d, Op: "read", Off: c.pos, Err: "eof"})
			return 0, c.mkErr("eof", "read")
		}
		if len(p) == 0 {
			return 0, nil
		}
		if c.ri < len(c.s.Reads) {
			st := c.s.Reads[c.ri]
			if st.Wait > 0 && c.offered < st.Wait && !w.stuck {
				w.cond.Wait()
				continue
			}
			if !c.arrived && !w.solo && d >= 0 {
				if arr := c.stepBase + time.Duration(st.PauseMs)*time.Millisecond; arr > w.vnow {
					switch w.park(d, c, arr) {
					case "timeout":
						return 0, c.timeoutEv(d)
					case "stuck":
						c.ev(c05Ev{Dir: d, Op: "read", Off: c.pos, Err: "harness-wait-limit"})
						return 0, c.mkErr("closed", "read")
					case "data":
						c.arrived = true
					}
					continue
				}
				c.arrived = true
			}
			if st.Epoch && c.epochAt <= c.ri && w.onEpoch != nil && (!w.free || w.solo) && w.abort == nil {
				c.epochAt = c.ri + 1
				w.onEpoch()
			}
			n := st.N - c.off
			if n > len(p) {
				n = len(p)
			}
			copy(p, c.stream[c.pos:c.pos+n])
			off := c.pos
			over := 0
			if st.Over != 0 && c.off == 0 && n == len(p) {
				over = len(p) + st.Over
				if st.Over < 0 {
					over = 1<<31 - 1
				}
			}
			c.pos += n
			c.off += n
			kind := ""
			if c.off >= st.N {
				kind = st.Err
				c.ri++
				c.off = 0
				c.stepBase = w.vnow
				c.arrived = false
			}
			if n == 0 && kind == "" && st.N != 0 {
				continue
			}
			c.ev(c05Ev{Dir: d, Op: "read", N: n, Off: off, Err: kind, Fault: kind != "" || st.N == 0 || over != 0, Over: over})
			if over != 0 {
				return over, c.mkErr(kind, "read")
			}
			return n, c.mkErr(kind, "read")
		}
		switch c.s.End {
		case "", "hold":
			switch w.park(d, c, -1) {
			case "closed", "again", "data":
				continue
			case "timeout":
				return 0, c.timeoutEv(d)
			default:
				c.ev(c05Ev{Dir: d, Op: "read", Off: c.pos, Err: "harness-wait-limit"})
				return 0, c.mkErr("closed", "read")
			}
		default:
			c.ev(c05Ev{Dir: d, Op: "read", Off: c.pos, Err: c.s.End, Fault: true})
			c.endHit = true
			return 0, c.mkErr(c.s.End, "read")
		}
	}
}

// timeoutEv records a read time-out produced by the virtual clock and returns its error.
func (c *c05Conn) timeoutEv(d int) error {
	c.ev(c05Ev{Dir: d, Op: "read", Off: c.pos, Err: "timeout", Fault: true, DLDriven: true, DLSetSeq: c.rdlSeq, DLSetVT: c.rdlVT, DLVal: c.rdl})
	return c.mkErr("timeout", "read")
}

// firstDiff returns the index of the first byte of p that differs from want (bytes beyond want differ).
func c05FirstDiff(p, want []byte) int {
	for i := range p {
		if i >= len(want) || p[i] != want[i] {
			return i
		}
	}
	return -1
}

func c05Tail(b []byte, off int) []byte {
	if off >= len(b) {
		return nil
	}
	return b[off:]
}

func (c *c05Conn) write(d int, p []byte) (int, error) {
	w := c.w
	w.mu.Lock()
	defer w.mu.Unlock()
	w.gate(d)
	c.tick(d, 1)
	idx := c.nWrite
	c.nWrite++
	e := c05Ev{Dir: d, Op: "write", Call: idx, Len: len(p), Off: c.offered, Bad: -1, BadDl: -1}
	e.Bad = c05FirstDiff(p, c05Tail(c.source, c.offered))
	c.offered += len(p)
	n := len(p)
	kind := ""
	if c.closed {
		n, kind = 0, "closed"
	} else if c.wrShut {
		n, kind = 0, "epipe" // the relay itself shut the write side down
	} else if !w.solo && c.wdlSet && w.vnow >= c.wdl {
		// the write deadline in force lies in the (virtual) past: a socket refuses the write at once
		n, kind = 0, "timeout"
		e.Fault, e.DLDriven, e.DLSetSeq, e.DLSetVT, e.DLVal = true, true, c.wdlSeq, c.wdlVT, c.wdl
	} else {
		for _, f := range c.s.WF {
			if f.Call == idx {
				n = f.Accept
				if n < 0 {
					n = len(p) + f.Accept
				}
				if n < 0 {
					n = 0
				}
				if n > len(p) {
					n = len(p)
				}
				kind = f.Err
				e.Fault = kind != "" || n < len(p)
				break
			}
		}
		if !e.Fault {
			for _, f := range c.s.WF {
				if f.Then == "zero" && f.Call < idx {
					n, kind = 0, ""
					e.Fault = true
				}
			}
		}
	}
	e.BadDl = c05FirstDiff(p[:n], c05Tail(c.source, c.delivered))
	c.delivered += n
	e.N, e.Err = n, kind
	c.ev(e)
	w.cond.Broadcast()
	return n, c.mkErr(kind, "write")
}

// setDL: which is 'b' (SetDeadline), 'r' (SetReadDeadline) or 'w' (SetWriteDeadline). The read
// deadline can expire while a Read waits; writes of the scripted connections never block, but a
// Write issued when the write deadline in force already lies in the virtual past fails with the
// time-out error, as on a socket.
func (c *c05Conn) setDL(d int, t time.Time, which byte) error {
	w := c.w
	w.mu.Lock()
	defer w.mu.Unlock()
	w.gate(d)
	c.tick(d, 2)
	all := c.nDL[2]
	c.nDL[2]++
	mine := all
	if d >= 0 {
		mine = c.nDL[d]
		c.nDL[d]++
	}
	if c.closed {
		c.ev(c05Ev{Dir: d, Op: "setdl", Call: mine, Err: "closed"})
		return c.mkErr("closed", "set")
	}
	for _, f := range c.s.DF {
		if (f.Dir == d && d >= 0 && f.Call == mine) || (f.Dir < 0 && f.Call == all) {
			c.ev(c05Ev{Dir: d, Op: "setdl", Call: mine, Err: f.Err, Fault: true})
			return c.mkErr(f.Err, "set")
		}
	}
	if which != 'r' {
		c.wdlSet = !t.IsZero()
		c.wdl = w.vnow + time.Until(t)
		c.wdlSeq = w.seq + 1
		c.wdlVT = w.vnow
	}
	if which != 'w' {
		c.dlSet = !t.IsZero()
		// the relay computes deadlines from the real clock; only microseconds of it pass in a case
		c.rdl = w.vnow + time.Until(t)
		c.rdlSeq = w.seq + 1
		c.rdlVT = w.vnow
	}
	c.ev(c05Ev{Dir: d, Op: "setdl", Call: mine})
	return nil
}

// c05OnHalfPipeGoroutine reports whether the caller runs on the goroutine of a halfPipe itself (its
// deferred synchronous close of the destination) rather than on the detached goroutine that closes
// the source: only then is the halfPipe function itself (not one of its closures) on the stack.
func c05OnHalfPipeGoroutine() bool {
	pc := make([]uintptr, 32)
	n := runtime.Callers(2, pc)
	fr := runtime.CallersFrames(pc[:n])
	for {
		f, more := fr.Next()
		if strings.HasSuffix(f.Function, "/station/lib.halfPipe") {
			return true
		}
		if !more {
			return false
		}
	}
}

func (c *c05Conn) close(d int) error {
	sync := c05OnHalfPipeGoroutine()
	w := c.w
	w.mu.Lock()
	defer w.mu.Unlock()
	idx := c.nClose
	c.nClose++
	if sync {
		c.syncSeen++
	}
	if c.closed {
		c.ev(c05Ev{Dir: d, Op: "close", Call: idx, Err: "closed", WG: w.wgCount(), Sync: sync})
		c.ev(c05Ev{Dir: d, Op: "close-ret", Call: idx, Err: "closed", WG: w.wgCount(), Sync: sync})
		return c.mkErr("closed", "close")
	}
	c.closed = true
	c.ev(c05Ev{Dir: d, Op: "close", Call: idx, Err: c.s.CloseErr, Fault: c.s.CloseErr != "" || c.s.CloseMs > 0, WG: w.wgCount(), Sync: sync})
	w.pick()
	w.cond.Broadcast()
	if c.s.CloseMs > 0 {
		if sync {
			c.syncOpen++
		}
		w.mu.Unlock()
		time.Sleep(time.Duration(c.s.CloseMs) * time.Millisecond)
		w.mu.Lock()
		if sync {
			c.syncOpen--
		}
	}
	c.closeRet = true
	c.ev(c05Ev{Dir: d, Op: "close-ret", Call: idx, Err: c.s.CloseErr, WG: w.wgCount(), Sync: sync})
	w.cond.Broadcast()
	return c.mkErr(c.s.CloseErr, "close")
}

// gone: a Read cannot wait on this connection any more (closed, or its read side shut down).
func (c *c05Conn) gone() bool { return c.closed || c.rdShut }

// shut is CloseWrite (which 'w') / CloseRead ('r') of a HalfClose connection, called by direction d.
// Like Close it is not a yield point of the turn schedule.
func (c *c05Conn) shut(d int, which byte) error {
	w := c.w
	w.mu.Lock()
	defer w.mu.Unlock()
	op := "shutwr"
	if which == 'r' {
		op = "shutrd"
	}
	if c.closed {
		c.ev(c05Ev{Dir: d, Op: op, Err: "closed"})
		return c.mkErr("closed", "close")
	}
	c.ev(c05Ev{Dir: d, Op: op})
	if which == 'r' {
		c.rdShut = true
	} else {
		c.wrShut = true
	}
	w.pick()
	w.cond.Broadcast()
	return nil
}

// closeState reports whether Close was called, whether the first Close call has returned, and how
// many Close calls issued on a halfPipe's own goroutine are still in progress.
func (c *c05Conn) closeState() (begun, returned bool, syncOpen int) {
	c.w.mu.Lock()
	defer c.w.mu.Unlock()
	return c.closed, c.closeRet, c.syncOpen
}

func (c *c05Conn) isClosed() bool {
	c.w.mu.Lock()
	defer c.w.mu.Unlock()
	return c.closed
}

// As a net.Conn of its own (Proxy level) the caller is inferred: only "up" reads the client
// connection and only "down" writes it; deadline and close calls are unattributed.
func (c *c05Conn) Read(p []byte) (int, error)         { return c.read(c05Up, p) }
func (c *c05Conn) Write(p []byte) (int, error)        { return c.write(c05Down, p) }
func (c *c05Conn) Close() error                       { return c.close(-1) }
func (c *c05Conn) LocalAddr() net.Addr                { return c.local }
func (c *c05Conn) RemoteAddr() net.Addr               { return c.remote }
func (c *c05Conn) SetDeadline(t time.Time) error      { return c.setDL(-1, t, 'b') }
func (c *c05Conn) SetReadDeadline(t time.Time) error  { return c.setDL(-1, t, 'r') }
func (c *c05Conn) SetWriteDeadline(t time.Time) error { return c.setDL(-1, t, 'w') }

// c05View is the connection as seen by one relay direction: the same connection state, but calls
// are attributed to (and scheduled as) that direction.
type c05View struct {
	c *c05Conn
	d int
}

func (v c05View) Read(p []byte) (int, error)         { return v.c.read(v.d, p) }
func (v c05View) Write(p []byte) (int, error)        { return v.c.write(v.d, p) }
func (v c05View) Close() error                       { return v.c.close(v.d) }
func (v c05View) LocalAddr() net.Addr                { return v.c.local }
func (v c05View) RemoteAddr() net.Addr               { return v.c.remote }
func (v c05View) SetDeadline(t time.Time) error      { return v.c.setDL(v.d, t, 'b') }
func (v c05View) SetReadDeadline(t time.Time) error  { return v.c.setDL(v.d, t, 'r') }
func (v c05View) SetWriteDeadline(t time.Time) error { return v.c.setDL(v.d, t, 'w') }

// c05ViewHC / c05ConnHC: the same connection for scripts with HalfClose - the dynamic type the relay
// is handed also has CloseWrite and CloseRead.
type c05ViewHC struct{ c05View }

func (v c05ViewHC) CloseWrite() error { return v.c.shut(v.d, 'w') }
func (v c05ViewHC) CloseRead() error  { return v.c.shut(v.d, 'r') }

type c05ConnHC struct{ *c05Conn }

func (c c05ConnHC) CloseWrite() error { return c.c05Conn.shut(-1, 'w') }
func (c c05ConnHC) CloseRead() error  { return c.c05Conn.shut(-1, 'r') }

// view returns the connection as direction d is to see it (with the half-close methods if scripted).
func (c *c05Conn) view(d int) net.Conn {
	if c.s.HalfClose {
		return c05ViewHC{c05View{c, d}}
	}
	return c05View{c, d}
}

// asConn returns the connection as a net.Conn of its own (Proxy level).
func (c *c05Conn) asConn() net.Conn {
	if c.s.HalfClose {
		return c05ConnHC{c}
	}
	return c
}

// c05Pool is a fixed pseudo-random byte pool; the two scripted streams are disjoint slices of it, so
// that any loss, duplication or reordering changes the bytes seen at some offset.
var (
	c05PoolOnce sync.Once
	c05PoolBuf  []byte
)

const c05PoolHalf = 1 << 20

func c05Pool() []byte {
	c05PoolOnce.Do(func() {
		c05PoolBuf = make([]byte, 2*c05PoolHalf)
		x := uint64(0x9E3779B97F4A7C15)
		for i := 0; i < len(c05PoolBuf); i += 8 {
			x ^= x << 13
			x ^= x >> 7
			x ^= x << 17
			for j := 0; j < 8; j++ {
				c05PoolBuf[i+j] = byte(x >> (8 * j))
			}
		}
	})
	return c05PoolBuf
}

// c05Stream returns the n scripted bytes of connection idx.
func c05Stream(idx, n int) ([]byte, error) {
	if n > c05PoolHalf {
		return nil, fmt.Errorf("script of %d bytes exceeds the stream pool", n)
	}
	p := c05Pool()
	return p[idx*c05PoolHalf : idx*c05PoolHalf+n], nil
}
