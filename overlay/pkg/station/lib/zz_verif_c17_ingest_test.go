package lib

// C17 (registration ingest) — a registration message carries the client's address twice: the
// registrant address the registrar forwards, and (for DTLS) the client's public endpoints inside the
// transport parameters. Whatever is wrong with a message - malformed addresses, unknown generation,
// unknown transport, parameters of the wrong type, incomplete secret, unsupported family - the
// station's complaint about it must not contain those addresses.

import (
	"time"
	"sync"
	"context"
	"encoding/hex"
	"fmt"
	golog "log"
	"net"
	"strings"
	"testing"

	"github.com/refraction-networking/conjure/pkg/station/log"
	"github.com/refraction-networking/conjure/pkg/transports"
	"github.com/refraction-networking/conjure/pkg/transports/connecting/dtls"
	pb "github.com/refraction-networking/conjure/proto"
	"google.golang.org/protobuf/proto"
	"google.golang.org/protobuf/types/known/anypb"
	"pgregory.net/rapid"
	"verif/harness/vh"
)

type c17iAddr struct {
	Kind string `json:"kind"` // none | v4 | v6 | mapped | short | long | empty
	Port uint32 `json:"port"`
}

type c17iCase struct {
	TT        int      `json:"tt"`         // 0 min 1 prefix 2 obfs4 3 dtls 4 unknown transport
	RegAddr   c17iAddr `json:"reg_addr"`   // registrant address forwarded by the registrar
	Src4      c17iAddr `json:"src4"`       // DTLS parameters: client's public IPv4 endpoint
	Src6      c17iAddr `json:"src6"`       // DTLS parameters: client's public IPv6 endpoint
	ParamsFor int      `json:"params_for"` // transport whose parameter message is attached (mismatch = wrong type); -1 none
	Gen       uint32   `json:"gen"`
	LibVer    uint32   `json:"libver"`
	V4, V6    bool
	SecretLen int  `json:"secret_len"`
	Source    int  `json:"source"`
	Dup       bool `json:"dup"` // the message is delivered twice
	Unidir    bool `json:"unidir"`
	Tunnel    int  `json:"tunnel"` // what the station's dial to a DTLS client does: 0 times out, 1 yields a session that is relayed to a reachable covert, 2 yields a session whose covert refuses
}

// distinctive client addresses: nothing else in the harness uses these bytes
var (
	c17iV4 = net.IPv4(203, 0, 113, 77).To4()
	c17iV6 = net.ParseIP("2001:db8:ffff::c1e7:77")
	c17iS4 = net.IPv4(198, 18, 77, 9).To4()
	c17iS6 = net.ParseIP("2001:db8:eeee::c1e7:99")
)

func c17iBytes(a c17iAddr, v4 net.IP, v6 net.IP) []byte {
	switch a.Kind {
	case "v4":
		return []byte(v4)
	case "v6":
		return []byte(v6)
	case "mapped":
		return []byte(v4.To16())
	case "short":
		return []byte(v4[:3])
	case "long":
		return append([]byte(v6), 0x77)
	case "empty":
		return []byte{}
	}
	return nil
}

// c17iNeedles: every textual form in which the address bytes could show up.
func c17iNeedles(b []byte) []string {
	if len(b) < 3 {
		return nil
	}
	n := []string{hex.EncodeToString(b), strings.ToUpper(hex.EncodeToString(b))}
	ip := net.IP(b)
	switch len(b) {
	case 4, 16:
		n = append(n, ip.String())
		if v4 := ip.To4(); v4 != nil {
			n = append(n, v4.String())
		}
	case 3:
		n = append(n, fmt.Sprintf("%d.%d.%d", b[0], b[1], b[2]), fmt.Sprintf("%d %d %d", b[0], b[1], b[2]))
	case 17:
		n = append(n, net.IP(b[:16]).String())
	}
	// Go prints []byte with %v as decimal numbers
	var dec []string
	for _, x := range b {
		dec = append(dec, fmt.Sprint(x))
	}
	n = append(n, strings.Join(dec, " "))
	return n
}

type c17iDTLS struct {
	dtls.Transport
	st *c17iDial
}

type c17iDial struct {
	mu     sync.Mutex
	tunnel int
}

// Connect: the station would dial out to the client here. The harness either refuses without
// touching the network or hands back the station's end of an established session (a pipe: the
// session itself carries no address) on which the client says a few bytes and hangs up.
func (d c17iDTLS) Connect(ctx context.Context, reg transports.Registration) (net.Conn, error) {
	d.st.mu.Lock()
	mode := d.st.tunnel
	d.st.mu.Unlock()
	if mode == 0 {
		return nil, context.DeadlineExceeded
	}
	station, client := net.Pipe()
	go func() {
		_, _ = client.Write([]byte("hello from the client"))
		_ = client.SetReadDeadline(time.Now().Add(200 * time.Millisecond))
		_, _ = client.Read(make([]byte, 64))
		_ = client.Close()
	}()
	return station, nil
}

func c17iGenAddr(rt *rapid.T, label string, kinds []string) c17iAddr {
	return c17iAddr{
		Kind: rapid.SampledFrom(kinds).Draw(rt, label+"-kind"),
		Port: rapid.SampledFrom([]uint32{51234, 51234, 51234, 0, 65535, 65536, 70000, 1 << 31}).Draw(rt, label+"-port"),
	}
}

func TestVerif_C17_ingest(t *testing.T) {
	rec := vh.NewRec("C17", "ingest", "rapid-generated registration messages through the real parseRegMessage + ingestRegistration with the real min / prefix / obfs4 / dtls transports: registrant address {absent, IPv4, IPv6, v4-mapped, 3 / 17 / 0 bytes}, DTLS client endpoints {absent, right family, wrong family, v4-mapped, wrong length} x ports {valid, 0, 65536, 70000, 2^31}, parameters of the right / another transport's type / absent, known / unknown generation, library versions, families, complete / short secret, every registration source, duplicates; the station's dial to a DTLS client times out / yields a session that is relayed to a reachable covert / to a covert that refuses (so that the tunnel summary with its transport options is written); covert address always permitted (the line logged on purpose for a forbidden covert is outside the property); oracle: nothing logged at the default level contains any textual form (dotted, colon, hex, decimal bytes) of the registrant address or of the DTLS client endpoints; non-trivial = the station logged something for the message (it complained); distinct by case")
	defer rec.Flush()
	rec.Require("station-complained", "tt:dtls", "dtls-endpoint-malformed", "regaddr-malformed", "tunnel-summary-logged")
	if vh.ReplayFile() != "" && !strings.Contains(vh.ReplayFile(), "_ingest_") {
		t.Skip("replay file belongs to another sub-check")
	}
	capture := &vSyncBuf{}
	oldLog := golog.Writer()
	golog.SetOutput(capture)
	log.SetOutput(capture)
	log.SetLevel(log.ErrorLevel) // the package default ("normal production"): errors and info lines are written, warnings and debug lines are not
	defer func() { golog.SetOutput(oldLog); log.SetOutput(oldLog) }()
	e := vNewEnv(t, nil, "")
	e.rm.Logger = log.New(capture, "[REG] ", golog.Ldate|golog.Lmicroseconds)
	done := make(chan string, 1<<16)
	e.rm.connectingStats = &c17cStats{done: done}
	dial := &c17iDial{}
	if err := e.rm.AddTransport(pb.TransportType_DTLS, c17iDTLS{st: dial}); err != nil {
		t.Fatalf("harness problem: %v", err)
	}
	// a covert that answers and hangs up
	covert, err := net.Listen("tcp", "127.0.0.1:0")
	if err != nil {
		t.Fatalf("harness problem: %v", err)
	}
	defer covert.Close()
	go func() {
		for {
			c, err := covert.Accept()
			if err != nil {
				return
			}
			go func() {
				_ = c.SetDeadline(time.Now().Add(2 * time.Second))
				_, _ = c.Read(make([]byte, 64))
				_, _ = c.Write([]byte("covert says hi"))
				_ = c.Close()
			}()
		}
	}()
	tts := []pb.TransportType{pb.TransportType_Min, pb.TransportType_Prefix, pb.TransportType_Obfs4, pb.TransportType_DTLS, pb.TransportType(99)}
	names := []string{"min", "prefix", "obfs4", "dtls", "unknown"}
	sources := []pb.RegistrationSource{pb.RegistrationSource_API, pb.RegistrationSource_Detector, pb.RegistrationSource_BidirectionalAPI, pb.RegistrationSource_DNS, pb.RegistrationSource_BidirectionalDNS, pb.RegistrationSource_DetectorPrescan, pb.RegistrationSource_Unspecified}
	n := 0
	run := func(t vh.Fataler, c c17iCase) {
		n++
		e.resetRegistry()
		for len(done) > 0 {
			<-done
		}
		secret := vSecret(7000 + n%50)
		if c.SecretLen < 32 {
			secret = secret[:c.SecretLen]
		}
		regAddr := c17iBytes(c.RegAddr, c17iV4, c17iV6)
		src4 := c17iBytes(c.Src4, c17iS4, c17iS6)
		src6 := c17iBytes(c.Src6, c17iS4, c17iS6)
		var params proto.Message
		switch c.ParamsFor {
		case 0, 2:
			params = &pb.GenericTransportParams{RandomizeDstPort: proto.Bool(true)}
		case 1:
			params = &pb.PrefixTransportParams{PrefixId: proto.Int32(0), RandomizeDstPort: proto.Bool(false)}
		case 3:
			p := &pb.DTLSTransportParams{RandomizeDstPort: proto.Bool(true), Unordered: proto.Bool(c.Unidir)}
			if src4 != nil {
				p.SrcAddr4 = &pb.Addr{IP: src4, Port: proto.Uint32(c.Src4.Port)}
			}
			if src6 != nil {
				p.SrcAddr6 = &pb.Addr{IP: src6, Port: proto.Uint32(c.Src6.Port)}
			}
			params = p
		}
		covertAddr := "198.51.100.10:443"
		switch c.Tunnel {
		case 1:
			covertAddr = covert.Addr().String()
		case 2:
			covertAddr = "127.0.0.1:1"
		}
		dial.mu.Lock()
		dial.tunnel = c.Tunnel
		dial.mu.Unlock()
		c2s := &pb.ClientToStation{
			ClientLibVersion:    proto.Uint32(c.LibVer),
			DecoyListGeneration: proto.Uint32(c.Gen),
			CovertAddress:       proto.String(covertAddr),
			V4Support:           proto.Bool(c.V4),
			V6Support:           proto.Bool(c.V6),
			Transport:           tts[c.TT].Enum(),
			Flags:               &pb.RegistrationFlags{},
		}
		if params != nil {
			a, err := anypb.New(params)
			if err != nil {
				t.Fatalf("harness problem: %v", err)
			}
			c2s.TransportParams = a
		}
		w := &pb.C2SWrapper{SharedSecret: secret, RegistrationPayload: c2s, RegistrationSource: sources[c.Source].Enum()}
		if regAddr != nil {
			w.RegistrationAddress = regAddr
		}
		b, err := proto.Marshal(w)
		if err != nil {
			t.Fatalf("harness problem: %v", err)
		}
		start := len(capture.String())
		times := 1
		if c.Dup {
			times = 2
		}
		admitted, dials := 0, 0
		for i := 0; i < times; i++ {
			// what a worker does with a message (HandleRegUpdates' loop body)
			regs, err := e.rm.parseRegMessage(b)
			if err != nil {
				e.rm.Logger.Errorf("Encountered err when creating Reg: %v\n", err)
				continue
			}
			for _, reg := range regs {
				if reg != nil {
					was := e.rm.RegistrationExists(reg)
					e.rm.ingestRegistration(reg)
					admitted++
					if !was && reg.Valid && reg.Transport == pb.TransportType_DTLS {
						dials++ // a newly validated connecting-transport registration: the station dials out
					}
				}
			}
		}
		// let the station's dial(s) and the tunnels they carry finish: what they log belongs to this case
		for ; dials > 0; dials-- {
			deadline := time.After(20 * time.Second)
		wait:
			for {
				select {
				case <-done:
					break wait
				case <-deadline:
					rec.Note("a dial did not report its outcome within 20 s (case %s)", vh.Digest(c))
					break wait
				case <-time.After(2 * time.Millisecond):
					if l := capture.String()[start:]; strings.Contains(l, "Failed to get CC") || strings.Contains(l, "Failed to get ASN") {
						break wait
					}
				}
			}
		}
		logs := capture.String()[start:]
		classes := []string{"tt:" + names[c.TT]}
		if strings.Contains(logs, "proxy closed") {
			classes = append(classes, "tunnel-summary-logged")
		}
		if logs != "" {
			classes = append(classes, "station-complained")
		}
		if admitted > 0 {
			classes = append(classes, "registration-built")
		}
		if c.ParamsFor == 3 && (c.Src4.Kind != "none" && (c.Src4.Kind != "v4" || c.Src4.Port == 0 || c.Src4.Port > 65535) || c.Src6.Kind != "none" && (c.Src6.Kind != "v6" || c.Src6.Port == 0 || c.Src6.Port > 65535)) {
			classes = append(classes, "dtls-endpoint-malformed")
		}
		if k := c.RegAddr.Kind; k == "short" || k == "long" || k == "empty" {
			classes = append(classes, "regaddr-malformed")
		}
		rec.Case(logs != "", vh.Digest(c), c, classes...)
		for what, bs := range map[string][]byte{"registrant address": regAddr, "DTLS IPv4 endpoint": src4, "DTLS IPv6 endpoint": src6} {
			if what != "registrant address" && c.ParamsFor != 3 {
				continue
			}
			for _, needle := range c17iNeedles(bs) {
				if i := strings.Index(logs, needle); i >= 0 {
					lo := strings.LastIndex(logs[:i], "\n") + 1
					line := logs[lo:]
					if hi := strings.Index(line, "\n"); hi >= 0 {
						line = line[:hi]
					}
					site := "registrant"
					if what != "registrant address" {
						site = "transport-params"
					}
					rec.Violation(t, "leak:ingest:"+site, c, "the client's %s (%q) appears in the station's log at the default level: %q", what, needle, strings.TrimSpace(line))
					return
				}
			}
		}
	}
	if p := vh.ReplayFile(); p != "" {
		var c c17iCase
		if _, _, err := vh.LoadReplay(p, &c); err != nil {
			t.Fatal(err)
		}
		run(t, c)
		return
	}
	rapid.Check(t, func(rt *rapid.T) {
		c := c17iCase{
			TT:        rapid.SampledFrom([]int{0, 1, 2, 3, 3, 3, 4}).Draw(rt, "tt"),
			RegAddr:   c17iGenAddr(rt, "reg", []string{"none", "v4", "v4", "v6", "v6", "mapped", "short", "long", "empty"}),
			Src4:      c17iGenAddr(rt, "src4", []string{"none", "v4", "v4", "v6", "mapped", "short", "long"}),
			Src6:      c17iGenAddr(rt, "src6", []string{"none", "v6", "v6", "v4", "mapped", "short", "long"}),
			Gen:       rapid.SampledFrom([]uint32{957, 957, 957, 1, 123456, 0}).Draw(rt, "gen"),
			LibVer:    rapid.SampledFrom([]uint32{0, 1, 2, 3, 4, 5, 99}).Draw(rt, "libver"),
			V4:        rapid.Bool().Draw(rt, "v4"),
			V6:        rapid.Bool().Draw(rt, "v6"),
			SecretLen: rapid.SampledFrom([]int{32, 32, 32, 32, 0, 7, 16}).Draw(rt, "secretlen"),
			Source:    rapid.IntRange(0, 6).Draw(rt, "source"),
			Dup:       rapid.IntRange(0, 4).Draw(rt, "dup") == 0,
			Unidir:    rapid.Bool().Draw(rt, "unordered"),
			Tunnel:    rapid.SampledFrom([]int{0, 1, 1, 2}).Draw(rt, "tunnel"),
		}
		c.ParamsFor = c.TT
		switch rapid.IntRange(0, 5).Draw(rt, "paramsmode") {
		case 0:
			c.ParamsFor = -1
		case 1:
			c.ParamsFor = rapid.IntRange(0, 3).Draw(rt, "paramsfor")
		}
		if c.ParamsFor > 3 {
			c.ParamsFor = 0
		}
		run(rt, c)
	})
}
